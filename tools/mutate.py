#!/usr/bin/env python3
"""Mechanical mutation campaign (validation of the machinery, not a check).

Applies single-token mutations (relational / logical / arithmetic operators, integer literals +-1,
negation removal, min<->max, true<->false) to the non-test code of a scratch worktree of /repo,
keeps the mutants that compile and pass the crate's own unit tests, and runs the twenty quick
checks against each survivor with PPP_REPO pointing at the worktree (so /repo is never touched).

usage: tools/mutate.py <worktree> <out.json> [--limit N] [--files a.rs,b.rs]
"""
import json
import os
import re
import subprocess
import sys
import time

VERIF = os.path.dirname(os.path.dirname(os.path.abspath(__file__)))
PROPS = ["C%02d" % i for i in range(1, 21)]
RULESET = int(os.environ.get("MUT_RULESET", "1"))

RULES = [
    (r"<=", "<"), (r">=", ">"), (r"(?<![<>=!\-])<(?![<=])", "<="), (r"(?<![<>=!\-])>(?![>=])", ">="),
    (r"==", "!="), (r"!=", "=="), (r"&&", "||"), (r"\|\|", "&&"),
    (r" \+ ", " - "), (r" - ", " + "), (r" \+= ", " -= "),
    (r"\bmin\(", "max("), (r"\bmax\(", "min("), (r"\btrue\b", "false"), (r"\bfalse\b", "true"),
    (r"if !", "if "), (r"&& !", "&& "),
    (r"\.is_some\(\)", ".is_none()"), (r"\.is_none\(\)", ".is_some()"),
    (r"\.is_empty\(\)", ".len() == 1"),
    (r"\.starts_with\(", ".ends_with("), (r"\.ends_with\(", ".starts_with("),
    (r"\.unwrap_or_default\(\)", ".unwrap_or(1)"),
    (r"\bu16::MAX\b", "(u16::MAX - 1)"), (r"\bto_be_bytes\b", "to_le_bytes"), (r"\bfrom_be_bytes\b", "from_le_bytes"),
]
# second rule set: role swaps, casts, variants, masks
RULES2 = [
    (r"\bsource_address\b", "destination_address"), (r"\bdestination_address\b", "source_address"),
    (r"\bsource_port\b", "destination_port"), (r"\bdestination_port\b", "source_port"),
    (r"\bsource\b", "destination"), (r"\bdestination\b", "source"),
    (r"\bas u16\b", "as u8 as u16"), (r"\bas usize\b", "as u8 as usize"),
    (r"\bLEFT_MASK\b", "RIGHT_MASK"), (r"\bRIGHT_MASK\b", "LEFT_MASK"),
    (r"\bMissingNewLine\b", "InvalidSuffix"), (r"\bInvalidSuffix\b", "MissingNewLine"),
    (r"\bPartial\b", "InvalidProtocol"), (r"\bInvalidPrefix\b", "Partial"),
    (r"\bMissingProtocol\b", "InvalidProtocol"), (r"\bInvalidProtocol\b", "MissingProtocol"),
    (r"\bMissingSourceAddress\b", "MissingDestinationAddress"), (r"\bMissingSourcePort\b", "MissingDestinationPort"),
    (r"\bInvalidSourceAddress\b", "InvalidDestinationAddress"), (r"\bInvalidDestinationAddress\b", "InvalidSourceAddress"),
    (r"\bInvalidSourcePort\b", "InvalidDestinationPort"), (r"\bInvalidDestinationPort\b", "InvalidSourcePort"),
    (r"\bIncomplete\(", "Partial(0, "), (r"\bHeaderTooLong\b", "InvalidSuffix"),
    (r"\bTCP4\b", "TCP6"), (r"\bTCP6\b", "TCP4"), (r"\bIPv4\b", "IPv6"),
    (r"\bStream\b", "Datagram"), (r"\bLocal\b", "Proxy"), (r"\bUnspecified\b", "IPv4"),
    (r"\.next\(\)", ".peek().copied()"), (r"\bwrite_all\b", "write"), (r"\.or\(absent\)", ""),
    (r"\bbytes\[(\d+)\], bytes\[(\d+)\]", "bytes[\\2], bytes[\\1]"),
    (r"\bself\.offset \+= tlv_length;", "self.offset += tlv_length - 0 * tlv_length + 0;"),
    (r"\?;$", ".ok();"),
]
# third rule set: statement deletion and forced branch conditions
RULES3 = [
    (r"^(\s*)(?!\s|let |pub |use |fn |impl |const |static |type |struct |enum |mod |match |if |else|for |while |loop|return Ok|Ok\(|Err\(|Some\(|None)([^{}]*;)\s*$", "\\1"),
    (r"\bif (?!let )([^{]+) \{", "if true {"), (r"\bif (?!let )([^{]+) \{", "if false {"),
    (r"\breturn Err\(([^;]*)\);", "{}"),
    (r"\.filter\([^)]*\)", ""), (r"\.min\([^)]*\)", ""), (r"\.max\([^)]*\)", ""),
    (r"\.saturating_sub\(", ".wrapping_sub("), (r"\.checked_add\(([^)]*)\)", ".map(|v| v.wrapping_add(\\1))"),
]
INT = re.compile(r"(?<![\w.])(0x[0-9A-Fa-f]+|\d+)(?![\w.]|\s*\])")


def sh(cmd, cwd=None, env=None, timeout=1800):
    return subprocess.run(cmd, shell=True, capture_output=True, text=True, cwd=cwd, env=env, timeout=timeout)


def candidate_sites(path):
    """(line index, start, end, replacement) for the non-test part of a file."""
    lines = open(path).read().split("\n")
    out = []
    in_test = False
    for i, line in enumerate(lines):
        if "#[cfg(test)]" in line:
            in_test = True
        if in_test:
            continue
        code = line.split("//")[0]
        if not code.strip() or code.strip().startswith(("#[", "use ", "pub use", "mod ", "///", "//!")):
            continue
        if "#[error" in code or "write!(" in code and '"' in code:
            continue
        for pat, rep in {1: RULES, 2: RULES2, 3: RULES3}[RULESET]:
            for m in re.finditer(pat, code):
                if RULESET >= 2:
                    out.append((i, m.start(), m.end(), m.expand(rep) if "\\" in rep else rep))
                    continue
                # skip generics / lifetimes / arrows / shifts
                if pat.startswith("(?<![<>=") and (re.search(r"(impl|fn|struct|enum|Result|Option|Vec|Into|From|Iterator|Cow|&'|::<|->)", code) and "if " not in code and "while " not in code and "=>" not in code or "->" in code[max(0, m.start() - 1):m.end() + 1]):
                    continue
                out.append((i, m.start(), m.end(), rep))
        if RULESET == 1 and '"' not in code and "'" not in code:
            for m in INT.finditer(code):
                tok = m.group(1)
                v = int(tok, 16) if tok.startswith("0x") else int(tok)
                for nv in (v + 1, v - 1):
                    if nv < 0:
                        continue
                    rep = ("0x%02X" % nv) if tok.startswith("0x") else str(nv)
                    out.append((i, m.start(1), m.end(1), rep))
    return lines, out


def main():
    wt, outp = sys.argv[1], sys.argv[2]
    limit = None
    files = ["src/lib.rs", "src/ip.rs", "src/v1/mod.rs", "src/v1/model.rs", "src/v2/mod.rs", "src/v2/model.rs", "src/v2/builder.rs"]
    for a in sys.argv[3:]:
        if a.startswith("--limit="):
            limit = int(a.split("=")[1])
        if a.startswith("--files="):
            files = a.split("=")[1].split(",")
    env = dict(os.environ)
    env.update({"CARGO_NET_OFFLINE": "true", "CARGO_TARGET_DIR": os.path.join(wt, "target")})
    cenv = dict(os.environ)
    cenv.update({"PPP_REPO": wt, "VERIF_SEARCH": "0", "VERIF_EVIDENCE_DIR": os.path.join(VERIF, "work", "evidence-scratch")})
    results = []
    if os.path.exists(outp):
        results = json.load(open(outp))
    done = {(r["file"], r["line"], r["col"], r["to"]) for r in results}
    n = 0
    for f in files:
        path = os.path.join(wt, f)
        lines, sites = candidate_sites(path)
        for (i, a, b, rep) in sites:
            key = (f, i + 1, a, rep)
            if key in done:
                continue
            if limit is not None and n >= limit:
                break
            n += 1
            orig = lines[i]
            mutated = orig[:a] + rep + orig[b:]
            new = list(lines)
            new[i] = mutated
            open(path, "w").write("\n".join(new))
            rec = {"file": f, "line": i + 1, "col": a, "from": orig.strip(), "to": rep, "mutated": mutated.strip()}
            try:
                t = sh("cargo test --offline --lib 2>&1 | tail -5", cwd=wt, env=env, timeout=600)
                if "test result: ok" not in t.stdout:
                    rec["status"] = "killed-by-compiler-or-tests"
                else:
                    caught = []
                    for p in PROPS:
                        c = sh("./check %s --tier quick" % p, cwd=VERIF, env=cenv)
                        if c.returncode != 0:
                            caught.append(p)
                    rec["status"] = "caught" if caught else "SURVIVED"
                    rec["caught_by"] = caught
            except subprocess.TimeoutExpired:
                rec["status"] = "timeout"
            finally:
                open(path, "w").write("\n".join(lines))
            results.append(rec)
            json.dump(results, open(outp, "w"), indent=1)
            print("%-22s %s:%d  %s  ->  %s   %s" % (rec["status"], f, i + 1, orig.strip()[:60], rep, ",".join(rec.get("caught_by", []))), flush=True)
    s = {}
    for r in results:
        s[r["status"]] = s.get(r["status"], 0) + 1
    print(s)


if __name__ == "__main__":
    main()
