#!/usr/bin/env python3
"""Runs tools/mutate.py for one rule set with one worker per source file (each in its own scratch
worktree of /repo), then merges the per-file results.
usage: tools/mutate_all.py <ruleset 1|2|3> <out.json>"""
import json
import os
import subprocess
import sys

VERIF = os.path.dirname(os.path.dirname(os.path.abspath(__file__)))
FILES = ["src/lib.rs", "src/ip.rs", "src/v1/mod.rs", "src/v1/model.rs", "src/v2/mod.rs", "src/v2/model.rs", "src/v2/builder.rs"]


def main():
    rs, outp = sys.argv[1], sys.argv[2]
    procs = []
    parts = []
    for i, f in enumerate(FILES):
        wt = "/tmp/mutwt_%s_%d_%d" % (rs, os.getpid(), i)
        subprocess.run("git -C /repo worktree add -q %s HEAD" % wt, shell=True, check=True)
        part = os.path.join(VERIF, "work", "mut-%s-%d.json" % (rs, i))
        if os.path.exists(part):
            os.unlink(part)
        parts.append((wt, part))
        env = dict(os.environ, MUT_RULESET=rs)
        log = open(os.path.join(VERIF, "work", "mut-%s-%d.log" % (rs, i)), "w")
        procs.append(subprocess.Popen([sys.executable, os.path.join(VERIF, "tools", "mutate.py"), wt, part, "--files=" + f], env=env, stdout=log, stderr=subprocess.STDOUT))
    for p in procs:
        p.wait()
    results = []
    for wt, part in parts:
        if os.path.exists(part):
            results += json.load(open(part))
        subprocess.run("git -C /repo worktree remove --force %s" % wt, shell=True)
        tag = "".join(ch if ch.isalnum() else "_" for ch in wt)
        subprocess.run("rm -rf %s" % os.path.join(VERIF, "work", "harness" + tag), shell=True)
    json.dump(results, open(outp, "w"), indent=1)
    s = {}
    for r in results:
        s[r["status"]] = s.get(r["status"], 0) + 1
    print(s)
    for r in results:
        if r["status"] == "SURVIVED":
            print("SURVIVED %s:%d  %s -> %s" % (r["file"], r["line"], r["from"][:70], r["to"]))


if __name__ == "__main__":
    main()
