#!/usr/bin/env python3
"""Measures which regions / lines / branches of /repo/src the correspondence stream exercises.
usage: tools/coverage.py [--tier quick|thorough] [C01 C02 ...]
Builds an instrumented copy of the harness (nightly, -C instrument-coverage) under work/cov/, runs the
checks with VERIF_HARNESS_BIN pointing at it, merges the profiles and prints llvm-cov's report for the
crate's source files; unexecuted non-test lines are written to work/cov/uncovered.txt.
Development aid (generator quality), not part of any registered check."""
import glob
import json
import os
import shutil
import subprocess
import sys

VERIF = os.path.dirname(os.path.dirname(os.path.abspath(__file__)))
COV = os.path.join(VERIF, "work", "cov")
TOOLS = glob.glob(os.path.expanduser("~/.rustup/toolchains/nightly-x86_64-*/lib/rustlib/*/bin"))[0]


def sh(cmd, **kw):
    return subprocess.run(cmd, shell=True, text=True, **kw)


def main():
    tier = "quick"
    props = []
    for a in sys.argv[1:]:
        if a.startswith("--tier="):
            tier = a.split("=")[1]
        else:
            props.append(a)
    props = props or ["C%02d" % i for i in range(1, 21)]
    shutil.rmtree(COV, ignore_errors=True)
    os.makedirs(COV)
    h = os.path.join(COV, "harness")
    shutil.copytree(os.path.join(VERIF, "harness"), h, ignore=shutil.ignore_patterns("target"))
    env = dict(os.environ, CARGO_NET_OFFLINE="true", CARGO_TARGET_DIR=os.path.join(COV, "target"),
               RUSTFLAGS="-C instrument-coverage")
    r = sh("cargo +nightly build --offline --release 2>&1 | tail -3", cwd=h, env=env)
    binp = os.path.join(COV, "target", "release", "pppharness")
    assert os.path.exists(binp)
    env2 = dict(os.environ, VERIF_HARNESS_BIN=binp, LLVM_PROFILE_FILE=os.path.join(COV, "prof", "%p-%m.profraw"))
    for p in props:
        r = sh("./check %s --tier %s | tail -1" % (p, tier), cwd=VERIF, env=env2)
    sh("%s/llvm-profdata merge -sparse %s/prof/*.profraw -o %s/all.profdata" % (TOOLS, COV, COV))
    srcs = " ".join(sorted(glob.glob("/repo/src/*.rs") + glob.glob("/repo/src/*/*.rs")))
    sh("%s/llvm-cov report %s -instr-profile=%s/all.profdata --show-branch-summary %s" % (TOOLS, binp, COV, srcs))
    sh("%s/llvm-cov show %s -instr-profile=%s/all.profdata --show-branches=count %s > %s/show.txt" % (TOOLS, binp, COV, srcs, COV))
    print("annotated source:", os.path.join(COV, "show.txt"))


if __name__ == "__main__":
    main()
