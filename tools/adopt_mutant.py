#!/usr/bin/env python3
"""Confirms a seeded change produced by a sub-agent and stores it under seeded/<name>/.
usage: tools/adopt_mutant.py <agent worktree> <name> <property> "<what it needs to manifest>"
Confirmation (in a fresh scratch worktree of /repo HEAD, removed afterwards):
  - the patch applies and the crate's own test suite passes with it;
  - the demonstration fails with the patch and passes without it."""
import json
import os
import shutil
import subprocess
import sys

VERIF = os.path.dirname(os.path.dirname(os.path.abspath(__file__)))


def sh(cmd, cwd=None):
    return subprocess.run(cmd, shell=True, capture_output=True, text=True, cwd=cwd)


def main():
    src, name, prop, needs = sys.argv[1:5]
    out = os.path.join(src, "OUT")
    dst = os.path.join(VERIF, "seeded", name)
    os.makedirs(dst, exist_ok=True)
    for f in ("patch.diff", "demo.rs", "NOTES.md"):
        if os.path.exists(os.path.join(out, f)):
            shutil.copy(os.path.join(out, f), dst)
    wt = "/tmp/verify_%s" % name
    sh("git -C /repo worktree remove --force %s" % wt)
    r = sh("git -C /repo worktree add -q %s HEAD" % wt)
    assert r.returncode == 0, r.stderr
    ran = []
    try:
        os.makedirs(os.path.join(wt, "tests"), exist_ok=True)
        env = "CARGO_NET_OFFLINE=true CARGO_TARGET_DIR=/tmp/verify_target"
        # without the patch: demo passes
        shutil.copy(os.path.join(dst, "demo.rs"), os.path.join(wt, "tests", "demo.rs"))
        a = sh("%s cargo test --offline --test demo 2>&1 | tail -5" % env, cwd=wt)
        demo_without = "test result: ok" in a.stdout
        ran.append("cargo test --offline --test demo (unmodified): %s" % ("pass" if demo_without else "FAIL"))
        # with the patch
        ap = sh("git apply %s" % os.path.join(dst, "patch.diff"), cwd=wt)
        assert ap.returncode == 0, ap.stderr
        b = sh("%s cargo test --offline --test demo 2>&1 | tail -8" % env, cwd=wt)
        demo_with = "test result: ok" in b.stdout
        ran.append("cargo test --offline --test demo (with patch): %s" % ("pass" if demo_with else "fail"))
        os.unlink(os.path.join(wt, "tests", "demo.rs"))
        c = sh("%s cargo test --offline 2>&1 | grep -E '^test result'" % env, cwd=wt)
        suite = c.stdout.count("test result: ok") >= 2 and "FAILED" not in c.stdout and "73 passed" in c.stdout
        ran.append("cargo test --offline (with patch, existing suite): %s [%s]" % ("pass" if suite else "FAIL", c.stdout.strip().replace("\n", " | ")[:200]))
    finally:
        sh("git -C /repo worktree remove --force %s" % wt)
        shutil.rmtree(wt, ignore_errors=True)
    ok = demo_without and (not demo_with) and suite
    meta = {"breaks": prop, "needs": needs, "confirmed": ok, "ran": ran,
            "source": "independent sub-agent given only the property text and a scratch worktree"}
    json.dump(meta, open(os.path.join(dst, "meta.json"), "w"), indent=1)
    print(name, "confirmed" if ok else "NOT CONFIRMED", ran)
    if not ok:
        sys.exit(1)


if __name__ == "__main__":
    main()
