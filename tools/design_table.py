#!/usr/bin/env python3
"""Regenerates the seeded-changes table of DESIGN.md section 14.6 from seeded/RESULTS.json."""
import json, os, re
V = os.path.dirname(os.path.dirname(os.path.abspath(__file__)))
R = json.load(open(os.path.join(V, "seeded", "RESULTS.json")))
rows = []
for k in sorted(R):
    v = R[k]
    meta = json.load(open(os.path.join(V, "seeded", k, "meta.json")))
    rows.append("| `%s` | %s | %s | %s |" % (k, v["breaks"] or "none", meta["needs"], ", ".join(v["caught_by"]) or "— (all 20 checks silent, as required)"))
p = os.path.join(V, "DESIGN.md")
s = open(p).read()
head = "| seeded change | breaks | needs, to manifest | checks that report it (all with a concrete failing input) |\n|---|---|---|---|\n"
i = s.index(head) + len(head)
j = s.index("\n\n", i)
s = s[:i] + "\n".join(rows) + s[j:]
open(p, "w").write(s)
print(len(rows), "rows")
