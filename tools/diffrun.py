#!/usr/bin/env python3
"""Ad-hoc full-line differential run of the model against the implementation (development aid).
usage: PPP_REPO=... tools/diffrun.py [v1|std|all] [k]"""
import sys, os
sys.path.insert(0, os.path.dirname(os.path.dirname(os.path.abspath(__file__))))
from gen import common as C
from gen import v1gen as V

def main():
    what = sys.argv[1] if len(sys.argv) > 1 else "all"
    k = int(sys.argv[2]) if len(sys.argv) > 2 else 3
    rng = C.Rng(7)
    hb, log = C.build_harness()
    assert hb, log
    ops = []
    if what in ("v1", "all"):
        lines = V.valid_lines(rng, 400)
        for l in lines:
            for e in ("v1b", "v1s", "auto"):
                ops.append("%s %s" % (e, C.hexs(l)))
            for t in V.TRAILERS:
                ops.append("v1b " + C.hexs(l + t))
                ops.append("v1s " + C.hexs(l + t))
            for c in range(len(l)):
                ops.append("v1b " + C.hexs(l[:c]))
                ops.append("v1s " + C.hexs(l[:c]))
        for l in lines[:120]:
            for name, m in V.mutations(rng, l):
                ops.append("v1b " + C.hexs(m))
                ops.append("v1s " + C.hexs(m))
        for s in V.token_strings(k):
            ops.append("v1b " + C.hexs(s))
            ops.append("v1s " + C.hexs(s))
    if what in ("std", "all"):
        for s in V.token_products(V.STD4_TOKENS, k + 1):
            ops.append("ip4p " + C.hexs(s))
        for s in V.token_products(V.STD6_TOKENS, k + 1):
            ops.append("ip6p " + C.hexs(s))
        for s in V.token_products(V.U16_TOKENS, k + 1):
            ops.append("u16p " + C.hexs(s))
        for p in range(65536):
            ops.append("u16d %d" % p)
        for a in range(256):
            ops.append("ip4d %02x%02x%02x%02x" % (a, (a * 7) % 256, 255 - a, (a * 13 + 5) % 256))
        for pat in range(256):
            for fill in (1, 0xFFFF, 0xABC, 0x10):
                gs = [0 if (pat >> i) & 1 else fill for i in range(8)]
                ops.append("ip6d " + V.groups_to_bytes(gs).hex())
        for _ in range(3000):
            ops.append("ip6d " + V.groups_to_bytes(V.rand_ip6_groups(rng)).hex())
        for n in range(0, 4):
            import itertools
            for combo in itertools.product([0x00, 0x41, 0x7f, 0x80, 0xbf, 0xc0, 0xc2, 0xdf, 0xe0, 0xa0, 0x9f, 0xed, 0xef, 0xf0, 0x90, 0x8f, 0xf4, 0xf5, 0xff], repeat=n):
                ops.append("utf8 " + C.hexs(bytes(combo)))
    print("ops:", len(ops))
    impl, model, crashed = C.run_both(hb, ops, "diffrun")
    bad = 0
    for o, i, m in zip(ops, impl, model):
        if i != m:
            bad += 1
            if bad <= 15:
                print("OP", o[:120], repr(C.unhex(o.split(" ")[1])[:80]) if o.split(" ")[0] in ("v1b", "v1s", "auto", "ip4p", "ip6p", "u16p") else "")
                print("  I", i[:400])
                print("  M", m[:400])
    print("disagreements:", bad, "crashed:", crashed)

main()
