#!/usr/bin/env python3
"""Applies each seeded change (seeded/<id>/patch.diff) to /repo, runs the quick checks, undoes the change.
usage: tools/run_seeded.py [seeded-id ...] [--props C01,C02] [--tier quick] [--scratch]
--scratch: apply each change in a scratch worktree (PPP_REPO=<worktree>, evidence redirected to work/) instead of
/repo itself, so that other work on /repo and /verif/evidence can go on meanwhile; results are identical.
Writes seeded/RESULTS.json and prints a table. /repo is restored with `git checkout -- .` after every patch."""
import json
import os
import subprocess
import sys
import time

VERIF = os.path.dirname(os.path.dirname(os.path.abspath(__file__)))
SEEDED = os.path.join(VERIF, "seeded")


def sh(cmd, **kw):
    return subprocess.run(cmd, shell=True, capture_output=True, text=True, **kw)


def claimed():
    m = json.load(open(os.path.join(VERIF, "MANIFEST.json")))
    return [c["property_id"] for c in m["checks"]]


def main():
    args = [a for a in sys.argv[1:] if not a.startswith("--")]
    props = None
    tier = "quick"
    for a in sys.argv[1:]:
        if a.startswith("--props="):
            props = a.split("=", 1)[1].split(",")
        if a.startswith("--tier="):
            tier = a.split("=", 1)[1]
    scratch = "--scratch" in sys.argv[1:]
    jobs = 1
    outpath = None
    for a in sys.argv[1:]:
        if a.startswith("--jobs="):
            jobs = int(a.split("=", 1)[1])
        if a.startswith("--out="):
            outpath = a.split("=", 1)[1]
    ids = args or sorted(d for d in os.listdir(SEEDED) if os.path.exists(os.path.join(SEEDED, d, "patch.diff")))
    props = props or claimed()
    if jobs > 1:
        # shard the changes over `jobs` workers, each with its own scratch worktree; merge the results
        assert scratch, "--jobs needs --scratch"
        parts = []
        procs = []
        for i in range(jobs):
            part = os.path.join(VERIF, "work", "seeded-part-%d-%d.json" % (os.getpid(), i))
            if os.path.exists(part):
                os.unlink(part)
            mine = ids[i::jobs]
            if not mine:
                continue
            parts.append(part)
            cmd = [sys.executable, os.path.abspath(__file__), "--scratch", "--out=" + part, "--tier=" + tier, "--props=" + ",".join(props)] + mine
            procs.append(subprocess.Popen(cmd))
        for pr in procs:
            pr.wait()
        results = {}
        path = os.path.join(SEEDED, "RESULTS.json")
        if os.path.exists(path):
            results = json.load(open(path))
        for part in parts:
            if os.path.exists(part):
                results.update(json.load(open(part)))
                os.unlink(part)
        json.dump(results, open(path, "w"), indent=1, sort_keys=True)
        missed = [k for k, v in results.items() if v.get("breaks") and v["breaks"] != "none" and v["breaks"] not in v["caught_by"]]
        noisy = [k for k, v in results.items() if (not v.get("breaks") or v["breaks"] == "none") and v["caught_by"]]
        print("merged %d results; not caught by own check: %s; alarms on harmless: %s" % (len(results), missed, noisy))
        return
    repo = "/repo"
    cenv = dict(os.environ)
    if scratch:
        repo = "/tmp/seedwt_%d" % os.getpid()
        r = sh("git -C /repo worktree add -q %s HEAD" % repo)
        assert r.returncode == 0, r.stderr
        cenv.update({"PPP_REPO": repo, "VERIF_EVIDENCE_DIR": os.path.join(VERIF, "work", "evidence-scratch")})
    else:
        assert sh("git -C /repo status --porcelain --untracked-files=no").stdout.strip() == "", "/repo has local edits"
    results = {}
    path = outpath or os.path.join(SEEDED, "RESULTS.json")
    if os.path.exists(path):
        results = json.load(open(path))
    for sid in ids:
        patch = os.path.join(SEEDED, sid, "patch.diff")
        meta = json.load(open(os.path.join(SEEDED, sid, "meta.json")))
        r = sh("git -C %s apply %s" % (repo, patch))
        if r.returncode != 0:
            print(sid, "patch does not apply:", r.stderr[:200])
            continue
        caught = {}
        try:
            for p in props:
                t0 = time.time()
                c = sh("./check %s --tier %s" % (p, tier), cwd=VERIF, env=cenv)
                viol = [l for l in c.stdout.split("\n") if l.startswith("VIOLATION")]
                caught[p] = {"rc": c.returncode, "violation": viol[0] if viol else None, "wall": round(time.time() - t0, 1)}
        finally:
            sh("git -C %s checkout -- ." % repo)
            sh("git -C %s clean -fdq src" % repo)
        hit = [p for p, v in caught.items() if v["rc"] != 0]
        withinput = [p for p, v in caught.items() if v["violation"] and "no-failing-input-found" not in v["violation"]]
        results[sid] = {"breaks": meta.get("breaks"), "caught_by": hit, "caught_with_failing_input": withinput, "detail": caught}
        print("%-14s breaks=%-5s caught_by=%s (with failing input: %s)" % (sid, meta.get("breaks"), ",".join(hit) or "-", ",".join(withinput) or "-"))
        json.dump(results, open(path, "w"), indent=1)
    if scratch:
        sh("git -C /repo worktree remove --force %s" % repo)
        import shutil
        shutil.rmtree(os.path.join(VERIF, "work", "harness" + "".join(ch if ch.isalnum() else "_" for ch in repo)), ignore_errors=True)
        return
    # leave the evidence files of the unchanged tree in place
    print("re-running checks on the restored tree to rewrite evidence ...")
    for p in props:
        sh("./check %s --tier quick" % p, cwd=VERIF)


if __name__ == "__main__":
    main()
