"""The decision procedure shared by all properties (DESIGN.md sections 2, 6, 9)."""
import json
import os
import sys
import time

from . import common as C


class Violation:
    def __init__(self, kind, op, impl, model, detail, key=None):
        self.kind = kind      # 'relation' | 'projection' | 'proof' | 'build'
        self.op = op          # op line(s), str or list
        self.impl = impl
        self.model = model
        self.detail = detail
        self.key = key or (op if isinstance(op, str) else "\n".join(op))

    def to_json(self):
        return {"kind": self.kind, "ops": self.op if isinstance(self.op, list) else [self.op],
                "impl": self.impl, "model": self.model, "detail": self.detail}


class Prop:
    """Base class. Subclasses define:
       id, title, required (theorem names that must exist),
       gen(tier, rng) -> list[str]                      operations
       project(op, line) -> hashable | None             what is compared with the model (None = out of domain)
       relation(ops, impl) -> list[Violation]           the property relation evaluated on the implementation
       nontrivial(op, line) -> hashable | None          key counted in distinct_nontrivial
       rule: str
    """
    id = "C00"
    required = []
    rule = ""
    exhaustive = False
    extra_modules = []

    def gen(self, tier, rng):
        return []

    def project(self, op, line):
        return line

    def domain_line(self, op, impl_line, model_line):
        return True

    def relation(self, ops, impl):
        return []

    def nontrivial(self, op, line):
        return None

    def sweeps(self, tier):
        """In-process sweeps: list of argument lists for `pppharness sweep`."""
        return []


def load_known():
    p = os.path.join(C.VERIF, "known_findings.json")
    if not os.path.exists(p):
        return []
    return json.load(open(p)).get("known", [])


def matches_known(prop_id, v, known):
    for k in known:
        if k.get("property") != prop_id:
            continue
        ops = v.op if isinstance(v.op, list) else [v.op]
        if any(o in k.get("ops", []) for o in ops):
            return k
    return None


def write_replay(prop_id, v, seed, theorem=None, extra=None):
    os.makedirs(C.REPLAYS, exist_ok=True)
    # further violations of the same run get their own files (`-more<k>`): they must never
    # overwrite the replay named on the VIOLATION line
    path = os.path.join(C.REPLAYS, "%s-%d-%d%s.json" % (prop_id, int(time.time()), os.getpid(), ("-more%d" % extra) if extra else ""))
    j = v.to_json()
    j.update({"property": prop_id, "seed": seed, "theorem": theorem,
              "how": "./check %s --replay %s" % (prop_id, path)})
    with open(path, "w") as f:
        json.dump(j, f, indent=1)
    return path


def shrink_program_op(prop, harness_bin, v):
    """Drops builder calls one at a time while implementation and model keep disagreeing on the
    property's projection."""
    toks = v.op.split(" ", 1)[1].split(";")
    ctor, calls = toks[0], toks[1:]

    def differs(cands):
        ops = ["bld " + ";".join([ctor] + c) for c in cands]
        impl, model, _ = C.run_both(harness_bin, ops, "shrink", shards=1)
        return [(prop.project(o, i) != prop.project(o, m)) for o, i, m in zip(ops, impl, model)], ops, impl, model

    changed = True
    rounds = 0
    best = None
    while changed and rounds < 30 and len(calls) > 1:
        changed = False
        rounds += 1
        cands = [calls[:i] + calls[i + 1:] for i in range(len(calls))]
        res, ops, impl, model = differs(cands)
        for c, bad, o, i, m in zip(cands, res, ops, impl, model):
            if bad:
                calls = c
                best = (o, i, m)
                changed = True
                break
    if best is None:
        return v
    return Violation(v.kind, best[0], best[1], best[2], v.detail.split(":")[0] + " (shrunk to %d calls): impl=%r model=%r" % (
        len(calls), prop.project(best[0], best[1]), prop.project(best[0], best[2])), key=v.key)


def shrink_bytes_op(prop, harness_bin, v):
    """Delta-debugging over the bytes of a single hex-input op while the projected
    disagreement / relation failure persists."""
    op = v.op if isinstance(v.op, str) else None
    if not op or " " not in op:
        return v
    name, arg = op.split(" ", 1)
    if name == "bld" and v.kind == "projection":
        return shrink_program_op(prop, harness_bin, v)
    if name not in ("v1b", "v1s", "v2", "auto", "tlv") or "." in arg or "r" in arg:
        return v
    data = C.unhex(arg)
    if len(data) > 400:
        return v

    def bad(cands):
        ops = ["%s %s" % (name, C.hexs(c)) for c in cands]
        impl, model, _ = C.run_both(harness_bin, ops, "shrink", shards=1)
        res = []
        for o, i, m in zip(ops, impl, model):
            if v.kind == "projection":
                pi, pm = prop.project(o, i), prop.project(o, m)
                res.append(pi is not None and pm is not None and pi != pm)
            else:
                res.append(bool(prop.relation([o], [i])))
        return res

    changed = True
    rounds = 0
    while changed and rounds < 12:
        changed = False
        rounds += 1
        n = len(data)
        chunk = max(1, n // 2)
        while chunk >= 1:
            cands = [data[:i] + data[i + chunk:] for i in range(0, n - chunk + 1, max(1, chunk))]
            cands = [c for c in cands if c != data]
            if not cands:
                break
            r = bad(cands)
            hit = [c for c, b in zip(cands, r) if b]
            if hit:
                data = min(hit, key=len)
                n = len(data)
                changed = True
                chunk = min(chunk, max(1, n // 2))
                continue
            chunk //= 2
    new_op = "%s %s" % (name, C.hexs(data))
    if new_op == op:
        return v
    impl, model, _ = C.run_both(harness_bin, [new_op], "shrink", shards=1)
    return Violation(v.kind, new_op, impl[0], model[0], v.detail + " (shrunk from %d bytes)" % len(C.unhex(arg)), key=v.key)


def with_history(prop, harness_bin, v, ops):
    """A failure that does not reproduce when its operation is evaluated alone depends on what the
    same process evaluated before it (state kept between calls: a cache, a reused buffer). The
    replay then holds the shortest run of preceding operations (1, 2, 4, ... up to 256) after which
    it reproduces, so that `--replay` shows it."""
    if v.kind not in ("projection", "relation") or not isinstance(v.op, str) or not ops:
        return v

    def fails(ctx):
        impl, model, _ = C.run_both(harness_bin, ctx, "hist", shards=1)
        if v.kind == "projection":
            pi, pm = prop.project(ctx[-1], impl[-1]), prop.project(ctx[-1], model[-1])
            return (pi is not None and pm is not None and pi != pm), impl, model
        try:
            bad = [x for x in prop.relation(ctx, impl) if x.op == ctx[-1]]
        except Exception:
            return None, impl, model
        return bool(bad), impl, model

    alone, _, _ = fails([v.op])
    if alone is None or alone:
        return v
    idx = getattr(v, "idx", None)
    if idx is None or idx >= len(ops) or ops[idx] != v.op:
        cands = [i for i, o in enumerate(ops) if o == v.op]
        if not cands:
            return v
    else:
        cands = [idx]
    for idx in cands[:8]:
        k = 1
        while k <= 256:
            ctx = ops[max(0, idx - k):idx + 1]
            bad, impl, model = fails(ctx)
            if bad:
                return Violation(v.kind, ctx, impl, model,
                                 "HISTORY-DEPENDENT: the last of these %d operations gives a different result when evaluated alone "
                                 "(state carried between calls); %s" % (len(ctx), v.detail[:600]), key=v.key)
            if idx - k <= 0:
                break
            k *= 2
    return v


def run_check(prop, tier, seed, replay=None):
    t0 = time.time()
    pid = prop.id
    rng = C.Rng(seed)
    out_lines = []
    violations = []          # unexplained
    known_hits = []
    notes = []
    known = load_known()

    # ---- 1. build the harness against the current working tree -------------------------------
    hbin, hlog = C.build_harness("release")
    proof_ok = True
    proof_problem = None
    if hbin is None:
        proof_problem = "harness does not build against %s: %s" % (C.REPO, hlog[-1500:])

    # ---- 2. proof obligations -----------------------------------------------------------------
    mod = "PppModel.Props.%s" % pid
    ok, log = C.build_lean([mod, "pppdriver"] + prop.extra_modules)
    names = C.theorem_names(pid)
    audit = {}
    audit_out = ""
    bad_axioms = {}
    missing = [r for r in prop.required if r not in names]
    if not ok:
        proof_ok = False
        proof_problem = proof_problem or ("lake build %s failed:\n%s" % (mod, log[-3000:]))
    else:
        audit, audit_out = C.axiom_audit(pid, names)
        for n, ax in audit.items():
            if ax is None:
                bad_axioms[n] = "not found"
            elif not set(ax) <= C.ALLOWED_AXIOMS:
                bad_axioms[n] = ax
        hits = C.source_audit()
        if hits:
            proof_ok = False
            proof_problem = "forbidden constructs in the Lean sources: " + "; ".join(hits[:10])
        if bad_axioms:
            proof_ok = False
            proof_problem = "axiom audit failed: %r" % bad_axioms
        if missing:
            proof_ok = False
            proof_problem = "required theorems missing from Props/%s.lean: %r" % (pid, missing)
    # thorough tier: independent re-check of the compiled theorem module
    leanchecker = None
    if ok and tier == "thorough" and not replay:
        import subprocess
        # the property module and every lemma / spec / model module of the project, in parallel
        mods = [mod]
        for sub in ("Lemmas", "Spec", "Std", "V1", "V2"):
            d = os.path.join(C.LEAN, "PppModel", sub)
            mods += ["PppModel.%s.%s" % (sub, f[:-5]) for f in sorted(os.listdir(d)) if f.endswith(".lean")]
        mods += ["PppModel.Basic", "PppModel.Auto"]
        from concurrent.futures import ThreadPoolExecutor

        def _lc(m):
            r = subprocess.run(["lake", "env", "leanchecker", m], cwd=C.LEAN, capture_output=True, text=True)
            return m, r.returncode, (r.stdout + r.stderr)[-300:]
        with ThreadPoolExecutor(max_workers=min(12, C.NCPU)) as ex:
            res = list(ex.map(_lc, mods))
        bad = [(m, rc, o) for m, rc, o in res if rc != 0]
        leanchecker = {"modules": len(mods), "rejected": bad}
        if bad:
            proof_ok = False
            proof_problem = proof_problem or ("leanchecker rejected %r" % (bad[:3],))
    obligations = len(names)
    discharged = len([n for n in names if audit.get(n) is not None and set(audit[n]) <= C.ALLOWED_AXIOMS]) if ok else 0

    # ---- 3. correspondence + direct relation --------------------------------------------------
    evaluations = 0
    nontriv = set()
    samples = []
    drift = []
    hist = {}
    result_hist = {}
    crashed = []
    sweep_stats = {}
    if hbin is not None and (ok or True):
        if replay:
            rj = json.load(open(replay))
            ops = rj["ops"]
        else:
            ops = prop.gen(tier, rng)
        if not os.path.exists(C.DRIVER_BIN):
            proof_ok = False
            proof_problem = proof_problem or "model driver missing"
            impl = C.run_impl_only(hbin, ops, pid)
            model = [None] * len(impl)
        else:
            impl, model, crashed = C.run_both(hbin, ops, pid)
        evaluations = len(ops)
        impl_died = [c for c in crashed if c[0] == "impl"]
        if impl_died:
            # the harness process died or hung: that is the finding; the lines behind the operation
            # responsible were never evaluated, so nothing else is compared in this run
            for c in impl_died:
                for cop in (c[6] if len(c) > 6 else []):
                    vv = Violation("relation", cop, "crash rc=%s" % c[2], None,
                                   "the harness process died or hung (abort / stack overflow / endless loop) while evaluating this operation")
                    vv.final = True
                    violations.append(vv)
            if not violations:
                vv = Violation("relation", "shard %d" % impl_died[0][1], "crash rc=%s" % impl_died[0][2], None,
                               "the harness process died or hung while evaluating a shard; the operation responsible could not be isolated")
                vv.final = True
                violations.append(vv)
        for idx, (op, il, ml) in enumerate(zip(ops, impl, model) if not impl_died else []):
            name = op.split(" ", 1)[0]
            hist[name] = hist.get(name, 0) + 1
            hk = il.split(" ", 2)
            rk = name + ":" + (" ".join(hk[:2]) if hk[0] == "err" else hk[0][:24])
            result_hist[rk] = result_hist.get(rk, 0) + 1
            k = prop.nontrivial(op, il)
            if k is not None:
                nontriv.add(k)
            if ml is not None:
                try:
                    pi = prop.project(op, il)
                except Exception as e:
                    # a result line the projection cannot read is a failure of the implementation side
                    # (or of the harness), never a reason for the check to crash
                    vv = Violation("relation", op, il[:400], ml[:400] if ml else ml,
                                   "implementation output not understood by the %s projection (%s: %s)" % (pid, type(e).__name__, e))
                    vv.idx = idx
                    violations.append(vv)
                    continue
                pm = prop.project(op, ml)
                if pi is not None and pm is not None and pi != pm:
                    vv = Violation("projection", op, il, ml,
                                   "implementation and model differ on the %s projection: impl=%r model=%r" % (pid, pi, pm))
                    vv.idx = idx
                    violations.append(vv)
                elif il != ml and len(drift) < 20:
                    drift.append({"op": op[:300], "impl": il[:300], "model": ml[:300]})
            if len(samples) < 6 and idx % max(1, len(ops) // 6) == 0:
                samples.append({"op": op[:200], "impl": il[:240]})
        try:
            for v in (prop.relation(ops, impl) if not impl_died else []):
                violations.append(v)
        except Exception as e:
            if not replay:
                raise
            notes.append("relation not evaluated in replay mode (%s: %r); projection comparison only" % (type(e).__name__, e))
        if replay:
            for op, il, ml in zip(ops, impl, model):
                print("op    %s" % op[:400])
                print("impl  %s" % il[:400])
                print("model %s" % (ml[:400] if ml else ml))
        if hasattr(prop, "nontrivial_all") and not replay:
            nontriv |= set(prop.nontrivial_all(ops, impl))
        for c in crashed:
            notes.append("evaluator crash: %r" % (c[:6],))
            if c[0] == "impl":
                pass
            else:
                proof_ok = False
                proof_problem = proof_problem or "model driver crashed: %r" % (c,)
        # the same operations through a build of the harness with another profile
        # (C03: overflow checks off); any difference in observable behaviour is a violation
        for prof in (getattr(prop, "extra_profiles", []) if not impl_died else []):
            hb2, log2 = C.build_harness(prof)
            if hb2 is None:
                proof_ok = False
                proof_problem = proof_problem or ("harness does not build with profile %s: %s" % (prof, log2[-800:]))
                continue
            impl2 = C.run_impl_only(hb2, ops, pid + prof)
            evaluations += len(impl2)
            for op, a, b in zip(ops, impl, impl2):
                if a != b:
                    violations.append(Violation("relation", op, [a[:300], b[:300]], None,
                                                "behaviour differs between the overflow-checked build and the %s build" % prof))
            for v in prop.relation(ops, impl2):
                v.detail += " (%s build)" % prof
                violations.append(v)
            notes.append("profile %s: %d operations re-evaluated" % (prof, len(impl2)))
        # in-process sweeps (relation at scale, no model involved)
        if not replay and not impl_died:
            for args in prop.sweeps(tier):
                import subprocess
                p = subprocess.run([hbin, "sweep"] + [str(a) for a in args], capture_output=True, text=True)
                for line in p.stdout.split("\n"):
                    if line.startswith("VIOL "):
                        _, vp, vin, det = (line.split(" ", 3) + [""])[:4]
                        if vp == pid:
                            violations.append(Violation("relation", vin, det, None, "in-process sweep %s: %s" % (args[0], det)))
                    elif line.startswith("COUNT "):
                        parts = dict(t.split("=", 1) for t in line.split(" ")[1:] if "=" in t)
                        if parts.get("prop") == pid:
                            sweep_stats[" ".join(str(a) for a in args)] = parts
                            evaluations += int(parts.get("evaluated", 0))
                            for i in range(int(parts.get("nontrivial", 0))):
                                pass
                if p.returncode != 0:
                    notes.append("sweep %r exited with %d: %s" % (args, p.returncode, p.stderr[-300:]))

    # ---- 3b. the proof obligations are not discharged: search harder for a failing input ------
    if (not proof_ok or proof_problem) and hbin is not None and not violations and tier == "quick" and not replay \
            and os.environ.get("VERIF_SEARCH", "1") != "0" and os.path.exists(C.DRIVER_BIN):
        try:
            ops2 = prop.gen("thorough", C.Rng(seed + 1))
            impl2, model2, _ = C.run_both(hbin, ops2, pid + "s")
            evaluations += len(ops2)
            for op, il, ml in zip(ops2, impl2, model2):
                pi, pm = prop.project(op, il), prop.project(op, ml)
                if pi is not None and pm is not None and pi != pm:
                    violations.append(Violation("projection", op, il, ml, "search after failed proof: impl=%r model=%r" % (pi, pm)))
            violations.extend(prop.relation(ops2, impl2))
            notes.append("proof obligations not discharged: searched %d further cases at the thorough tier" % len(ops2))
        except Exception as e:
            notes.append("search after failed proof raised %r" % (e,))

    # ---- 4. classify --------------------------------------------------------------------------
    # de-duplicate by key
    seen = set()
    uniq = []
    for v in violations:
        if v.key in seen:
            continue
        seen.add(v.key)
        uniq.append(v)
    unexplained = []
    for v in uniq:
        k = matches_known(pid, v, known)
        if k:
            known_hits.append((k, v))
        else:
            unexplained.append(v)

    exit_code = 0
    for k, v in known_hits:
        out_lines.append("KNOWN-FINDING: property=%s %s" % (pid, k.get("what", "")))
    if unexplained:
        unexplained.sort(key=lambda u: len(u.key))
        v = unexplained[0]
        if hbin is not None and os.path.exists(C.DRIVER_BIN):
            if not getattr(v, "final", False):
                try:
                    v = with_history(prop, hbin, v, ops if not replay else [])
                except Exception as e:
                    notes.append("history search failed: %r" % e)
                try:
                    v = shrink_bytes_op(prop, hbin, v)
                except Exception as e:  # shrinking is best effort
                    notes.append("shrink failed: %r" % e)
        path = write_replay(pid, v, seed, theorem=(prop.required[0] if prop.required else None))
        out_lines.append("VIOLATION property=%s replay=%s" % (pid, path))
        for n_, u in enumerate(unexplained[1:5]):
            write_replay(pid, u, seed, extra=n_ + 1)
        exit_code = 1
    elif not proof_ok or proof_problem:
        v = Violation("proof" if hbin is not None else "build", [], None, None, proof_problem or "proof obligations not discharged")
        path = write_replay(pid, v, seed, theorem=", ".join(prop.required) or mod)
        out_lines.append("VIOLATION property=%s replay=%s no-failing-input-found" % (pid, path))
        exit_code = 1

    wall = time.time() - t0
    ev = {
        "property_id": pid,
        "tier": tier,
        "seed": seed,
        "level": "proof",
        "coverage": {
            "obligations": max(obligations, 1) if ok else max(obligations, 1),
            "discharged": discharged,
            "checker_cmd": "cd lean && lake build %s && lake env lean <#print axioms of every theorem in Props/%s.lean>" % (mod, pid),
            "trusted_base": [
                "Lean 4.33.0 kernel",
                "axioms used: " + ", ".join(sorted({a for ax in audit.values() if ax for a in ax})) if audit else "axioms: (build failed)",
                "hand-written model tied to /repo by the correspondence run below (differential testing, not proof)",
                "harness/src/*.rs canonical printing; Lean compiler executes the model as defined",
                "lean/PppModel/Spec/*.lean restate the protocol text (wire format, TLV walk, line grammar, RFC 4291 forms): trusted to say what the property says",
                "std functions the crate calls (from_utf8, u16/Ipv4Addr/Ipv6Addr from_str and Display, splitn, write_all) are modelled, not verified; compared with the real std through the line protocol",
            ],
            "theorems": {n: audit.get(n) for n in names},
            "evaluations": evaluations,
            "distinct_nontrivial": len(nontriv),
            "rule": prop.rule,
            "samples": samples,
            "exhaustive": bool(prop.exhaustive),
            "op_histogram": hist,
            "result_histogram": dict(sorted(result_hist.items(), key=lambda kv: -kv[1])[:60]),
            "leanchecker": leanchecker,
            "model_drift": drift,
            "source_basis": C.source_basis(),
            "sweeps": sweep_stats,
            "projection_disagreements": len([v for v in uniq if v.kind == "projection"]),
            "relation_failures": len([v for v in uniq if v.kind == "relation"]),
            "known_findings_reproduced": len(known_hits),
            "notes": notes,
        },
        "assumptions": [
            "A1 harness printing faithful", "A2 compiled driver = model definitions",
            "A3 inputs < 2^63 bytes, allocation succeeds", "A4 64-bit target",
        ],
        "wall_s": round(wall, 2),
        "violations": len(unexplained) + (1 if (exit_code == 1 and not unexplained) else 0),
    }
    os.makedirs(C.EVIDENCE, exist_ok=True)
    with open(os.path.join(C.EVIDENCE, pid + ".json"), "w") as f:
        json.dump(ev, f, indent=1)
    for l in out_lines:
        print(l)
    print("%s tier=%s seed=%d evaluations=%d nontrivial=%d theorems=%d/%d violations=%d known=%d wall=%.1fs" % (
        pid, tier, seed, evaluations, len(nontriv), discharged, obligations, len(unexplained), len(known_hits), wall))
    if proof_problem and exit_code == 1:
        print("  " + proof_problem.replace("\n", "\n  ")[:2000])
    return exit_code
