"""Generators and the independent reference (wire-format) oracle for version 2 headers."""
from .common import hexs

SIG = bytes([0x0D, 0x0A, 0x0D, 0x0A, 0x00, 0x0D, 0x0A, 0x51, 0x55, 0x49, 0x54, 0x0A])
FAM_SIZE = {0: 0, 1: 12, 2: 36, 3: 216}
FAM_NAME = {0: "unspec", 1: "ipv4", 2: "ipv6", 3: "unix"}
CMD_NAME = {0: "local", 1: "proxy"}
TR_NAME = {0: "unspec", 1: "stream", 2: "dgram"}
VALID_VC = [0x20, 0x21]
VALID_AFP = [f << 4 | t for f in range(4) for t in range(3)]


def spec(bs: bytes) -> str:
    """Byte-string spec with run-length compression of long constant runs."""
    if len(bs) < 64:
        return hexs(bs)
    out = []
    i = 0
    lit = bytearray()
    n = len(bs)
    while i < n:
        j = i
        while j < n and bs[j] == bs[i]:
            j += 1
        if j - i >= 24:
            if lit:
                out.append(lit.hex())
                lit = bytearray()
            out.append("r%dx%02x" % (j - i, bs[i]))
        else:
            lit.extend(bs[i:j])
        i = j
    if lit:
        out.append(lit.hex())
    return ".".join(out) if out else "-"


def header(vc, afp, length, payload, sig=SIG):
    return sig + bytes([vc, afp]) + length.to_bytes(2, "big") + payload


def rand_bytes(rng, n):
    return bytes(rng.getrandbits(8) for _ in range(n)) if n < 4096 else bytes([rng.getrandbits(8)]) * n


def tlv_enc(kind, value):
    return bytes([kind]) + len(value).to_bytes(2, "big") + value


def natural_tlv(rng):
    """(type, value) in the shape the protocol document gives each registered type (and just outside
    it): a change keyed on one type's semantics (a CRC check, the 128-byte unique-id limit, SSL
    sub-TLVs) is invisible to uniformly random types and lengths."""
    c = rng.randrange(10)
    if c == 0:
        return 0x01, rng.choice([b"h2", b"http/1.1", b"", b"\x02h2\x08http/1.1"])
    if c == 1:
        return 0x02, rng.choice([b"example.org", b"a", b"xn--e1afmkfd.xn--p1ai", b"\xc3\xa9.example", b"", b"\xff\xfe.example", b"ex\x00ample", b"A" * 255, b"a." * 130])
    if c == 2:
        return 0x03, rng.choice([bytes(4), b"\xff" * 4, rand_bytes(rng, 4), rand_bytes(rng, 3), rand_bytes(rng, 5)])
    if c == 3:
        return 0x04, bytes(rng.choice([0, 1, 2, 4, 13]))
    if c == 4:
        return 0x05, rand_bytes(rng, rng.choice([0, 1, 16, 127, 128, 129, 130, 200]))
    if c == 5:
        sub = b"".join(tlv_enc(k, v) for k, v in rng.sample(
            [(0x21, b"TLSv1.3"), (0x22, b"client.example"), (0x23, b"ECDHE-RSA-AES128-GCM-SHA256"),
             (0x24, b"SHA256"), (0x25, b"RSA2048")], rng.randint(0, 3)))
        if rng.random() < 0.25:
            # SSL TLVs shorter than their fixed part, or with a truncated / oversized sub-TLV
            return 0x20, rng.choice([b"", b"\x01", b"\x01\x00\x00\x00", b"\x01\x00\x00\x00\x00\x21", b"\x01\x00\x00\x00\x00\x21\x00\x09TLS", b"\x07\x00\x00\x00\x00\x21\x00\x00\x22\x00\x00"])
        return 0x20, bytes([rng.choice([0, 1, 3, 5, 7, 255])]) + rng.choice([bytes(4), b"\x00\x00\x00\x01", rand_bytes(rng, 4)]) + sub
    if c == 6:
        return rng.choice([0x21, 0x22, 0x23, 0x24, 0x25]), rng.choice([b"TLSv1.2", b"", b"x" * 40])
    if c == 7:
        return 0x30, rng.choice([b"ns1", b"/var/run/netns/blue", b"", b"bl\xc3\xbce", b"\x00", b"n" * 300])
    if c == 8:
        if rng.random() < 0.5:
            # long text values with multi-byte characters at every alignment around the offsets a
            # "shorten for display" helper would cut at (16, 32, 64, 128, 256)
            ch = rng.choice(["\u00e9", "\u20ac", "\U0001f600"]).encode("utf-8")
            cut = rng.choice([16, 32, 64, 128, 256])
            lead = b"a" * (cut - rng.randrange(1, len(ch) + 1) + rng.choice([0, 0, 1]))
            return rng.choice([0x02, 0x05, 0x22, 0xE0]), lead + ch * rng.choice([1, 3, 20]) + b"tail" * rng.choice([0, 1, 5])
        return rng.choice([0xE0, 0xEA, 0xEE, 0xEF, 0xF0, 0xF7, 0xF8, 0xFF]), rand_bytes(rng, rng.choice([0, 4, 9]))
    return rng.choice([0x06, 0x1F, 0x26, 0x2F, 0x31, 0x00]), rand_bytes(rng, rng.choice([0, 4, 128, 129]))


def rand_tlvs(rng, budget, maxn=5):
    """A well-formed TLV section of at most `budget` bytes."""
    out = b""
    for _ in range(rng.randint(0, maxn)):
        room = budget - len(out) - 3
        if room < 0:
            break
        if rng.random() < 0.35:
            kind, val = natural_tlv(rng)
            if len(val) <= room:
                out += tlv_enc(kind, val)
                continue
        ln = rng.choice([0, 1, 2, 3, 4, 5, 7, 128, 129, 255, 256, 1000, room])
        ln = min(ln, room, 65535)
        kind = rng.choice([1, 2, 3, 4, 5, 0x20, 0x21, 0x30, 0, 255, rng.getrandbits(8)])
        out += tlv_enc(kind, rand_bytes(rng, ln))
    return out


def special_v4(rng):
    """IPv4 values a transformation of the address (canonicalisation, classification) treats specially."""
    return rng.choice([
        bytes(4), b"\xff" * 4, bytes([127, 0, 0, 1]), bytes([10, 0, 0, 1]), bytes([169, 254, 1, 1]),
        bytes([224, 0, 0, 1]), bytes([192, 168, 0, 255]), bytes([0, 0, 0, 1]), bytes([1, 0, 0, 0]),
        bytes([100, 64, 0, 1]), bytes([198, 18, 0, 1]), bytes([240, 0, 0, 1]),
    ])


def special_v6(rng):
    """IPv6 values with structure: IPv4-mapped / -compatible / NAT64 / 6to4 / Teredo, scopes, zero runs."""
    v4 = rand_bytes(rng, 4)
    return rng.choice([
        bytes(10) + b"\xff\xff" + v4,                 # ::ffff:a.b.c.d  (IPv4-mapped)
        bytes(10) + b"\xff\xff" + special_v4(rng),
        bytes(12) + v4,                                # ::a.b.c.d       (IPv4-compatible)
        b"\x00\x64\xff\x9b" + bytes(8) + v4,          # 64:ff9b::a.b.c.d (NAT64)
        b"\x20\x02" + v4 + bytes(10),                  # 6to4
        b"\x20\x01\x00\x00" + rand_bytes(rng, 12),     # Teredo
        bytes(16), bytes(15) + b"\x01", b"\xff" * 16,
        b"\xfe\x80" + bytes(6) + rand_bytes(rng, 8),    # link-local
        b"\xff\x02" + bytes(13) + b"\x01",             # multicast
        b"\xfc\x00" + rand_bytes(rng, 14),             # unique local
        b"\x20\x01\x0d\xb8" + bytes(11) + b"\x01",     # documentation, one long zero run
        bytes(8) + b"\xff\xff" + bytes(2) + v4,        # ::ffff:0:a.b.c.d (not mapped)
        bytes(9) + b"\x01\xff\xff" + v4,              # almost mapped
        b"\x00\x01" + bytes(4) + b"\x00\x01" + bytes(8),  # two zero runs
        bytes(2) + rand_bytes(rng, 14), rand_bytes(rng, 14) + bytes(2),
    ])


def special_unix(rng):
    """One 108-byte socket path field: C-string-like shapes."""
    name = bytes(rng.choice(b"/abcxyz._-019") for _ in range(rng.choice([1, 5, 20, 106, 107])))
    junk = bytes(rng.randrange(1, 256) for _ in range(108))
    return rng.choice([
        (name + bytes(108))[:108],                     # path, zero padded
        (name[:20] + b"\x00" + junk)[:108],             # path, NUL, then non-zero bytes
        (b"\x00" + name + bytes(108))[:108],            # abstract name
        (b"\x00" + junk)[:108],                         # abstract, no further NUL
        junk,                                          # no NUL at all
        junk[:107] + b"\x00",                           # NUL only in the last byte
        bytes(108), bytes(107) + b"\x01", b"\x01" + bytes(107),
        (b"a\x00b\x00c" + bytes(108))[:108],
    ])


def parse_oracle(x: bytes):
    """The wire format, straight from the protocol text (independent of the Lean model).
    Returns ('ok', dict) / ('inc', ...) / ('term', ...) ; only accept/decoded fields are specified
    by C02, error classes by C05/C17."""
    if len(x) < 12:
        return ("inc", None) if SIG.startswith(x) else ("term", None)
    if x[:12] != SIG:
        return ("term", None)
    if len(x) < 16:
        return ("inc", None)
    vc, afp = x[12], x[13]
    if vc >> 4 != 2 or (vc & 15) > 1 or (afp >> 4) > 3 or (afp & 15) > 2:
        return ("term", None)
    length = x[14] * 256 + x[15]
    fam = afp >> 4
    size = FAM_SIZE[fam]
    if length < size:
        return ("term", None)
    if len(x) < 16 + length:
        return ("inc", None)
    hdr = x[:16 + length]
    ab = hdr[16:16 + size]
    if fam == 0:
        addr = "unspec"
    elif fam == 1:
        addr = "ipv4/%s/%s/%d/%d" % (ab[0:4].hex(), ab[4:8].hex(), int.from_bytes(ab[8:10], "big"), int.from_bytes(ab[10:12], "big"))
    elif fam == 2:
        addr = "ipv6/%s/%s/%d/%d" % (ab[0:16].hex(), ab[16:32].hex(), int.from_bytes(ab[32:34], "big"), int.from_bytes(ab[34:36], "big"))
    else:
        addr = "unix/%s/%s" % (ab[0:108].hex(), ab[108:216].hex())
    return ("ok", {"hdr": hexs(hdr), "cmd": CMD_NAME[vc & 15], "tr": TR_NAME[afp & 15], "fam": FAM_NAME[fam], "addr": addr})


def tlv_walk_oracle(sec: bytes):
    """Reference TLV walk: list of item strings in the canonical form."""
    out = []
    i = 0
    n = len(sec)
    while i < n:
        if n - i < 3:
            out.append("!leftovers:%d" % n)
            break
        t = sec[i]
        ln = sec[i + 1] * 256 + sec[i + 2]
        if n - i < 3 + ln:
            out.append("!invalidtlv:%d:%d" % (t, ln))
            break
        out.append("%d:%s" % (t, hexs(sec[i + 3:i + 3 + ln])))
        i += 3 + ln
    return out


def tlv_boundary_sections(rng):
    """Raw TLV sections whose value lengths sit at the byte / u16 boundaries with the value actually
    present (so a raw slice may exceed 65 535 bytes), alone, followed by another item, cut short by
    one byte, and followed by leftovers."""
    out = []
    for ln in (0, 1, 255, 256, 257, 32767, 32768, 65531, 65532, 65533, 65534, 65535):
        s = tlv_enc(rng.choice([4, 0x20, 0xFF]), bytes([0xAB]) * ln)
        out += [s, s + tlv_enc(5, b"x"), s[:-1], s + b"\x01\x00", tlv_enc(1, b"ab") + s + tlv_enc(2, b"")]
    return out


def gen_control_space(rng, tier):
    """All 65 536 control pairs, with length / presence relations (C02, C12, C17)."""
    ops = []
    full = tier == "thorough"
    for vc in range(256):
        for afp in range(256):
            fam = afp >> 4
            size = FAM_SIZE.get(fam, 0)
            valid = vc in VALID_VC and afp in VALID_AFP
            if valid:
                lengths = sorted(set([0, max(size - 1, 0), size, size + 1, size + 7, 255, 256]))
                if full:
                    lengths += [4095, 65535]
                for length in lengths:
                    need = length
                    presents = sorted(set([0, 1, max(need - 1, 0), need, need + 1, need + 5]))
                    for present in presents:
                        payload = rand_bytes(rng, present)
                        ops.append("v2 " + spec(header(vc, afp, length, payload)))
            else:
                # three relations between declared length and bytes present
                for length, present in ((0, 0), (12, 12), (300, 10)) if not full else ((0, 0), (12, 12), (300, 10), (36, 40), (216, 216), (1, 0)):
                    ops.append("v2 " + spec(header(vc, afp, length, rand_bytes(rng, present))))
    return ops


def gen_valid_headers(rng, n, max_payload=600, big_every=200):
    """Accepted headers with varied families, payloads and TLV sections. Yields bytes."""
    out = []
    for i in range(n):
        vc = rng.choice(VALID_VC)
        afp = rng.choice(VALID_AFP)
        size = FAM_SIZE[afp >> 4]
        ab = rand_bytes(rng, size)
        if size == 36 and i % 3 == 0:
            # IPv4-mapped / special IPv6 values, alone and paired
            m = lambda: special_v6(rng) if rng.random() < 0.8 else rand_bytes(rng, 16)
            ab = m() + m() + rand_bytes(rng, 4)
            if i % 9 == 0:
                # both endpoints of the same special class
                cls = rng.choice([bytes(10) + b"\xff\xff", bytes(12), b"\x00\x64\xff\x9b" + bytes(8)])
                ab = cls + rand_bytes(rng, 4) + cls + special_v4(rng) + rand_bytes(rng, 4)
        elif size == 12 and i % 3 == 0:
            ab = special_v4(rng) + special_v4(rng) + rng.choice([b"\x00\x00\xff\xff", b"\xff\xff\x00\x00", rand_bytes(rng, 4)])
        elif size == 216 and i % 2 == 0:
            ab = special_unix(rng) + special_unix(rng)
        if i % 11 == 10 and size:
            # source = destination (addresses and ports): a semantic filter ("loop", "self-connection")
            half = {12: 4, 36: 16, 216: 108}[size]
            ab = ab[:half] + ab[:half] + (ab[2 * half:2 * half + 2] * 2 if size != 216 else b"")
        kind = rng.random()
        if i % big_every == big_every - 1:
            budget = 65535 - size
        else:
            budget = rng.choice([0, 3, 4, 10, 40, max_payload])
        if kind < 0.6:
            sec = rand_tlvs(rng, budget)
        elif kind < 0.8:
            sec = rand_bytes(rng, min(budget, rng.choice([0, 1, 2, 3, 5, 9, 30])))
        else:
            sec = rand_tlvs(rng, budget)
            if sec:
                sec = sec[:rng.randint(0, len(sec))]
        payload = ab + sec
        out.append(header(vc, afp, len(payload), payload))
    return out


def gen_signature_corruptions(rng):
    ops = []
    base = header(0x21, 0x11, 12, bytes(range(12)))
    for i in range(12):
        for v in range(256):
            if v == SIG[i]:
                continue
            x = bytearray(base)
            x[i] = v
            ops.append("v2 " + hexs(bytes(x)))
    # two signature bytes corrupted at once, by the same and by different XOR differences: a
    # word-wise comparison that folds its partial differences wrongly lets some pairs cancel
    for i in range(12):
        for j in range(i + 1, 12):
            for d1, d2 in ((0x01, 0x01), (0x20, 0x20), (0x80, 0x80), (0xFF, 0xFF), (0x07, 0x70), (0x01, 0x02)):
                x = bytearray(base)
                x[i] ^= d1
                x[j] ^= d2
                ops.append("v2 " + hexs(bytes(x)))
    for n in range(0, 17):
        ops.append("v2 " + hexs(base[:n]))
        if n < 12:
            for v in (0, 0x0D, 0x0A, 0x50, 0xFF):
                ops.append("v2 " + hexs(base[:n] + bytes([v])))
    return ops


def gen_truncations(rng, headers, every=1):
    ops = []
    for h in headers:
        n = len(h)
        cuts = range(0, n) if n <= 80 else sorted(set(list(range(0, 40)) + [n - 1, n - 2, n // 2] + [rng.randrange(n) for _ in range(8)]))
        for c in cuts:
            ops.append("v2 " + spec(h[:c]))
    return ops


def big_header_cuts(rng, tier):
    """(header, cut) pairs for accepted headers whose declared length sits in the last 16 values of
    the u16 range (16 + length no longer fits 16 bits), cut at every one of the last bytes and at a
    few early positions: presence checks done in a narrow or saturating type differ only here."""
    out = []
    lengths = [65519, 65520, 65535] if tier == "quick" else [65500, 65519, 65520, 65521, 65527, 65534, 65535]
    fams = [0x00, 0x11, 0x31] if tier == "quick" else [0x00, 0x11, 0x21, 0x31, 0x12]
    for length in lengths:
        for afp in fams:
            size = FAM_SIZE[afp >> 4]
            fill = bytes([rng.choice([0x00, 0x41, 0xFF])]) * (length - size)
            h = header(rng.choice(VALID_VC), afp, length, rand_bytes(rng, size) + fill)
            n = len(h)
            cuts = [16, 17, 16 + size, 300, 32768, 65000] + list(range(n - 40, n))
            for c in sorted(set(c for c in cuts if 0 <= c < n)):
                out.append((h, c))
    return out


BIG_TRAILERS = [65519, 65520, 65529, 65535, 65536, 65537, 65552, 70000, 131077]


def gen_big_trailers(rng, headers):
    """Accepted headers followed by about 64 KiB (and more) of payload: length arithmetic
    narrower than usize shows up only here."""
    out = []
    for h in headers:
        for n in BIG_TRAILERS:
            out.append(h + bytes([rng.choice([0, 0x41, 0xFF])]) * n)
    return out
