from . import props_v2, props_bld, props_v1

PROPS = {}
for mod in (props_v2, props_bld, props_v1):
    for name in dir(mod):
        obj = getattr(mod, name)
        if isinstance(obj, type) and getattr(obj, "id", "C00") == name and name != "Prop":
            PROPS[name] = obj
