"""Shared plumbing: paths, builds, running the two evaluators, parsing canonical lines."""
import fcntl
import json
import os
import random
import re
import shutil
import subprocess
import sys
import time

VERIF = os.path.dirname(os.path.dirname(os.path.abspath(__file__)))
REPO = os.environ.get("PPP_REPO", "/repo")
LEAN = os.path.join(VERIF, "lean")
HARNESS = os.path.join(VERIF, "harness")
WORK = os.path.join(VERIF, "work")
REPLAYS = os.path.join(VERIF, "replays")
# VERIF_EVIDENCE_DIR: development runs against a scratch copy (tools/run_seeded.py --scratch,
# tools/mutate.py) must not overwrite the evidence of the real tree
EVIDENCE = os.environ.get("VERIF_EVIDENCE_DIR") or os.path.join(VERIF, "evidence")
DRIVER_BIN = os.path.join(LEAN, ".lake", "build", "bin", "pppdriver")
NCPU = os.cpu_count() or 4

ENV = dict(os.environ)
ENV.update({"CARGO_NET_OFFLINE": "true", "CARGO_TARGET_DIR": os.path.join(HARNESS, "target")})

ALLOWED_AXIOMS = {"propext", "Classical.choice", "Quot.sound"}


def hexs(b: bytes) -> str:
    return b.hex() if b else "-"


def unhex(s: str) -> bytes:
    return b"" if s == "-" else bytes.fromhex(s)


class Lock:
    """Serialises build steps between concurrently running checks."""

    def __init__(self, name="build"):
        os.makedirs(WORK, exist_ok=True)
        self.path = os.path.join(WORK, "." + name + ".lock")

    def __enter__(self):
        self.f = open(self.path, "w")
        fcntl.flock(self.f, fcntl.LOCK_EX)
        return self

    def __exit__(self, *a):
        fcntl.flock(self.f, fcntl.LOCK_UN)
        self.f.close()


def harness_dir():
    """The harness crate has a path dependency on the repository under test. For the default
    /repo the committed crate is used as it is; for PPP_REPO=<other> a copy with the path
    rewritten is kept under work/ (mutation experiments only)."""
    if REPO == "/repo":
        return HARNESS, os.path.join(HARNESS, "target")
    tag = re.sub(r"[^A-Za-z0-9]", "_", REPO)
    d = os.path.join(WORK, "harness" + tag)
    if os.path.isdir(d):
        shutil.rmtree(os.path.join(d, "src"), ignore_errors=True)
    os.makedirs(d, exist_ok=True)
    shutil.copytree(os.path.join(HARNESS, "src"), os.path.join(d, "src"))
    shutil.copytree(os.path.join(HARNESS, ".cargo"), os.path.join(d, ".cargo"), dirs_exist_ok=True)
    shutil.copy(os.path.join(HARNESS, "Cargo.lock"), d)
    toml = open(os.path.join(HARNESS, "Cargo.toml")).read().replace('path = "/repo"', 'path = "%s"' % REPO)
    open(os.path.join(d, "Cargo.toml"), "w").write(toml)
    return d, os.path.join(d, "target")


def build_harness(profile="release"):
    """Rebuilds the harness against the repository's current working tree.
    Returns (binary path or None, log)."""
    if os.environ.get("VERIF_HARNESS_BIN"):
        # development only (tools/coverage.py): run a separately built, instrumented harness
        return os.environ["VERIF_HARNESS_BIN"], "override"
    d, target = harness_dir()
    env = dict(ENV)
    env["CARGO_TARGET_DIR"] = target
    cmd = ["cargo", "build", "--offline", "--quiet", "--profile", profile]
    with Lock("cargo"):
        p = subprocess.run(cmd, cwd=d, env=env, capture_output=True, text=True)
    binp = os.path.join(target, profile, "pppharness")
    if p.returncode != 0 or not os.path.exists(binp):
        return None, p.stdout + p.stderr
    return binp, p.stderr


def build_lean(targets):
    """lake build of the given targets. Returns (ok, log)."""
    with Lock("lake"):
        p = subprocess.run(["lake", "build"] + targets, cwd=LEAN, capture_output=True, text=True)
    return p.returncode == 0, p.stdout + p.stderr


def theorem_names(prop):
    """Names of the theorems stated in Props/<prop>.lean (the proof obligations)."""
    path = os.path.join(LEAN, "PppModel", "Props", prop + ".lean")
    if not os.path.exists(path):
        return []
    src = open(path).read()
    # strip block comments and line comments
    src = re.sub(r"/-.*?-/", "", src, flags=re.S)
    src = re.sub(r"--.*", "", src)
    ns = None
    names = []
    for m in re.finditer(r"^\s*(namespace\s+(\S+)|end\s+(\S+)|(?:protected\s+)?theorem\s+(\S+))", src, flags=re.M):
        if m.group(2):
            ns = m.group(2)
        elif m.group(4):
            n = m.group(4)
            names.append((ns + "." + n) if ns else n)
    return names


FORBIDDEN = re.compile(r"\b(sorry|admit|native_decide|bv_decide|implemented_by|unsafe)\b|^\s*axiom\s|maxHeartbeats\s+0\b", re.M)


def source_audit():
    """grep for constructs that would weaken a proof, outside comments, over the whole project."""
    hits = []
    root = os.path.join(LEAN, "PppModel")
    for dp, _, fs in os.walk(root):
        for f in fs:
            if not f.endswith(".lean"):
                continue
            p = os.path.join(dp, f)
            src = open(p).read()
            src = re.sub(r"/-.*?-/", lambda m: "\n" * m.group(0).count("\n"), src, flags=re.S)
            src = re.sub(r"--.*", "", src)
            for m in FORBIDDEN.finditer(src):
                line = src.count("\n", 0, m.start()) + 1
                hits.append("%s:%d: %s" % (os.path.relpath(p, LEAN), line, m.group(0).strip()))
    return hits


def axiom_audit(prop, names):
    """#print axioms for every theorem. Returns {name: [axioms]} ; a missing name maps to None."""
    os.makedirs(WORK, exist_ok=True)
    path = os.path.join(WORK, "Audit_%s_%d.lean" % (prop, os.getpid()))
    with open(path, "w") as f:
        f.write("import PppModel.Props.%s\n" % prop)
        for n in names:
            f.write("#print axioms %s\n" % n)
    p = subprocess.run(["lake", "env", "lean", path], cwd=LEAN, capture_output=True, text=True)
    os.unlink(path)
    out = p.stdout + p.stderr
    res = {n: None for n in names}
    for m in re.finditer(r"'(\S+)' depends on axioms: \[([^\]]*)\]", out, flags=re.S):
        res[m.group(1)] = [a.strip() for a in m.group(2).replace("\n", " ").split(",") if a.strip()]
    for m in re.finditer(r"'(\S+)' does not depend on any axioms", out):
        res[m.group(1)] = []
    return res, out


def run_evaluator(cmd, ops_path, out_path, timeout=1800):
    """Runs one evaluator over a file of operations. A run that exceeds `timeout` seconds (a hang)
    is killed and reported with return code -999."""
    with open(ops_path, "rb") as fin, open(out_path, "wb") as fout:
        try:
            p = subprocess.run(cmd, stdin=fin, stdout=fout, stderr=subprocess.PIPE, timeout=timeout)
        except subprocess.TimeoutExpired:
            return -999, "timed out after %d s" % timeout
    return p.returncode, p.stderr.decode(errors="replace")


def isolate_crash(harness_bin, chunk, d, tag):
    """The harness process died (abort, stack overflow, kill) or hung on this chunk: evaluate it
    once more with every result line flushed at once; the operation after the last line that came
    back is the one responsible. Returns (result lines, [culprit]) - the culprit's line is `crash`,
    the operations behind it are `skipped` (not evaluated)."""
    op = os.path.join(d, "iso-%s.txt" % tag)
    out = os.path.join(d, "iso-%s.out" % tag)
    with open(op, "w") as f:
        f.write("\n".join(chunk) + "\n")
    run_evaluator([harness_bin, "ops", "flush"], op, out, timeout=max(60, len(chunk) // 300))
    got = open(out, errors="replace").read().split("\n")
    if got and got[-1] == "":
        got.pop()
    got = got[:len(chunk)]
    if len(got) == len(chunk):
        return got, []
    culprit = chunk[len(got)]
    return got + ["crash"] + ["skipped"] * (len(chunk) - len(got) - 1), [culprit]


def run_both(harness_bin, ops, tag, shards=None):
    """Runs the implementation harness and the model driver over the same operations.
    Returns (impl_lines, model_lines). Work files are removed afterwards."""
    from concurrent.futures import ThreadPoolExecutor
    d = os.path.join(WORK, "%s-%d" % (tag, os.getpid()))
    os.makedirs(d, exist_ok=True)
    n = len(ops)
    if shards is None:
        shards = 1 if n < 2000 else min(NCPU, max(1, n // 2000))
    size = (n + shards - 1) // shards if n else 1
    chunks = [ops[i:i + size] for i in range(0, n, size)] or [[]]
    jobs = []
    for i, ch in enumerate(chunks):
        op = os.path.join(d, "ops%d.txt" % i)
        with open(op, "w") as f:
            f.write("\n".join(ch))
            f.write("\n")
        jobs.append((i, op))

    def one(job):
        i, op = job
        io = os.path.join(d, "impl%d.out" % i)
        mo = os.path.join(d, "model%d.out" % i)
        # a hang must not hold the check for long: generous per-operation budget, 90 s at least
        budget = max(90, len(chunks[i]) // 300)
        rc1, e1 = run_evaluator([harness_bin, "ops"], op, io, timeout=budget)
        rc2, e2 = run_evaluator([DRIVER_BIN], op, mo, timeout=budget * 4)
        il = open(io, errors="replace").read().split("\n")
        ml = open(mo, errors="replace").read().split("\n")
        if il and il[-1] == "":
            il.pop()
        if ml and ml[-1] == "":
            ml.pop()
        return i, rc1, e1, il, rc2, e2, ml

    impl, model = [], []
    crashed = []
    try:
        with ThreadPoolExecutor(max_workers=NCPU) as ex:
            for i, rc1, e1, il, rc2, e2, ml in ex.map(one, jobs):
                ch = chunks[i]
                if rc1 != 0 or len(il) != len(ch):
                    culprits = []
                    if not any(c[0] == "impl" and len(c) > 6 and c[6] for c in crashed):
                        # the first shard that died is examined; one failing operation is enough
                        il, culprits = isolate_crash(harness_bin, ch, d, "%d" % i)
                    crashed.append(("impl", i, rc1, e1[-400:], len(il), len(ch), culprits))
                    il = il[:len(ch)] + ["skipped"] * (len(ch) - len(il))
                if rc2 != 0 or len(ml) != len(ch):
                    crashed.append(("model", i, rc2, e2[-400:], len(ml), len(ch)))
                    ml = ml[:len(ch)] + ["crash"] * (len(ch) - len(ml))
                impl.extend(il)
                model.extend(ml)
    finally:
        shutil.rmtree(d, ignore_errors=True)
    return impl, model, crashed


def run_impl_only(harness_bin, ops, tag):
    d = os.path.join(WORK, "%s-%d" % (tag, os.getpid()))
    os.makedirs(d, exist_ok=True)
    try:
        op = os.path.join(d, "ops.txt")
        with open(op, "w") as f:
            f.write("\n".join(ops) + "\n")
        io = os.path.join(d, "impl.out")
        run_evaluator([harness_bin, "ops"], op, io)
        il = open(io, errors="replace").read().split("\n")
        if il and il[-1] == "":
            il.pop()
        return il
    finally:
        shutil.rmtree(d, ignore_errors=True)


def run_model_only(ops, tag):
    """Evaluates operations on the Lean model driver alone."""
    d = os.path.join(WORK, "%s-m-%d" % (tag, os.getpid()))
    os.makedirs(d, exist_ok=True)
    try:
        op = os.path.join(d, "ops.txt")
        with open(op, "w") as f:
            f.write("\n".join(ops) + "\n")
        mo = os.path.join(d, "model.out")
        run_evaluator([DRIVER_BIN], op, mo)
        ml = open(mo, errors="replace").read().split("\n")
        if ml and ml[-1] == "":
            ml.pop()
        return ml
    finally:
        shutil.rmtree(d, ignore_errors=True)


def fields(line):
    """Parses a canonical result line into (head, {key: value}). head is 'ok', 'err <Variant>',
    'panic', ..."""
    toks = line.split(" ")
    kv = {}
    head = []
    for t in toks:
        if "=" in t and not t.startswith("["):
            k, v = t.split("=", 1)
            kv[k] = v
        else:
            head.append(t)
    return " ".join(head), kv


def klass(line):
    """ok / inc / term / panic classification of a single parse result line."""
    if line.startswith("panic") or line == "crash":
        return "panic"
    h, kv = fields(line)
    if h.startswith("ok"):
        return "ok"
    if kv.get("inc") == "1":
        return "inc"
    return "term"


class Rng(random.Random):
    pass


def seed_from_env(default=1):
    try:
        return int(os.environ.get("VERIF_SEED", default))
    except ValueError:
        return default


def source_basis():
    """Which source files differ from the revision the model was last reviewed against
    (model_basis.json). Informational: recorded in the evidence, never an alarm by itself."""
    import hashlib
    try:
        basis = json.load(open(os.path.join(VERIF, "model_basis.json")))
    except Exception:
        return None
    changed = []
    seen = set()
    src = os.path.join(REPO, "src")
    for dp, _, fs in os.walk(src):
        for f in fs:
            rel = os.path.relpath(os.path.join(dp, f), REPO)
            seen.add(rel)
            h = hashlib.sha256(open(os.path.join(dp, f), "rb").read()).hexdigest()
            if basis["files"].get(rel) != h:
                changed.append(rel)
    changed += [f for f in basis["files"] if f not in seen]
    return {"model_reviewed_against": basis["commit"], "source_files_changed_since": sorted(changed)}
