"""Builder / writer programs and the reference encoder (independent of the Lean model)."""
from .common import hexs
from .v2gen import SIG, FAM_SIZE, TR_NAME, spec, rand_bytes, tlv_enc, special_v4, special_v6, special_unix

TYPE_CODES = {
    "alpn": 0x01, "authority": 0x02, "crc32c": 0x03, "noop": 0x04, "uniqueid": 0x05,
    "ssl": 0x20, "sslversion": 0x21, "sslcommonname": 0x22, "sslcipher": 0x23,
    "sslsignaturealgorithm": 0x24, "sslkeyalgorithm": 0x25, "networknamespace": 0x30,
}
INT_WIDTH = {"u8": 1, "u16": 2, "u32": 4, "u64": 8, "u128": 16, "usize": 8,
             "i8": 1, "i16": 2, "i32": 4, "i64": 8, "i128": 16, "isize": 8}


# ---- address values -------------------------------------------------------------------------

def addr_text(a):
    k = a[0]
    if k == "unspec":
        return "unspec"
    if k in ("ipv4", "ipv6"):
        return "%s/%s/%s/%d/%d" % (k, a[1].hex(), a[2].hex(), a[3], a[4])
    return "unix/%s/%s" % (spec(a[1]), spec(a[2]))


def addr_bytes(a):
    k = a[0]
    if k == "unspec":
        return b""
    if k in ("ipv4", "ipv6"):
        return a[1] + a[2] + a[3].to_bytes(2, "big") + a[4].to_bytes(2, "big")
    return a[1] + a[2]


def addr_family(a):
    return {"unspec": 0, "ipv4": 1, "ipv6": 2, "unix": 3}[a[0]]


def rand_addr(rng, kind=None):
    kind = kind or rng.choice(["unspec", "ipv4", "ipv6", "unix"])
    port = lambda: rng.choice([0, 1, 255, 256, 65535, rng.getrandbits(16)])
    if kind == "unspec":
        return ("unspec",)
    # about half of the values are structured (IPv4-mapped IPv6, C-string-like socket paths, ...):
    # a transformation keyed on the address value never fires on uniformly random bytes
    sp = lambda special, n: special(rng) if rng.random() < 0.5 else rand_bytes(rng, n)
    if kind == "ipv4":
        return ("ipv4", sp(special_v4, 4), sp(special_v4, 4), port(), port())
    if kind == "ipv6":
        if rng.random() < 0.2:
            # both endpoints of the same special class (both IPv4-mapped, both IPv4-compatible, ...)
            cls = rng.choice([bytes(10) + b"\xff\xff", bytes(12), b"\x00\x64\xff\x9b" + bytes(8), bytes(8) + b"\xff\xff" + bytes(2)])
            return ("ipv6", cls + rand_bytes(rng, 4), cls + special_v4(rng), port(), port())
        return ("ipv6", sp(special_v6, 16), sp(special_v6, 16), port(), port())
    return ("unix", sp(special_unix, 108), sp(special_unix, 108))


# ---- payloads -------------------------------------------------------------------------------

def payload_text(p):
    k = p[0]
    if k in INT_WIDTH:
        return "%s:%d" % (k, p[1])
    if k == "sl":
        return "sl:" + spec(p[1])
    if k == "ad":
        return "ad:" + addr_text(p[1])
    if k in ("tv", "pr"):
        return "%s:%d:%s" % (k, p[1], spec(p[2]))
    if k == "prt":
        return "prt:%s:%s" % (p[1], spec(p[2]))
    if k == "sec":
        return "sec:" + spec(p[1])
    if k == "seca":
        return "seca:%d:%s" % (p[1], spec(p[2]))
    if k == "ty":
        return "ty:" + p[1]
    raise ValueError(k)


def payload_enc(p):
    """Wire encoding of a payload, or None when it must be refused (16-bit length)."""
    k = p[0]
    if k in INT_WIDTH:
        w = INT_WIDTH[k]
        return (p[1] % (1 << (8 * w))).to_bytes(w, "big")
    if k == "sl":
        return None if len(p[1]) > 65535 else p[1]
    if k == "ad":
        return addr_bytes(p[1])
    if k in ("tv", "pr"):
        return None if len(p[2]) > 65535 else tlv_enc(p[1], p[2])
    if k == "prt":
        return None if len(p[2]) > 65535 else tlv_enc(TYPE_CODES[p[1]], p[2])
    if k == "sec":
        return p[1]
    if k == "seca":
        return p[2]
    if k == "ty":
        return bytes([TYPE_CODES[p[1]]])
    raise ValueError(k)


def rand_int_payload(rng):
    k = rng.choice(list(INT_WIDTH))
    w = INT_WIDTH[k]
    bits = 8 * w
    if k.startswith("u"):
        v = rng.choice([0, 1, (1 << bits) - 1, 1 << (bits - 1), rng.getrandbits(bits), 0x0102030405060708090A0B0C0D0E0F10 % (1 << bits)])
    else:
        v = rng.choice([0, 1, -1, (1 << (bits - 1)) - 1, -(1 << (bits - 1)), rng.getrandbits(bits) - (1 << (bits - 1)), -2])
    return (k, v)


def rand_value(rng, big=False):
    if big:
        n = rng.choice([255, 256, 4000, 65534, 65535, 65536])
    else:
        n = rng.choice([0, 0, 1, 1, 2, 3, 4, 5, 17, 128, 129, 255, 256])
    return rand_bytes(rng, n)


_CODE_NAME = None


def natural_payload(rng):
    """A TLV in the shape the protocol document gives its type (see v2gen.natural_tlv), written
    through one of the four TLV-producing payload kinds."""
    global _CODE_NAME
    from .v2gen import natural_tlv
    if _CODE_NAME is None:
        _CODE_NAME = {v: k for k, v in TYPE_CODES.items()}
    kind, val = natural_tlv(rng)
    c = rng.randrange(3)
    if c == 0 and kind in _CODE_NAME:
        return ("prt", _CODE_NAME[kind], val)
    if c == 1:
        return ("pr", kind, val)
    return ("tv", kind, val)


def rand_payload(rng, big=False):
    c = rng.random()
    if c < 0.20:
        return rand_int_payload(rng)
    if c < 0.27 and not big:
        return natural_payload(rng)
    if c < 0.40:
        return ("sl", rand_value(rng, big))
    if c < 0.50:
        return ("ad", rand_addr(rng))
    if c < 0.65:
        return ("tv", rng.getrandbits(8), rand_value(rng, big))
    if c < 0.75:
        return ("pr", rng.getrandbits(8), rand_value(rng, big))
    if c < 0.82:
        return ("prt", rng.choice(list(TYPE_CODES)), rand_value(rng, big))
    if c < 0.88:
        return ("sec", rand_value(rng, big))
    if c < 0.93:
        from .v2gen import rand_tlvs
        return ("seca", rng.randint(0, 3), rand_tlvs(rng, 60) + rng.choice([b"", b"\x01", b"\x01\x00"]))
    return ("ty", rng.choice(list(TYPE_CODES)))


# ---- programs -------------------------------------------------------------------------------
# program = (ctor, ops)
#   ctor: ("new", vc, afp) | ("with", vc, tr, addr) | ("with4", vc, tr, addr)
#   op:   ("res", n) | ("len", n|None) | ("lenv", n) | ("wp", payload) | ("wpr", payload)
#         | ("wps", [payloads]) | ("tlv", kind|name, bytes)

def program_text(prog):
    ctor, ops = prog
    if ctor[0] == "new":
        parts = ["new:%d:%d" % (ctor[1], ctor[2])]
    else:
        parts = ["%s:%d:%s:%s" % (ctor[0], ctor[1], TR_NAME[ctor[2]], addr_text(ctor[3]))]
    for o in ops:
        k = o[0]
        if k == "res":
            parts.append("res:%d" % o[1])
        elif k == "len":
            parts.append("len:%s" % ("none" if o[1] is None else o[1]))
        elif k == "lenv":
            parts.append("lenv:%d" % o[1])
        elif k in ("wp", "wpr"):
            parts.append("%s:%s" % (k, payload_text(o[1])))
        elif k == "wps":
            body = "+".join(payload_text(p) for p in o[1])
            # the same batch is handed over through different iterator types (exact size hint, lazy
            # `filter` with lower bound 0, single-use `from_fn` with no bounds, a `chain`): the flavour is a
            # function of the text, so no random choice is consumed
            flavour = ("wps", "wpl", "wpf", "wpc")[(len(body) + len(o[1]) + len(parts)) % 4]
            parts.append(flavour + ":" + body)
        elif k == "tlv":
            parts.append("tlv:%s:%s" % (o[1], spec(o[2])))
        else:
            raise ValueError(k)
    return "bld " + ";".join(parts)


def op_payloads(o):
    """The payload encodings a call contributes, in order; None marks a refused value."""
    k = o[0]
    if k in ("wp", "wpr"):
        return [payload_enc(o[1])]
    if k == "wps":
        return [payload_enc(p) for p in o[1]]
    if k == "tlv":
        kind = TYPE_CODES[o[1]] if isinstance(o[1], str) else o[1]
        return [None if len(o[2]) > 65535 else tlv_enc(kind, o[2])]
    return []


def reference(prog):
    """What the property texts require of a *successful* build (C07, C09, C10):
    returns dict(bytes=..., must_fail=bool, must_succeed=bool)."""
    ctor, ops = prog
    if ctor[0] == "new":
        vc, afp, ablock = ctor[1], ctor[2], b""
    else:
        vc, afp, ablock = ctor[1], (addr_family(ctor[3]) << 4) | ctor[2], addr_bytes(ctor[3])
    length_in_force = None
    body = ablock
    refused = False
    for o in ops:
        if o[0] in ("len", "lenv"):
            length_in_force = o[1]
        for enc in op_payloads(o):
            if enc is None:
                refused = True
            else:
                body += enc
    too_long = length_in_force is None and len(body) > 65535
    length = length_in_force if length_in_force is not None else len(body)
    out = None
    if not refused and not too_long:
        out = SIG + bytes([vc, afp]) + (length % 65536).to_bytes(2, "big") + body
    return {"bytes": out, "must_fail": refused or too_long,
            "must_succeed": (not refused) and len(body) <= 65535,
            "explicit": length_in_force is not None, "payload_len": len(body)}


def rand_ctor(rng, valid=False):
    if rng.random() < 0.45:
        if valid:
            return ("new", rng.choice([0x20, 0x21]), rng.choice([0, 1, 2]))
        return ("new", rng.choice([0x20, 0x21, 0x21, rng.getrandbits(8)]), rng.choice([0x00, 0x11, 0x12, 0x21, 0x31, rng.getrandbits(8)]))
    vc = rng.choice([0x20, 0x21]) if valid else rng.choice([0x20, 0x21, 0x21, rng.getrandbits(8)])
    return (rng.choice(["with", "with4"]), vc, rng.choice([0, 1, 2]), rand_addr(rng))


def rand_program(rng, maxops=12, big=False):
    ctor = rand_ctor(rng)
    ops = []
    for _ in range(rng.randint(0, maxops)):
        c = rng.random()
        if c < 0.12:
            ops.append(("res", rng.choice([0, 1, 16, 1000, 70000])))
        elif c < 0.27:
            ops.append(rng.choice([("len", None), ("len", rng.choice([0, 1, 5, 12, 255, 256, 65535, rng.getrandbits(16)])), ("lenv", rng.getrandbits(16))]))
        elif c < 0.62:
            ops.append((rng.choice(["wp", "wp", "wpr"]), rand_payload(rng, big and rng.random() < 0.3)))
        elif c < 0.80:
            ops.append(("wps", [rand_payload(rng, big and rng.random() < 0.2) for _ in range(rng.randint(0, 4))]))
        else:
            kind = rng.choice(list(TYPE_CODES)) if rng.random() < 0.5 else rng.getrandbits(8)
            ops.append(("tlv", kind, rand_value(rng, big and rng.random() < 0.3)))
    return (ctor, ops)


def boundary_programs(rng):
    """Totals steered to 65534 / 65535 / 65536 payload bytes and to the writer guard."""
    progs = []
    for target in (65534, 65535, 65536, 65537):
        for ctor in (("new", 0x21, 0x00), ("with", 0x21, 1, rand_addr(rng, "ipv4")), ("with", 0x20, 2, rand_addr(rng, "unix"))):
            ablock = 0 if ctor[0] == "new" else len(addr_bytes(ctor[3]))
            room = target - ablock
            # one TLV + filler slice
            v1 = min(65535, room - 3)
            ops = [("tlv", "noop", bytes([7]) * v1)]
            rest = room - 3 - v1
            if rest > 0:
                ops.append(("wp", ("sl", bytes([9]) * rest)))
            progs.append((ctor, ops))
            # the same with an explicit length set at different positions
            for pos in range(len(ops) + 1):
                o2 = list(ops)
                o2.insert(pos, ("len", rng.choice([0, 77, 65535])))
                progs.append((ctor, o2))
            # two slices
            a = room // 2
            progs.append((ctor, [("wp", ("sl", bytes([1]) * a)), ("wpr", ("sl", bytes([2]) * (room - a)))]))
            progs.append((ctor, [("wps", [("sl", bytes([1]) * a), ("sec", bytes([2]) * (room - a))])]))
    # writer guard: the buffer may reach 16 + 65535 bytes and one write beyond
    for total in (65535, 65536, 65551, 65552, 65553):
        for explicit in (None, 3):
            ops = []
            if explicit is not None:
                ops.append(("len", explicit))
            left = total
            while left > 0:
                n = min(left, 65535)
                ops.append(("wp", ("sl", bytes([5]) * n)))
                left -= n
            ops.append(("wp", ("u8", 1)))
            ops.append(("wp", ("u16", 2)))
            progs.append((("new", 0x21, 0x11), ops))
            # ... and each remaining payload kind as the write that meets the full writer (a `Type` goes
            # through `write`, everything else through `write_all`)
            for last in (("wp", ("ty", "ssl")), ("wps", [("ty", "alpn"), ("ty", "noop")]), ("wp", ("ad", rand_addr(rng, "ipv4"))),
                         ("tlv", 4, b"xy"), ("wp", ("sec", b"\x04\x00\x00")), ("wp", ("sl", b"")), ("wps", [])):
                progs.append((("new", 0x21, 0x11), ops[:-2] + [last]))
                progs.append((("new", 0x21, 0x11), ops[:-2] + [("wp", ("u8", 1)), last]))
    # oversized single values
    for n in (65535, 65536, 70000):
        v = bytes([3]) * n
        for p in (("sl", v), ("tv", 4, v), ("pr", 4, v), ("prt", "ssl", v), ("sec", v)):
            progs.append((("new", 0x21, 0x00), [("len", 0), ("wp", p)]))
            progs.append((("new", 0x21, 0x00), [("wps", [("u8", 1), p])]))
        progs.append((("new", 0x21, 0x00), [("len", 9), ("tlv", 1, v)]))
    return progs


def length_toggle_programs(rng):
    """Payload totals around and beyond 65535 written while an explicit length is (or is not) in
    force, with the override set / cleared / changed at every position afterwards: the final
    verdict must depend on the override in force at build time only (C09), whatever was in force
    while the bytes were written."""
    progs = []
    ctors = (("new", 0x21, 0x00), ("with", 0x21, 1, rand_addr(rng, "ipv4")), ("with", 0x21, 1, rand_addr(rng, "unspec")))
    for total in (65535, 65536, 65537, 80000, 131072 + 5):
        for ctor in ctors:
            ablock = 0 if ctor[0] == "new" else len(addr_bytes(ctor[3]))
            writes = []
            left = total - ablock
            k = 0
            while left > 0:
                n = min(left, rng.choice([40000, 65535, 30000]))
                kind = k % 3
                if kind == 0 or n < 3:
                    writes.append(("wp", ("sl", bytes([0x41 + k]) * n)))
                elif kind == 1:
                    writes.append(("tlv", 0x20 + k, bytes([0x41 + k]) * (n - 3)))
                else:
                    writes.append(("wps", [("sl", bytes([0x41 + k]) * (n // 2)), ("sec", bytes([0x61 + k]) * (n - n // 2))]))
                left -= n
                k += 1
            for first in (("len", 12), ("len", 0), ("len", 65535)):
                for pos in range(1, len(writes) + 1):
                    for last in (("len", None), ("len", 9), None):
                        ops = [first] + writes[:pos] + ([last] if last else []) + writes[pos:]
                        progs.append((ctor, ops))
                        if last and pos < len(writes):
                            progs.append((ctor, ops + [("len", None)]))
                            progs.append((ctor, ops + [("len", 3)]))
            # the same payloads as ONE batch, and as batches of two (items within their own limits, the
            # batch as a whole beyond 65535 bytes): a batch is its items written in order, nothing else
            singles = []
            for w in writes:
                if w[0] == "wp":
                    singles.append(w[1])
                elif w[0] == "wps":
                    singles.extend(w[1])
            if len(singles) >= 2:
                for first in (("len", 12), ("len", None)):
                    progs.append((ctor, [first, ("wps", singles)]))
                    progs.append((ctor, [first] + [("wp", p_) for p_ in singles]))
                    progs.append((ctor, [first, ("wps", singles[:2])] + [("wp", p_) for p_ in singles[2:]]))
                    progs.append((ctor, [first, ("wp", singles[0]), ("wps", singles[1:])]))
                    progs.append((ctor, [first, ("wp", singles[0]), ("wps", singles[1:]), ("len", None)]))
            # override first supplied after the overshoot
            progs.append((ctor, writes + [("len", 77)]))
            progs.append((ctor, writes + [("len", 77), ("len", None)]))
            progs.append((ctor, [("len", None)] + writes))
    return progs


def big_batch_groups(rng):
    """Groups of programs that write the same payloads one at a time (first program) or in batches
    of every shape, with totals beyond 65535 bytes under an explicit length (the only way such a
    header can be built) and within it: "whether payloads are written one at a time or as a batch
    has no effect on the output" - nor on whether there is one."""
    groups = []
    ctors = (("new", 0x21, 0x00), ("with", 0x21, 1, rand_addr(rng, "ipv4")))
    item_sets = [
        [("sl", bytes([0x41]) * 40000), ("sl", bytes([0x42]) * 40000)],
        [("pr", 0xE0, bytes([0x43]) * 33000), ("pr", 0xE1, bytes([0x44]) * 33000)],
        [("sl", bytes([0x45]) * 65535), ("u8", 7)],
        [("sl", bytes([0x46]) * 30000), ("tv", 4, bytes([0x47]) * 30000), ("sec", bytes([0x48]) * 10000)],
        [("sl", bytes([0x49]) * 65535), ("sl", bytes([0x4A]) * 20), ("u16", 9)],
        [("sl", bytes([0x4B]) * 30000), ("sl", bytes([0x4C]) * 30000)],
    ]
    for ctor in ctors:
        for items in item_sets:
            for first in (("len", 12), ("len", None)):
                g = [(ctor, [first] + [("wp", p_) for p_ in items])]
                g.append((ctor, [first, ("wps", items)]))
                g.append((ctor, [first, ("wp", items[0]), ("wps", items[1:])]))
                g.append((ctor, [first, ("wps", items[:1]), ("wps", items[1:])]))
                g.append((ctor, [first, ("wps", items[:-1]), ("wp", items[-1])]))
                g.append((ctor, [first, ("res", 100)] + [("wpr", p_) for p_ in items]))
                groups.append(g)
    return groups


def set_length_everywhere(rng, n):
    """A program with ≥ 1 write and a set_length inserted at every position (C09)."""
    progs = []
    for _ in range(n):
        ctor, ops = rand_program(rng, maxops=5)
        ops = [o for o in ops if o[0] not in ("len", "lenv")]
        if not any(o[0] in ("wp", "wpr", "wps", "tlv") for o in ops):
            ops.append(("wp", rand_int_payload(rng)))
        for pos in range(len(ops) + 1):
            for val in (None, rng.choice([0, 5, 300, 65535])):
                o2 = list(ops)
                o2.insert(pos, ("len", val))
                if rng.random() < 0.3:
                    o2.insert(rng.randint(0, len(o2)), ("len", rng.choice([None, 1, 2])))
                progs.append((ctor, o2))
    return progs


def metamorphic_variants(rng, prog):
    """Programs that must build the same bytes (C10): reservations removed, batches unrolled,
    TLV struct <-> pair, by-value <-> by-reference."""
    ctor, ops = prog
    out = []
    out.append((ctor, [o for o in ops if o[0] != "res"]))
    unrolled = []
    for o in ops:
        if o[0] == "wps":
            unrolled.extend(("wp", p) for p in o[1])
        else:
            unrolled.append(o)
    out.append((ctor, unrolled))
    swapped = []
    for o in ops:
        if o[0] in ("wp", "wpr") and o[1][0] == "tv":
            swapped.append(("wpr" if o[0] == "wp" else "wp", ("pr", o[1][1], o[1][2])))
        elif o[0] == "tlv" and not isinstance(o[1], str):
            swapped.append(("wp", ("tv", o[1], o[2])))
        elif o[0] == "tlv":
            swapped.append(("wp", ("prt", o[1], o[2])))
        else:
            swapped.append(o)
    out.append((ctor, swapped))
    batched = []
    run = []
    for o in ops:
        if o[0] in ("wp", "wpr"):
            run.append(o[1])
        else:
            if run:
                batched.append(("wps", run))
                run = []
            batched.append(o)
    if run:
        batched.append(("wps", run))
    out.append((ctor, batched))
    withres = []
    for o in ops:
        if rng.random() < 0.4:
            withres.append(("res", rng.choice([0, 3, 4096])))
        withres.append(o)
    out.append((ctor, withres))
    return out


def wire_programs(rng, n):
    """C07 shape: valid control bytes, an address value, a list of TLVs within the size limit."""
    progs = []
    for i in range(n):
        addr = rand_addr(rng)
        ctor = (rng.choice(["with", "with4"]), rng.choice([0x20, 0x21]), rng.choice([0, 1, 2]), addr)
        room = 65535 - len(addr_bytes(addr))
        tl = []
        exact = i % 97 == 96
        count = rng.randint(0, 6)
        for j in range(count):
            if room < 3:
                break
            if exact and j == count - 1:
                ln = min(room - 3, 65535)
            else:
                ln = min(rng.choice([0, 1, 2, 5, 255, 256, 300]), room - 3)
            kind = rng.choice(list(TYPE_CODES)) if rng.random() < 0.5 else rng.getrandbits(8)
            val = rand_bytes(rng, ln)
            if not (exact and j == count - 1) and rng.random() < 0.35:
                # the type's own shape (CRC32C with 4 bytes, unique id around 128 bytes, SSL sub-TLVs ...)
                from .v2gen import natural_tlv
                k2, v2 = natural_tlv(rng)
                if len(v2) <= room - 3:
                    names = {v: k for k, v in TYPE_CODES.items()}
                    kind, val = (names[k2] if (k2 in names and rng.random() < 0.5) else k2), v2
                    ln = len(val)
            tl.append((kind, val))
            room -= 3 + ln
        ops = []
        for kind, v in tl:
            style = rng.random()
            if style < 0.5:
                ops.append(("tlv", kind, v))
            elif isinstance(kind, str):
                ops.append(("wp", ("prt", kind, v)))
            elif style < 0.75:
                ops.append(("wp", ("tv", kind, v)))
            else:
                ops.append(("wpr", ("pr", kind, v)))
        progs.append(((ctor, ops), tl))
    return progs


def small_exhaustive(maxlen=4):
    """Every call sequence up to `maxlen` over a small alphabet that includes the zero-byte writes
    (empty slice, empty batch, unspecified addresses, empty section) and length changes: the
    order-dependent corners of C09 / C10 live here."""
    import itertools
    alphabet = [("len", None), ("len", 0), ("len", 7), ("wp", ("sl", b"")), ("wps", []), ("wp", ("ad", ("unspec",))),
                ("wp", ("sec", b"")), ("wp", ("u8", 1)), ("res", 1), ("tlv", 4, b"")]
    ctors = [("new", 0x21, 0x00), ("new", 0x21, 0x11), ("with", 0x21, 1, ("unspec",)),
             ("with", 0x20, 2, ("ipv4", bytes([1, 2, 3, 4]), bytes([5, 6, 7, 8]), 80, 443))]
    progs = []
    for n in range(0, maxlen + 1):
        for combo in itertools.product(alphabet, repeat=n):
            for c in ctors:
                progs.append((c, list(combo)))
    return progs


def near_limit_wire_programs(rng):
    """C07 shape with the running total reaching the last 16 bytes below 65535 before further writes."""
    out = []
    for addr in (rand_addr(rng, "unspec"), rand_addr(rng, "ipv4"), rand_addr(rng, "ipv6"), rand_addr(rng, "unix")):
        room = 65535 - len(addr_bytes(addr))
        for slack in (0, 1, 3, 6, 12, 15, 16, 17, 40):
            tail = []
            left = slack
            while left >= 3:
                ln = min(left - 3, rng.choice([0, 1, 2]))
                tail.append((rng.choice(list(TYPE_CODES)), rand_bytes(rng, ln)))
                left -= 3 + ln
            first_len = room - 3 - (slack - left)
            if first_len < 0 or first_len > 65535:
                continue
            tl = [(rng.getrandbits(8), bytes([0x5A]) * first_len)] + tail
            ctor = ("with", rng.choice([0x20, 0x21]), rng.choice([0, 1, 2]), addr)
            ops = [("tlv", k, v) if not isinstance(k, str) else ("wp", ("prt", k, v)) for k, v in tl]
            out.append(((ctor, ops), tl))
    return out


def reserve_past_limit_groups():
    """Capacity reservations issued at every buffer size around and beyond the writer's limit
    (65551 bytes), reachable with two ordinary writes under an explicit length: each group is the
    program without reservations followed by the same program with `reserve_capacity(n)` before,
    between and after the writes. A reservation has no effect on the output (C10) - in particular
    it does not panic on arithmetic that assumes the buffer is within the limit. The second list
    holds programs that write once more after the late reservation. No random choices."""
    groups, singles = [], []
    v4 = ("ipv4", bytes([1, 2, 3, 4]), bytes([5, 6, 7, 8]), 1, 2)
    for ctor, ablock in ((("new", 0x21, 0x00), 0), (("with", 0x21, 1, v4), 12)):
        for total in (65534, 65535, 65536, 65537, 66000, 70000):
            a = 60000
            b = total - ablock - a
            w1, w2 = ("wp", ("sl", b"r" * a)), ("wp", ("sl", b"s" * b))
            base = [("len", 12), w1, w2]
            g = [(ctor, base)]
            for n in (0, 1, 16, 65535, 70000):
                g.append((ctor, base + [("res", n)]))
                g.append((ctor, [("res", n)] + base + [("res", n)]))
                g.append((ctor, [("len", 12), w1, ("res", n), w2]))
                singles.append((ctor, base + [("res", n), ("wp", ("u8", 7))]))
            groups.append(g)
    return groups, singles
