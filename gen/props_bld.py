"""Properties about the builder and the writer: C07 C09 C10 C13 C20."""
from . import common as C
from . import v2gen as G
from . import bldgen as BG
from .engine import Prop, Violation
from .props_v2 import op_bytes, tlv_items_of


def bld_result(line):
    if line.startswith("ok "):
        return ("ok", C.unhex(line[3:]))
    if line.startswith("err@"):
        return ("err", int(line[4:]))
    return (line, None)


class _BldProp(Prop):
    """Programs are generated as python structures; the op text and the reference are derived."""

    def programs(self, tier, rng):
        return []

    def gen(self, tier, rng):
        self._progs = self.programs(tier, rng)
        return [BG.program_text(p) for p in self._progs]


class C09(_BldProp):
    id = "C09"
    required = ["C09.length_field", "C09.overflow_fails", "C09.oversized_value_fails", "C09.oversized_call_fails", "C09.overflow_fails_direct", "C09.build_only_failure"]
    rule = ("random builder programs, set_length inserted at every position of programs with >= 1 write, totals steered to 65534..65537 and "
            "to the writer guard; non-trivial = distinct programs with >= 1 write and a set_length not in first position, or payload total within 1 of 65535"
            " Also: totals 65535..131077 written under every explicit length with the override cleared / changed / first supplied at every later position; each payload kind (Type included) as the write that meets the full writer; batches through four iterator types.")

    def programs(self, tier, rng):
        n = 1500 if tier == "quick" else 30000
        progs = BG.set_length_everywhere(rng, n // 5)
        progs += [BG.rand_program(rng, maxops=10) for _ in range(n)]
        progs += BG.boundary_programs(rng)
        progs += BG.length_toggle_programs(rng)
        for g in BG.big_batch_groups(rng):
            progs.extend(g)
        progs += BG.small_exhaustive(3 if tier == "quick" else 4)
        if tier == "thorough":
            progs += [BG.rand_program(rng, maxops=8, big=True) for _ in range(3000)]
        return progs

    def project(self, op, line):
        k, v = bld_result(line)
        # C09 speaks about builds that succeed; the failures it requires are checked by the relation.
        # Whether some *other* sequence fails is not pinned here (success is pinned by C07 / C13 / C20).
        if k == "ok":
            # with an explicit length in force C09 pins the field only; how many bytes follow the
            # fixed part is C10's subject (a build that pads to the announced length breaks C10, not C09)
            lens = [t for t in op.split(";")[1:] if t.startswith("len")]
            explicit = bool(lens) and lens[-1] != "len:none"
            return ("ok", v[14:16].hex(), None if explicit else len(v))
        return "panic" if str(k).startswith(("panic", "crash")) else None

    def relation(self, ops, impl):
        out = []
        for op, il, prog in zip(ops, impl, self._progs):
            ref = BG.reference(prog)
            k, v = bld_result(il)
            if k == "ok":
                if len(v) < 16:
                    out.append(Violation("relation", op, il[:200], None, "output shorter than the fixed part"))
                    continue
                field = v[14] * 256 + v[15]
                want = None
                for o in prog[1]:
                    if o[0] in ("len", "lenv"):
                        want = o[1]
                if want is None:
                    want = len(v) - 16
                    if want > 65535:
                        out.append(Violation("relation", op, il[:200], None, "payload of %d bytes built without an explicit length" % want))
                        continue
                if field != want:
                    out.append(Violation("relation", op, il[:200], None, "length field is %d, explicit length in force / actual payload is %d" % (field, want)))
                if ref["must_fail"]:
                    out.append(Violation("relation", op, il[:200], None, "must fail: oversized value or payload > 65535 without explicit length"))
            elif k == "err":
                pass
            else:
                out.append(Violation("relation", op, il[:200], None, "unexpected result"))
        return out

    def nontrivial(self, op, line):
        toks = op.split(";")[1:]
        writes = [i for i, t in enumerate(toks) if t.startswith(("wp", "tlv"))]
        lens = [i for i, t in enumerate(toks) if t.startswith("len")]
        if writes and any(i > 0 for i in lens):
            return hash(op)
        return None


class C10(_BldProp):
    id = "C10"
    required = ["C10.output_is_reference", "C10.reserve_irrelevant", "C10.batch_irrelevant", "C10.tlv_pair_same"]
    rule = ("random programs each followed by 5 metamorphic variants (reservations removed/added, batches unrolled/rolled, TLV struct<->pair); "
            "non-trivial = distinct programs mixing >= 3 payload kinds."
            " Also: reserve_capacity(0 / 1 / 16 / 65535 / 70000) before, between and after two writes that take the buffer to 65534 .. 70000 bytes under an explicit length.")

    def programs(self, tier, rng):
        n = 1200 if tier == "quick" else 25000
        progs = []
        self._groups = []
        for _ in range(n):
            p = BG.rand_program(rng, maxops=10)
            start = len(progs)
            progs.append(p)
            progs.extend(BG.metamorphic_variants(rng, p))
            self._groups.append((start, len(progs)))
        for g in BG.big_batch_groups(rng):
            start = len(progs)
            progs.extend(g)
            self._groups.append((start, len(progs)))
        progs += BG.boundary_programs(rng)
        progs += BG.length_toggle_programs(rng)
        progs += BG.small_exhaustive(3 if tier == "quick" else 4)
        rgroups, rsingles = BG.reserve_past_limit_groups()
        for g in rgroups:
            start = len(progs)
            progs.extend(g)
            self._groups.append((start, len(progs)))
        progs += rsingles
        return progs

    def project(self, op, line):
        k, v = bld_result(line)
        # "for every sequence of builder calls that succeeds": a failing sequence is out of domain
        if k == "ok":
            return ("ok", v.hex())
        return "panic" if str(k).startswith(("panic", "crash")) else None

    def relation(self, ops, impl):
        out = []
        for op, il, prog in zip(ops, impl, self._progs):
            ref = BG.reference(prog)
            k, v = bld_result(il)
            if k == "ok":
                if ref["bytes"] is None:
                    out.append(Violation("relation", op, il[:200], None, "reference encoder refuses this program"))
                elif v[:14] != ref["bytes"][:14] or v[16:] != ref["bytes"][16:]:
                    out.append(Violation("relation", op, il[:200], None, "built bytes differ from signature + control + address block + payload encodings in call order"))
            elif k != "err":
                out.append(Violation("relation", op, il[:200], None, "unexpected result"))
        for a, b in self._groups:
            base = bld_result(impl[a])
            for j in range(a + 1, b):
                r = bld_result(impl[j])
                if (r[0] == "ok") != (base[0] == "ok") or (r[0] == "ok" and r[1] != base[1]):
                    out.append(Violation("relation", [ops[a], ops[j]], [impl[a][:200], impl[j][:200]], None,
                                         "capacity reservations / batching / TLV form changed the output"))
        return out

    def nontrivial(self, op, line):
        kinds = set()
        for t in op.split(";")[1:]:
            if t.startswith(("wp:", "wpr:")):
                kinds.add(t.split(":")[1])
            elif t.startswith("wps:"):
                for p in t[4:].split("+"):
                    if p:
                        kinds.add(p.split(":")[0])
            elif t.startswith("tlv:"):
                kinds.add("tlv")
        return hash(op) if len(kinds) >= 3 else None


class C07(_BldProp):
    id = "C07"
    required = ["C07.build_is_encoding", "C07.parses_back", "C07.tlvs_back", "C07.type_codes", "C07.roundtrip", "C07.named_type_codes_on_bytes"]
    rule = ("programs of the C07 shape: valid control, any address value, TLV lists within 65535 (incl. totals of exactly 65535), each followed "
            "by parsing the built bytes; plus the code table; non-trivial = distinct programs with >= 2 TLVs of different types or a value > 255 bytes")

    def programs(self, tier, rng):
        n = 1500 if tier == "quick" else 40000
        self._wire = BG.wire_programs(rng, n) + BG.near_limit_wire_programs(rng)
        return [p for p, _ in self._wire]

    def gen(self, tier, rng):
        ops = super().gen(tier, rng)
        # the parse-back of what the reference says must be built
        self._nprog = len(ops)
        for (prog, tl) in self._wire:
            ref = BG.reference(prog)
            ops.append("v2 " + G.spec(ref["bytes"]) if ref["bytes"] is not None else "tlv -")
        ops.append("tbl")
        return ops

    def project(self, op, line):
        if op.startswith("bld"):
            k, v = bld_result(line)
            return ("ok", v.hex()) if k == "ok" else ("err",)
        if op.startswith("v2"):
            h, kv = C.fields(line)
            if not h.startswith("ok"):
                return ("reject",)
            t = tlv_items_of(line)
            return ("ok", kv.get("hdr"), kv.get("cmd"), kv.get("tr"), kv.get("addr"), tuple(t[0]) if t else None)
        if op == "tbl":
            d = dict(e.split("=", 1) for e in line.split(";") if "=" in e)
            return tuple(sorted((k, v) for k, v in d.items() if k.startswith(("ver.", "cmd.", "vc.", "fam.", "afp.", "tr.", "type.", "v2."))))
        return None

    TYPE_TABLE = BG.TYPE_CODES

    def relation(self, ops, impl):
        out = []
        for i, (prog, tl) in enumerate(self._wire):
            ref = BG.reference(prog)
            op, il = ops[i], impl[i]
            k, v = bld_result(il)
            if ref["must_succeed"] and (k != "ok" or v != ref["bytes"]):
                out.append(Violation("relation", op, il[:200], None, "built bytes are not the wire encoding"))
                continue
            # parse back
            pl = impl[self._nprog + i]
            h, kv = C.fields(pl)
            if not h.startswith("ok"):
                out.append(Violation("relation", [op, ops[self._nprog + i]], pl[:200], None, "built header does not parse"))
                continue
            ctor = prog[0]
            want_addr = BG.addr_text(ctor[3]) if ctor[3][0] != "unix" else "unix/%s/%s" % (ctor[3][1].hex(), ctor[3][2].hex())
            if kv["hdr"] != C.hexs(ref["bytes"]) or kv["cmd"] != G.CMD_NAME[ctor[1] & 15] or kv["tr"] != G.TR_NAME[ctor[2]] or kv["addr"] != want_addr:
                out.append(Violation("relation", [op, ops[self._nprog + i]], pl[:300], None, "parsed command / transport / addresses / bytes differ from what was built"))
            if ctor[3][0] != "unspec":
                items, _ = tlv_items_of(pl)
                want = ["%d:%s" % (BG.TYPE_CODES[k] if isinstance(k, str) else k, C.hexs(v)) for k, v in tl]
                if items != want:
                    out.append(Violation("relation", [op, ops[self._nprog + i]], pl[:300], None, "TLV sequence not preserved"))
        # registered codes
        tbl = impl[-1]
        d = dict(e.split("=", 1) for e in tbl.split(";") if "=" in e)
        for name, code in BG.TYPE_CODES.items():
            if d.get("type." + name) != "%d/%d" % (code, code):
                out.append(Violation("relation", "tbl", tbl[:200], None, "TLV type %s does not carry its registered code %d" % (name, code)))
        want_tbl = {"ver.two": "32", "cmd.local": "0", "cmd.proxy": "1", "vc.local": "32/32", "vc.proxy": "33/33",
                    "tr.unspec": "0", "tr.stream": "1", "tr.dgram": "2", "fam.unspec": "0/none/0", "fam.ipv4": "16/12/12",
                    "fam.ipv6": "32/36/36", "fam.unix": "48/216/216", "v2.prefix": G.SIG.hex()}
        for k, v in want_tbl.items():
            if d.get(k) != v:
                out.append(Violation("relation", "tbl", tbl[:200], None, "code table entry %s is %s, protocol says %s" % (k, d.get(k), v)))
        return out

    def nontrivial(self, op, line):
        if not op.startswith("bld"):
            return None
        tl = [t for t in op.split(";")[1:] if t.startswith(("tlv:", "wp:tv", "wp:pr", "wpr:pr"))]
        kinds = set(t.split(":")[1] if t.startswith("tlv") else t.split(":")[2] for t in tl)
        if len(kinds) >= 2 or "r" in op.split(";", 1)[-1] and len(line) > 600:
            return hash(op)
        return None


class C13(Prop):
    id = "C13"
    required = ["C13.rebuild_raw", "C13.rebuild_items", "C13.rebuild_from_addresses", "C13.augment"]
    rule = ("every generated accepted header (all valid control pairs, every family, well-formed / malformed / empty sections, payloads to 65535) "
            "rebuilt four ways through the real views and builder; non-trivial = distinct (family, section shape) with a non-empty section"
            " Also: the decoded parts re-emitted with one more TLV and parsed back (augment).")

    def gen(self, tier, rng):
        n = 4000 if tier == "quick" else 100000
        ops = ["rb " + G.spec(h + (b"" if i % 4 else b"\x00tail")) for i, h in enumerate(G.gen_valid_headers(rng, n))]
        for vc in G.VALID_VC:
            for afp in G.VALID_AFP:
                size = G.FAM_SIZE[afp >> 4]
                for extra in (0, 3, 65535 - size):
                    ops.append("rb " + G.spec(G.header(vc, afp, size + extra, G.rand_bytes(rng, size) + (G.tlv_enc(4, bytes(extra - 3)) if extra >= 3 else b""))))
        return ops

    def project(self, op, line):
        if line.startswith("panic") or line == "crash":
            return "panic"
        if line == "nohdr":
            return None
        _, kv = C.fields(line)
        aug = kv.get("aug")
        # "big" (the augmented header no longer fits) is whatever the size limits say (C09 / C20 pin those)
        return (kv.get("raw"), kv.get("sec"), kv.get("items"), kv.get("addr"), kv.get("braw"), kv.get("baddr"), aug if aug in ("eq", "na", "big") else "diff")

    def relation(self, ops, impl):
        out = []
        for op, il in zip(ops, impl):
            if il == "nohdr":
                x = op_bytes(op)
                if G.parse_oracle(x)[0] == "ok":
                    out.append(Violation("relation", op, il, None, "generated header was not accepted"))
                continue
            _, kv = C.fields(il)
            hdr = C.unhex(kv.get("hdr", "-"))
            fam = hdr[13] >> 4 if len(hdr) > 13 else -1
            size = G.FAM_SIZE.get(fam, 0)
            sec = hdr[16 + size:] if fam != 0 else b""
            wf = not any(i.startswith("!") for i in G.tlv_walk_oracle(sec))
            problems = []
            if kv.get("raw") != "eq" or kv.get("sec") != "eq" or kv.get("braw") != "eq":
                problems.append("raw re-encoding")
            if wf and kv.get("items") != "eq":
                problems.append("re-encoding from decoded items")
            if fam != 0 and (kv.get("addr") != "eq" or (wf and kv.get("baddr") != "eq")):
                problems.append("rebuilding from the decoded address value")
            if fam != 0 and wf and len(hdr) - 16 + 5 <= 65535 and kv.get("aug") != "eq":
                problems.append("decoded parts + one more TLV do not parse back to the same endpoints and old items ++ [new] (C13.augment)")
            if problems:
                out.append(Violation("relation", op, il[:400], None, "does not reproduce the header: " + ", ".join(problems)))
        return out

    def nontrivial(self, op, line):
        if line == "nohdr":
            return None
        _, kv = C.fields(line)
        hdr = kv.get("hdr", "-")
        if len(hdr) <= 2 * 16:
            return None
        return (hdr[24:28], kv.get("items") == "na", min(len(hdr), 400) // 40)


class C20(Prop):
    id = "C20"
    required = ["C20.write_appends_encoding", "C20.to_bytes", "C20.int_big_endian", "C20.tlv_pair_same", "C20.oversize_refused", "C20.success_condition", "C20.int_signed", "C20.width_table", "C20.partial_write_exact", "C20.sequence_sizes"]
    rule = ("every integer width at min/max/random, every address kind, TLVs with lengths {0,1,255,256,65535,65536}, sections and slices, "
            "written into writers pre-filled with {0,1,16,65535,65549..65553} bytes; non-trivial = distinct (payload kind, size class, prefill class)"
            " Results of writes that would carry the writer past 65551 bytes are not compared with the model (unpinned); a reported success must have appended the whole encoding. Follow-ups into the same writer: one more byte (after=) and the same value a second time (again=: same size returned, same bytes appended).")

    PREFILLS = [0, 1, 16, 300, 65535, 65549, 65550, 65551, 65552, 65553]

    def gen(self, tier, rng):
        ops = []
        self._pl = []

        self._unpinned = set()

        def add(pre, p):
            self._pl.append((pre, p))
            op = "wr %s %s" % (G.spec(pre), BG.payload_text(p))
            ops.append(op)
            enc = BG.payload_enc(p)
            # C20 pins success (with the exact bytes) while the result still fits a full-size header,
            # and the refusal of oversized values. Whether a write that would carry the writer past
            # 65551 bytes succeeds as a whole, or fails part-way (as the current tree does for values
            # written in several pieces), is not pinned: only that a success appends exactly the
            # encoding (relation below).
            if enc is not None and len(pre) + len(enc) > 65551:
                self._unpinned.add(op)

        pre_small = lambda: G.rand_bytes(rng, rng.choice([0, 1, 16, 40]))
        # integers: all widths at min / max / patterns
        for k, w in BG.INT_WIDTH.items():
            bits = 8 * w
            vals = [0, 1, (1 << bits) - 1, 1 << (bits - 1), int.from_bytes(bytes(range(1, w + 1)), "big")] if k.startswith("u") else \
                   [0, 1, -1, (1 << (bits - 1)) - 1, -(1 << (bits - 1)), -int.from_bytes(bytes(range(1, w + 1)), "big") // 2]
            for v in vals:
                add(pre_small(), (k, v))
            for _ in range(20 if tier == "quick" else 500):
                add(pre_small(), BG.rand_int_payload(rng))
        for name in BG.TYPE_CODES:
            add(pre_small(), ("ty", name))
            add(bytes(65552), ("ty", name))
        for kind in ("unspec", "ipv4", "ipv6", "unix"):
            for _ in range(10 if tier == "quick" else 300):
                add(pre_small(), ("ad", BG.rand_addr(rng, kind)))
        for ln in (0, 1, 2, 255, 256, 65535, 65536):
            v = G.rand_bytes(rng, ln)
            for p in (("sl", v), ("tv", rng.getrandbits(8), v), ("pr", rng.getrandbits(8), v), ("prt", rng.choice(list(BG.TYPE_CODES)), v), ("sec", v)):
                for pre in (0, 1, 16):
                    add(G.rand_bytes(rng, pre), p)
        # the size guard
        for pre in self.PREFILLS:
            base = bytes([0x77]) * pre
            for p in (("u8", 9), ("u64", 1), ("sl", b""), ("sl", b"ab"), ("tv", 4, b""), ("tv", 4, b"xyz"), ("pr", 4, b"xyz"), ("sec", b""), ("sec", b"abc"),
                      ("ad", BG.rand_addr(rng, "ipv4")), ("ad", ("unspec",)), ("ty", "ssl"), ("tv", 4, bytes(65535)), ("sl", bytes(65535)),
                      ("seca", 1, b"\x04\x00\x01\x2a\x05\x00\x00"), ("seca", 5, b"\x04\x00\x01\x2a\x05\x00\x00\x09")):
                add(base, p)
        # the size guard *between* the pieces one value is written in (address fields, type / length / value):
        # every start offset, so that the guard trips before each piece in turn
        for p in (("ad", BG.rand_addr(rng, "ipv4")), ("ad", BG.rand_addr(rng, "ipv6")), ("ad", BG.rand_addr(rng, "unix")),
                  ("tv", 4, b""), ("tv", 4, b"xyz"), ("pr", 4, b""), ("pr", 4, b"xyz"), ("prt", "ssl", b""), ("prt", "ssl", b"ab"),
                  ("sec", b"abc"), ("u32", 7)):
            total = len(BG.payload_enc(p))
            for start in range(65551 - total, 65554):
                add(bytes([0x77]) * start, p)
        for _ in range(1500 if tier == "quick" else 60000):
            add(pre_small(), BG.rand_payload(rng))
        return ops

    def project(self, op, line):
        if op in getattr(self, "_unpinned", ()) and line.startswith("ret="):
            _, kv = C.fields(line)
            return ("past-limit", kv.get("pre"), kv.get("tb"), kv.get("ref"))
        # the follow-up write (`after=`) is judged by the relation only: whether it may cross the
        # limit is not pinned
        return line.rsplit(" after=", 1)[0] if line.startswith("ret=") else line[:40]

    def relation(self, ops, impl):
        out = []
        for op, il, (pre, p) in zip(ops, impl, self._pl):
            _, kv = C.fields(il)
            enc = BG.payload_enc(p)
            ret, app, tb = kv.get("ret", ""), kv.get("app"), kv.get("tb")
            problems = []
            if kv.get("pre") != "1":
                problems.append("existing writer content changed")
            if kv.get("ref") != "1":
                problems.append("by-reference impl differs")
            if enc is None:
                if ret != "err" or app != "-" or tb != "err":
                    problems.append("oversized value must be refused without writing anything")
            else:
                if ret.startswith("ok:"):
                    if app != C.hexs(enc) or int(ret[3:]) != len(enc):
                        problems.append("appended bytes / returned size are not the wire encoding")
                elif len(pre) + len(enc) <= 65551:
                    problems.append("write below the size limit failed")
                if len(enc) <= 65552 and tb != C.hexs(enc):
                    problems.append("to_bytes differs from the encoding")
            # the writer used again: below its limit it must accept one more byte, whether the first
            # value was refused (nothing written) or appended
            grown = len(pre) + (len(enc) if enc is not None and ret.startswith("ok:") else 0)
            if kv.get("after") == "odd" or (kv.get("after") == "err" and (enc is None or ret.startswith("ok:")) and grown + 1 <= 65551):
                problems.append("a later write into the same writer, still below its size limit, does not append its byte (after=%s)" % kv.get("after"))
            # the same value written twice into one writer: the second call returns its own size
            # and appends the same bytes again; below the limit it may not fail
            ag = kv.get("again")
            if enc is None:
                bad = ag != "ref"
            else:
                # judged only where both writes stay below the writer's limit (past it, whether and
                # how much a crossing value appends is not pinned)
                bad = len(pre) + 2 * len(enc) <= 65551 and ag != "ok"
            if bad:
                problems.append("the value written a second time into the same writer: returned size / appended bytes differ from the first write (again=%s)" % ag)
            if problems:
                out.append(Violation("relation", op[:300], il[:300], None, "; ".join(problems)))
        return out

    def nontrivial(self, op, line):
        parts = op.split(" ")
        kind = parts[2].split(":")[0]
        pre = parts[1]
        return (kind, len(line) // 50, pre[:6])
