"""Properties about the text parser, auto-detection, formatting and constructors:
C01 C03 C04 C05 C06 C08 C12 C15 C16 C18 C19."""
import os

from . import common as C
from . import v1gen as V
from . import v2gen as G
from . import bldgen as BG
from .engine import Prop, Violation
from .props_v2 import op_bytes


def res1(part):
    """One v1 result ('ok ...' / 'err X ...' / 'panic') -> dict."""
    part = part.strip()
    if part.startswith("panic") or part == "crash":
        return {"k": "panic"}
    h, kv = C.fields(part)
    if h.startswith("ok"):
        d = {"k": "ok"}
        d.update(kv)
        return d
    if h.startswith("err"):
        name = h.split(" ")[1] if " " in h else "?"
        d = {"k": "err", "variant": name, "base": name.split("/")[0]}
        d.update(kv)
        return d
    return {"k": part}


def cls(r):
    if r["k"] == "ok":
        return "ok"
    if r["k"] == "err":
        return "inc" if r.get("inc") == "1" else "term"
    return r["k"]


def okview(r):
    return (r.get("hdr"), r.get("addr")) if r["k"] == "ok" else None


def auto_res(line):
    """auto line -> (tag, inner result dict, ainc, acomp)"""
    if line.startswith("panic") or line == "crash":
        return ("panic", {"k": "panic"}, None, None)
    tag, _, rest = line.partition(" ")
    r = res1(rest) if rest else {"k": "unreadable"}
    return (tag, r, r.get("ainc"), r.get("acomp"))


def is_ascii(b):
    return all(x < 0x80 for x in b)


def v1_inputs(rng, tier, k=None):
    """The common pool of v1 inputs: valid lines, trailers, mutations, endings, prefixes, tokens."""
    n = 160 if tier == "quick" else 4000
    lines = V.valid_lines(rng, n)
    pool = []
    for l in lines:
        pool.append(l)
        pool.append(l + rng.choice(V.TRAILERS))
    for l in lines[: (60 if tier == "quick" else 1500)]:
        for _, m in V.mutations(rng, l):
            pool.append(m)
    for l in lines[: (40 if tier == "quick" else 600)]:
        for c in range(len(l)):
            pool.append(l[:c])
    for e in V.LINE_ENDINGS:
        for body in (b"PROXY UNKNOWN", b"PROXY UNKNOWN x y", b"PROXY TCP4 1.1.1.1 2.2.2.2 1 2", b"PROXY", b"PROXY TCP4", b"PROXY TCP6 ::1 ::2 3"):
            pool.append(body + e)
    kk = k if k is not None else (3 if tier == "quick" else 5)
    pool.extend(V.token_strings(kk))
    # characters whose scalar value has the low byte of CR / LF / SP / 'P' (char-to-u8 truncation),
    # and whose encodings contain 0x8D / 0x8A / 0xA0 continuation bytes
    odd = ["\u010d", "\u020d", "\u0d0d", "\U0001f60d", "\u0120", "\u2020", "\u010a", "\u0150", "\u00a0", "\u008d"]
    for ch in odd:
        c = ch.encode("utf-8")
        for body in (b"PROXY UNKNOWN ", b"PROXY UNKNOWN", b"", b"PROXY TCP4 1.1.1.1 2.2.2.2 1 2", b"PROXY "):
            pool += [body + c + b"\r\n", body + c + b"au\r\nrest", body + b"\r" + c, c + body + b"\r\n", body + c, body + c + c + b"\r\n" + c]
    # every alignment of 2-, 3- and 4-byte characters across offsets 100..112 (scan / window limits)
    for ch in (b"\xc3\xa9", b"\xe2\x82\xac", b"\xf0\x9f\x98\x80"):
        for shift in range(0, 5):
            tail_ = b"a" * shift + ch * (1 + 120 // len(ch))
            for head_ in (b"PROXY UNKNOWN\r\n", b"PROXY TCP4 1.2.3.4 5.6.7.8 1 2\r\n", b"PROXY UNKNOWN ", b"", b"PROXY UNKNOWN \r"):
                pool.append(head_ + tail_)
                pool.append(head_ + tail_[:100] + b"\r\n" + tail_[:9])
    # multi-byte text around the 107-byte limit (bytes vs characters)
    for k in range(40, 52):
        for pad in (b"", b"a"):
            pool.append(b"PROXY UNKNOWN " + b"\xc3\xa9" * k + pad + b"\r\n")
            pool.append(b"PROXY UNKNOWN " + pad + b"\xe2\x82\xac" * (k * 2 // 3) + b"\r\n")
    pool.append(b"PROXY TCP4 1.2.3.4 5.6.7.8 1 2" + b"\xc3\xa9" * 40 + b"\r\n")
    # every byte value next to the first CR (before it, two before it, after the LF), at every
    # alignment modulo 16: word-at-a-time scans for the CR go wrong only on particular neighbours
    for b in range(256):
        for pad in (range(16) if (b < 0x20 or b in (0x7f, 0x80, 0x8d, 0xff) or tier != "quick") else (0, 3, 7)):
            filler = b"a" * pad
            pool.append(b"PROXY UNKNOWN " + filler + bytes([b]) + b"\r\n")
            if b < 0x20:
                pool.append(b"PROXY UNKNOWN " + filler + bytes([b]) + b"a\r\n")
                pool.append(b"PROXY UNKNOWN " + filler + bytes([b, b]) + b"\r\nrest")
                pool.append(b"PROXY TCP4 1.2.3.4 5.6.7.8 1 2" + b"\r\n" + filler + bytes([b]))
    # the first CR directly followed by a multi-byte character, with a CRLF (or more text) further on
    for lead in (b"\xc3\xa9", b"\xe2\x82\xac", b"\xf0\x9f\x98\x80", b"\xc2\x85"):
        for body in (b"PROXY UNKNOWN", b"PROXY UNKNOWN x", b"PROXY TCP4 1.1.1.1 2.2.2.2 1 2", b"PROXY", b""):
            pool += [body + b"\r" + lead + b"\r\n", body + b"\r" + lead + b"x\r\n", body + b"\r" + lead + lead + b"\r\nGET",
                     body + b" " + lead + b"\r" + lead + b"\r\n"]
    # lengths whose low 8 / low 16 bits are small again: a limit comparison done in a narrowed type
    # (u8, u16) accepts them
    for total in (255, 256, 257, 300, 363, 364, 512, 619, 620, 65535, 65536, 65537, 65600, 65643, 65644, 131072 + 50):
        pool.append(b"PROXY UNKNOWN " + b"w" * (total - 16) + b"\r\n")
        pool.append(b"PROXY TCP4 1.2.3.4 5.6.7.8 1 2" + b" " * (total - 32) + b"\r\n")
        if total < 1000:
            pool.append(b"q" * total)
            pool.append(b"PROXY UNKNOWN " + b"w" * (total - 15) + b"\r")
            pool.append(b"PROXY TCP6 ::1 ::2 3 " + b"4" * (total - 23) + b"\r\n")
    for total in (100, 105, 106, 107, 108, 109, 200):
        pool.append(b"x" * total)
        pool.append(b"PROXY UNKNOWN " + b"y" * (total - 14))
        pool.append(b"PROXY UNKNOWN " + b"y" * max(total - 16, 0) + b"\r\n")
        pool.append(b"PROXY UNKNOWN " + b"y" * max(total - 15, 0) + b"\r")
        pool.append(b"PROXY TCP4 1.1.1.1 2.2.2.2 1 " + b"9" * max(total - 29, 0))
    # every non-digit byte at every position of 1..5-character port texts and of one IPv4 octet
    # (hand-written digit folds recognise a digit by a mask or a range that lets neighbours of
    # '0'..'9' through: 0x3A..0x3F under `b & 0xF0 == 0x30`, '/' and ':' under off-by-one ranges)
    for b in list(range(0x21, 0x30)) + list(range(0x3a, 0x7f)) + [0x00, 0x09, 0x0b, 0x7f]:
        c = bytes([b])
        for pat in (c, b"8" + c, c + b"8", b"1" + c + b"3", b"12" + c, b"123" + c, c + b"123", b"1234" + c, b"6553" + c):
            pool.append(b"PROXY TCP4 127.0.0.1 192.168.1.1 " + pat + b" 443\r\n")
            pool.append(b"PROXY TCP6 ::1 ::2 80 " + pat + b"\r\n")
        for pat in (c, b"1" + c, c + b"1", b"1" + c + b"2", b"25" + c):
            pool.append(b"PROXY TCP4 " + pat + b".0.0.1 192.168.1.1 80 443\r\n")
            pool.append(b"PROXY TCP4 127.0.0.1 192.168.1." + pat + b" 80 443\r\n")
    # every separator position with the space replaced by another whitespace / control character
    # (a delimiter test written as "is whitespace" instead of "is SP" accepts these). No random choices.
    blanks = [bytes([b]) for b in (0x00, 0x09, 0x0a, 0x0b, 0x0c, 0x1c, 0x1d, 0x1e, 0x1f, 0x7f)] + \
             [b"\xc2\x85", b"\xc2\xa0", b"\xe1\x9a\x80", b"\xe2\x80\x83", b"\xe2\x80\xa8", b"\xe3\x80\x80"]
    for f in ([b"PROXY", b"TCP4", b"127.0.0.1", b"192.168.1.1", b"80", b"443"], [b"PROXY", b"TCP6", b"::1", b"2001:db8::2", b"80", b"443"],
              [b"PROXY", b"UNKNOWN"], [b"PROXY", b"UNKNOWN", b"proxied"], [b"PROXY", b"UNKNOWN", b"a", b"b"]):
        for i in range(1, len(f)):
            for w in blanks:
                pool.append(b" ".join(f[:i]) + w + b" ".join(f[i:]) + b"\r\n")
                pool.append(b" ".join(f[:i]) + w + b" " + b" ".join(f[i:]) + b"\r\n")
    return pool


class C01(Prop):
    id = "C01"
    required = ["C01.bytes_accept_iff", "C01.str_accept_iff", "C01.bytes_accept_iff_partial", "C01.str_accept_iff_partial", "C01.accepted_header_facts", "C01.fromStrHeader_accept_iff", "C01.fromStrAddresses_accept_iff", "C01.bytesP_accept_iff"]
    rule = ("grammar-directed valid lines (distinct source/destination), single-element mutations, every line ending, every prefix, all token strings up to "
            "k tokens, lengths around 107; both entry points; non-trivial = distinct accepted lines with source != destination plus rejected lines one edit away from an accepted one"
            " Also: every byte value next to the first CR at every alignment modulo 16, other-family and embedded address texts, accepted lines of every length 98..107 per protocol.")

    def gen(self, tier, rng):
        pool = v1_inputs(rng, tier, k=4 if tier == "quick" else 5)
        ops = []
        for x in pool:
            ops.append("v1b " + C.hexs(x))
            if V.valid_utf8(x):
                ops.append("v1s " + C.hexs(x))
        # the std functions the parser relies on, against their models (token-exhaustive)
        k = 4 if tier == "quick" else 6
        for s_ in V.token_products(V.STD4_TOKENS, k):
            ops.append("ip4p " + C.hexs(s_))
        for s_ in V.token_products(V.STD6_TOKENS, k if tier == "quick" else 5):
            ops.append("ip6p " + C.hexs(s_))
        for s_ in V.token_products(V.U16_TOKENS, k if tier == "quick" else 5):
            ops.append("u16p " + C.hexs(s_))
        import itertools
        lead = [0x00, 0x41, 0x7f, 0x80, 0xbf, 0xc0, 0xc1, 0xc2, 0xdf, 0xe0, 0xa0, 0x9f, 0xe1, 0xec, 0xed, 0xee, 0xef, 0xf0, 0x90, 0x8f, 0xf1, 0xf3, 0xf4, 0xf5, 0xff]
        for n in range(0, 4 if tier == "quick" else 5):
            for combo in itertools.product(lead if n < 4 else lead[::2], repeat=n):
                ops.append("utf8 " + C.hexs(bytes(combo)))
        # structured, mostly-valid address texts and single-character edits of them
        nn = 1500 if tier == "quick" else 40000
        for _ in range(nn):
            t4 = V.ip4_text(V.rand_ip4(rng))
            ops.append("ip4p " + C.hexs(t4))
            i = rng.randrange(len(t4))
            ops.append("ip4p " + C.hexs(t4[:i] + rng.choice([b"", b"0", b".", b"9", b"a"]) + t4[i + rng.randint(0, 1):]))
            gs = V.rand_ip6_groups(rng)
            for t6 in V.ip6_variants(rng, gs)[:rng.randint(1, 5)]:
                ops.append("ip6p " + C.hexs(t6))
                i = rng.randrange(len(t6))
                ops.append("ip6p " + C.hexs(t6[:i] + rng.choice([b"", b":", b"0", b"f", b".", b"1.", b"g"]) + t6[i + rng.randint(0, 1):]))
            pt = str(V.rand_port(rng)).encode()
            ops.append("u16p " + C.hexs(pt))
            ops.append("u16p " + C.hexs(rng.choice([b"", b"0", b"+", b"6"]) + pt + rng.choice([b"", b"0", b"5"])))
        for extra in V.valid_lines(rng, 600 if tier == "quick" else 6000):
            ops.append("v1b " + C.hexs(extra + rng.choice(V.TRAILERS)))
            if V.valid_utf8(extra):
                ops.append("v1s " + C.hexs(extra))
        for g in range(0, 1 << 16, 257 if tier == "quick" else 17):
            for txt in ("%x::" % g, "::%X" % g, "%04x:0:0:0:0:0:0:%x" % (g, g), "1:2:3:4:5:6:%d.%d.%d.%d" % (g >> 8, g & 255, g & 255, g >> 8)):
                ops.append("ip6p " + C.hexs(txt.encode()))
        return ops

    def project(self, op, line):
        if op.startswith(("ip4p", "ip6p", "u16p", "utf8")):
            return line
        if op.startswith("v1b"):
            r = res1(line)
            return okview(r) if r["k"] == "ok" else ("panic" if r["k"] == "panic" else "reject")
        parts = line.split(" | ")
        out = []
        for p in parts:
            r = res1(p)
            out.append((r.get("hdr"), r.get("addr")) if r["k"] == "ok" else ("panic" if r["k"] == "panic" else "reject"))
        return tuple(out)

    def relation(self, ops, impl):
        out = []
        for op, il in zip(ops, impl):
            x = op_bytes(op)
            if op.startswith(("ip4p", "ip6p", "u16p", "utf8")):
                # independent oracles for the std text forms
                if op.startswith("ip4p") and V.valid_utf8(x):
                    w = V.oracle_ip4(x)
                    if il != ("ok " + w.hex() if w is not None else "err"):
                        out.append(Violation("relation", op, il, None, "dotted-quad oracle says %r" % (w,)))
                elif op.startswith("ip6p") and V.valid_utf8(x):
                    w = V.oracle_ip6(x)
                    if il != ("ok " + w.hex() if w is not None else "err"):
                        out.append(Violation("relation", op, il, None, "RFC 4291 oracle says %r" % (w,)))
                elif op.startswith("utf8"):
                    if il != ("1" if V.valid_utf8(x) else "0"):
                        out.append(Violation("relation", op, il, None, "UTF-8 validity"))
                continue
            want = V.oracle_v1(x)
            if op.startswith("v1b"):
                got = [res1(il)]
            else:
                got = [res1(p) for p in il.split(" | ")]
            for idx, r in enumerate(got):
                if want is None:
                    if r["k"] == "ok":
                        out.append(Violation("relation", op, il[:300], None, "accepted, but the input does not start with a well-formed line"))
                        break
                else:
                    hdr, addr = want
                    ok = r["k"] == "ok" and r.get("addr") == addr and (idx == 2 or r.get("hdr") == C.hexs(hdr))
                    if not ok:
                        out.append(Violation("relation", op, il[:300], None, "well-formed line must be accepted as header=%r addresses=%s" % (hdr, addr)))
                        break
        return out

    def nontrivial(self, op, line):
        if not op.startswith("v1"):
            return None
        r = res1(line.split(" | ")[0])
        if r["k"] == "ok" and r.get("addr", "").count("/") == 4:
            a = r["addr"].split("/")
            if a[1] != a[2] and a[3] != a[4]:
                return r.get("hdr")
        return None


class C03(Prop):
    id = "C03"
    extra_profiles = ["nochecks"]
    required = ["C03.parseBytes_no_panic", "C03.parseStr_no_panic", "C03.v2_parse_no_panic", "C03.auto_parse_no_panic", "C03.v1_accessors_no_panic", "C03.v2_accessors_no_panic", "C03.tlv_next_no_panic", "C03.tlv_count_bound", "C03.tlv_progress", "C03.v2_display_no_panic", "C03.tlvs_no_panic", "C03.tlv_ends", "C03.fromStrHeader_no_panic", "C03.sums_bounded"]
    rule = ("every generator of C01/C02/C11 through every entry point and accessor, in builds with and without overflow checks; multi-byte characters adjacent to CR; "
            "non-trivial = distinct inputs that reach a checked primitive at its boundary (CR last, CR + lead byte, cut = len, length = family size)"
            " Also: headers declaring 65519..65535 bytes cut at the last 40 positions; every returned value (results, headers, owned copies, items, iterators, errors) formatted with {:?}, {:#?}, to_string and the source() chain inside the per-operation guard; long text TLV values with multi-byte characters around 16/32/64/128/256.")

    def gen(self, tier, rng):
        pool = v1_inputs(rng, tier)
        # multi-byte characters around CR
        for lead in (b"\xc3\xa9", b"\xe2\x82\xac", b"\xf0\x9f\x98\x80"):
            for body in (b"", b"P", b"PROXY UNKNOWN", b"PROXY TCP4 1.1.1.1 2.2.2.2 1 2", b"PROXY UNKNOWN " + lead):
                pool += [body + b"\r" + lead, body + lead + b"\r\n", body + b"\r" + lead + b"\n", body + b"\r\n" + lead, lead + body + b"\r"]
        ops = []
        for x in pool:
            ops.append("v1b " + C.hexs(x))
            ops.append("auto " + C.hexs(x))
            if V.valid_utf8(x):
                ops.append("v1s " + C.hexs(x))
        ops += G.gen_signature_corruptions(rng)
        heads = G.gen_valid_headers(rng, 300 if tier == "quick" else 6000)
        for h in heads:
            ops.append("v2 " + G.spec(h))
            ops.append("auto " + G.spec(h))
        ops += G.gen_truncations(rng, heads[:100 if tier == "quick" else 1500])
        for vc in G.VALID_VC:
            for afp in G.VALID_AFP:
                size = G.FAM_SIZE[afp >> 4]
                for ln in (0, size - 1, size, size + 1, size + 2, size + 3):
                    if ln >= 0:
                        for present in (0, ln - 1, ln, ln + 1):
                            if present >= 0:
                                ops.append("v2 " + G.spec(G.header(vc, afp, ln, G.rand_bytes(rng, present))))
        for _ in range(3000 if tier == "quick" else 100000):
            ops.append("tlv " + C.hexs(bytes(rng.choice([0, 0, 1, 2, 3, 255, rng.getrandbits(8)]) for _ in range(rng.randint(0, 20)))))
        for h, c in G.big_header_cuts(rng, tier):
            ops.append("v2 " + G.spec(h[:c]))
            ops.append("auto " + G.spec(h[:c]))
        # long text values with a multi-byte character at every alignment around the offsets a
        # "shorten for display" helper would cut at: as raw sections and inside accepted headers
        for ch in (b"\xc3\xa9", b"\xe2\x82\xac", b"\xf0\x9f\x98\x80"):
            for cut in (8, 16, 32, 64, 100, 128, 256):
                for back in range(1, len(ch) + 1):
                    val = b"a" * (cut - back) + ch * 3 + b"tail"
                    for kind in (0x02, 0x05, 0x22, 0xE0):
                        sec = G.tlv_enc(kind, val)
                        ops.append("tlv " + C.hexs(sec))
                    hdr = G.header(0x21, 0x11, 12 + len(sec), bytes(range(1, 13)) + sec)
                    ops.append("v2 " + C.hexs(hdr))
                    ops.append("auto " + C.hexs(hdr))
        # value lengths at the u16 boundary with the value present: cursor arithmetic in a narrow type overflows only here
        for sec in G.tlv_boundary_sections(rng):
            ops.append("tlv " + G.spec(sec))
        return ops

    def project(self, op, line):
        return "panic" if ("panic" in line or line == "crash") else "no-panic"

    def relation(self, ops, impl):
        out = []
        for op, il in zip(ops, impl):
            if "panic" in il.split(" ") or il == "crash":
                out.append(Violation("relation", op, il[:300], None, "panicked"))
                continue
            if op.startswith("tlv ") or op.startswith("v2 "):
                i = il.find("steps=")
                if i >= 0:
                    kv = dict(t.split("=", 1) for t in il[i:].split(" ") if "=" in t)
                    sec = op_bytes(op) if op.startswith("tlv ") else (C.unhex(C.fields(il)[1].get("tb", "-")))
                    if int(kv["steps"]) > len(sec) // 3 + 1 or kv.get("ended") != "1" or kv.get("fused") != "1":
                        out.append(Violation("relation", op, il[:300], None, "iteration did not end within n/3+1 items, or yielded after the end"))
        return out

    def nontrivial(self, op, line):
        x = op_bytes(op)
        i = x.find(b"\r")
        if op.startswith(("v1", "auto")) and i >= 0 and (i == len(x) - 1 or (i + 1 < len(x) and x[i + 1] >= 0x80)):
            return x[:40]
        if op.startswith("v2") and len(x) >= 16:
            return (x[12], x[13], len(x) - 16 - (x[14] * 256 + x[15]))
        return None

    def sweeps(self, tier):
        return [["v1tokens", 5 if tier == "quick" else 6], ["v1lines", 1 if tier == "quick" else 2], ["bytes3", 3]]


class C04(Prop):
    id = "C04"
    required = ["C04.v2_trailing", "C04.v1_bytes_trailing", "C04.v1_str_trailing", "C04.auto_trailing", "C04.result_is_function_of_header"]
    rule = ("accepted headers x 13 trailers x 4 entry points, plus the reported header on its own; non-trivial = distinct (header, trailer) pairs whose trailer "
            "begins with a byte able to extend the last field or the line ending"
            " Also: an unterminated read of about the same length parsed between a header and the same header with a trailer (the harness re-uses one receive buffer per thread).")

    def gen(self, tier, rng):
        ops = []
        self._groups = []
        n1 = 120 if tier == "quick" else 3000
        for l in V.valid_lines(rng, n1):
            if V.oracle_v1(l) is None:
                continue
            for e in ("v1b", "v1s", "auto"):
                if e == "v1s" and not V.valid_utf8(l):
                    continue
                start = len(ops)
                ops.append("%s %s" % (e, C.hexs(l)))
                for t in V.TRAILERS:
                    if e == "v1s" and not V.valid_utf8(l + t):
                        continue
                    ops.append("%s %s" % (e, C.hexs(l + t)))
                self._groups.append((start, len(ops), l))
        # the same, with an unterminated read of about the same length parsed in between: the harness
        # re-uses one receive buffer, so anything a parser remembers about "the buffer" (where it
        # stopped scanning, how long it was) is stale when the header + trailer arrives
        self._skip = set()
        for l in V.valid_lines(rng, 40 if tier == "quick" else 600):
            if V.oracle_v1(l) is None or not V.valid_utf8(l):
                continue
            for e in ("v1b", "v1s", "auto"):
                start = len(ops)
                ops.append("%s %s" % (e, C.hexs(l)))
                for warm, t in ((l[:-2] + b"ab", b"GET / HTTP/1.1\r\n"), (l[:-2], b"\r\n"), (l[:-2] + b"abcde", b"0123456789\r\n"),
                                (b"x" * (len(l) + 2), b"PROXY TCP4 1.1.1.1 2.2.2.2 1 2\r\n"), (l[:len(l) // 2], b"X")):
                    self._skip.add(len(ops))
                    ops.append("%s %s" % (e, C.hexs(warm)))
                    ops.append("%s %s" % (e, C.hexs(l + t)))
                    self._skip.add(len(ops))
                    ops.append("%s %s" % (e, C.hexs(warm)))
                    ops.append("%s %s" % (e, C.hexs(l)))
                self._groups.append((start, len(ops), l))
        for i, h in enumerate(G.gen_valid_headers(rng, 150 if tier == "quick" else 4000, max_payload=200, big_every=10 ** 9)):
            for e in ("v2", "auto"):
                start = len(ops)
                ops.append("%s %s" % (e, G.spec(h)))
                for t in V.TRAILERS:
                    ops.append("%s %s" % (e, G.spec(h + t)))
                if i % 5 == 0:
                    # an incomplete read of the same header first, then the header with a trailer
                    for cut, t in ((len(h) - 1, b"\x00"), (16, b"PROXY"), (len(h) // 2, b"\r\n\r\n")):
                        self._skip.add(len(ops))
                        ops.append("%s %s" % (e, G.spec(h[:cut])))
                        ops.append("%s %s" % (e, G.spec(h + t)))
                if i < 6:
                    for x in G.gen_big_trailers(rng, [h]):
                        ops.append("%s %s" % (e, G.spec(x)))
                self._groups.append((start, len(ops), h))
        return ops

    @staticmethod
    def view(op, line):
        if op.startswith("auto"):
            tag, r, _, _ = auto_res(line)
            return (tag,) + tuple(sorted((k, v) for k, v in r.items() if k in ("k", "hdr", "addr", "cmd", "tr", "fam", "ab", "tb")))
        if op.startswith("v1s"):
            return tuple(tuple(sorted((k, v) for k, v in res1(p).items() if k in ("k", "hdr", "addr"))) for p in line.split(" | "))
        r = res1(line)
        return tuple(sorted((k, v) for k, v in r.items() if k in ("k", "hdr", "addr", "cmd", "tr", "fam", "ab", "tb")))

    def project(self, op, line):
        return self.view(op, line)

    def relation(self, ops, impl):
        out = []
        for a, b, h in self._groups:
            base = self.view(ops[a], impl[a])
            if '"ok"' not in repr(base).replace("'", '"'):
                out.append(Violation("relation", ops[a], impl[a][:300], None, "generated well-formed header was not accepted"))
                continue
            for j in range(a + 1, b):
                if j in getattr(self, "_skip", ()):
                    continue
                if self.view(ops[j], impl[j]) != base:
                    out.append(Violation("relation", [ops[a], ops[j]], [impl[a][:300], impl[j][:300]], None,
                                         "result changes when bytes follow the header"))
                    break
            # the reported header is exactly the header
            first = impl[a].split(" | ")[0]
            r = auto_res(first)[1] if ops[a].startswith("auto") else res1(first)
            if r.get("hdr") != C.hexs(h):
                out.append(Violation("relation", ops[a], impl[a][:300], None, "reported header bytes are not exactly the line through CRLF / 16 + length bytes"))
        return out

    def nontrivial(self, op, line):
        x = op_bytes(op)
        return hash(x) if len(x) > 0 and x[-1:] in (b"0", b"5", b"\n", b"\r", b" ") else None


    def sweeps(self, tier):
        # the relation evaluated in-process on all token strings and near-valid full lines
        return [["v1tokens", 5 if tier == "quick" else 6], ["v1lines", 1 if tier == "quick" else 2]]

class C05(Prop):
    id = "C05"
    required = ["C05.v2_prefix_incomplete", "C05.v1_bytes_prefix_incomplete", "C05.v1_str_prefix_incomplete", "C05.auto_prefix_incomplete", "C05.flags", "C05.streaming_v2", "C05.streaming_v1", "C05.v1_str_prefix_incomplete'", "C05.v1_bytes_prefix_incomplete_iff", "C05.streaming_v1_str"]
    rule = ("every cut 0..len-1 of generated accepted headers (ASCII v1 lines, v2 headers) through the version's entry points and the auto-detecting one; "
            "non-trivial = distinct (header shape, cut position class)"
            " Also: headers declaring 65519..65535 bytes cut at the last 40 positions; accepted lines of every length 98..107; every value of the length field's high byte cut at 12..17 bytes; is_complete = !is_incomplete checked on every kind of result (rejected, over-long, garbage, corrupted) through every entry point.")

    def gen(self, tier, rng):
        ops = []
        self._meta = []
        n1 = 100 if tier == "quick" else 2500
        for l in V.valid_lines(rng, n1):
            if V.oracle_v1(l) is None or not is_ascii(l):
                continue
            for c in range(len(l)):
                for e in ("v1b", "v1s", "auto"):
                    ops.append("%s %s" % (e, C.hexs(l[:c])))
                    self._meta.append(("v1", l, c))
        for h in G.gen_valid_headers(rng, 120 if tier == "quick" else 3000, max_payload=120, big_every=10 ** 9):
            n = len(h)
            for c in range(n):
                for e in ("v2", "auto"):
                    ops.append("%s %s" % (e, G.spec(h[:c])))
                    self._meta.append(("v2", h, c))
        for h, c in G.big_header_cuts(rng, tier):
            for e in ("v2", "auto"):
                ops.append("%s %s" % (e, G.spec(h[:c])))
                self._meta.append(("v2", h, c))
        # "is_complete is always the negation of is_incomplete, and a success is never flagged
        # incomplete": on every kind of result, not only on prefixes - rejected, over-long, garbage,
        # corrupted and accepted inputs through every entry point
        anyp = v1_inputs(rng, tier, k=2)[:: (3 if tier == "quick" else 1)]
        for n in (106, 107, 108, 200):
            anyp += [b"a" * n, b"PROXY UNKNOWN " + b"b" * n, b"PROXY TCP4 " + b"1" * n + b"\r\n", b"\xff" * n]
        self._flagops = set()
        for x in anyp:
            for e in ("v1b", "auto") + (("v1s",) if V.valid_utf8(x) else ()):
                ops.append("%s %s" % (e, C.hexs(x)))
                self._meta.append(("flags", x, 0))
        for o in G.gen_signature_corruptions(rng)[::7]:
            ops.append(o)
            self._meta.append(("flags", b"", 0))
            ops.append("auto " + o.split(" ", 1)[1])
            self._meta.append(("flags", b"", 0))
        # every value of the length field's high byte (and a few low bytes), cut inside the fixed
        # part: a short-input gate that looks at a byte of the length field as if it were a control
        # byte goes wrong only for particular values of that byte. No random choices.
        for hi in range(256):
            for lo in ((0x00, 0xF7, 0xFF) if hi in (0x00, 0x03, 0x40, 0x7F, 0x80, 0xFF) else (0x00,)):
                length = hi * 256 + lo
                for afp in (0x00, 0x11):
                    if length < G.FAM_SIZE[afp >> 4]:
                        continue
                    h = G.header(0x21, afp, length, bytes([hi ^ 0x5A]) * length)
                    for c in (12, 13, 14, 15, 16, 17, len(h) - 1):
                        if 0 <= c < len(h):
                            for e in ("v2", "auto"):
                                ops.append("%s %s" % (e, G.spec(h[:c])))
                                self._meta.append(("v2", h, c))
        # which verdict these inputs get is not C05's business (only that the two flags are complementary):
        # they are not compared with the model unless they also occur as a prefix of an accepted header
        prefix_ops = set(o for o, m in zip(ops, self._meta) if m[0] != "flags")
        self._flagops = set(o for o, m in zip(ops, self._meta) if m[0] == "flags") - prefix_ops
        return ops

    def view(self, op, line):
        if op.startswith("auto"):
            tag, r, ai, ac = auto_res(line)
            return (cls(r), ai, ac)
        if op.startswith("v1s"):
            return tuple((cls(res1(p)), res1(p).get("inc"), res1(p).get("comp")) for p in line.split(" | ")[:2])
        r = res1(line)
        return (cls(r), r.get("inc"), r.get("comp"))

    def project(self, op, line):
        if op in getattr(self, "_flagops", ()):
            return None
        return self.view(op, line)

    def relation(self, ops, impl):
        out = []
        for op, il, (ver, h, c) in zip(ops, impl, self._meta):
            p = self.view(op, il)
            items = p if op.startswith("v1s") else (p,)
            if ver == "flags":
                for (k, inc, comp) in items:
                    if k == "panic":
                        continue
                    if inc == comp or (k == "ok" and inc != "0") or (k == "inc") != (inc == "1"):
                        out.append(Violation("relation", op, il[:300], None,
                                             "is_complete must be the negation of is_incomplete (and false/true for a success): class=%s inc=%s comp=%s" % (k, inc, comp)))
                        break
                continue
            for (k, inc, comp) in items:
                if k != "inc" or inc != "1" or comp != "0":
                    out.append(Violation("relation", op, il[:300], None,
                                         "proper prefix (%d of %d bytes) of an accepted header must be flagged incomplete, got %s inc=%s comp=%s" % (c, len(h), k, inc, comp)))
                    break
        return out

    def nontrivial(self, op, line):
        x = op_bytes(op)
        return (op.split(" ")[0], x[:12], x.count(b" "), x[-1:] if x else b"")


    def sweeps(self, tier):
        # the relation evaluated in-process on all token strings and near-valid full lines
        return [["v1tokens", 5 if tier == "quick" else 6], ["v1lines", 1 if tier == "quick" else 2]]

class C06(Prop):
    id = "C06"
    required = ["C06.auto_def", "C06.accept_iff", "C06.incomplete_iff", "C06.never_both", "C06.parse_verdict", "C06.verdict_table", "C06.v2_incomplete_not_always_extensible"]
    rule = ("union of v1 and v2 generators plus mixtures (signature + text, text + v2 header, every signature prefix), each through auto / v1b / v2; "
            "non-trivial = distinct inputs on which the two dedicated parsers give different classes"
            " Also: every byte string of at most 2 bytes through all three parsers (exhaustive), third bytes after the signature starts, HeaderResult::from of the dedicated results.")

    def gen(self, tier, rng):
        pool = v1_inputs(rng, tier, k=3 if tier == "quick" else 4)
        heads = G.gen_valid_headers(rng, 200 if tier == "quick" else 5000, max_payload=100, big_every=10 ** 9)
        for h in heads:
            pool.append(h)
            pool.append(h[:rng.randrange(len(h))])
            pool.append(b"PROXY UNKNOWN\r\n" + h)
            pool.append(h + b"PROXY UNKNOWN\r\n")
        for n in range(0, 17):
            base = G.header(0x21, 0x11, 12, bytes(12))
            pool.append(base[:n])
            pool.append(base[:n] + b"PROXY UNKNOWN\r\n")
            pool.append(base[:n] + b"\r\n")
            pool.append(base[:n] + b"X")
        for vc in (0x00, 0x10, 0x20, 0x21, 0x22, 0x31):
            for afp in (0x00, 0x11, 0x13, 0x41):
                pool.append(G.header(vc, afp, 12, bytes(12)))
        # every byte string of length <= 2 (65 793 inputs): the first bytes decide between the two
        # versions, so the whole space is cheap to enumerate through all three parsers
        pool.append(b"")
        for a in range(256):
            pool.append(bytes([a]))
            for b in range(256):
                pool.append(bytes([a, b]))
        # ... and every third byte after each two-byte prefix of the two signatures
        for head in (b"PR", b"\r\n", b"P\r", b"\rP"):
            for c in range(256):
                pool.append(head + bytes([c]))
        ops = []
        for x in pool:
            ops.append("auto " + G.spec(x))
            ops.append("v1b " + C.hexs(x))
            ops.append("v2 " + G.spec(x))
        return ops

    def project(self, op, line):
        # C06 pins no result as a function of the input alone: it relates the auto-detected result to
        # the dedicated parsers' results on the same input. What is compared with the model is therefore
        # the composition (`Auto.verdict`, theorem C06.parse_verdict) applied to the implementation's own
        # dedicated verdicts - see `relation` - and not the three absolute results.
        return None

    def relation(self, ops, impl):
        out = []
        # the model's composition evaluated on the implementation's dedicated verdicts (op `autoc`)
        triples = []
        for i in range(0, len(ops), 3):
            tag, ra, ai, ac = auto_res(impl[i])
            c1, c2, ca = cls(res1(impl[i + 1])), cls(res1(impl[i + 2])), cls(ra)
            triples.append((c2, c1, tag, ca))
        distinct = sorted(set((c2, c1) for c2, c1, _, _ in triples if "panic" not in (c2, c1)))
        verdicts = {}
        if distinct and os.path.exists(C.DRIVER_BIN):
            ml = C.run_model_only(["autoc %s %s" % p_ for p_ in distinct], "autoc")
            for p_, l_ in zip(distinct, ml):
                _, kv = C.fields(l_)
                verdicts[p_] = (kv.get("tag"), kv.get("cls"))
        for i in range(0, len(ops), 3):
            c2, c1, tag, ca = triples[i // 3]
            want = verdicts.get((c2, c1))
            # the tag is pinned for accepted headers only ("tags it with the matching version")
            if want is not None and (ca != want[1] or (ca == "ok" and tag != want[0])):
                out.append(Violation("projection", [ops[i], ops[i + 1], ops[i + 2]], [impl[i][:200], impl[i + 1][:200], impl[i + 2][:200]],
                                     "autoc %s %s -> tag=%s cls=%s" % (c2, c1, want[0], want[1]),
                                     "auto-detected result (%s, %s) is not the model's composition of the dedicated verdicts" % (tag, ca)))
        for i in range(0, len(ops), 3):
            tag, ra, ai, ac = auto_res(impl[i])
            r1, r2 = res1(impl[i + 1]), res1(impl[i + 2])
            c1, c2, ca = cls(r1), cls(r2), cls(ra)
            problems = []
            if c1 == "ok" and c2 == "ok":
                problems.append("both dedicated parsers accept")
            if (ca == "ok") != (c1 == "ok" or c2 == "ok"):
                problems.append("auto accepts iff v1 or v2 accepts")
            if ca == "ok":
                src = r2 if c2 == "ok" else r1
                want_tag = "v2" if c2 == "ok" else "v1"
                if tag != want_tag or okview(ra) != okview(src) or any(ra.get(k) != src.get(k) for k in ("cmd", "tr", "fam", "tb", "ab")):
                    problems.append("auto must return that parser's header unchanged, tagged %s" % want_tag)
            want_inc = c2 == "inc" or (c2 == "term" and c1 == "inc")
            if (ca == "inc") != want_inc or (ai == "1") != want_inc or (ac == "1") == want_inc:
                problems.append("auto incomplete iff v2 incomplete or (v2 terminal and v1 incomplete)")
            if "panic" in (c1, c2, ca):
                problems.append("panic")
            if ra.get("from") == "0":
                problems.append("HeaderResult::from(<dedicated result>) is not that result tagged with its version, or parsing the same input twice differs")
            if problems:
                out.append(Violation("relation", [ops[i], ops[i + 1], ops[i + 2]], [impl[i][:200], impl[i + 1][:200], impl[i + 2][:200]], None, "; ".join(problems)))
        return out

    def nontrivial(self, op, line):
        return None

    def sweeps(self, tier):
        # the relation evaluated in-process on every byte string of at most 3 bytes (16 843 009
        # inputs) and on all token strings
        return [["bytes3", 3], ["v1tokens", 4 if tier == "quick" else 5]]

    def nontrivial_all(self, ops, impl):
        out = []
        for i in range(0, len(ops) - 2, 3):
            c1, c2 = cls(res1(impl[i + 1])), cls(res1(impl[i + 2]))
            if c1 != c2:
                out.append(ops[i][:80])
        return out


class C08(Prop):
    id = "C08"

    def project(self, op, line):
        if op.startswith("v1"):
            return tuple((res1(p_).get("hdr"), res1(p_).get("disp")) for p_ in line.split(" | ")[:2])
        return line

    required = ["C08.dec_roundtrip", "C08.ipv4_roundtrip", "C08.ipv6_roundtrip", "C08.format_is_line", "C08.format_length", "C08.format_parses_back", "C08.format_parses_back_tcp4", "C08.format_injective", "C08.display_is_header", "C08.format_is_line_text"]
    rule = ("all 256 zero/non-zero segment patterns x fillers, all 2^16 ports (as source or destination), random IPv4/IPv6 pairs with source != destination, "
            "IPv4-mapped forms; formatted text parsed back through the four text entry points; non-trivial = distinct address pairs with a zero-run pattern not seen before")

    def gen(self, tier, rng):
        ops = ["rt1 unknown"]
        fills = (1, 0xFFFF, 0xABC, 0x10) if tier == "quick" else (1, 0xFFFF, 0xABC, 0x10, 0x100, 0x1000, 0xF, 0xFF)
        for pat in range(256):
            for fill in fills:
                gs = [0 if (pat >> i) & 1 else fill for i in range(8)]
                other = V.rand_ip6_groups(rng)
                ops.append("rt1 tcp6/%s/%s/%d/%d" % (V.groups_to_bytes(gs).hex(), V.groups_to_bytes(other).hex(), V.rand_port(rng), V.rand_port(rng)))
                ops.append("rt1 tcp6/%s/%s/%d/%d" % (V.groups_to_bytes(other).hex(), V.groups_to_bytes(gs).hex(), V.rand_port(rng), V.rand_port(rng)))
        step = 1 if tier == "thorough" else 7
        for p in range(0, 65536, step):
            ops.append("rt1 tcp4/%s/%s/%d/%d" % (V.rand_ip4(rng).hex(), V.rand_ip4(rng).hex(), p, 65535 - p))
        for a in range(256):
            ops.append("rt1 tcp4/%02x%02x%02x%02x/%02x%02x%02x%02x/1/2" % (a, 255 - a, (a * 7) % 256, 0, 0, a, (a + 1) % 256, 255))
            ops.append("rt1 tcp6/00000000000000000000ffff%02x%02x%02x%02x/0000000000000000ffff0000%02x%02x%02x%02x/3/4" % (a, 0, 255, a, a, a, 0, 1))
        for _ in range(3000 if tier == "quick" else 200000):
            if rng.random() < 0.4:
                ops.append("rt1 tcp4/%s/%s/%d/%d" % (V.rand_ip4(rng).hex(), V.rand_ip4(rng).hex(), V.rand_port(rng), V.rand_port(rng)))
            else:
                ops.append("rt1 tcp6/%s/%s/%d/%d" % (V.groups_to_bytes(V.rand_ip6_groups(rng)).hex(), V.groups_to_bytes(V.rand_ip6_groups(rng)).hex(), V.rand_port(rng), V.rand_port(rng)))
        ops.append("rt1 tcp6/%s/%s/65535/65535" % ("ff" * 16, "ff" * 16))
        # formatting must not depend on what was formatted before (a per-thread cache, a reused buffer):
        # chains of related values formatted one after the other by the same harness process - the same
        # numeric addresses across the two families (IPv4-compatible, IPv4-mapped, NAT64 embeddings),
        # the same addresses with other ports, the same ports with other addresses, Unknown in between
        for _ in range(60 if tier == "quick" else 1500):
            a, b = V.rand_ip4(rng), V.rand_ip4(rng)
            sp, dp = V.rand_port(rng), V.rand_port(rng)
            t4 = "rt1 tcp4/%s/%s/%d/%d" % (a.hex(), b.hex(), sp, dp)
            embeds = [lambda x: bytes(12) + x, lambda x: bytes(10) + b"\xff\xff" + x, lambda x: b"\x00\x64\xff\x9b" + bytes(8) + x,
                      lambda x: x + bytes(12), lambda x: bytes(8) + x + bytes(4)]
            chain = [t4]
            for e in embeds:
                chain.append("rt1 tcp6/%s/%s/%d/%d" % (e(a).hex(), e(b).hex(), sp, dp))
                chain.append(t4)
            chain.append("rt1 tcp4/%s/%s/%d/%d" % (a.hex(), b.hex(), dp, sp))
            chain.append("rt1 tcp4/%s/%s/%d/%d" % (b.hex(), a.hex(), sp, dp))
            chain.append("rt1 unknown")
            chain.append("rt1 tcp6/%s/%s/%d/%d" % ((bytes(12) + a).hex(), (bytes(12) + b).hex(), sp, dp))
            chain.append("rt1 tcp6/%s/%s/%d/%d" % ((bytes(12) + a).hex(), (bytes(12) + b).hex(), dp, sp))
            chain.append(t4)
            ops.extend(chain)
        # a parsed header formats back to exactly the text it was parsed from — in particular
        # non-canonical but valid spellings
        for l in V.valid_lines(rng, 300 if tier == "quick" else 8000):
            ops.append("v1b " + C.hexs(l + rng.choice(V.TRAILERS)))
            if V.valid_utf8(l):
                ops.append("v1s " + C.hexs(l))
        # std Display against its model: all ports, octet sweeps, all zero-run patterns
        for p_ in range(65536):
            ops.append("u16d %d" % p_)
        for a in range(256):
            ops.append("ip4d %02x%02x%02x%02x" % (a, (a * 7) % 256, 255 - a, (a * 13 + 5) % 256))
        for pat in range(256):
            for fill in fills:
                ops.append("ip6d " + V.groups_to_bytes([0 if (pat >> i) & 1 else fill for i in range(8)]).hex())
        for a in range(0, 65536, 251):
            ops.append("ip6d 00000000000000000000ffff%04x%04x" % (a, 65535 - a))
            ops.append("ip6d 0000000000000000000000000000%04x" % a)
        return ops

    def relation(self, ops, impl):
        out = []
        seen = {}
        for op, il in zip(ops, impl):
            if op.startswith("v1"):
                for part in il.split(" | ")[:2]:
                    r = res1(part)
                    if r["k"] == "ok" and (r.get("disp") != r.get("hdr") or r.get("owned") != "1"):
                        out.append(Violation("relation", op, il[:300], None, "a parsed header does not format back to the text it was parsed from"))
                        break
                continue
            if not op.startswith("rt1"):
                if op.startswith("u16d") and C.unhex(il) != op.split(" ")[1].encode():
                    out.append(Violation("relation", op, il, None, "decimal Display"))
                continue
            addr = op.split(" ", 1)[1]
            _, kv = C.fields(il)
            problems = []
            for k in ("b", "s", "fh", "fa"):
                if kv.get(k) != addr:
                    problems.append("%s entry point returns %s" % (k, kv.get(k)))
            if kv.get("same") != "1":
                problems.append("parsed header does not format back to its text")
            if kv.get("spec") == "0":
                problems.append("a format spec ({:.7}, {:5}, {:+}, {:05}, {:>120} ...) leaks into the fields of the line instead of being ignored or applied to the line as a whole")
            text = C.unhex(kv.get("text", "-"))
            if len(text) > 107 or V.oracle_v1(text) is None or V.oracle_v1(text)[0] != text:
                problems.append("formatted text is not a well-formed line of at most 107 bytes")
            if text in seen and seen[text] != addr:
                problems.append("two address values share the line")
            seen[text] = addr
            if problems:
                out.append(Violation("relation", op, il[:400], None, "; ".join(problems)))
        return out

    def nontrivial(self, op, line):
        if not op.startswith("rt1"):
            return None
        p = op.split("/")
        if len(p) == 5 and p[1] != p[2]:
            if p[0].endswith("tcp6"):
                zs = lambda h: tuple(h[i:i + 4] == "0000" for i in range(0, 32, 4))
                return (zs(p[1]), zs(p[2]))
            return (p[1][:2], p[3])
        return None


C12_EXPECT = {
    "keyword": "InvalidPrefix", "protocol": "InvalidProtocol", "source address": "InvalidSourceAddress",
    "destination address": "InvalidDestinationAddress", "source port": "InvalidSourcePort", "destination port": "InvalidDestinationPort",
}


class C12(Prop):
    id = "C12"
    required = ["C12.v2_version", "C12.v2_command", "C12.v2_family", "C12.v2_transport", "C12.v2_length", "C12.v2_signature", "C12.v2_terminal", "C12.v1_keyword", "C12.v1_protocol", "C12.v1_source_address", "C12.v1_destination_address", "C12.v1_source_port", "C12.v1_destination_port", "C12.v1_suffix", "C12.v1_limit_and_utf8", "C12.utf8_valid_iff_wellFormed", "C12.v1_ill_formed_utf8", "C12.v2_corruptions_auto", "C12.v1_protocol_short", "C12.v1_source_address_spec", "C12.port_payload_table"]
    rule = ("well-formed lines x element x invalid-replacement table (SP/CR-free replacements), CR followed by every non-LF class, lines over 107 bytes, invalid UTF-8; "
            "all invalid nibble values x valid control pairs, all too-small lengths, every altered signature byte; non-trivial = distinct (element, replacement, error) triples"
            " Also: other-family and embedded address texts (::ffff:a.b.c.d, ::a.b.c.d, 64:ff9b::a.b.c.d) as invalid fields.")

    def gen(self, tier, rng):
        ops = []
        self._meta = []
        n = 40 if tier == "quick" else 1500
        for l in V.valid_lines(rng, n):
            if V.oracle_v1(l) is None:
                continue
            for name, m in V.mutations(rng, l):
                if name not in C12_EXPECT or len(m) > 107:
                    continue
                # single-element corruption: the replacement contains no separator
                for e in ("v1b", "v1s", "auto"):
                    if e == "v1s" and not V.valid_utf8(m):
                        continue
                    ops.append("%s %s" % (e, C.hexs(m)))
                    self._meta.append(("v1", name, l, m))
            for nxt in (b"X", b"\r", b" ", b"\x00", b"0", b"\x7f"):
                m = l[:-1] + nxt
                for e in ("v1b", "v1s", "auto"):
                    if e == "v1s" and not V.valid_utf8(m):
                        continue
                    ops.append("%s %s" % (e, C.hexs(m)))
                    self._meta.append(("v1", "suffix", l, m))
            if l.startswith(b"PROXY UNKNOWN"):
                # ... including totals whose low 8 / low 16 bits are at most 107 again (a limit compared
                # in a narrowed type)
                for total in (108, 109, 150, 255, 256, 257, 300, 363, 364, 512, 65536, 65600, 65643):
                    m = l[:-2] + b" " + b"z" * (total - len(l) - 1) + b"\r\n"
                    for e in ("v1b", "v1s", "auto"):
                        ops.append("%s %s" % (e, C.hexs(m)))
                        self._meta.append(("v1", "limit", l, m))
                # over the limit in bytes but not in characters (multi-byte text): still HeaderTooLong
                for ch in (b"\xc3\xa9", b"\xe2\x82\xac", b"\xf0\x9f\x98\x80"):
                    for total in (108, 109, 110, 112, 140):
                        k = (total - len(l) - 1) // len(ch)
                        pad = b"z" * (total - len(l) - 1 - k * len(ch))
                        if k < 1:
                            continue
                        m = l[:-2] + b" " + pad + ch * k + b"\r\n"
                        if len(m) == total and len(m.decode("utf-8")) <= 107:
                            for e in ("v1b", "v1s", "auto"):
                                ops.append("%s %s" % (e, C.hexs(m)))
                                self._meta.append(("v1", "limit", l, m))
                m = l[:-2] + b" \xff\xfe\r\n"
                if len(m) <= 107:   # longer would be two faults at once (limit and encoding): not pinned
                    ops.append("v1b " + C.hexs(m))
                    self._meta.append(("v1", "utf8", l, m))
                    ops.append("auto " + C.hexs(m))
                    self._meta.append(("v1", "utf8", l, m))
        # v2
        for vc in G.VALID_VC:
            for afp in G.VALID_AFP:
                size = G.FAM_SIZE[afp >> 4]
                base = G.header(vc, afp, size + 4, G.rand_bytes(rng, size) + b"\x04\x00\x01\x2a")
                for v in range(16):
                    if v != 2:
                        self._add2(ops, base, 12, (v << 4) | (vc & 15), ("Version", v << 4))
                    if v >= 2:
                        self._add2(ops, base, 12, (vc & 0xF0) | v, ("Command", v))
                    if v >= 4:
                        self._add2(ops, base, 13, (v << 4) | (afp & 15), ("AddressFamily", v << 4))
                    if v >= 3:
                        self._add2(ops, base, 13, (afp & 0xF0) | v, ("Protocol", v))
                for ln in range(0, size):
                    if tier == "thorough" or ln in (0, 1, size - 1, size // 2):
                        x = bytearray(base)
                        x[14], x[15] = ln >> 8, ln & 255
                        for e in ("v2", "auto"):
                            ops.append("%s %s" % (e, G.spec(bytes(x))))
                            self._meta.append(("v2", ("InvalidAddresses", ln, size), base, bytes(x)))
        base = G.header(0x21, 0x11, 12, bytes(range(12)))
        for i in range(12):
            for v in range(256):
                if v != G.SIG[i] and (tier == "thorough" or v % 5 == 0 or v in (0x0D, 0x0A, 0x50)):
                    self._add2(ops, base, i, v, ("Prefix",))
        return ops

    def _add2(self, ops, base, idx, val, expect):
        x = bytearray(base)
        x[idx] = val
        for e in ("v2", "auto"):
            ops.append("%s %s" % (e, G.spec(bytes(x))))
            self._meta.append(("v2", expect, base, bytes(x)))

    def project(self, op, line):
        if op.startswith("auto"):
            tag, r, ai, ac = auto_res(line)
            return (cls(r), ai)
        if op.startswith("v1s"):
            return tuple((res1(p).get("base"), cls(res1(p))) for p in line.split(" | "))
        r = res1(line)
        return (r.get("base"), r.get("a"), r.get("b"), cls(r))

    def relation(self, ops, impl):
        out = []
        for op, il, meta in zip(ops, impl, self._meta):
            if meta[0] == "v1":
                _, name, l, m = meta
                want = {"suffix": "InvalidSuffix", "limit": "HeaderTooLong", "utf8": "InvalidUtf8"}.get(name) or C12_EXPECT[name]
                if op.startswith("auto"):
                    tag, r, ai, ac = auto_res(il)
                    rs = [r]
                    if ai != "0" or ac != "1":
                        out.append(Violation("relation", op, il[:300], None, "corrupted %s: auto-detect result must be terminal" % name))
                        continue
                elif op.startswith("v1s"):
                    rs = [res1(p) for p in il.split(" | ")]
                else:
                    rs = [res1(il)]
                for r in rs:
                    if r["k"] != "err" or r.get("base") != want or r.get("inc", "0") != "0":
                        out.append(Violation("relation", op, il[:300], None, "corrupted %s: expected terminal %s" % (name, want)))
                        break
            else:
                _, expect, base, x = meta
                if op.startswith("auto"):
                    tag, r, ai, ac = auto_res(il)
                    if cls(r) != "term" or ai != "0" or ac != "1":
                        out.append(Violation("relation", op, il[:300], None, "corrupted v2 header: auto-detect result must be terminal"))
                    continue
                r = res1(il)
                want_a = str(expect[1]) if len(expect) > 1 else "-"
                want_b = str(expect[2]) if len(expect) > 2 else "-"
                if r["k"] != "err" or r.get("base") != expect[0] or r.get("a") != want_a or r.get("b") != want_b or r.get("inc") != "0":
                    out.append(Violation("relation", op, il[:300], None, "expected terminal %s(%s,%s)" % (expect[0], want_a, want_b)))
        return out

    def nontrivial(self, op, line):
        return hash(line[:60])


class C15(Prop):
    id = "C15"
    required = ["C15.reassemble", "C15.protocol_matches", "C15.display_is_header", "C15.sep_iff"]
    rule = ("view fields of every accepted header from the valid-line generator (TCP4/TCP6 with any field values, UNKNOWN with empty/short/long/multi-space/non-ASCII text) "
            "with trailers; non-trivial = distinct (protocol, address-text length, trailing-text shape)"
            " Also: UNKNOWN lines whose text contains the keywords UNKNOWN / PROXY / TCP4 again.")

    def gen(self, tier, rng):
        ops = []
        n = 600 if tier == "quick" else 20000
        for l in V.valid_lines(rng, n):
            ops.append("v1b " + C.hexs(l + rng.choice(V.TRAILERS)))
            if V.valid_utf8(l):
                ops.append("v1s " + C.hexs(l))
        for tail in V.UNKNOWN_TAILS:
            ops.append("v1b " + C.hexs(b"PROXY UNKNOWN" + tail + b"\r\n"))
        return ops

    def project(self, op, line):
        first = line.split(" | ")[0]
        r = res1(first)
        if r["k"] != "ok":
            return "panic" if r["k"] == "panic" else None
        return (r.get("hdr"), r.get("proto"), r.get("astr"), r.get("disp"), r.get("owned"))

    def relation(self, ops, impl):
        out = []
        for op, il in zip(ops, impl):
            for part in il.split(" | ")[:2]:
                r = res1(part)
                if r["k"] != "ok":
                    continue
                hdr, proto, astr, disp = (C.unhex(r[k]) for k in ("hdr", "proto", "astr", "disp"))
                fields = hdr[:-2].split(b" ")
                problems = []
                kw = {"unknown": b"UNKNOWN", "tcp4": b"TCP4", "tcp6": b"TCP6"}[r["addr"].split("/")[0]]
                if len(fields) < 2 or proto != fields[1] or proto != kw:
                    problems.append("protocol keyword")
                between = hdr[len(b"PROXY ") + len(proto):-2]
                want = between[1:] if between[:1] == b" " else between
                if astr != want:
                    problems.append("address text")
                sep = b" " if between[:1] == b" " else b""
                if b"PROXY " + proto + sep + astr + b"\r\n" != hdr:
                    problems.append("re-assembly")
                if disp != hdr or r.get("owned") != "1":
                    problems.append("formatting / owned copy")
                if problems:
                    out.append(Violation("relation", op, il[:300], None, "views do not reconstruct the header: " + ", ".join(problems)))
                    break
        return out

    def nontrivial(self, op, line):
        r = res1(line.split(" | ")[0])
        if r["k"] != "ok":
            return None
        return (r.get("proto"), len(r.get("astr", "")), r.get("astr", "")[:4])


class C16(Prop):
    id = "C16"
    required = ["C16.entry_points_agree", "C16.mid_char_all_errors", "C16.owned_equal", "C16.entry_points_mid_char_iff"]
    rule = ("every valid-UTF-8 input of the v1 pool plus multi-byte characters on both sides of the CR, through text / bytes / both FromStr; owned copies compared after the "
            "source buffer is overwritten; non-trivial = distinct inputs containing a multi-byte character within two bytes of the first CR, or accepted."
            " Owned-copy clause for v2: accepted headers of every command x family x transport with payloads at the family minimum + {0,1,3,4,7,217,300} and random valid headers, TLV sections at boundary lengths (owned / clob / towned flags of the harness).")

    def gen(self, tier, rng):
        pool = [x for x in v1_inputs(rng, tier) if V.valid_utf8(x)]
        for lead in (b"\xc3\xa9", b"\xe2\x82\xac", b"\xf0\x9f\x98\x80"):
            for body in (b"", b"P", b"PROXY UNKNOWN", b"PROXY UNKNOWN ", b"PROXY TCP4 1.1.1.1 2.2.2.2 1 2"):
                pool += [body + b"\r" + lead, body + lead + b"\r\n", body + b"\r" + lead + b"\n", body + b"\r\n" + lead, lead + body + b"\r", body + lead + b"\r" + lead]
        ops = []
        for x in pool:
            ops.append("v1s " + C.hexs(x))
            ops.append("v1b " + C.hexs(x))
        self._nv1 = len(ops)
        # owned-copy clause for v2 headers and TLVs: accepted headers of every command / family /
        # transport with payloads from the family minimum upwards (the unspecified family with a
        # payload included), and TLV sections. A generator of its own, so that the v1 stream above
        # does not depend on it.
        import random
        r2 = random.Random(int(os.environ.get("VERIF_SEED", "1")) * 1000 + 16)
        for vc in G.VALID_VC:
            for afp in G.VALID_AFP:
                size = G.FAM_SIZE[afp >> 4]
                for extra in (0, 1, 3, 4, 7, 217, 300):
                    ops.append("v2 " + G.spec(G.header(vc, afp, size + extra, G.rand_bytes(r2, size + extra))))
        for h in G.gen_valid_headers(r2, 400 if tier == "quick" else 20000):
            ops.append("v2 " + G.spec(h))
        for sec in G.tlv_boundary_sections(r2):
            ops.append("tlv " + G.spec(sec))
        return ops

    def project(self, op, line):
        # C16 pins that the entry points agree with each other (the relation below), not which error a
        # rejected input gets: error kinds enter the projection only as their agreement pattern
        if op.startswith(("v2 ", "tlv ")):
            if line.startswith("panic") or line == "crash":
                return "panic"
            h, kv = C.fields(line)
            if op.startswith("v2 "):
                return ("ok", kv.get("owned"), kv.get("clob")) if h.startswith("ok") else None
            return ("tlv", kv.get("towned"))
        if op.startswith("v1s"):
            rs = [res1(p) for p in line.split(" | ")]
            kinds = [r.get("variant") for r in rs]
            pattern = tuple(kinds.index(k) for k in kinds)
            return tuple((r["k"], r.get("hdr"), r.get("addr"), r.get("owned")) for r in rs) + (pattern,)
        r = res1(line)
        return (r["k"], r.get("hdr"), r.get("addr"), r.get("owned"), r.get("clob"))

    def relation(self, ops, impl):
        out = []
        nv1 = getattr(self, "_nv1", len(ops))
        for op, il in zip(ops[nv1:], impl[nv1:]):
            h, kv = C.fields(il)
            if op.startswith("v2 ") and h.startswith("ok") and (kv.get("owned") != "1" or kv.get("clob") != "1"):
                out.append(Violation("relation", op[:300], il[:300], None, "owned copy of an accepted v2 header differs from the original (equality, views, Display, TLVs) or changed after the input buffer was overwritten (owned=%s clob=%s)" % (kv.get("owned"), kv.get("clob"))))
            if op.startswith("tlv ") and kv.get("towned") != "1":
                out.append(Violation("relation", op[:300], il[:300], None, "owned copy of a decoded TLV differs from the borrowed original"))
        for i in range(0, nv1, 2):
            x = op_bytes(ops[i])
            parts = [res1(p) for p in impl[i].split(" | ")]
            rb = res1(impl[i + 1])
            cr = x.find(b"\r")
            end = min(cr + 2, len(x)) if cr >= 0 else len(x)
            mid = end < len(x) and (x[end] & 0xC0) == 0x80
            problems = []
            if len(parts) != 3:
                problems.append("malformed result")
            elif mid:
                if any(p["k"] != "err" for p in parts) or rb["k"] != "err":
                    problems.append("examined line ends inside a multi-byte character: all entry points must return an error")
            else:
                s, fh, fa = parts
                if s["k"] == "ok":
                    same = all(p["k"] == "ok" for p in (fh, fa, rb)) and s["hdr"] == fh.get("hdr") == rb.get("hdr") and s["addr"] == fh.get("addr") == fa.get("addr") == rb.get("addr")
                elif s["k"] == "err":
                    same = all(p["k"] == "err" and p.get("variant") == s.get("variant") for p in (fh, fa, rb))
                else:
                    same = False
                if not same:
                    problems.append("text / bytes / FromStr entry points disagree")
            for p in parts + [rb]:
                if p["k"] == "ok" and p.get("owned", "1") != "1":
                    problems.append("owned copy differs from the original")
            if rb["k"] == "ok" and rb.get("clob") != "1":
                problems.append("owned copy changed after the input buffer was overwritten")
            if problems:
                out.append(Violation("relation", [ops[i], ops[i + 1]], [impl[i][:300], impl[i + 1][:300]], None, "; ".join(problems)))
        return out

    def nontrivial(self, op, line):
        x = op_bytes(op)
        cr = x.find(b"\r")
        if cr >= 0 and any(b >= 0x80 for b in x[max(cr - 2, 0):cr + 3]):
            return x[:60]
        if line.startswith("ok"):
            return x[:60]
        return None


    def sweeps(self, tier):
        # the relation evaluated in-process on all token strings and near-valid full lines
        return [["v1tokens", 5 if tier == "quick" else 6], ["v1lines", 1 if tier == "quick" else 2]]

class C18(Prop):
    id = "C18"
    required = ["C18.frozen_complete_bytes", "C18.frozen_complete_str", "C18.frozen_stable_bytes", "C18.complete_at_108", "C18.complete_at_108_str", "C18.sharp_107_bytes", "C18.incomplete_ge_107_bytes", "C18.frozen_stable_str"]
    rule = ("every frozen input (first CR followed by >= 1 byte, or >= 107 bytes without CR) of the v1 pool, token strings, CRLF lines with too few fields, CR + non-LF, "
            "CR-free inputs of 106/107/108+ bytes; non-trivial = distinct frozen inputs that are not accepted"
            " Also: inputs of 107/108/109/130 bytes whose first CR is the last byte (108 bytes and more: complete; 107: not pinned).")

    def gen(self, tier, rng):
        pool = v1_inputs(rng, tier, k=4 if tier == "quick" else 5)
        for k in range(0, 7):
            f = [b"PROXY", b"TCP4", b"1.1.1.1", b"2.2.2.2", b"1", b"2"][:k]
            for e in (b"\r\n", b"\rX", b"\r\r", b"\r ", b" \r\n", b"\r\n\r\n"):
                pool.append(b" ".join(f) + e)
        for n in (106, 107, 108, 120):
            pool += [b"P" * n, b"PROXY " + b"T" * (n - 6), b"PROXY TCP4 " + b"1" * (n - 11), b" " * n]
        frozen = []
        for x in pool:
            cr = x.find(b"\r")
            if (cr >= 0 and cr + 1 < len(x)) or (cr < 0 and len(x) >= 107):
                frozen.append(x)
        # the buffering bound (C18.complete_at_108): from 108 bytes on every verdict is final, also when
        # the first CR is the last byte; at 107 bytes that one shape (first CR last) is still incomplete
        # in model and implementation alike (compared, not required)
        for n in (107, 108, 109, 130):
            for head in (b"PROXY UNKNOWN ", b"PROXY TCP4 ", b"PROXY TCP6 ::1 ::2 1 ", b"PROXY ", b"", b"PROXY UNKNOWN \xc3\xa9"):
                frozen.append(head + b"1" * (n - 1 - len(head)) + b"\r")
        ops = []
        for x in frozen:
            ops.append("v1b " + C.hexs(x))
            ops.append("v1b " + C.hexs(x + rng.choice(V.TRAILERS)))
            if V.valid_utf8(x):
                ops.append("v1s " + C.hexs(x))
        return ops

    def project(self, op, line):
        # C18 pins that the verdict of a frozen input (or of >= 108 bytes) is complete, not which one it
        # is; the 107-byte inputs whose first CR is the last byte are outside the premise: whether they
        # are still "incomplete" (as on the current tree) or already HeaderTooLong is not pinned
        x = op_bytes(op)
        cr = x.find(b"\r")
        if not ((cr >= 0 and cr + 1 < len(x)) or (cr < 0 and len(x) >= 107) or len(x) >= 108):
            fin = lambda c: c if c == "panic" else "any"
        else:
            fin = lambda c: c if c in ("inc", "panic") else "complete"
        if op.startswith("v1s"):
            return tuple(fin(cls(res1(p))) for p in line.split(" | ")[:2])
        return fin(cls(res1(line)))

    def relation(self, ops, impl):
        out = []
        for op, il in zip(ops, impl):
            x = op_bytes(op)
            cr = x.find(b"\r")
            if not ((cr >= 0 and cr + 1 < len(x)) or (cr < 0 and len(x) >= 107) or len(x) >= 108):
                continue
            p = self.project(op, il)
            for k in (p if isinstance(p, tuple) else (p,)):
                if k != "complete":
                    out.append(Violation("relation", op, il[:300], None, "the line is frozen (first CR + 1 byte seen, or 107 bytes without CR, or 108 bytes supplied) but the result is %s" % k))
                    break
        return out

    def nontrivial(self, op, line):
        r = res1(line.split(" | ")[0])
        return op_bytes(op)[:50] if r["k"] == "err" else None

    def sweeps(self, tier):
        return [["v1tokens", 5 if tier == "quick" else 6], ["v1lines", 1 if tier == "quick" else 2], ["bytes3", 3]]


class C19(Prop):
    id = "C19"
    required = ["C19.ipv4_new", "C19.ipv6_new", "C19.new_tcp", "C19.unix_new", "C19.from_socket_pairs", "C19.v1_v2_agree"]
    rule = ("argument tuples with pairwise-distinct components for every constructor; all nine V4/V6/mixed SocketAddr pairings with non-zero flow-info and scope; "
            "non-trivial = distinct tuples whose four components are pairwise different")

    def gen(self, tier, rng):
        ops = []
        self._args = []
        n = 1500 if tier == "quick" else 60000

        def add(op, args):
            ops.append(op)
            self._args.append(args)

        for _ in range(n):
            sa, da = G.rand_bytes(rng, 4), G.rand_bytes(rng, 4)
            sp, dp = rng.getrandbits(16), rng.getrandbits(16)
            add("ctor ip4 %s %s %d %d" % (sa.hex(), da.hex(), sp, dp), ("ip4", sa, da, sp, dp))
            sa6, da6 = G.rand_bytes(rng, 16), G.rand_bytes(rng, 16)
            add("ctor ip6 %s %s %d %d" % (sa6.hex(), da6.hex(), sp, dp), ("ip6", sa6, da6, sp, dp))
            s4 = "v4/%s/%d" % (sa.hex(), sp)
            d4 = "v4/%s/%d" % (da.hex(), dp)
            s6 = "v6/%s/%d/%d/%d" % (sa6.hex(), sp, rng.getrandbits(20) + 1, rng.getrandbits(31) + 1)
            d6 = "v6/%s/%d/%d/%d" % (da6.hex(), dp, rng.getrandbits(20) + 1, rng.getrandbits(31) + 1)
            for s, d, kind in ((s4, d4, "44"), (s6, d6, "66"), (s4, d6, "46"), (s6, d4, "64")):
                add("ctor sock %s %s" % (s, d), ("sock", kind, sa, da, sa6, da6, sp, dp))
        for _ in range(n // 10):
            s, d = G.rand_bytes(rng, 108), G.rand_bytes(rng, 108)
            add("ctor unix %s %s" % (s.hex(), d.hex()), ("unix", s, d))
        # equal components (source = destination, equal ports): a "self-connection" filter shows only here
        for _ in range(max(20, n // 20)):
            sa = G.rand_bytes(rng, 4)
            sa6 = G.rand_bytes(rng, 16)
            sp = rng.choice([0, 80, 65535, rng.getrandbits(16)])
            add("ctor ip4 %s %s %d %d" % (sa.hex(), sa.hex(), sp, sp), ("ip4", sa, sa, sp, sp))
            add("ctor ip6 %s %s %d %d" % (sa6.hex(), sa6.hex(), sp, sp), ("ip6", sa6, sa6, sp, sp))
            s4 = "v4/%s/%d" % (sa.hex(), sp)
            s6 = "v6/%s/%d/%d/%d" % (sa6.hex(), sp, 7, 9)
            add("ctor sock %s %s" % (s4, s4), ("sock", "44", sa, sa, sa6, sa6, sp, sp))
            add("ctor sock %s %s" % (s6, s6), ("sock", "66", sa, sa, sa6, sa6, sp, sp))
            u = G.special_unix(rng)
            add("ctor unix %s %s" % (u.hex(), u.hex()), ("unix", u, u))
        # special addresses in every pairing: IPv4-mapped / -compatible / NAT64 V6, loopback, unspecified, broadcast
        v4s = [bytes([0, 0, 0, 0]), bytes([127, 0, 0, 1]), bytes([255] * 4), bytes([10, 1, 2, 3]), bytes([192, 168, 0, 1])]
        v6s = [bytes(16), bytes(15) + b"\x01", b"\xff" * 16]
        for a in v4s:
            v6s += [bytes(10) + b"\xff\xff" + a, bytes(12) + a, bytes.fromhex("0064ff9b") + bytes(8) + a]
        k = 0
        for sa in v4s + v6s:
            for da in v4s + v6s:
                k += 1
                sp, dp = (1000 + k) % 65536, (40000 + 7 * k) % 65536
                def sock(x, p):
                    return "v4/%s/%d" % (x.hex(), p) if len(x) == 4 else "v6/%s/%d/%d/%d" % (x.hex(), p, k, k + 1)
                kind = ("4" if len(sa) == 4 else "6") + ("4" if len(da) == 4 else "6")
                add("ctor sock %s %s" % (sock(sa, sp), sock(da, dp)),
                    ("sock", kind, sa if len(sa) == 4 else b"", da if len(da) == 4 else b"", sa if len(sa) == 16 else b"", da if len(da) == 16 else b"", sp, dp))
        # structured socket-path fields
        for _ in range(n // 10):
            s, d = G.special_unix(rng), G.special_unix(rng)
            add("ctor unix %s %s" % (s.hex(), d.hex()), ("unix", s, d))
        # v1::Header::new keeps text and addresses as given; TypeLengthValue::new / From<(kind, bytes)> keep kind and value
        for i in range(n // 5):
            sa, da = G.rand_bytes(rng, 4), G.rand_bytes(rng, 4)
            sa6, da6 = G.special_v6(rng), G.rand_bytes(rng, 16)
            sp, dp = rng.getrandbits(16), rng.getrandbits(16)
            text = rng.choice([b"", b"PROXY UNKNOWN\r\n", b"PROXY TCP4 1.2.3.4 5.6.7.8 1 2\r\n", b"not a header", "h\u00e9".encode()])
            addr = [("unknown",), ("tcp4", sa, da, sp, dp), ("tcp6", sa6, da6, sp, dp)][i % 3]
            at = addr[0] if len(addr) == 1 else "%s/%s/%s/%d/%d" % (addr[0], addr[1].hex(), addr[2].hex(), addr[3], addr[4])
            add("ctor hdr1 %s %s" % (text.hex() or "-", at), ("hdr1", text, at))
            kind = rng.choice([0, 1, 4, 0x20, 0x30, 255, rng.getrandbits(8)])
            value = G.rand_bytes(rng, rng.choice([0, 1, 2, 3, 16, 255, 256, 65535, 65536, 70000]))
            add("ctor tlvnew %d %s" % (kind, G.spec(value)), ("tlvnew", kind, value))
        return ops

    def relation(self, ops, impl):
        out = []
        for op, il, a in zip(ops, impl, self._args):
            _, kv = C.fields(il)
            ok = True
            if a[0] in ("ip4", "ip6"):
                _, sa, da, sp, dp = a
                v1n = "tcp4" if a[0] == "ip4" else "tcp6"
                v2n = "ipv4" if a[0] == "ip4" else "ipv6"
                txt = "%s/%s/%d/%d" % (sa.hex(), da.hex(), sp, dp)
                ok = (kv.get("sa") == sa.hex() and kv.get("da") == da.hex() and kv.get("sp") == str(sp) and kv.get("dp") == str(dp) and kv.get("arr") == "1"
                      and kv.get(v1n) == v1n + "/" + txt and kv.get("from1") == v1n + "/" + txt and kv.get("from2") == v2n + "/" + txt)
            elif a[0] == "unix":
                ok = kv.get("src") == a[1].hex() and kv.get("dst") == a[2].hex() and kv.get("from2") == "unix/%s/%s" % (a[1].hex(), a[2].hex())
            elif a[0] == "hdr1":
                ok = kv.get("hdr") == (a[1].hex() or "-") and kv.get("addr") == a[2]
            elif a[0] == "tlvnew":
                v = a[2]
                got = kv.get("value", "")
                ok = (kv.get("kind") == str(a[1]) and (got == v.hex() or (got == "-" and not v)) and kv.get("len") == str(len(v))
                      and kv.get("empty") == ("1" if not v else "0") and kv.get("same") == "1")
            else:
                _, kind, sa, da, sa6, da6, sp, dp = a
                if kind == "44":
                    t = "%s/%s/%d/%d" % (sa.hex(), da.hex(), sp, dp)
                    ok = kv.get("v1") == "tcp4/" + t and kv.get("v2") == "ipv4/" + t and kv.get("fam") == "ipv4"
                elif kind == "66":
                    t = "%s/%s/%d/%d" % (sa6.hex(), da6.hex(), sp, dp)
                    ok = kv.get("v1") == "tcp6/" + t and kv.get("v2") == "ipv6/" + t and kv.get("fam") == "ipv6"
                else:
                    ok = kv.get("v1") == "unknown" and kv.get("v2") == "unspec" and kv.get("fam") == "unspec"
                ok = ok and kv.get("def") == "unknown"
            if not ok:
                out.append(Violation("relation", op, il[:300], None, "an argument did not end up in the like-named role"))
        return out

    def nontrivial(self, op, line):
        p = op.split(" ")
        if len(p) >= 4 and len(set(p[2:])) == len(p[2:]):
            return hash(op)
        return None
