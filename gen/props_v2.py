"""Properties about the binary parser, its views and the TLV iterator: C02 C11 C14 C17."""
from . import common as C
from . import v2gen as G
from .engine import Prop, Violation


def op_bytes(op):
    """Decodes the byte-string spec of an op argument (python side)."""
    arg = op.split(" ", 1)[1]
    out = bytearray()
    for piece in arg.split("."):
        if piece.startswith("r"):
            n, b = piece[1:].split("x")
            out.extend(bytes.fromhex(b) * int(n))
        elif piece != "-":
            out.extend(bytes.fromhex(piece))
    return bytes(out)


def tlv_items_of(line):
    """Extracts the 'tlvs=[...]' list and its counters from a result line."""
    i = line.find("tlvs=[")
    if i < 0:
        return None
    j = line.find("]", i)
    body = line[i + 6:j]
    items = body.split(",") if body else []
    # the payload of the "fewer than three bytes remain" error is not pinned by any property
    # (C11 names the payload only in the overrun case): compare the kind alone
    items = ["!leftovers" if it.startswith("!leftovers:") else it for it in items]
    rest = dict(t.split("=", 1) for t in line[j + 1:].split(" ") if "=" in t)
    return items, rest


class C02(Prop):
    id = "C02"
    required = ["C02.accept_iff", "C02.accept_iff_table", "C02.decomposition_unique"]
    rule = ("all 65 536 control-byte pairs x length/presence relations, signature corruptions, random accepted headers; "
            "non-trivial = distinct (control pair, declared-length vs family-size relation, bytes-present vs needed relation)")
    exhaustive = True

    def gen(self, tier, rng):
        ops = G.gen_control_space(rng, tier)
        ops += G.gen_signature_corruptions(rng)
        n = 3000 if tier == "quick" else 60000
        ops += ["v2 " + G.spec(h + (b"" if i % 3 else b"trailing")) for i, h in enumerate(G.gen_valid_headers(rng, n))]
        small = G.gen_valid_headers(rng, 12, max_payload=40, big_every=10 ** 9) + [G.header(0x21, 0x11, 60000, G.rand_bytes(rng, 60000))]
        ops += ["v2 " + G.spec(x) for x in G.gen_big_trailers(rng, small)]
        return ops

    def project(self, op, line):
        h, kv = C.fields(line)
        if line.startswith("panic") or line == "crash":
            return "panic"
        if h.startswith("ok"):
            return ("ok", kv.get("hdr"), kv.get("ver"), kv.get("cmd"), kv.get("tr"), kv.get("fam"), kv.get("addr"))
        return "reject"

    def relation(self, ops, impl):
        out = []
        for op, il in zip(ops, impl):
            x = op_bytes(op)
            k, d = G.parse_oracle(x)
            p = self.project(op, il)
            if k == "ok":
                want = ("ok", d["hdr"], "two", d["cmd"], d["tr"], d["fam"], d["addr"])
                if p != want:
                    out.append(Violation("relation", op, il, None, "wire format requires acceptance with %r" % (want,)))
            elif p != "reject":
                out.append(Violation("relation", op, il, None, "wire format requires rejection (%s)" % k))
        return out

    def nontrivial(self, op, line):
        x = op_bytes(op)
        if len(x) < 16:
            return ("short", len(x))
        length = x[14] * 256 + x[15]
        size = G.FAM_SIZE.get(x[13] >> 4, 0)
        rel1 = (length > size) - (length < size)
        have = len(x) - 16
        rel2 = (have > length) - (have < length)
        return (x[12], x[13], rel1, rel2)


class C11(Prop):
    id = "C11"
    required = ["C11.collect_eq_walk", "C11.tiling", "C11.error_last", "C11.fuel_irrelevant", "C11.step_none_stable", "C11.next_ok_at", "C11.header_tlvs_unspec"]
    rule = ("every string over {0,1,2,3,255} up to length 8 (quick) / 10 (thorough), well-formed sections with every truncation, "
            "sections of accepted headers; non-trivial = distinct sections with >= 2 items or an error item"
            " Also: every section of at most 2 bytes, type-shaped TLVs (CRC32C, unique id around 128, SSL with sub-TLVs), long text values; collect/count/last/size_hint/nth/skip/step_by/by_ref/copies compared with the next() sequence.")

    def gen(self, tier, rng):
        ops = []
        alpha = [0, 1, 2, 3, 255]
        maxlen = 7 if tier == "quick" else 9
        # exhaustive small alphabet
        def rec(prefix, depth):
            ops.append("tlv " + C.hexs(bytes(prefix)))
            if depth == 0:
                return
            for a in alpha:
                prefix.append(a)
                rec(prefix, depth - 1)
                prefix.pop()
        rec([], maxlen)
        # well-formed sections and every truncation point
        n = 300 if tier == "quick" else 5000
        for _ in range(n):
            sec = G.rand_tlvs(rng, rng.choice([10, 40, 300, 700]))
            cuts = range(len(sec) + 1) if len(sec) < 120 else sorted(set([0, 1, 2, 3, len(sec) - 1, len(sec)] + [rng.randrange(len(sec)) for _ in range(20)]))
            for c in cuts:
                ops.append("tlv " + G.spec(sec[:c]))
        # every section of at most two bytes (all 256 values), and every 3-byte section with a zero length
        for a in range(256):
            ops.append("tlv " + C.hexs(bytes([a])))
            ops.append("tlv " + C.hexs(bytes([a, 0, 0])))
            for b in (0, 1, 2, 3, 0x7F, 0x80, 0xFF):
                ops.append("tlv " + C.hexs(bytes([a, b])))
                ops.append("tlv " + C.hexs(bytes([a, 0, b]) + bytes(b)))
        # boundary lengths
        for sec in G.tlv_boundary_sections(rng):
            ops.append("tlv " + G.spec(sec))
        # random
        for _ in range(2000 if tier == "quick" else 100000):
            ops.append("tlv " + C.hexs(bytes(rng.choice([0, 0, 1, 2, 3, rng.getrandbits(8)]) for _ in range(rng.randint(0, 24)))))
        # sections of accepted headers
        for h in G.gen_valid_headers(rng, 1500 if tier == "quick" else 30000):
            ops.append("v2 " + G.spec(h))
        return ops

    def project(self, op, line):
        if line.startswith("panic") or line == "crash":
            return "panic"
        if op.startswith("v2 ") and not line.startswith("ok"):
            return None
        t = tlv_items_of(line)
        if t is None:
            return "noitems"
        items, rest = t
        return (tuple(items), rest.get("steps"), rest.get("ended"), rest.get("fused"), rest.get("sbytes"), rest.get("towned"), rest.get("adapt"))

    def relation(self, ops, impl):
        out = []
        for op, il in zip(ops, impl):
            if op.startswith("v2 "):
                if not il.startswith("ok"):
                    continue
                sec = C.unhex(C.fields(il)[1]["tb"])
            else:
                sec = op_bytes(op)
            want = ["!leftovers" if w.startswith("!leftovers:") else w for w in G.tlv_walk_oracle(sec)]
            t = tlv_items_of(il)
            if t is None:
                out.append(Violation("relation", op, il, None, "no item list"))
                continue
            items, rest = t
            if items != want or rest.get("ended") != "1" or rest.get("fused") != "1" or rest.get("sbytes") != "1" or rest.get("towned") != "1" or int(rest.get("steps", -1)) != len(want):
                out.append(Violation("relation", op, il, None, "reference TLV walk is %r, ends and stays ended" % (want[:8],)))
            elif rest.get("adapt") != "1":
                out.append(Violation("relation", op, il, None, "collect / count / last / nth / skip / step_by / a copy taken mid-way do not describe the sequence that next() yields"))
            elif len(want) > len(sec) // 3 + 1:
                out.append(Violation("relation", op, il, None, "more than n/3+1 items"))
        return out

    def nontrivial(self, op, line):
        t = tlv_items_of(line)
        if t is None:
            return None
        items, _ = t
        if len(items) >= 2 or any(i.startswith("!") for i in items):
            return tuple(items)[:6] + (len(items),)
        return None


class C14(Prop):
    id = "C14"
    required = ["C14.views_partition", "C14.lengths", "C14.family", "C14.addresses_decode", "C14.split_point", "C14.helpers", "C14.nibbles"]
    rule = ("view fields of every accepted header from the control-space and valid-header generators; "
            "non-trivial = distinct (family, transport, payload length class, TLV section length class)")

    def gen(self, tier, rng):
        ops = []
        n = 6000 if tier == "quick" else 150000
        for h in G.gen_valid_headers(rng, n):
            ops.append("v2 " + G.spec(h + rng.choice([b"", b"\x00", b"PROXY"])))
        # family minimum .. and exact sizes
        for vc in G.VALID_VC:
            for afp in G.VALID_AFP:
                size = G.FAM_SIZE[afp >> 4]
                for extra in (0, 1, 2, 3, 4, 255, 256, 65535 - size):
                    ops.append("v2 " + G.spec(G.header(vc, afp, size + extra, G.rand_bytes(rng, size + extra))))
        return ops

    KEYS = ("hdr", "fam", "addr", "alen", "aempty", "len", "length", "empty", "ab", "tb", "asb", "sec", "owned", "clob")

    def project(self, op, line):
        if line.startswith("panic") or line == "crash":
            return "panic"
        h, kv = C.fields(line)
        if not h.startswith("ok"):
            return None
        return tuple(kv.get(k) for k in self.KEYS)

    def relation(self, ops, impl):
        out = []
        for op, il in zip(ops, impl):
            h, kv = C.fields(il)
            if not h.startswith("ok"):
                continue
            hdr = C.unhex(kv["hdr"])
            ab, tb = C.unhex(kv["ab"]), C.unhex(kv["tb"])
            fam_n = hdr[13] >> 4
            size = G.FAM_SIZE[fam_n]
            length = int(kv["length"])
            problems = []
            if ab + tb != hdr[16:]:
                problems.append("address bytes ++ tlv bytes != payload")
            if len(ab) != (length if fam_n == 0 else size):
                problems.append("address view size")
            if not (length + 16 == int(kv["len"]) == len(hdr)):
                problems.append("length + 16 != len")
            if length != hdr[14] * 256 + hdr[15]:
                problems.append("length field")
            if kv["fam"] != G.FAM_NAME[fam_n] or not kv["addr"].startswith(kv["fam"]):
                problems.append("family")
            if int(kv["alen"]) != size or kv["aempty"] != ("1" if fam_n == 0 else "0") or kv["empty"] != "0":
                problems.append("addresses.len / is_empty")
            k, d = G.parse_oracle(hdr)
            if k != "ok" or d["addr"] != kv["addr"]:
                problems.append("addresses are not the big-endian decoding of the address view")
            if kv.get("asb") != "1" or kv.get("sec") != "1" or kv.get("owned") != "1" or kv.get("clob") != "1":
                problems.append("as_bytes / tlvs().as_bytes / owned copy")
            if problems:
                out.append(Violation("relation", op, il, None, "; ".join(problems)))
        return out

    def nontrivial(self, op, line):
        h, kv = C.fields(line)
        if not h.startswith("ok"):
            return None
        cls = lambda n: 0 if n == 0 else 1 if n < 3 else 2 if n < 256 else 3 if n < 65000 else 4
        return (kv["fam"], kv["tr"], cls(int(kv["length"])), cls(len(kv["tb"]) // 2 if kv["tb"] != "-" else 0))


class C17(Prop):
    id = "C17"
    required = ["C17.incomplete_exact", "C17.partial_exact", "C17.partial_completion", "C17.partial_progress", "C17.truncated_exact", "C17.partial_iff", "C17.incomplete_iff"]
    rule = ("every cut of generated headers, all valid control pairs x declared lengths, completion with random bytes; "
            "non-trivial = distinct (control pair, have, need) triples of incomplete results"
            " Also: declared lengths below the family block with 0..length-1 bytes present (must already be terminal).")

    def gen(self, tier, rng):
        ops = []
        heads = G.gen_valid_headers(rng, 400 if tier == "quick" else 8000, max_payload=300)
        for h in heads:
            n = len(h)
            cuts = list(range(0, min(n, 60))) + ([n - 1, n - 2, (n + 16) // 2] if n > 60 else [])
            for c in sorted(set(c for c in cuts if 0 <= c < n)):
                x = h[:c]
                ops.append("v2 " + G.spec(x))
                if c >= 16:
                    need = n - c
                    # exactly the missing number of bytes, whatever their values
                    ops.append("v2 " + G.spec(x + G.rand_bytes(rng, need)))
                    if need > 1:
                        k = rng.randint(1, need - 1)
                        ops.append("v2 " + G.spec(x + G.rand_bytes(rng, k)))
        lengths = [0, 1, 11, 12, 35, 36, 215, 216, 255, 256, 1000, 65535]
        if tier == "thorough":
            lengths = sorted(set(lengths + list(range(0, 65536, 257))))
        for vc in G.VALID_VC:
            for afp in G.VALID_AFP:
                for length in lengths:
                    # declared lengths below the family's block included: with bytes missing the
                    # verdict must already be the terminal one (completing it cannot succeed)
                    for have in sorted(set([0, 1, length // 2, max(length - 1, 0)])):
                        if have < length:
                            ops.append("v2 " + G.spec(G.header(vc, afp, length, G.rand_bytes(rng, have))))
                size = G.FAM_SIZE[afp >> 4]
                for length in sorted(set([1, 2, 5, size // 2, size - 1])):
                    if 0 < length < size:
                        for have in range(0, min(length, 6)):
                            ops.append("v2 " + G.spec(G.header(vc, afp, length, G.rand_bytes(rng, have))))
                        ops.append("v2 " + G.spec(G.header(vc, afp, length, G.rand_bytes(rng, length - 1))))
        return ops

    def project(self, op, line):
        if line.startswith("panic") or line == "crash":
            return "panic"
        h, kv = C.fields(line)
        if h.startswith("ok"):
            return ("ok", kv.get("hdr"))
        return (h, kv.get("a"), kv.get("b"), kv.get("inc"))

    def relation(self, ops, impl):
        out = []
        for op, il in zip(ops, impl):
            x = op_bytes(op)
            k, _ = G.parse_oracle(x)
            h, kv = C.fields(il)
            if k == "inc":
                if len(x) < 16:
                    ok = h == "err Incomplete" and kv.get("a") == str(len(x)) and kv.get("inc") == "1"
                    want = "Incomplete(%d)" % len(x)
                else:
                    need = x[14] * 256 + x[15]
                    ok = h == "err Partial" and kv.get("a") == str(len(x) - 16) and kv.get("b") == str(need) and kv.get("inc") == "1"
                    want = "Partial(%d, %d)" % (len(x) - 16, need)
                if not ok:
                    out.append(Violation("relation", op, il, None, "exact counts required: " + want))
            elif k == "ok" and not h.startswith("ok"):
                out.append(Violation("relation", op, il, None, "all declared bytes present: must be a success"))
            elif k == "term" and (h.startswith("ok") or kv.get("inc") == "1"):
                out.append(Violation("relation", op, il, None, "not a truncated well-formed header: must be terminal"))
        return out

    def nontrivial(self, op, line):
        h, kv = C.fields(line)
        if kv.get("inc") == "1":
            x = op_bytes(op)
            return (x[12] if len(x) > 12 else -1, x[13] if len(x) > 13 else -1, kv.get("a"), kv.get("b"))
        return None
