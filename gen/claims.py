"""Per-property claim texts for MANIFEST.json."""
BASE_NOTE = ("Trusted: Lean 4.33 kernel; axioms propext / Classical.choice / Quot.sound only (audited per run); the model is hand-written "
             "and tied to /repo by differential testing (exhaustive small-scope families + generated cases), not by proof; harness printing; "
             "std functions are modelled, not verified.")

CLAIMS = {
    "C02": {
        "text": "Theorem C02.accept_iff: for every byte string, the parser model accepts iff the input starts with the protocol's wire "
                "encoding (Spec.V2.encode) and then reports exactly the encoded command/transport/addresses and exactly the encoded bytes; "
                "table form C02.accept_iff_table. The model is compared with the real parser on all 65 536 control-byte pairs x "
                "length/presence relations, every single-byte signature corruption and generated headers; an independent Python wire-format "
                "oracle is evaluated on the implementation's outputs as well.",
        "note": BASE_NOTE,
        "ref": "DESIGN.md 7 (C02)",
    },
}

CLAIMS["C11"] = {
    "text": "Theorem C11.collect_eq_walk: for every byte string, collecting the iterator model equals the reference type-length-value walk "
            "(Spec.Tlv.walk); corollaries: tiling of the section by the decoded items (C11.tiling, tiling_complete_iff), at most one error "
            "and it is last (C11.error_last), at most n/3+1 items (C11.count_bound), exhausted after an error, and fuel irrelevance "
            "(the Rust loop has no bound). Correspondence: all strings over {0,1,2,3,255} up to length 7 (quick) / 9 (thorough), every "
            "truncation of well-formed sections, boundary lengths 0/1/255/256/65535, sections of accepted headers; a Python reference walk "
            "is evaluated on the implementation's outputs.",
    "note": BASE_NOTE, "ref": "DESIGN.md 7 (C11)",
}
CLAIMS["C14"] = {
    "text": "Theorems C14.views_partition / lengths / family / addresses_decode: for every accepted header (any input), address bytes ++ TLV bytes "
            "= payload, sizes and length field agree, family = wire nibble = family of the decoded value, and the decoded value is the big-endian "
            "decoding of the address view. Derived from C02.accept_iff. Correspondence on view fields of generated accepted headers, all valid "
            "control pairs x payload sizes incl. 65535, borrowed and owned.",
    "note": BASE_NOTE, "ref": "DESIGN.md 7 (C14)",
}
CLAIMS["C17"] = {
    "text": "Theorems C17.incomplete_exact, partial_exact, partial_completion, partial_progress (+ surplus): exact counts in Incomplete/Partial, "
            "completion with any bytes of the missing length succeeds, fewer bytes update the counts. Correspondence on every cut of generated "
            "headers, all valid control pairs x declared lengths, completions with random bytes.",
    "note": BASE_NOTE, "ref": "DESIGN.md 7 (C17)",
}

CLAIMS["C07"] = {
    "text": "Theorems C07.build_is_encoding (for every command, transport, address value and TLV list within 65535 bytes the builder model returns "
            "exactly Spec.V2.encode of them), parses_back (from C02), tlvs_back (from C11) and type_codes (code tables = protocol tables). "
            "Correspondence: generated programs of that shape incl. payload totals of exactly 65535, each parsed back by the real parser; the "
            "code table compared exhaustively through the public API.",
    "note": BASE_NOTE, "ref": "DESIGN.md 7 (C07)",
}
CLAIMS["C09"] = {
    "text": "Theorems C09.length_field (any constructor, any call history: on success the field is the explicit length in force, else the actual "
            "payload size), overflow_fails, oversized_value_fails; by induction over call histories with the invariant V2.Shape. "
            "Correspondence: random programs, set_length inserted at every position, totals steered to 65534..65537 and to the writer guard.",
    "note": BASE_NOTE + " Model includes the D7 repair (fix: commit in /repo).", "ref": "DESIGN.md 7 (C09), 8 (D7)",
}
CLAIMS["C10"] = {
    "text": "Theorems C10.output_is_reference(_with) (a successful history returns Spec.Builder.reference: signature, control bytes, length, "
            "construction-time address block, payload encodings in call order), reserve_irrelevant, batch_irrelevant (bisimulation V2.Sim), "
            "tlv_pair_same. Correspondence: random programs each with five metamorphic variants, boundary totals.",
    "note": BASE_NOTE, "ref": "DESIGN.md 7 (C10)",
}
CLAIMS["C13"] = {
    "text": "Theorems C13.rebuild_raw, rebuild_items, rebuild_from_addresses: for every accepted header (any input) the builder fed with the "
            "header's own views returns exactly the header bytes. From C02 + C14 + C11 + builder success lemmas. Correspondence: op `rb` "
            "(parse, rebuild four ways through the real views and builder) on generated headers incl. malformed sections and 65535-byte payloads.",
    "note": BASE_NOTE, "ref": "DESIGN.md 7 (C13)",
}
CLAIMS["C20"] = {
    "text": "Theorems C20.write_appends_encoding, success_condition (exact), success_below_limit, oversize_refused, failure_keeps_prefix, "
            "to_bytes, int_big_endian, tlv_pair_same for every value of the Payload type and every writer content. Correspondence: op `wr` over "
            "all integer widths at min/max/random, all address kinds, value lengths {0,1,255,256,65535,65536}, writers pre-filled to the guard.",
    "note": BASE_NOTE + " 'A writer below its size limit' is read as: the guard does not trip during the write (DESIGN.md 7, C20).",
    "ref": "DESIGN.md 7 (C20)",
}

CLAIMS["C01"] = {
    "text": "Theorems C01.bytes_accept_iff / str_accept_iff: for every byte string (every valid UTF-8 string), the entry point succeeds with result h iff the "
            "input is h.header ++ rest, h.header has at most 107 bytes, is valid UTF-8 and is a well-formed line of the grammar Spec.V1.Line (PROXY UNKNOWN "
            "[SP text] CRLF, or PROXY TCP4/TCP6 with dotted-quad IPv4 / RFC 4291 IPv6 text (Spec.V1.Ipv6Text) / plain decimal ports, single spaces, CRLF) denoting "
            "exactly h.addresses. Built from V1.parseHeader_ok_iff, StdNet.parseIpv4_iff, V1.parsePort_iff and StdNet.parseIpv6_iff_text (the model of "
            "Ipv6Addr::from_str accepts exactly the RFC 4291 forms). Correspondence: grammar-directed lines with distinct source/destination, single-element "
            "mutations, every line ending, every prefix, all token strings up to 4 (quick) / 5 (thorough) tokens, lengths around 107, both entry points; an "
            "independent Python grammar oracle is evaluated on the implementation's outputs; std parsers compared token-exhaustively.",
    "note": BASE_NOTE + " Model includes the repairs D2 D3 D4 (fix: commits).", "ref": "DESIGN.md 7 (C01), 8",
}
CLAIMS["C03"] = {
    "text": "Theorems C03.*: the panic-aware layer of the model (which panics wherever the Rust would: index/slice out of range, &str slice off a char boundary, "
            "copy_from_slice mismatch, usize underflow) returns normally and equals the pure layer for every input of every entry point (v1 bytes, v1 text under "
            "UTF-8 validity, v2, auto), for every accessor on every accepted header, for every iterator state; iteration yields at most n/3+1 items with strict "
            "cursor progress. The driver runs the panic-aware layer, so the harness (catch_unwind per call) compares panic behaviour. Correspondence on all v1/v2/TLV "
            "generators incl. multi-byte characters adjacent to CR, plus an in-process sweep over all token strings up to 5/6 tokens. PARTIAL: that the Rust loops "
            "terminate is observed (step cap), not proved. Both configurations: the theorem shows no checked subtraction underflows, and every operation is "
            "evaluated through two builds of the harness (overflow-checks on and off) whose outputs must be identical.",
    "note": BASE_NOTE, "ref": "DESIGN.md 7 (C03), 11",
}
CLAIMS["C04"] = {
    "text": "Theorems C04.v2_trailing, v1_bytes_trailing, v1_str_trailing, auto_trailing, consumed_length: an accepted input followed by any bytes, and the "
            "reported header alone, are accepted with the identical result; the header is a prefix of the input of length firstCR+2 (v1) / 16+declared length (v2). "
            "Correspondence: accepted headers x 13 trailers x 4 entry points; in-process sweep.",
    "note": BASE_NOTE, "ref": "DESIGN.md 7 (C04)",
}
CLAIMS["C05"] = {
    "text": "Theorems C05.v2_prefix_incomplete, v1_bytes/str_prefix_incomplete (US-ASCII lines), auto_prefix_incomplete, flags, and the history forms "
            "streaming_v2 / streaming_v1 (a receiver re-parsing its growing buffer ends with the one-shot result for every split of the stream into reads, by "
            "induction over the read list). Correspondence: every cut of generated accepted headers through all entry points; in-process sweep.",
    "note": BASE_NOTE + " Model includes the repairs D5 and D2.", "ref": "DESIGN.md 7 (C05)",
}
CLAIMS["C06"] = {
    "text": "Theorems C06.auto_def, tag_v1, tag_v2, accept_iff, never_both, incomplete_iff, terminal_otherwise, possible_v2_never_v1 for every byte string. "
            "Correspondence: auto / v1 / v2 on the same input over the union of the v1 and v2 generators plus mixtures and every signature prefix.",
    "note": BASE_NOTE, "ref": "DESIGN.md 7 (C06)",
}
CLAIMS["C08"] = {
    "text": "Theorems C08.format_is_line, format_length (<= 107, in fact <= 104), format_parses_back (all four text entry points return the identical value), "
            "format_injective, display_is_header for EVERY address value (Unknown, all IPv4 pairs, all 2^128 x 2^128 IPv6 pairs, all ports), from "
            "StdNet.parseIpv6_displayIpv6 (IPv6 Display/from_str round trip incl. IPv4-mapped and every :: compression), parseIpv4_iff, parsePort_iff. "
            "Correspondence: op rt1 (format, then parse back four ways, on the real crate) over all 256 zero-run patterns x fillers, ports, random pairs; std Display "
            "and from_str compared with the model exhaustively on ports / token-exhaustively on addresses.",
    "note": BASE_NOTE, "ref": "DESIGN.md 7 (C08)",
}
CLAIMS["C12"] = {
    "text": "Theorems C12.v2_signature/version/command/family/transport/length (+ terminal) for Spec.V2.encode with one element replaced, general forms V2.blame_*; "
            "C12.v1_keyword/protocol/source_address/destination_address/source_port/destination_port/suffix/limit_and_utf8 (V1.Blame.G1..G11) for a v1 line with one "
            "SP/CR-free element replaced, at parse_header and at both entry points, all terminal, also through auto-detection. Correspondence: mutation table x "
            "well-formed lines, all invalid nibbles x valid control pairs, too-small lengths, altered signature bytes.",
    "note": BASE_NOTE + " Model includes the repairs D4 and D6.", "ref": "DESIGN.md 7 (C12)",
}
CLAIMS["C15"] = {
    "text": "Theorems C15.protocol_matches, reassemble, reassemble_sep, addressesStr_cases, display_is_header, addressesStr_no_panic for every accepted v1 header "
            "(any input). Correspondence: view fields of accepted headers incl. UNKNOWN lines with empty/long/multi-space/non-ASCII text.",
    "note": BASE_NOTE, "ref": "DESIGN.md 7 (C15)",
}
CLAIMS["C16"] = {
    "text": "Theorems C16.entry_points_agree, entry_points_agree_too_long, mid_char_all_errors (every valid UTF-8 string; from Utf8.valid_take_iff_boundary), "
            "owned_equal. PARTIAL: 'remains valid after the input buffer is overwritten or dropped' is a memory-safety fact outside the model (ownership is erased); "
            "it is observed by the harness (buffer overwritten with 0xAA and dropped before comparing) on every accepted header and TLV. Correspondence: four entry "
            "points on every valid-UTF-8 input of the v1 pool incl. multi-byte characters on both sides of the CR; in-process sweep.",
    "note": BASE_NOTE + " Model includes the repair D1.", "ref": "DESIGN.md 7 (C16), 11",
}
CLAIMS["C18"] = {
    "text": "Theorems C18.frozen_complete_bytes / frozen_complete_str (every frozen input yields a success or terminal error), frozen_stable_bytes (after the first "
            "CR + 1 byte no continuation changes the result), frozen_long_bytes; core V1.parseHeader_terminated accounts for every incomplete return site. "
            "Correspondence: every frozen input of the v1 pool and token strings; in-process sweep over all token strings up to 5/6 tokens.",
    "note": BASE_NOTE + " Model includes the repair D6.", "ref": "DESIGN.md 7 (C18)",
}
CLAIMS["C19"] = {
    "text": "Theorems C19.* (field equalities for every constructor and conversion, v1/v2 agreement); immediate in the model — the assurance is the "
            "correspondence: argument tuples with pairwise distinct components through every real constructor, all SocketAddr pairings with non-zero flow-info/scope, "
            "so any transposition in the Rust is a disagreement.",
    "note": BASE_NOTE, "ref": "DESIGN.md 7 (C19)",
}

NOT_YET = {}
