"""Per-property claim texts for MANIFEST.json."""
BASE_NOTE = ("Trusted: Lean 4.33 kernel; axioms propext / Classical.choice / Quot.sound only (audited per run); the model is hand-written "
             "and tied to /repo by differential testing (exhaustive small-scope families + generated cases), not by proof; harness printing; "
             "std functions are modelled, not verified.")

CLAIMS = {
    "C02": {
        "text": "Theorem C02.accept_iff: for every byte string, the parser model accepts iff the input starts with the protocol's wire "
                "encoding (Spec.V2.encode) and then reports exactly the encoded command/transport/addresses and exactly the encoded bytes; "
                "table form C02.accept_iff_table. The model is compared with the real parser on all 65 536 control-byte pairs x "
                "length/presence relations, every single-byte signature corruption and generated headers; an independent Python wire-format "
                "oracle is evaluated on the implementation's outputs as well. Added after the independent statement audit: decomposition_unique (the decomposition of an accepted input into encoded parts and trailer is unique).",
        "note": BASE_NOTE,
        "ref": "DESIGN.md 7 (C02)",
    },
}

CLAIMS["C11"] = {
    "text": "Theorem C11.collect_eq_walk: for every byte string, collecting the iterator model equals the reference type-length-value walk "
            "(Spec.Tlv.walk); corollaries: tiling of the section by the decoded items (C11.tiling, tiling_complete_iff), at most one error "
            "and it is last (C11.error_last), at most n/3+1 items (C11.count_bound), exhausted after an error, and fuel irrelevance "
            "(the Rust loop has no bound). Correspondence: all strings over {0,1,2,3,255} up to length 7 (quick) / 9 (thorough), every "
            "truncation of well-formed sections, boundary lengths 0/1/255/256/65535, sections of accepted headers; a Python reference walk "
            "is evaluated on the implementation's outputs. Audit additions: Iter.step (the iterator with its post-None state, transcribed from the Rust separately from next) with step_none_stable / step_none_forever / step_after_error, next_ok_at (each yielded item is its own encoding at the cursor, value shorter than 65536), header_tlvs_of_encode_partial / header_tlvs_unspec (which bytes are the section of an accepted header; empty for the unspecified family).",
    "note": BASE_NOTE, "ref": "DESIGN.md 7 (C11)",
}
CLAIMS["C14"] = {
    "text": "Theorems C14.views_partition / lengths / family / addresses_decode: for every accepted header (any input), address bytes ++ TLV bytes "
            "= payload, sizes and length field agree, family = wire nibble = family of the decoded value, and the decoded value is the big-endian "
            "decoding of the address view. Derived from C02.accept_iff. Correspondence on view fields of generated accepted headers, all valid "
            "control pairs x payload sizes incl. 65535, borrowed and owned. Audit additions: split_point (the non-degenerate form of the partition: where the split lies), helpers (Header::is_empty, Addresses::is_empty, u16::from(AddressFamily)), nibbles.",
    "note": BASE_NOTE, "ref": "DESIGN.md 7 (C14)",
}
CLAIMS["C17"] = {
    "text": "Theorems C17.incomplete_exact, partial_exact, partial_completion, partial_progress (+ surplus): exact counts in Incomplete/Partial, "
            "completion with any bytes of the missing length succeeds, fewer bytes update the counts. Correspondence on every cut of generated "
            "headers, all valid control pairs x declared lengths, completions with random bytes. Audit additions: truncated_exact (forward form: every cut of an accepted header gives exactly Incomplete(n) / Partial(n-16, L)), partial_iff, incomplete_iff (exact characterisations of the two incomplete results).",
    "note": BASE_NOTE, "ref": "DESIGN.md 7 (C17)",
}

CLAIMS["C07"] = {
    "text": "Theorems C07.build_is_encoding (for every command, transport, address value and TLV list within 65535 bytes the builder model returns "
            "exactly Spec.V2.encode of them), parses_back (from C02), tlvs_back (from C11) and type_codes (code tables = protocol tables). "
            "Correspondence: generated programs of that shape incl. payload totals of exactly 65535, each parsed back by the real parser; the "
            "code table compared exhaustively through the public API. Audit additions: roundtrip (single end-to-end statement: the builder's own output, with any trailer, parses back to the same command, transport, addresses, bytes and - family specified - TLV list), variants for (type, bytes) pairs, TLV structs and one batch, roundtrip_of_body for any call history with that body, named_type_codes_on_bytes.",
    "note": BASE_NOTE, "ref": "DESIGN.md 7 (C07)",
}
CLAIMS["C09"] = {
    "text": "Theorems C09.length_field (any constructor, any call history: on success the field is the explicit length in force, else the actual "
            "payload size), overflow_fails, oversized_value_fails; by induction over call histories with the invariant V2.Shape. "
            "Correspondence: random programs, set_length inserted at every position, totals steered to 65534..65537 and to the writer guard. Audit additions: per-call failure (oversized_call_fails, oversized_tlv_call_fails: the offending call itself returns the error; call_fails_iff: exact per-call condition), overflow_fails_direct, build_only_failure (build fails iff no explicit length is in force and the payload exceeds 65535).",
    "note": BASE_NOTE + " Model includes the D7 repair (fix: commit in /repo).", "ref": "DESIGN.md 7 (C09), 8 (D7)",
}
CLAIMS["C10"] = {
    "text": "Theorems C10.output_is_reference(_with) (a successful history returns Spec.Builder.reference: signature, control bytes, length, "
            "construction-time address block, payload encodings in call order), reserve_irrelevant, batch_irrelevant (bisimulation V2.Sim), "
            "tlv_pair_same. Correspondence: random programs each with five metamorphic variants, boundary totals. reserve_capacity is a no-op of the model for every n; the real crate panics ('capacity overflow') or aborts in the allocator for hints near isize::MAX - assumption A3 (allocation succeeds), recorded above reserve_irrelevant.",
    "note": BASE_NOTE, "ref": "DESIGN.md 7 (C10)",
}
CLAIMS["C13"] = {
    "text": "Theorems C13.rebuild_raw, rebuild_items, rebuild_from_addresses: for every accepted header (any input) the builder fed with the "
            "header's own views returns exactly the header bytes. From C02 + C14 + C11 + builder success lemmas. Correspondence: op `rb` "
            "(parse, rebuild four ways through the real views and builder) on generated headers incl. malformed sections and 65535-byte payloads. Additions: augment (decoded parts re-emitted with further TLVs appended parse back to the same endpoints and old items ++ new, the forwarding/augmenting proxy of the property text; observed on the implementation by the aug field of op rb), rebuild_new_addresses, rebuild_from_addresses_slice.",
    "note": BASE_NOTE, "ref": "DESIGN.md 7 (C13)",
}
CLAIMS["C20"] = {
    "text": "Theorems C20.write_appends_encoding, success_condition (exact), success_below_limit, oversize_refused, failure_keeps_prefix, "
            "to_bytes, int_big_endian, tlv_pair_same for every value of the Payload type and every writer content. Correspondence: op `wr` over "
            "all integer widths at min/max/random, all address kinds, value lengths {0,1,255,256,65535,65536}, writers pre-filled to the guard. Audit additions: the integer type table is now part of the model (IntTy, width, signedness, Payload.ofInt; used by the driver) with int_signed / int_twos / width_table (two's complement big-endian at the natural width for all twelve types), partial_write_exact (exactly which pieces a failing write leaves behind); sequence_sizes (any number of values written one after another into one writer, while the result fits a full-size header: each call returns the size of its own encoding — never a cumulative count — and the writer holds the encodings in order); op `wr` writes the value a second time into the same writer and one more byte after it.",
    "note": BASE_NOTE + " 'A writer below its size limit': the check requires success (with exactly the encoding appended) whenever the result still fits a full-size header (65551 bytes), the refusal of oversized values with nothing written, and that any reported success appended the whole encoding; whether a write that would carry the writer PAST 65551 bytes succeeds as a whole or fails part-way (as the current tree does for values written in several pieces: theorem success_condition is exact about it) is not pinned by the property text and not compared (DESIGN.md 7 C20, 14.5 x).",
    "ref": "DESIGN.md 7 (C20)",
}

CLAIMS["C01"] = {
    "text": "Theorems C01.bytes_accept_iff / str_accept_iff: for every byte string (every valid UTF-8 string), the entry point succeeds with result h iff the "
            "input is h.header ++ rest, h.header has at most 107 bytes, is valid UTF-8 and is a well-formed line of the grammar Spec.V1.Line (PROXY UNKNOWN "
            "[SP text] CRLF, or PROXY TCP4/TCP6 with dotted-quad IPv4 / RFC 4291 IPv6 text (Spec.V1.Ipv6Text) / plain decimal ports, single spaces, CRLF) denoting "
            "exactly h.addresses. Built from V1.parseHeader_ok_iff, StdNet.parseIpv4_iff, V1.parsePort_iff and StdNet.parseIpv6_iff_text (the model of "
            "Ipv6Addr::from_str accepts exactly the RFC 4291 forms). Correspondence: grammar-directed lines with distinct source/destination, single-element "
            "mutations, every line ending, every prefix, all token strings up to 4 (quick) / 5 (thorough) tokens, lengths around 107, both entry points; an "
            "independent Python grammar oracle is evaluated on the implementation's outputs; std parsers compared token-exhaustively. Audit additions: fromStrHeader_accept_iff / fromStrAddresses_accept_iff with the RFC 4291 grammar, ipv6Text_functional, bytesP_accept_iff / strP_accept_iff (the same characterisation for the panic-aware layer the driver runs).",
    "note": BASE_NOTE + " Model includes the repairs D2 D3 D4 (fix: commits).", "ref": "DESIGN.md 7 (C01), 8",
}
CLAIMS["C03"] = {
    "text": "Theorems C03.*: the panic-aware layer of the model (which panics wherever the Rust would: index/slice out of range, &str slice off a char boundary, "
            "copy_from_slice mismatch, usize underflow) returns normally and equals the pure layer for every input of every entry point (v1 bytes, v1 text under "
            "UTF-8 validity, v2, auto), for every accessor on every accepted header, for every iterator state; iteration yields at most n/3+1 items with strict "
            "cursor progress. The driver runs the panic-aware layer, so the harness (catch_unwind per call) compares panic behaviour. Correspondence on all v1/v2/TLV "
            "generators incl. multi-byte characters adjacent to CR, plus an in-process sweep over all token strings up to 5/6 tokens. PARTIAL: that the Rust loops "
            "terminate is observed (step cap), not proved. Both configurations: the theorem shows no checked subtraction underflows, and every operation is "
            "evaluated through two builds of the harness (overflow-checks on and off) whose outputs must be identical. Audit additions: v2_display_no_panic (Display goes through length()), tlvs_no_panic / tlv_run_no_panic (whole iteration in the panic-aware layer), tlv_ends (next is None after at most n/3+1 steps, not a fuel artefact), auto_accessors(_no_panic), fromStrHeader_no_panic / fromStrAddresses_no_panic, sums_bounded / sums_no_overflow (every usize addition of the parsers and the iterator is bounded by input length + 65551: assumption A3 made explicit).",
    "note": BASE_NOTE, "ref": "DESIGN.md 7 (C03), 11",
}
CLAIMS["C04"] = {
    "text": "Theorems C04.v2_trailing, v1_bytes_trailing, v1_str_trailing, auto_trailing, consumed_length: an accepted input followed by any bytes, and the "
            "reported header alone, are accepted with the identical result; the header is a prefix of the input of length firstCR+2 (v1) / 16+declared length (v2). "
            "Correspondence: accepted headers x 13 trailers x 4 entry points; in-process sweep. Audit additions: result_is_function_of_header(_str) (bytes after the header are never interpreted, literally), v1_line_through_lf, auto_trailing'.",
    "note": BASE_NOTE, "ref": "DESIGN.md 7 (C04)",
}
CLAIMS["C05"] = {
    "text": "Theorems C05.v2_prefix_incomplete, v1_bytes/str_prefix_incomplete (US-ASCII lines), auto_prefix_incomplete, flags, and the history forms "
            "streaming_v2 / streaming_v1 (a receiver re-parsing its growing buffer ends with the one-shot result for every split of the stream into reads, by "
            "induction over the read list). Correspondence: every cut of generated accepted headers through all entry points; in-process sweep. Audit additions: v1_str_prefix_incomplete' (no ASCII hypothesis for the text entry point), v1_bytes_prefix_incomplete_iff (for the byte entry point a cut is incomplete iff the prefix is valid UTF-8; cut inside a character it is the terminal InvalidUtf8: ascii_restriction_needed shows the property's US-ASCII restriction is necessary), fromStr variants, streaming_v1_str.",
    "note": BASE_NOTE + " Model includes the repairs D5 and D2.", "ref": "DESIGN.md 7 (C05)",
}
CLAIMS["C06"] = {
    "text": "Theorems C06.auto_def, tag_v1, tag_v2, accept_iff, never_both, incomplete_iff, terminal_otherwise, possible_v2_never_v1 for every byte string. "
            "Correspondence: auto / v1 / v2 on the same input over the union of the v1 and v2 generators plus mixtures and every signature prefix. Audit addition: v2_incomplete_not_always_extensible ('possible v2 header' means 'v2 reports incomplete', not 'some extension is accepted').",
    "note": BASE_NOTE, "ref": "DESIGN.md 7 (C06)",
}
CLAIMS["C08"] = {
    "text": "Theorems C08.format_is_line, format_length (<= 107, in fact <= 104), format_parses_back (all four text entry points return the identical value), "
            "format_injective, display_is_header for EVERY address value (Unknown, all IPv4 pairs, all 2^128 x 2^128 IPv6 pairs, all ports), from "
            "StdNet.parseIpv6_displayIpv6 (IPv6 Display/from_str round trip incl. IPv4-mapped and every :: compression), parseIpv4_iff, parsePort_iff. "
            "Correspondence: op rt1 (format, then parse back four ways, on the real crate) over all 256 zero-run patterns x fillers, ports, random pairs; std Display "
            "and from_str compared with the model exhaustively on ports / token-exhaustively on addresses. Audit additions: format_is_line_text (the formatted line is a line of the RFC 4291 grammar), FromStr trailer variants, displayIpv6_is_text.",
    "note": BASE_NOTE, "ref": "DESIGN.md 7 (C08)",
}
CLAIMS["C12"] = {
    "text": "Theorems C12.v2_signature/version/command/family/transport/length (+ terminal) for Spec.V2.encode with one element replaced, general forms V2.blame_*; "
            "C12.v1_keyword/protocol/source_address/destination_address/source_port/destination_port/suffix/limit_and_utf8 (V1.Blame.G1..G11) for a v1 line with one "
            "SP/CR-free element replaced, at parse_header and at both entry points, all terminal, also through auto-detection. Correspondence: mutation table x "
            "well-formed lines, all invalid nibbles x valid control pairs, too-small lengths, altered signature bytes. Audit additions: v2_corruptions_auto / v2_gate_auto / v2_signature_auto(_kind) (every v2 corruption is rejected finally through auto-detection; the error kind there is the text parser's InvalidPrefix / InvalidUtf8 - C06 pins that auto hands a terminally failed v2 input to the text parser, so the element is named at the v2 entry point only), v1_protocol_short (corrupted UNKNOWN / short lines), grammar-level restatements (*_spec: invalidity stated with Spec.V1.Ipv4Text / Ipv6Text / PortText instead of the model parsers), other_family lemmas, v1_str_too_long / v1_str_not_boundary, port_payload_table.",
    "note": BASE_NOTE + " Model includes the repairs D4 and D6.", "ref": "DESIGN.md 7 (C12)",
}
CLAIMS["C15"] = {
    "text": "Theorems C15.protocol_matches, reassemble, reassemble_sep, addressesStr_cases, display_is_header, addressesStr_no_panic for every accepted v1 header "
            "(any input). Correspondence: view fields of accepted headers incl. UNKNOWN lines with empty/long/multi-space/non-ASCII text. Audit additions: sep_iff, sep_nil_iff, sep_exclusive (which of the two re-assemblies applies).",
    "note": BASE_NOTE, "ref": "DESIGN.md 7 (C15)",
}
CLAIMS["C16"] = {
    "text": "Theorems C16.entry_points_agree, entry_points_agree_too_long, mid_char_all_errors (every valid UTF-8 string; from Utf8.valid_take_iff_boundary), "
            "owned_equal. PARTIAL: 'remains valid after the input buffer is overwritten or dropped' is a memory-safety fact outside the model (ownership is erased); "
            "it is observed by the harness (buffer overwritten with 0xAA and dropped before comparing) on every accepted header and TLV. Correspondence: four entry "
            "points on every valid-UTF-8 input of the v1 pool incl. multi-byte characters on both sides of the CR; in-process sweep. Audit additions: entry_points (the packaged disjunction of the property text), entry_points_mid_char_iff, entry_points_exclusive. The owned-copy clause for v2 headers and TLVs is exercised by C16's own stream (accepted headers of every command x family x transport incl. the unspecified family with a payload, boundary TLV sections).",
    "note": BASE_NOTE + " Model includes the repair D1.", "ref": "DESIGN.md 7 (C16), 11",
}
CLAIMS["C18"] = {
    "text": "Theorems C18.frozen_complete_bytes / frozen_complete_str (every frozen input yields a success or terminal error), frozen_stable_bytes (after the first "
            "CR + 1 byte no continuation changes the result), frozen_long_bytes; core V1.parseHeader_terminated accounts for every incomplete return site. "
            "Correspondence: every frozen input of the v1 pool and token strings; in-process sweep over all token strings up to 5/6 tokens. Audit additions: complete_at_108 / complete_at_108_str / complete_at_108_auto (from 108 bytes on every v1 verdict is final), sharp_107 (the 107-byte input 'PROXY UNKNOWN aaa...<CR>' is still incomplete, and incomplete_ge_107: the ONLY inputs of >= 107 bytes still incomplete are the 107-byte ones whose first CR is the last byte), frozen_stable_str, frozen_long_bytes_cases / frozen_long_str.",
    "note": BASE_NOTE + " Model includes the repair D6." + " The property's premise (first CR + 1 byte, or 107 bytes without CR) is what is required and checked; its closing remark 'never more than 107 bytes' is off by one in exactly one corner (107 bytes ending in the first CR need the 108th byte), see DESIGN.md 14.8.", "ref": "DESIGN.md 7 (C18)",
}
CLAIMS["C19"] = {
    "text": "Theorems C19.* (field equalities for every constructor and conversion, v1/v2 agreement); immediate in the model — the assurance is the "
            "correspondence: argument tuples with pairwise distinct components through every real constructor, all SocketAddr pairings with non-zero flow-info/scope, "
            "so any transposition in the Rust is a disagreement.",
    "note": BASE_NOTE, "ref": "DESIGN.md 7 (C19)",
}

NOT_YET = {}
