"""Per-property claim texts for MANIFEST.json."""
BASE_NOTE = ("Trusted: Lean 4.33 kernel; axioms propext / Classical.choice / Quot.sound only (audited per run); the model is hand-written "
             "and tied to /repo by differential testing (exhaustive small-scope families + generated cases), not by proof; harness printing; "
             "std functions are modelled, not verified.")

CLAIMS = {
    "C02": {
        "text": "Theorem C02.accept_iff: for every byte string, the parser model accepts iff the input starts with the protocol's wire "
                "encoding (Spec.V2.encode) and then reports exactly the encoded command/transport/addresses and exactly the encoded bytes; "
                "table form C02.accept_iff_table. The model is compared with the real parser on all 65 536 control-byte pairs x "
                "length/presence relations, every single-byte signature corruption and generated headers; an independent Python wire-format "
                "oracle is evaluated on the implementation's outputs as well.",
        "note": BASE_NOTE,
        "ref": "DESIGN.md 7 (C02)",
    },
}

NOT_YET = {}
