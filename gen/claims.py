"""Per-property claim texts for MANIFEST.json."""
BASE_NOTE = ("Trusted: Lean 4.33 kernel; axioms propext / Classical.choice / Quot.sound only (audited per run); the model is hand-written "
             "and tied to /repo by differential testing (exhaustive small-scope families + generated cases), not by proof; harness printing; "
             "std functions are modelled, not verified.")

CLAIMS = {
    "C02": {
        "text": "Theorem C02.accept_iff: for every byte string, the parser model accepts iff the input starts with the protocol's wire "
                "encoding (Spec.V2.encode) and then reports exactly the encoded command/transport/addresses and exactly the encoded bytes; "
                "table form C02.accept_iff_table. The model is compared with the real parser on all 65 536 control-byte pairs x "
                "length/presence relations, every single-byte signature corruption and generated headers; an independent Python wire-format "
                "oracle is evaluated on the implementation's outputs as well.",
        "note": BASE_NOTE,
        "ref": "DESIGN.md 7 (C02)",
    },
}

CLAIMS["C11"] = {
    "text": "Theorem C11.collect_eq_walk: for every byte string, collecting the iterator model equals the reference type-length-value walk "
            "(Spec.Tlv.walk); corollaries: tiling of the section by the decoded items (C11.tiling, tiling_complete_iff), at most one error "
            "and it is last (C11.error_last), at most n/3+1 items (C11.count_bound), exhausted after an error, and fuel irrelevance "
            "(the Rust loop has no bound). Correspondence: all strings over {0,1,2,3,255} up to length 7 (quick) / 9 (thorough), every "
            "truncation of well-formed sections, boundary lengths 0/1/255/256/65535, sections of accepted headers; a Python reference walk "
            "is evaluated on the implementation's outputs.",
    "note": BASE_NOTE, "ref": "DESIGN.md 7 (C11)",
}
CLAIMS["C14"] = {
    "text": "Theorems C14.views_partition / lengths / family / addresses_decode: for every accepted header (any input), address bytes ++ TLV bytes "
            "= payload, sizes and length field agree, family = wire nibble = family of the decoded value, and the decoded value is the big-endian "
            "decoding of the address view. Derived from C02.accept_iff. Correspondence on view fields of generated accepted headers, all valid "
            "control pairs x payload sizes incl. 65535, borrowed and owned.",
    "note": BASE_NOTE, "ref": "DESIGN.md 7 (C14)",
}
CLAIMS["C17"] = {
    "text": "Theorems C17.incomplete_exact, partial_exact, partial_completion, partial_progress (+ surplus): exact counts in Incomplete/Partial, "
            "completion with any bytes of the missing length succeeds, fewer bytes update the counts. Correspondence on every cut of generated "
            "headers, all valid control pairs x declared lengths, completions with random bytes.",
    "note": BASE_NOTE, "ref": "DESIGN.md 7 (C17)",
}

NOT_YET = {}
