"""Per-property claim texts for MANIFEST.json."""
BASE_NOTE = ("Trusted: Lean 4.33 kernel; axioms propext / Classical.choice / Quot.sound only (audited per run); the model is hand-written "
             "and tied to /repo by differential testing (exhaustive small-scope families + generated cases), not by proof; harness printing; "
             "std functions are modelled, not verified.")

CLAIMS = {
    "C02": {
        "text": "Theorem C02.accept_iff: for every byte string, the parser model accepts iff the input starts with the protocol's wire "
                "encoding (Spec.V2.encode) and then reports exactly the encoded command/transport/addresses and exactly the encoded bytes; "
                "table form C02.accept_iff_table. The model is compared with the real parser on all 65 536 control-byte pairs x "
                "length/presence relations, every single-byte signature corruption and generated headers; an independent Python wire-format "
                "oracle is evaluated on the implementation's outputs as well.",
        "note": BASE_NOTE,
        "ref": "DESIGN.md 7 (C02)",
    },
}

CLAIMS["C11"] = {
    "text": "Theorem C11.collect_eq_walk: for every byte string, collecting the iterator model equals the reference type-length-value walk "
            "(Spec.Tlv.walk); corollaries: tiling of the section by the decoded items (C11.tiling, tiling_complete_iff), at most one error "
            "and it is last (C11.error_last), at most n/3+1 items (C11.count_bound), exhausted after an error, and fuel irrelevance "
            "(the Rust loop has no bound). Correspondence: all strings over {0,1,2,3,255} up to length 7 (quick) / 9 (thorough), every "
            "truncation of well-formed sections, boundary lengths 0/1/255/256/65535, sections of accepted headers; a Python reference walk "
            "is evaluated on the implementation's outputs.",
    "note": BASE_NOTE, "ref": "DESIGN.md 7 (C11)",
}
CLAIMS["C14"] = {
    "text": "Theorems C14.views_partition / lengths / family / addresses_decode: for every accepted header (any input), address bytes ++ TLV bytes "
            "= payload, sizes and length field agree, family = wire nibble = family of the decoded value, and the decoded value is the big-endian "
            "decoding of the address view. Derived from C02.accept_iff. Correspondence on view fields of generated accepted headers, all valid "
            "control pairs x payload sizes incl. 65535, borrowed and owned.",
    "note": BASE_NOTE, "ref": "DESIGN.md 7 (C14)",
}
CLAIMS["C17"] = {
    "text": "Theorems C17.incomplete_exact, partial_exact, partial_completion, partial_progress (+ surplus): exact counts in Incomplete/Partial, "
            "completion with any bytes of the missing length succeeds, fewer bytes update the counts. Correspondence on every cut of generated "
            "headers, all valid control pairs x declared lengths, completions with random bytes.",
    "note": BASE_NOTE, "ref": "DESIGN.md 7 (C17)",
}

CLAIMS["C07"] = {
    "text": "Theorems C07.build_is_encoding (for every command, transport, address value and TLV list within 65535 bytes the builder model returns "
            "exactly Spec.V2.encode of them), parses_back (from C02), tlvs_back (from C11) and type_codes (code tables = protocol tables). "
            "Correspondence: generated programs of that shape incl. payload totals of exactly 65535, each parsed back by the real parser; the "
            "code table compared exhaustively through the public API.",
    "note": BASE_NOTE, "ref": "DESIGN.md 7 (C07)",
}
CLAIMS["C09"] = {
    "text": "Theorems C09.length_field (any constructor, any call history: on success the field is the explicit length in force, else the actual "
            "payload size), overflow_fails, oversized_value_fails; by induction over call histories with the invariant V2.Shape. "
            "Correspondence: random programs, set_length inserted at every position, totals steered to 65534..65537 and to the writer guard.",
    "note": BASE_NOTE + " Model includes the D7 repair (fix: commit in /repo).", "ref": "DESIGN.md 7 (C09), 8 (D7)",
}
CLAIMS["C10"] = {
    "text": "Theorems C10.output_is_reference(_with) (a successful history returns Spec.Builder.reference: signature, control bytes, length, "
            "construction-time address block, payload encodings in call order), reserve_irrelevant, batch_irrelevant (bisimulation V2.Sim), "
            "tlv_pair_same. Correspondence: random programs each with five metamorphic variants, boundary totals.",
    "note": BASE_NOTE, "ref": "DESIGN.md 7 (C10)",
}
CLAIMS["C13"] = {
    "text": "Theorems C13.rebuild_raw, rebuild_items, rebuild_from_addresses: for every accepted header (any input) the builder fed with the "
            "header's own views returns exactly the header bytes. From C02 + C14 + C11 + builder success lemmas. Correspondence: op `rb` "
            "(parse, rebuild four ways through the real views and builder) on generated headers incl. malformed sections and 65535-byte payloads.",
    "note": BASE_NOTE, "ref": "DESIGN.md 7 (C13)",
}
CLAIMS["C20"] = {
    "text": "Theorems C20.write_appends_encoding, success_condition (exact), success_below_limit, oversize_refused, failure_keeps_prefix, "
            "to_bytes, int_big_endian, tlv_pair_same for every value of the Payload type and every writer content. Correspondence: op `wr` over "
            "all integer widths at min/max/random, all address kinds, value lengths {0,1,255,256,65535,65536}, writers pre-filled to the guard.",
    "note": BASE_NOTE + " 'A writer below its size limit' is read as: the guard does not trip during the write (DESIGN.md 7, C20).",
    "ref": "DESIGN.md 7 (C20)",
}

NOT_YET = {}
