"""Regenerates MANIFEST.json from the registry (run: python3 -m gen.manifest)."""
import json
import os
import sys

sys.path.insert(0, os.path.dirname(os.path.dirname(os.path.abspath(__file__))))
from gen.registry import PROPS
from gen.claims import CLAIMS, NOT_YET

ALL = ["C%02d" % i for i in range(1, 21)]


def main():
    checks = []
    na = []
    for pid in ALL:
        if pid in PROPS and pid in CLAIMS:
            c = CLAIMS[pid]
            checks.append({
                "property_id": pid,
                "quick_cmd": "./check %s --tier quick" % pid,
                "thorough_cmd": "./check %s --tier thorough" % pid,
                "evidence_file": "/verif/evidence/%s.json" % pid,
                "replay_cmd_template": "./check %s --replay {path}" % pid,
                "engine": "lean-proof+correspondence",
                "level_claimed": {"category": "proof", "text": c["text"], "design_ref": c.get("ref", "DESIGN.md section 7")},
                "level_note": c["note"],
                "technique": c.get("technique", "Lean 4 theorem about a hand-written model + differential correspondence check against /repo"),
            })
        else:
            na.append({"property_id": pid, "reason": NOT_YET.get(pid, "check not built yet in this session; planned in DESIGN.md section 7")})
    m = {
        "version": 1,
        "setup_cmd": "./setup.sh",
        "hooks": {
            "guard": "ppp_verif",
            "enable": "none needed: every observation point is public API; the harness crate links /repo as a path dependency",
            "baseline_off_cmd": "cd /repo && cargo test --workspace --no-fail-fast --offline",
            "source_commits": [],
            "add_only": True,
        },
        "engines": [{
            "name": "lean-proof+correspondence",
            "path": "/verif/check",
            "serves_properties": [c["property_id"] for c in checks],
            "kind_free_text": "Lean 4 theorems (lake build + #print axioms audit) over a hand-written model; Rust harness and compiled Lean driver evaluate the same operation stream; Python compares per-property projections and evaluates the property relation on the implementation's outputs",
        }],
        "checks": checks,
        "not_applicable": na,
        "notes": "See DESIGN.md. PPP_REPO=<path> points every command at another checkout (mutation experiments).",
    }
    with open(os.path.join(os.path.dirname(os.path.dirname(os.path.abspath(__file__))), "MANIFEST.json"), "w") as f:
        json.dump(m, f, indent=1)
    print("checks:", len(checks), "not_applicable:", len(na))


if __name__ == "__main__":
    main()
