"""Generators for version 1 (text) inputs, plus an independent grammar oracle (Python)."""
import itertools
import re

from .common import hexs

CRLF = b"\r\n"

# ---- value generators -----------------------------------------------------------------------

PORTS = [0, 1, 9, 10, 80, 443, 255, 256, 9999, 10000, 65535]


def rand_port(rng):
    return rng.choice(PORTS + [rng.getrandbits(16)])


def rand_ip4(rng):
    return bytes(rng.choice([0, 1, 9, 10, 99, 100, 127, 192, 255, rng.getrandbits(8)]) for _ in range(4))


def ip4_text(b):
    return ".".join(str(x) for x in b).encode()


def rand_ip6_groups(rng):
    """Eight groups covering every zero-run shape."""
    mode = rng.random()
    if mode < 0.1:
        return [0] * 8
    if mode < 0.2:
        return [0xFFFF] * 8
    if mode < 0.3:
        return [0, 0, 0, 0, 0, 0xFFFF, rng.getrandbits(16), rng.getrandbits(16)]
    pattern = rng.getrandbits(8)
    fill = lambda: rng.choice([1, 0xF, 0xFF, 0xFFF, 0xFFFF, 0x10, 0x100, 0x1000, rng.getrandbits(16) or 1])
    return [0 if (pattern >> i) & 1 else fill() for i in range(8)]


def groups_to_bytes(gs):
    return b"".join(g.to_bytes(2, "big") for g in gs)


def ip6_canonical(gs):
    """RFC 5952-like text as Rust prints it (used only to make *inputs*; never as an oracle)."""
    if gs[:5] == [0] * 5 and gs[5] == 0xFFFF:
        return b"::ffff:" + ip4_text(groups_to_bytes(gs[6:8]))
    best, cur = (0, 0), (0, 0)
    for i, g in enumerate(gs):
        if g == 0:
            cur = (cur[0] if cur[1] else i, cur[1] + 1)
            if cur[1] > best[1]:
                best = cur
        else:
            cur = (0, 0)
    f = lambda xs: ":".join("%x" % g for g in xs)
    if best[1] > 1:
        return (f(gs[:best[0]]) + "::" + f(gs[best[0] + best[1]:])).encode()
    return f(gs).encode()


def ip6_variants(rng, gs):
    """Other accepted spellings of the same address."""
    out = [ip6_canonical(gs), ":".join("%x" % g for g in gs).encode(), ":".join("%04X" % g for g in gs).encode()]
    # compress a different zero run, or a single zero group
    for i in range(8):
        if gs[i] == 0:
            j = i
            while j < 8 and gs[j] == 0:
                j += 1
            k = rng.randint(i + 1, j)
            f = lambda xs: ":".join("%x" % g for g in xs)
            out.append((f(gs[:i]) + "::" + f(gs[k:])).encode())
            break
    # dotted tail
    tail = ip4_text(groups_to_bytes(gs[6:8])).decode()
    out.append((":".join("%x" % g for g in gs[:6]) + ":" + tail).encode())
    return out


def tcp4_line(sa, da, sp, dp):
    return b"PROXY TCP4 " + ip4_text(sa) + b" " + ip4_text(da) + b" " + str(sp).encode() + b" " + str(dp).encode() + CRLF


def tcp6_line(sa_text, da_text, sp, dp):
    return b"PROXY TCP6 " + sa_text + b" " + da_text + b" " + str(sp).encode() + b" " + str(dp).encode() + CRLF


UNKNOWN_TAILS = [b" UNKNOWN", b" UNKNOWN UNKNOWN", b" family=UNKNOWN peer=10.0.0.1", b"  UNKNOWN ", b" xUNKNOWN", b" PROXY UNKNOWN", b" PROXY", b" TCP4", b" TCP6 UNKNOWN TCP4",
                 b"", b" ", b"  ", b" a", b" a b c d e", b" a b c d e f g h", b" ffff:ffff:ffff:ffff:ffff:ffff:ffff:ffff ffff:ffff:ffff:ffff:ffff:ffff:ffff:ffff 65535 65535",
                 b" \xc3\xa9", b" \n", b" \n foo", b" x\ny", b" \x00", b" TCP4 1.2.3.4 5.6.7.8 1 2", b" \xe2\x82\xac\xe2\x82\xac", b" \xf0\x9f\x98\x80"]


def special_lines():
    """Accepted lines with endpoint values a semantic filter would single out: equal source and
    destination, wildcard / loopback / broadcast / multicast / link-local / private addresses,
    ports 0 and well-known ports, IPv4-in-IPv6 spellings."""
    out = []
    v4 = [b"0.0.0.0", b"127.0.0.1", b"255.255.255.255", b"224.0.0.1", b"10.0.0.1", b"169.254.1.1", b"192.168.0.255", b"1.1.1.1", b"100.64.0.1"]
    v6 = [b"::", b"::1", b"ff02::1", b"fe80::1", b"fc00::1", b"2001:db8::1", b"::ffff:1.2.3.4", b"::1.2.3.4", b"64:ff9b::1.2.3.4", b"2002:102:304::",
          b"1:2:3:4:5:6:7:8", b"::ffff:0:0", b"0:0:0:0:0:0:0:0", b"0:0:0:0:0:0:0:1"]
    ports = [(b"0", b"0"), (b"80", b"80"), (b"0", b"65535"), (b"22", b"443"), (b"65535", b"65535"), (b"1", b"0")]
    for i, a in enumerate(v4):
        for b_ in (a, v4[(i + 1) % len(v4)]):
            sp, dp = ports[i % len(ports)]
            out.append(b"PROXY TCP4 " + a + b" " + b_ + b" " + sp + b" " + dp + CRLF)
    for i, a in enumerate(v6):
        for b_ in (a, v6[(i + 3) % len(v6)]):
            sp, dp = ports[i % len(ports)]
            l = b"PROXY TCP6 " + a + b" " + b_ + b" " + sp + b" " + dp + CRLF
            if len(l) <= 107:
                out.append(l)
    return out


def long_lines():
    """Accepted TCP6 / TCP4 / UNKNOWN lines of every total length from 98 to 107 bytes (and TCP6
    lines of 108+ that must be rejected): the long spellings std accepts (zero-padded groups, the
    45-character IPv4-in-IPv6 form) are the only way a TCP line gets near the limit."""
    out = []
    a45 = b"0000:0000:0000:0000:0000:ffff:255.255.255.255"
    a39 = b"ffff:ffff:ffff:ffff:ffff:ffff:ffff:ffff"
    a38 = b"fff:ffff:ffff:ffff:ffff:ffff:ffff:ffff"
    for src, dst in ((a45, a39), (a39, a45), (a45, a38), (a45, a45), (a39, a39)):
        for sp in (b"1", b"80", b"443", b"8080", b"65535"):
            for dp in (b"2", b"81", b"444", b"8081", b"65534"):
                l = b"PROXY TCP6 " + src + b" " + dst + b" " + sp + b" " + dp + CRLF
                if 98 <= len(l) <= 110:
                    out.append(l)
    # de-duplicate by length class (keep two per length)
    seen = {}
    keep = []
    for l in out:
        if seen.get(len(l), 0) < 3:
            seen[len(l)] = seen.get(len(l), 0) + 1
            keep.append(l)
    for total in range(98, 108):
        keep.append(b"PROXY UNKNOWN " + b"z" * (total - 16) + CRLF)
    keep.append(b"PROXY TCP4 255.255.255.255 255.255.255.254 65535 65534\r\n")
    return keep


def valid_lines(rng, n):
    """Accepted lines with distinct source and destination values."""
    out = []
    for i in range(n):
        k = i % 4
        if k == 0:
            sa, da = rand_ip4(rng), rand_ip4(rng)
            sp, dp = rand_port(rng), rand_port(rng)
            if sa == da:
                da = bytes([(da[0] + 1) % 256]) + da[1:]
            if sp == dp:
                dp = (dp + 1) % 65536
            out.append(tcp4_line(sa, da, sp, dp))
        elif k in (1, 2):
            g1, g2 = rand_ip6_groups(rng), rand_ip6_groups(rng)
            t1 = rng.choice(ip6_variants(rng, g1))
            t2 = rng.choice(ip6_variants(rng, g2))
            sp, dp = rand_port(rng), rand_port(rng)
            line = tcp6_line(t1, t2, sp, dp)
            if len(line) <= 107:
                out.append(line)
            else:
                out.append(tcp6_line(ip6_canonical(g1), ip6_canonical(g2), sp, dp))
        else:
            tail = rng.choice(UNKNOWN_TAILS)
            if rng.random() < 0.3:
                tail = b" " + bytes(rng.choice(b"abcXYZ 0123456789.:") for _ in range(rng.randint(0, 80)))
            out.append(b"PROXY UNKNOWN" + tail + CRLF)
    out.extend(long_lines())
    out.extend(special_lines())
    # lengths pinned around the limit
    for total in (105, 106, 107, 108, 109):
        pad = total - len(b"PROXY UNKNOWN \r\n")
        out.append(b"PROXY UNKNOWN " + b"x" * pad + CRLF)
    out.append(b"PROXY TCP6 ffff:ffff:ffff:ffff:ffff:ffff:ffff:ffff ffff:ffff:ffff:ffff:ffff:ffff:ffff:ffff 65535 65535\r\n")
    out.append(b"PROXY TCP6 FFFF:FFFF:FFFF:FFFF:FFFF:FFFF:255.255.255.255 ffff:ffff:ffff:ffff:ffff:ffff:ffff:ffff 65535 65535\r\n")
    return out


INVALID_KEYWORD = [b"proxy", b"PROX", b"PROXYY", b"PROXZ", b"", b"P", b"XPROXY", b"PROXY\x00", b"Proxy", b"\xc3\xa9"]
INVALID_PROTO = [b"tcp4", b"TCP", b"TCP5", b"TCP44", b"TCP4\x00", b"UNKNOW", b"UNKNOWNX", b"unknown", b"UDP4", b"", b"T", b"\n", b"TCP6x"]
INVALID_ADDR4 = [b"::ffff:1.2.3.4", b"::ffff:102:304", b"::1.2.3.4", b"0:0:0:0:0:ffff:1.2.3.4", b"64:ff9b::1.2.3.4", b"::ffff:0:1.2.3.4", b"2002:102:304::", b"::", b"", b"1.2.3", b"1.2.3.4.5", b"01.2.3.4", b"1.2.3.256", b"1.2.3.-4", b"::1", b"1.2.3.4x", b"a.b.c.d", b"1..3.4", b"1.2.3.", b".1.2.3",
                 b"1.2.3.0004", b"1.2.3.4\n", b"1234.1.1.1", b"127.0.0.0001", b"0x1.2.3.4", b"+1.2.3.4", b"1.2.3.4 ", b"1,2,3,4", b"\xc3\xa9"]
INVALID_ADDR6 = [b"", b"1.2.3.4", b"::1::", b"1::2::3", b"12345::", b"g::", b":::", b":", b"1:2:3:4:5:6:7", b"1:2:3:4:5:6:7:8:9", b"1:2:3:4:5:6:7::8",
                 b"::1.2.3", b"::1.2.3.4.5", b"1.2.3.4::", b"::01.2.3.4", b"1:2:3:4:5:6:7:1.2.3.4", b"::ffff:256.1.1.1", b"::%eth0", b"[::1]", b"::1 ", b"0ffff::",
                 b"1:2:3:4:5:6:1.2.3.4:8", b"::1\n", b"\xc3\xa9::"]
INVALID_PORT = [b"", b"+80", b"-0", b"-1", b"080", b"00", b"65536", b"99999", b"100000", b"8o", b"0x50", b" 80", b"80\n", b"1e3", b"+", b"-", b"+0", b"4294967376", b"\xd9\xa1"]
LINE_ENDINGS = [b" \n\r\n", b" \n x\r\n", b" \n \r\n", b"\n\r\n", b" \n GET / HTTP/1.1\r\n", b" \r\n\r\n", b" x\r\n", b"\r\n", b"\r", b"\n", b" \n", b"", b"\rX", b"\r\r", b"\r\xc3\xa9", b"\r\xe2\x82\xac", b"\n\r", b"\r \n", b" \r\n", b"\r\n\r\n", b"\r\x00"]
TRAILERS = [b"", b"GET / HTTP/1.1\r\n", b"PROXY TCP4 1.1.1.1 2.2.2.2 1 2\r\n", b"\r\n", b"\n", b"\r", b"\x00", b"0", b"5", b" ", b"\x0d\x0a\x0d\x0a\x00\x0d\x0a\x51\x55\x49\x54\x0a", b"\xff\xfe", b"\xc3\xa9"]


def split_fields(line):
    """A TCP line as its seven elements: keyword, protocol, 4 fields, ending."""
    body = line[:-2]
    return body.split(b" ")


def mutations(rng, line):
    """Single-element corruptions of a well-formed TCP line: (element name, mutated line)."""
    f = split_fields(line)
    out = []
    if len(f) != 6 or f[1] not in (b"TCP4", b"TCP6"):
        return out
    v6 = f[1] == b"TCP6"
    for r in INVALID_KEYWORD:
        out.append(("keyword", b" ".join([r] + f[1:]) + CRLF))
    for r in INVALID_PROTO:
        out.append(("protocol", b" ".join([f[0], r] + f[2:]) + CRLF))
    for r in (INVALID_ADDR6 if v6 else INVALID_ADDR4):
        if b" " in r:
            continue
        out.append(("source address", b" ".join(f[:2] + [r] + f[3:]) + CRLF))
        out.append(("destination address", b" ".join(f[:3] + [r] + f[4:]) + CRLF))
    for r in INVALID_PORT:
        if b" " in r:
            continue
        out.append(("source port", b" ".join(f[:4] + [r] + f[5:]) + CRLF))
        out.append(("destination port", b" ".join(f[:5] + [r]) + CRLF))
    for e in LINE_ENDINGS:
        out.append(("ending", line[:-2] + e))
    # separators
    for i in range(1, 6):
        doubled = b" ".join(f[:i]) + b"  " + b" ".join(f[i:]) + CRLF
        out.append(("separator", doubled))
        dropped = b" ".join(f[:i]) + b" ".join(f[i:]) + CRLF
        out.append(("separator", dropped))
        crsep = b" ".join(f[:i]) + b"\r" + b" ".join(f[i:]) + CRLF
        out.append(("separator", crsep))
    # too few / too many fields
    for k in range(1, 6):
        out.append(("fields", b" ".join(f[:k]) + CRLF))
    out.append(("fields", line[:-2] + b" extra" + CRLF))
    out.append(("fields", line[:-2] + b" " + CRLF))
    return out


TOKENS = [b"PROXY", b"PROX", b"P", b"TCP4", b"TCP6", b"TCP", b"T", b"UNKNOWN", b"UNKN", b" ", b"\r", b"\n", b"1.2.3.4", b"::1", b"80", b"+8", b"\xc3\xa9", b"X"]


def token_strings(k):
    for n in range(0, k + 1):
        for combo in itertools.product(TOKENS, repeat=n):
            yield b"".join(combo)


STD4_TOKENS = [b"0", b"1", b"00", b"01", b"9", b"255", b"256", b".", b"1.2.3.4", b"+", b"-", b"a", b" "]
STD6_TOKENS = [b"0", b"1", b"f", b"F", b"ffff", b"fffff", b"0fff", b":", b"::", b".", b"1.2.3.4", b"g", b"%", b"00", b"255"]
U16_TOKENS = [b"0", b"1", b"6", b"5", b"9", b"65535", b"65536", b"+", b"-", b"a", b" ", b"00"]


def token_products(tokens, k):
    for n in range(0, k + 1):
        for combo in itertools.product(tokens, repeat=n):
            yield b"".join(combo)


# ---- independent grammar oracle -------------------------------------------------------------

DEC_OCTET = r"(?:0|[1-9][0-9]{0,2})"
PORT_RE = re.compile(rb"\A(?:0|[1-9][0-9]{0,4})\Z")
IP4_RE = re.compile((r"\A%s\.%s\.%s\.%s\Z" % ((DEC_OCTET,) * 4)).encode())


def oracle_port(s):
    if not PORT_RE.match(s):
        return None
    v = int(s)
    return v if v <= 65535 else None


def oracle_ip4(s):
    if not IP4_RE.match(s):
        return None
    parts = [int(p) for p in s.split(b".")]
    if any(p > 255 for p in parts):
        return None
    return bytes(parts)


HEXG = re.compile(rb"\A[0-9a-fA-F]{1,4}\Z")


def oracle_ip6(s):
    """RFC 4291 section 2.2 text forms: 8 groups; one '::' standing for >= 1 zero group; optional
    dotted-quad tail worth two groups."""
    if s.count(b"::") > 1 or b":::" in s:
        return None

    def side(t, allow_v4_last):
        if t == b"":
            return []
        parts = t.split(b":")
        gs = []
        for i, p in enumerate(parts):
            if i == len(parts) - 1 and allow_v4_last and b"." in p:
                v4 = oracle_ip4(p)
                if v4 is None:
                    return None
                gs += [v4[0] * 256 + v4[1], v4[2] * 256 + v4[3]]
            elif HEXG.match(p):
                gs.append(int(p, 16))
            else:
                return None
        return gs

    if b"::" in s:
        a, b = s.split(b"::")
        ga = side(a, False)
        gb = side(b, True)
        if ga is None or gb is None or len(ga) + len(gb) > 7:
            return None
        return groups_to_bytes(ga + [0] * (8 - len(ga) - len(gb)) + gb)
    g = side(s, True)
    if g is None or len(g) != 8:
        return None
    return groups_to_bytes(g)


def valid_utf8(b):
    try:
        b.decode("utf-8")
        return True
    except UnicodeDecodeError:
        return False


def oracle_v1(x: bytes):
    """The property text of C01 as a decision procedure.
    Returns None (reject) or (header_bytes, addr_text)."""
    i = x.find(b"\r")
    if i < 0 or i + 1 >= len(x) or x[i + 1:i + 2] != b"\n":
        return None
    line = x[:i + 2]
    if len(line) > 107 or not valid_utf8(line):
        return None
    body = line[:-2]
    if body == b"PROXY UNKNOWN" or body.startswith(b"PROXY UNKNOWN "):
        return (line, "unknown")
    for kw, ipf, name in ((b"PROXY TCP4 ", oracle_ip4, "tcp4"), (b"PROXY TCP6 ", oracle_ip6, "tcp6")):
        if body.startswith(kw):
            f = body[len(kw):].split(b" ")
            if len(f) != 4:
                return None
            sa, da, sp, dp = ipf(f[0]), ipf(f[1]), oracle_port(f[2]), oracle_port(f[3])
            if None in (sa, da, sp, dp):
                return None
            return (line, "%s/%s/%s/%d/%d" % (name, sa.hex(), da.hex(), sp, dp))
    return None
