//! In-process relation sweeps (filled in below).
pub fn main(_args: &[String]) {
    eprintln!("no sweeps yet");
    std::process::exit(2);
}
