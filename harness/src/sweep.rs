//! In-process relation sweeps: the property relations evaluated directly on the implementation
//! over exhaustively enumerated token strings (no model involved). Prints
//! `VIOL <property> <hex input> <detail>` for each violating input (first few per property) and
//! `COUNT prop=<id> evaluated=<n> nontrivial=<n>` at the end.

use crate::fmt::hex;
use ppp::{v1, v2, HeaderResult, PartialResult};
use std::panic::{catch_unwind, AssertUnwindSafe};
use std::sync::atomic::{AtomicU64, Ordering};
use std::sync::Mutex;

const TOKENS: [&[u8]; 18] = [
    b"PROXY", b"PROX", b"P", b"TCP4", b"TCP6", b"TCP", b"T", b"UNKNOWN", b"UNKN", b" ", b"\r", b"\n", b"1.2.3.4",
    b"::1", b"80", b"+8", b"\xc3\xa9", b"X",
];
const TRAILERS: [&[u8]; 6] = [b"X", b"\r\n", b"\n", b"0", b" ", b"PROXY UNKNOWN\r\n"];

struct Stats {
    evaluated: [AtomicU64; 6],
    nontrivial: [AtomicU64; 6],
    viol: Mutex<Vec<String>>,
}

const PROPS: [&str; 6] = ["C03", "C04", "C05", "C16", "C18", "C06"];

fn report(st: &Stats, p: usize, input: &[u8], detail: &str) {
    let mut v = st.viol.lock().unwrap();
    let n = v.iter().filter(|l| l.starts_with(&format!("VIOL {}", PROPS[p]))).count();
    if n < 8 {
        v.push(format!("VIOL {} {} {}", PROPS[p], hex(input), detail.replace(' ', "_")));
    }
}

#[derive(PartialEq, Clone, Copy, Debug)]
enum Class {
    Ok,
    Inc,
    Term,
}

fn class_b(r: &Result<v1::Header<'_>, v1::BinaryParseError>) -> Class {
    match r {
        Ok(_) => Class::Ok,
        Err(_) if r.is_incomplete() => Class::Inc,
        Err(_) => Class::Term,
    }
}

fn class_s(r: &Result<v1::Header<'_>, v1::ParseError>) -> Class {
    match r {
        Ok(_) => Class::Ok,
        Err(_) if r.is_incomplete() => Class::Inc,
        Err(_) => Class::Term,
    }
}

/// C03: every entry point and accessor returns normally.
fn touch_everything(x: &[u8]) {
    let rb = v1::Header::try_from(x);
    if let Ok(h) = &rb {
        let _ = (h.protocol().len(), h.addresses_str().len(), h.to_string().len(), h.to_owned());
    }
    let ra = HeaderResult::parse(x);
    let _ = (ra.is_incomplete(), ra.is_complete());
    if let Ok(s) = std::str::from_utf8(x) {
        let rs = v1::Header::try_from(s);
        if let Ok(h) = &rs {
            let _ = (h.protocol().len(), h.addresses_str().len(), h.to_string().len(), h.to_owned());
        }
        let _ = s.parse::<v1::Header<'static>>();
        let _ = s.parse::<v1::Addresses>();
    }
}

fn check(st: &Stats, x: &[u8]) {
    let r = catch_unwind(AssertUnwindSafe(|| touch_everything(x)));
    st.evaluated[0].fetch_add(1, Ordering::Relaxed);
    if r.is_err() {
        report(st, 0, x, "panic");
        return;
    }
    let cr = x.iter().position(|&c| c == b'\r');
    if let Some(i) = cr {
        if i + 1 == x.len() || (i + 1 < x.len() && x[i + 1] >= 0x80) {
            st.nontrivial[0].fetch_add(1, Ordering::Relaxed);
        }
    }
    let rb = v1::Header::try_from(x);
    let cb = class_b(&rb);
    let text = std::str::from_utf8(x).ok();

    // C16: the four entry points agree
    if let Some(s) = text {
        st.evaluated[3].fetch_add(1, Ordering::Relaxed);
        let rs = v1::Header::try_from(s);
        let fh = s.parse::<v1::Header<'static>>();
        let fa = s.parse::<v1::Addresses>();
        let end = match cr {
            Some(i) => std::cmp::min(i + 2, x.len()),
            None => x.len(),
        };
        let mid = end < x.len() && (x[end] & 0xC0) == 0x80;
        let agree = if mid {
            rs.is_err() && fh.is_err() && fa.is_err() && rb.is_err()
        } else {
            match (&rs, &fh, &fa, &rb) {
                (Ok(a), Ok(b), Ok(c), Ok(d)) => a == b && a == d && a.addresses == *c && b.to_owned() == *a,
                (Err(a), Err(b), Err(c), Err(v1::BinaryParseError::Parse(d))) => a == b && a == c && a == d,
                _ => false,
            }
        };
        if mid || rs.is_ok() {
            st.nontrivial[3].fetch_add(1, Ordering::Relaxed);
        }
        if !agree {
            report(st, 3, x, "entry points disagree");
        }
    }

    // C06: the auto-detected result is the composition of the two dedicated verdicts
    {
        st.evaluated[5].fetch_add(1, Ordering::Relaxed);
        let r2 = v2::Header::try_from(x);
        let c2 = match &r2 {
            Ok(_) => Class::Ok,
            Err(_) if r2.is_incomplete() => Class::Inc,
            Err(_) => Class::Term,
        };
        let ra = HeaderResult::parse(x);
        let (ca, is_v2) = match &ra {
            HeaderResult::V1(r) => (class_b(r), false),
            HeaderResult::V2(r) => (
                match r {
                    Ok(_) => Class::Ok,
                    Err(_) if r.is_incomplete() => Class::Inc,
                    Err(_) => Class::Term,
                },
                true,
            ),
        };
        if c2 != cb {
            st.nontrivial[5].fetch_add(1, Ordering::Relaxed);
        }
        let want_inc = c2 == Class::Inc || (c2 == Class::Term && cb == Class::Inc);
        let mut bad = (c2 == Class::Ok && cb == Class::Ok)
            || ((ca == Class::Ok) != (c2 == Class::Ok || cb == Class::Ok))
            || ((ca == Class::Inc) != want_inc)
            || (ra.is_incomplete() != want_inc)
            || (ra.is_complete() == want_inc);
        if ca == Class::Ok {
            bad |= is_v2 != (c2 == Class::Ok);
            bad |= match (&ra, &r2, &rb) {
                (HeaderResult::V2(Ok(a)), Ok(b), _) => a != b,
                (HeaderResult::V1(Ok(a)), _, Ok(b)) => a != b,
                _ => true,
            };
        }
        if bad {
            report(st, 5, x, "auto-detection is not the composition of the dedicated verdicts");
        }
    }

    // C18: frozen => complete
    let frozen = match cr {
        Some(i) => i + 1 < x.len(),
        None => x.len() >= 107,
    };
    if frozen {
        st.evaluated[4].fetch_add(1, Ordering::Relaxed);
        if cb != Class::Ok {
            st.nontrivial[4].fetch_add(1, Ordering::Relaxed);
        }
        if cb == Class::Inc {
            report(st, 4, x, "frozen but incomplete (bytes)");
        }
        if let Some(s) = text {
            if class_s(&v1::Header::try_from(s)) == Class::Inc {
                report(st, 4, x, "frozen but incomplete (str)");
            }
        }
    }

    if let Ok(h) = &rb {
        let hdr = h.header.as_bytes().to_vec();
        // C04: trailing bytes never change an accepted result
        st.evaluated[1].fetch_add(1, Ordering::Relaxed);
        st.nontrivial[1].fetch_add(1, Ordering::Relaxed);
        if !x.starts_with(&hdr) || !hdr.ends_with(b"\r\n") {
            report(st, 1, x, "reported header is not a CRLF-terminated prefix of the input");
        }
        let mut buf = Vec::with_capacity(hdr.len() + 20);
        for t in TRAILERS.iter() {
            buf.clear();
            buf.extend_from_slice(&hdr);
            buf.extend_from_slice(t);
            match v1::Header::try_from(&buf[..]) {
                Ok(h2) if h2 == *h => {}
                _ => report(st, 1, &buf, "result changes when bytes follow the header"),
            }
            match HeaderResult::parse(&buf[..]) {
                HeaderResult::V1(Ok(h2)) if h2 == *h => {}
                _ => report(st, 1, &buf, "auto result changes when bytes follow the header"),
            }
        }
        match v1::Header::try_from(&hdr[..]) {
            Ok(h2) if h2 == *h => {}
            _ => report(st, 1, &hdr, "reported header alone is not accepted identically"),
        }
        // C05: every proper prefix of an accepted ASCII header is incomplete
        if hdr.is_ascii() {
            st.evaluated[2].fetch_add(hdr.len() as u64, Ordering::Relaxed);
            st.nontrivial[2].fetch_add(1, Ordering::Relaxed);
            for c in 0..hdr.len() {
                let p = &hdr[..c];
                let a = class_b(&v1::Header::try_from(p));
                let b = class_s(&v1::Header::try_from(std::str::from_utf8(p).unwrap()));
                let au = HeaderResult::parse(p);
                if a != Class::Inc || b != Class::Inc || !au.is_incomplete() || au.is_complete() {
                    report(st, 2, p, "proper prefix of an accepted header is not incomplete");
                    break;
                }
            }
        }
    }
}

fn rec(st: &Stats, buf: &mut Vec<u8>, depth: usize) {
    check(st, buf);
    if depth == 0 {
        return;
    }
    for t in TOKENS.iter() {
        let n = buf.len();
        buf.extend_from_slice(t);
        rec(st, buf, depth - 1);
        buf.truncate(n);
    }
}

pub fn main(args: &[String]) {
    match args.first().map(|s| s.as_str()) {
        Some("v1tokens") => {
            let k: usize = args.get(1).and_then(|s| s.parse().ok()).unwrap_or(4);
            let st = Stats {
                evaluated: Default::default(),
                nontrivial: Default::default(),
                viol: Mutex::new(Vec::new()),
            };
            check(&st, b"");
            std::thread::scope(|s| {
                for t in TOKENS.iter() {
                    let st = &st;
                    s.spawn(move || {
                        if k >= 1 {
                            let mut buf = t.to_vec();
                            rec(st, &mut buf, k - 1);
                        }
                    });
                }
            });
            for l in st.viol.lock().unwrap().iter() {
                println!("{}", l);
            }
            for (i, p) in PROPS.iter().enumerate() {
                println!(
                    "COUNT prop={} evaluated={} nontrivial={}",
                    p,
                    st.evaluated[i].load(Ordering::Relaxed),
                    st.nontrivial[i].load(Ordering::Relaxed)
                );
            }
        }
        Some("bytes3") => {
            // every byte string of at most `k` bytes (k = 3: 16 843 009 inputs)
            let k: usize = args.get(1).and_then(|s| s.parse().ok()).unwrap_or(3);
            let st = Stats {
                evaluated: Default::default(),
                nontrivial: Default::default(),
                viol: Mutex::new(Vec::new()),
            };
            check(&st, b"");
            fn all(st: &Stats, buf: &mut Vec<u8>, depth: usize) {
                check(st, buf);
                if depth == 0 {
                    return;
                }
                for b in 0..=255u8 {
                    buf.push(b);
                    all(st, buf, depth - 1);
                    buf.pop();
                }
            }
            std::thread::scope(|s| {
                for chunk in 0..16u16 {
                    let st = &st;
                    s.spawn(move || {
                        if k >= 1 {
                            for b in (chunk * 16)..(chunk * 16 + 16) {
                                let mut buf = vec![b as u8];
                                all(st, &mut buf, k - 1);
                            }
                        }
                    });
                }
            });
            for l in st.viol.lock().unwrap().iter() {
                println!("{}", l);
            }
            for (i, p) in PROPS.iter().enumerate() {
                println!(
                    "COUNT prop={} evaluated={} nontrivial={}",
                    p,
                    st.evaluated[i].load(Ordering::Relaxed),
                    st.nontrivial[i].load(Ordering::Relaxed)
                );
            }
        }
        Some("v1lines") => {
            // near-valid full lines: every combination of field alternatives, separators and endings
            let level: usize = args.get(1).and_then(|s| s.parse().ok()).unwrap_or(1);
            let st = Stats {
                evaluated: Default::default(),
                nontrivial: Default::default(),
                viol: Mutex::new(Vec::new()),
            };
            let kws: &[&[u8]] = &[b"PROXY", b"PROX", b"proxy"];
            let protos: &[&[u8]] = &[b"TCP4", b"TCP6", b"UNKNOWN", b"TCP", b""];
            let addrs: &[&[u8]] = if level >= 2 {
                &[b"1.2.3.4", b"255.255.255.255", b"::1", b"1:2:3:4:5:6:7:8", b"::ffff:1.2.3.4", b"01.2.3.4", b"1.2.3", b"", b"x", b"1::2::3", b"\xc3\xa9"]
            } else {
                &[b"1.2.3.4", b"::1", b"::ffff:1.2.3.4", b"01.2.3.4", b"", b"x"]
            };
            let ports: &[&[u8]] = if level >= 2 {
                &[b"0", b"80", b"65535", b"65536", b"+1", b"01", b"", b"-1", b"8x"]
            } else {
                &[b"0", b"65535", b"65536", b"+1", b"01", b""]
            };
            let seps: &[&[u8]] = &[b" ", b"  ", b"\r"];
            let ends: &[&[u8]] = &[b"\r\n", b"\r", b"\n", b" \n", b"", b"\rX", b"\r\r", b"\r\xc3\xa9", b"\r\nGET", b" \r\n", b" \n\r\n", b" \n x\r\n"];
            std::thread::scope(|sc| {
                for kw in kws {
                    for proto in protos {
                        let st = &st;
                        sc.spawn(move || {
                            let mut buf: Vec<u8> = Vec::with_capacity(160);
                            for sa in addrs {
                                for da in addrs {
                                    for sp in ports {
                                        for dp in ports {
                                            for sep in seps {
                                                for end in ends {
                                                    buf.clear();
                                                    buf.extend_from_slice(kw);
                                                    buf.extend_from_slice(b" ");
                                                    buf.extend_from_slice(proto);
                                                    buf.extend_from_slice(b" ");
                                                    buf.extend_from_slice(sa);
                                                    buf.extend_from_slice(sep);
                                                    buf.extend_from_slice(da);
                                                    buf.extend_from_slice(b" ");
                                                    buf.extend_from_slice(sp);
                                                    buf.extend_from_slice(b" ");
                                                    buf.extend_from_slice(dp);
                                                    buf.extend_from_slice(end);
                                                    check(st, &buf);
                                                }
                                            }
                                        }
                                    }
                                }
                            }
                        });
                    }
                }
            });
            for l in st.viol.lock().unwrap().iter() {
                println!("{}", l);
            }
            for (i, p) in PROPS.iter().enumerate() {
                println!(
                    "COUNT prop={} evaluated={} nontrivial={}",
                    p,
                    st.evaluated[i].load(Ordering::Relaxed),
                    st.nontrivial[i].load(Ordering::Relaxed)
                );
            }
        }
        _ => {
            eprintln!("usage: pppharness sweep v1tokens <k> | v1lines <level> | bytes3 <k>");
            std::process::exit(2);
        }
    }
}
