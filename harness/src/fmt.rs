//! Canonical text forms shared by every operation.

use ppp::{v1, v2};
use std::net::{Ipv4Addr, Ipv6Addr};

pub fn hex(bytes: &[u8]) -> String {
    if bytes.is_empty() {
        return "-".to_string();
    }
    const D: &[u8; 16] = b"0123456789abcdef";
    let mut s = String::with_capacity(bytes.len() * 2);
    for &b in bytes {
        s.push(D[(b >> 4) as usize] as char);
        s.push(D[(b & 15) as usize] as char);
    }
    s
}

fn nib(c: u8) -> Option<u8> {
    match c {
        b'0'..=b'9' => Some(c - b'0'),
        b'a'..=b'f' => Some(c - b'a' + 10),
        _ => None,
    }
}

pub fn unhex(s: &str) -> Option<Vec<u8>> {
    if s == "-" {
        return Some(Vec::new());
    }
    let b = s.as_bytes();
    if b.len() % 2 != 0 {
        return None;
    }
    let mut out = Vec::with_capacity(b.len() / 2);
    for i in (0..b.len()).step_by(2) {
        out.push(nib(b[i])? * 16 + nib(b[i + 1])?);
    }
    Some(out)
}

/// Byte-string spec: `.`-separated pieces, each plain hex, `-` (empty) or `r<count>x<hexbyte>`.
pub fn bytes_spec(s: &str) -> Option<Vec<u8>> {
    let mut out = Vec::new();
    for piece in s.split('.') {
        if let Some(rest) = piece.strip_prefix('r') {
            let (n, b) = rest.split_once('x')?;
            let n: usize = n.parse().ok()?;
            let b = unhex(b)?;
            if b.len() != 1 {
                return None;
            }
            out.resize(out.len() + n, b[0]);
        } else {
            out.extend(unhex(piece)?);
        }
    }
    Some(out)
}

pub fn ip4(a: &Ipv4Addr) -> String {
    hex(&a.octets())
}

pub fn ip6(a: &Ipv6Addr) -> String {
    hex(&a.octets())
}

pub fn v1_addr(a: &v1::Addresses) -> String {
    match a {
        v1::Addresses::Unknown => "unknown".to_string(),
        v1::Addresses::Tcp4(a) => format!(
            "tcp4/{}/{}/{}/{}",
            ip4(&a.source_address),
            ip4(&a.destination_address),
            a.source_port,
            a.destination_port
        ),
        v1::Addresses::Tcp6(a) => format!(
            "tcp6/{}/{}/{}/{}",
            ip6(&a.source_address),
            ip6(&a.destination_address),
            a.source_port,
            a.destination_port
        ),
    }
}

pub fn v2_addr(a: &v2::Addresses) -> String {
    match a {
        v2::Addresses::Unspecified => "unspec".to_string(),
        v2::Addresses::IPv4(a) => format!(
            "ipv4/{}/{}/{}/{}",
            ip4(&a.source_address),
            ip4(&a.destination_address),
            a.source_port,
            a.destination_port
        ),
        v2::Addresses::IPv6(a) => format!(
            "ipv6/{}/{}/{}/{}",
            ip6(&a.source_address),
            ip6(&a.destination_address),
            a.source_port,
            a.destination_port
        ),
        v2::Addresses::Unix(a) => format!("unix/{}/{}", hex(&a.source), hex(&a.destination)),
    }
}

fn arr<const N: usize>(s: &str) -> Option<[u8; N]> {
    let v = bytes_spec(s)?;
    <[u8; N]>::try_from(v.as_slice()).ok()
}

pub fn parse_ip4(s: &str) -> Option<Ipv4Addr> {
    Some(Ipv4Addr::from(arr::<4>(s)?))
}

pub fn parse_ip6(s: &str) -> Option<Ipv6Addr> {
    Some(Ipv6Addr::from(arr::<16>(s)?))
}

/// Parses the address form above, built field by field (never through the crate's constructors).
pub fn parse_v1_addr(s: &str) -> Option<v1::Addresses> {
    let p: Vec<&str> = s.split('/').collect();
    match p.as_slice() {
        ["unknown"] => Some(v1::Addresses::Unknown),
        ["tcp4", sa, da, sp, dp] => Some(v1::Addresses::Tcp4(v1::IPv4 {
            source_address: parse_ip4(sa)?,
            destination_address: parse_ip4(da)?,
            source_port: sp.parse().ok()?,
            destination_port: dp.parse().ok()?,
        })),
        ["tcp6", sa, da, sp, dp] => Some(v1::Addresses::Tcp6(v1::IPv6 {
            source_address: parse_ip6(sa)?,
            destination_address: parse_ip6(da)?,
            source_port: sp.parse().ok()?,
            destination_port: dp.parse().ok()?,
        })),
        _ => None,
    }
}

pub fn parse_v2_addr(s: &str) -> Option<v2::Addresses> {
    let p: Vec<&str> = s.split('/').collect();
    match p.as_slice() {
        ["unspec"] => Some(v2::Addresses::Unspecified),
        ["ipv4", sa, da, sp, dp] => Some(v2::Addresses::IPv4(v2::IPv4 {
            source_address: parse_ip4(sa)?,
            destination_address: parse_ip4(da)?,
            source_port: sp.parse().ok()?,
            destination_port: dp.parse().ok()?,
        })),
        ["ipv6", sa, da, sp, dp] => Some(v2::Addresses::IPv6(v2::IPv6 {
            source_address: parse_ip6(sa)?,
            destination_address: parse_ip6(da)?,
            source_port: sp.parse().ok()?,
            destination_port: dp.parse().ok()?,
        })),
        ["unix", s, d] => Some(v2::Addresses::Unix(v2::Unix {
            source: arr::<108>(s)?,
            destination: arr::<108>(d)?,
        })),
        _ => None,
    }
}

pub fn tlv_type(name: &str) -> Option<v2::Type> {
    use v2::Type::*;
    Some(match name {
        "alpn" => ALPN,
        "authority" => Authority,
        "crc32c" => CRC32C,
        "noop" => NoOp,
        "uniqueid" => UniqueId,
        "ssl" => SSL,
        "sslversion" => SSLVersion,
        "sslcommonname" => SSLCommonName,
        "sslcipher" => SSLCipher,
        "sslsignaturealgorithm" => SSLSignatureAlgorithm,
        "sslkeyalgorithm" => SSLKeyAlgorithm,
        "networknamespace" => NetworkNamespace,
        _ => return None,
    })
}

pub const TLV_TYPE_NAMES: [&str; 12] = [
    "alpn",
    "authority",
    "crc32c",
    "noop",
    "uniqueid",
    "ssl",
    "sslversion",
    "sslcommonname",
    "sslcipher",
    "sslsignaturealgorithm",
    "sslkeyalgorithm",
    "networknamespace",
];

pub fn transport(name: &str) -> Option<v2::Protocol> {
    Some(match name {
        "unspec" => v2::Protocol::Unspecified,
        "stream" => v2::Protocol::Stream,
        "dgram" => v2::Protocol::Datagram,
        _ => return None,
    })
}

pub fn transport_name(p: v2::Protocol) -> &'static str {
    match p {
        v2::Protocol::Unspecified => "unspec",
        v2::Protocol::Stream => "stream",
        v2::Protocol::Datagram => "dgram",
    }
}

pub fn family_name(f: v2::AddressFamily) -> &'static str {
    match f {
        v2::AddressFamily::Unspecified => "unspec",
        v2::AddressFamily::IPv4 => "ipv4",
        v2::AddressFamily::IPv6 => "ipv6",
        v2::AddressFamily::Unix => "unix",
    }
}

pub fn command_name(c: v2::Command) -> &'static str {
    match c {
        v2::Command::Local => "local",
        v2::Command::Proxy => "proxy",
    }
}
