//! Line-protocol harness over the real `ppp` crate (see /verif/DESIGN.md section 3).
//!
//! `pppharness ops`            read operations from stdin, one per line, print one canonical line each
//! `pppharness sweep <name> …` in-process relation sweeps (see sweep.rs)
//!
//! Every evaluation is wrapped in `catch_unwind`; a panic prints `panic`.

mod fmt;
mod ops;
mod sweep;

use std::io::{self, BufRead, BufWriter, Write};

fn main() {
    std::panic::set_hook(Box::new(|_| {}));
    let args: Vec<String> = std::env::args().collect();
    match args.get(1).map(|s| s.as_str()) {
        Some("ops") => run_ops(args.get(2).map(|s| s.as_str()) == Some("flush")),
        Some("sweep") => sweep::main(&args[2..]),
        _ => {
            eprintln!("usage: pppharness ops | sweep <name> [args]");
            std::process::exit(2);
        }
    }
}

/// `flush`: write every result line out at once (used when a shard is re-evaluated after the
/// process died, so that the operation responsible can be identified).
fn run_ops(flush: bool) {
    let stdin = io::stdin();
    let stdout = io::stdout();
    let mut out = BufWriter::with_capacity(1 << 20, stdout.lock());
    let mut line = String::new();
    let mut input = stdin.lock();
    loop {
        line.clear();
        match input.read_line(&mut line) {
            Ok(0) => break,
            Ok(_) => {}
            Err(_) => break,
        }
        let l = line.trim_end_matches(['\n', '\r']);
        if l.is_empty() {
            continue;
        }
        let res = ops::eval_line(l);
        let _ = out.write_all(res.as_bytes());
        let _ = out.write_all(b"\n");
        if flush {
            let _ = out.flush();
        }
    }
    let _ = out.flush();
}
