//! One primitive operation per line; everything observable about the result is printed.

use crate::fmt::*;
use ppp::v2::WriteToHeader;
use ppp::{v1, v2, HeaderResult, PartialResult};
use std::net::{Ipv4Addr, Ipv6Addr, SocketAddr, SocketAddrV4, SocketAddrV6};
use std::panic::{catch_unwind, AssertUnwindSafe};

fn guard<F: FnOnce() -> Option<String>>(f: F) -> String {
    match catch_unwind(AssertUnwindSafe(f)) {
        Ok(Some(s)) => s,
        Ok(None) => "bad-op".to_string(),
        Err(_) => "panic".to_string(),
    }
}

thread_local! {
    /// One receive buffer per thread, cleared and refilled for every parse operation the way a server
    /// re-uses its read buffer: consecutive inputs then start at the SAME address, so state that a
    /// parser keeps between calls keyed on the buffer (address, length) meets inputs it was not
    /// computed for. The model is stateless: any dependence on history is a disagreement.
    static RECV: std::cell::RefCell<Vec<u8>> = std::cell::RefCell::new(Vec::with_capacity(1 << 18));
}

/// Evaluates `f` on the input copied into the re-used receive buffer.
fn in_recv_buffer<R>(input: &[u8], f: impl FnOnce(&[u8]) -> R) -> R {
    RECV.with(|b| {
        let mut b = match b.try_borrow_mut() {
            Ok(b) => b,
            // a previous operation unwound while holding the buffer: fall back to the caller's copy
            Err(_) => return f(input),
        };
        b.clear();
        b.extend_from_slice(input);
        f(&b[..])
    })
}

pub fn eval_line(line: &str) -> String {
    let (op, rest) = match line.split_once(' ') {
        Some((a, b)) => (a, b),
        None => (line, ""),
    };
    match op {
        "v1b" => guard(|| Some(in_recv_buffer(&unhex(rest)?, op_v1b))),
        "v1s" => op_v1s(rest),
        "v2" => guard(|| Some(in_recv_buffer(&bytes_spec(rest)?, op_v2))),
        "auto" => guard(|| Some(in_recv_buffer(&bytes_spec(rest)?, op_auto))),
        "tlv" => guard(|| Some(in_recv_buffer(&bytes_spec(rest)?, op_tlv))),
        "rb" => guard(|| Some(in_recv_buffer(&bytes_spec(rest)?, op_rb))),
        "fmt1" => guard(|| Some(hex(parse_v1_addr(rest)?.to_string().as_bytes()))),
        "rt1" => guard(|| op_rt1(rest)),
        "bld" => guard(|| op_bld(rest)),
        "wr" => guard(|| op_wr(rest)),
        "ctor" => guard(|| op_ctor(rest)),
        "tbl" => guard(|| Some(op_tbl())),
        "ip4p" => guard(|| {
            let b = unhex(rest)?;
            Some(match std::str::from_utf8(&b) {
                Err(_) => "notutf8".to_string(),
                Ok(s) => match s.parse::<Ipv4Addr>() {
                    Ok(a) => format!("ok {}", ip4(&a)),
                    Err(_) => "err".to_string(),
                },
            })
        }),
        "ip6p" => guard(|| {
            let b = unhex(rest)?;
            Some(match std::str::from_utf8(&b) {
                Err(_) => "notutf8".to_string(),
                Ok(s) => match s.parse::<Ipv6Addr>() {
                    Ok(a) => format!("ok {}", ip6(&a)),
                    Err(_) => "err".to_string(),
                },
            })
        }),
        "u16p" => guard(|| {
            let b = unhex(rest)?;
            Some(match std::str::from_utf8(&b) {
                Err(_) => "notutf8".to_string(),
                Ok(s) => match s.parse::<u16>() {
                    Ok(a) => format!("ok {}", a),
                    Err(e) => format!("err {}", int_kind(&e)),
                },
            })
        }),
        "utf8" => guard(|| Some(if std::str::from_utf8(&unhex(rest)?).is_ok() { "1" } else { "0" }.to_string())),
        "ip4d" => guard(|| Some(hex(parse_ip4(rest)?.to_string().as_bytes()))),
        "ip6d" => guard(|| Some(hex(parse_ip6(rest)?.to_string().as_bytes()))),
        "u16d" => guard(|| Some(hex(rest.parse::<u16>().ok()?.to_string().as_bytes()))),
        _ => "bad-op".to_string(),
    }
}

fn int_kind(e: &std::num::ParseIntError) -> &'static str {
    use std::num::IntErrorKind::*;
    match e.kind() {
        Empty => "Empty",
        InvalidDigit => "InvalidDigit",
        PosOverflow => "PosOverflow",
        NegOverflow => "NegOverflow",
        Zero => "Zero",
        _ => "Other",
    }
}

/// Runs every formatter of a returned value (`Debug`, pretty `Debug`); the text is not compared
/// with anything (no property pins it) but it must come back: a panic inside a `fmt` impl unwinds
/// into the per-operation guard and is reported as `panic` (C03: "every ... formatter ... on the
/// values they return, returns normally").
fn touch<T: std::fmt::Debug>(x: &T) {
    use std::fmt::Write;
    let mut sink = String::new();
    let _ = write!(sink, "{:?}", x);
    sink.clear();
    let _ = write!(sink, "{:#?}", x);
    std::hint::black_box(&sink);
}

/// The same for error values: `Display` (thiserror format strings) and the `source()` chain.
fn touch_err<E: std::error::Error>(e: &E) {
    let mut sink = e.to_string();
    let mut cur: Option<&dyn std::error::Error> = e.source();
    let mut depth = 0;
    while let Some(c) = cur {
        sink.push_str(&c.to_string());
        cur = c.source();
        depth += 1;
        if depth > 8 {
            break;
        }
    }
    touch(e);
    std::hint::black_box(&sink);
}

fn b01(b: bool) -> char {
    if b {
        '1'
    } else {
        '0'
    }
}

// ---------------------------------------------------------------- v1

fn v1_err(e: &v1::ParseError) -> String {
    use v1::ParseError::*;
    let port = |name: &str, k: &Option<std::num::ParseIntError>| match k {
        None => format!("{}/None", name),
        Some(e) => format!("{}/{}", name, int_kind(e)),
    };
    let name = match e {
        InvalidPrefix => "InvalidPrefix".to_string(),
        Partial => "Partial".to_string(),
        MissingPrefix => "MissingPrefix".to_string(),
        MissingNewLine => "MissingNewLine".to_string(),
        MissingProtocol => "MissingProtocol".to_string(),
        MissingSourceAddress => "MissingSourceAddress".to_string(),
        MissingDestinationAddress => "MissingDestinationAddress".to_string(),
        MissingSourcePort => "MissingSourcePort".to_string(),
        MissingDestinationPort => "MissingDestinationPort".to_string(),
        HeaderTooLong => "HeaderTooLong".to_string(),
        InvalidProtocol => "InvalidProtocol".to_string(),
        InvalidSuffix => "InvalidSuffix".to_string(),
        InvalidSourceAddress(_) => "InvalidSourceAddress".to_string(),
        InvalidDestinationAddress(_) => "InvalidDestinationAddress".to_string(),
        InvalidSourcePort(k) => port("InvalidSourcePort", k),
        InvalidDestinationPort(k) => port("InvalidDestinationPort", k),
        // a variant added to the crate later must not stop the harness from compiling: the
        // checks then report the inputs on which it shows up instead of a bare build failure
        #[allow(unreachable_patterns)]
        other => format!("Other:{}", sanitize(&format!("{:?}", other))),
    };
    name
}

fn v1_ok(h: &v1::Header<'_>) -> String {
    let o = h.to_owned();
    // owned copy and plain clone: equal to the original (both directions of `==`), same views
    let c = h.clone();
    let owned = o == *h
        && *h == o
        && c == *h
        && !(o != *h)
        && o.header == h.header
        && o.addresses == h.addresses
        && o.protocol() == h.protocol()
        && o.addresses_str() == h.addresses_str()
        && o.to_string() == h.to_string()
        && c.to_string() == h.to_string()
        && c.addresses_str() == h.addresses_str()
        && o.to_owned() == o;
    format!(
        "ok hdr={} addr={} proto={} astr={} disp={} owned={}",
        hex(h.header.as_bytes()),
        v1_addr(&h.addresses),
        hex(h.protocol().as_bytes()),
        hex(h.addresses_str().as_bytes()),
        hex(h.to_string().as_bytes()),
        b01(owned)
    )
}

fn v1_str_result(r: &Result<v1::Header<'_>, v1::ParseError>) -> String {
    match r {
        Ok(h) => format!("{} inc={} comp={}", v1_ok(h), b01(r.is_incomplete()), b01(r.is_complete())),
        Err(e) => format!(
            "err {} inc={} comp={} einc={}",
            v1_err(e),
            b01(r.is_incomplete()),
            b01(r.is_complete()),
            b01(e.is_incomplete())
        ),
    }
}

fn v1_bin_result(r: &Result<v1::Header<'_>, v1::BinaryParseError>) -> String {
    match r {
        Ok(h) => format!("{} inc={} comp={}", v1_ok(h), b01(r.is_incomplete()), b01(r.is_complete())),
        Err(e) => {
            let name = match e {
                v1::BinaryParseError::Parse(p) => v1_err(p),
                v1::BinaryParseError::InvalidUtf8(_) => "InvalidUtf8".to_string(),
                #[allow(unreachable_patterns)]
                other => format!("Other:{}", sanitize(&format!("{:?}", other))),
            };
            format!(
                "err {} inc={} comp={} einc={}",
                name,
                b01(r.is_incomplete()),
                b01(r.is_complete()),
                b01(e.is_incomplete())
            )
        }
    }
}

/// Owned copy must survive the input buffer being overwritten and dropped.
fn v1_clobber(input: &[u8]) -> char {
    let mut buf = input.to_vec();
    let (owned, text, addrs, proto, astr) = match v1::Header::try_from(&buf[..]) {
        Ok(h) => (h.to_owned(), h.header.to_string(), h.addresses, h.protocol().to_string(), h.addresses_str().to_string()),
        Err(_) => return '-',
    };
    // the header returned by `FromStr` is an owned copy too: take it from a String that is then
    // overwritten and dropped
    let mut parsed: Option<v1::Header<'static>> = None;
    if let Ok(mut s) = String::from_utf8(buf.clone()) {
        parsed = s.parse::<v1::Header<'static>>().ok();
        // SAFETY-free clobber: replace every character by 'x' (same length is irrelevant, the
        // String is dropped right after)
        s = "x".repeat(s.len());
        drop(s);
    }
    buf.iter_mut().for_each(|b| *b = 0xAA);
    drop(buf);
    let views = |o: &v1::Header<'static>| {
        o.header == text && o.addresses == addrs && o.to_string() == text && o.protocol() == proto && o.addresses_str() == astr
    };
    b01(views(&owned) && parsed.as_ref().map_or(true, |p| views(p) && *p == owned))
}

fn op_v1b(input: &[u8]) -> String {
    let r = v1::Header::try_from(input);
    touch(&r);
    match &r {
        Ok(h) => {
            touch(&h.to_owned());
            touch(&h.addresses);
        }
        Err(e) => touch_err(e),
    }
    format!("{} clob={}", v1_bin_result(&r), v1_clobber(input))
}

fn op_v1s(rest: &str) -> String {
    let bytes = match unhex(rest) {
        Some(b) => b,
        None => return "bad-op".to_string(),
    };
    in_recv_buffer(&bytes, |buf| match std::str::from_utf8(buf) {
        Ok(s) => op_v1s_inner(s),
        Err(_) => "notutf8".to_string(),
    })
}

fn op_v1s_inner(s: &str) -> String {
    let a = guard(|| {
        let r = v1::Header::try_from(s);
        touch(&r);
        if let Err(e) = &r {
            touch_err(e);
        }
        Some(v1_str_result(&r))
    });
    let b = guard(|| {
        let r = s.parse::<v1::Header<'static>>();
        Some(v1_str_result(&r))
    });
    let c = guard(|| {
        Some(match s.parse::<v1::Addresses>() {
            Ok(a) => format!("ok addr={}", v1_addr(&a)),
            Err(e) => format!("err {}", v1_err(&e)),
        })
    });
    format!("{} | {} | {}", a, b, c)
}

/// C08: format an address value, then parse the text back through every text entry point.
fn op_rt1(rest: &str) -> Option<String> {
    let a = parse_v1_addr(rest)?;
    let text = a.to_string();
    let show = |r: Result<v1::Addresses, String>| match r {
        Ok(x) => v1_addr(&x),
        Err(e) => format!("err:{}", e),
    };
    let b = show(v1::Header::try_from(text.as_bytes()).map(|h| h.addresses).map_err(|e| match e {
        v1::BinaryParseError::Parse(p) => v1_err(&p),
        v1::BinaryParseError::InvalidUtf8(_) => "InvalidUtf8".to_string(),
        #[allow(unreachable_patterns)]
        other => format!("Other:{}", sanitize(&format!("{:?}", other))),
    }));
    let s = show(v1::Header::try_from(text.as_str()).map(|h| h.addresses).map_err(|e| v1_err(&e)));
    let fh = show(text.parse::<v1::Header<'static>>().map(|h| h.addresses).map_err(|e| v1_err(&e)));
    let fa = show(text.parse::<v1::Addresses>().map_err(|e| v1_err(&e)));
    let hdr_same = match v1::Header::try_from(text.as_str()) {
        Ok(h) => h.header == text && h.to_string() == text,
        Err(_) => false,
    };
    // A format spec handed to `Display` may be ignored (as the crate does) or applied to the line
    // as a whole (padding / truncation of the complete text, as `str` does) - both leave `{}` and
    // `to_string()` alone and neither is pinned. What no reading of C08 allows is a spec leaking
    // into the *fields* (signed or zero-padded ports, cut addresses): that is no longer the line
    // of this value.
    let whole = |out: &str, width: usize, left: bool, prec: Option<usize>| -> bool {
        if out == text {
            return true;
        }
        let cut: String = match prec {
            Some(p) => text.chars().take(p).collect(),
            None => text.clone(),
        };
        let n = cut.chars().count();
        if n >= width {
            return out == cut;
        }
        let pad = " ".repeat(width - n);
        out == format!("{}{}", cut, pad) || out == format!("{}{}", pad, cut) || (left && out == format!("{}{}", cut, pad))
    };
    let spec = whole(&format!("{:>120}", a), 120, false, None)
        && whole(&format!("{:<120}", a), 120, true, None)
        && whole(&format!("{:5}", a), 5, true, None)
        && whole(&format!("{:.7}", a), 0, true, Some(7))
        && whole(&format!("{:.20}", a), 0, true, Some(20))
        && format!("{:+}", a) == text
        && format!("{:05}", a).trim_start_matches('0') == text.trim_start_matches('0')
        && format!("{:#}", a) == text;
    Some(format!(
        "text={} len={} b={} s={} fh={} fa={} same={} spec={}",
        hex(text.as_bytes()),
        text.len(),
        b,
        s,
        fh,
        fa,
        b01(hdr_same),
        b01(spec)
    ))
}

// ---------------------------------------------------------------- v2

fn v2_err(e: &v2::ParseError) -> String {
    use v2::ParseError::*;
    match e {
        Incomplete(n) => format!("Incomplete a={} b=-", n),
        Prefix => "Prefix a=- b=-".to_string(),
        Version(v) => format!("Version a={} b=-", v),
        Command(v) => format!("Command a={} b=-", v),
        AddressFamily(v) => format!("AddressFamily a={} b=-", v),
        Protocol(v) => format!("Protocol a={} b=-", v),
        Partial(a, b) => format!("Partial a={} b={}", a, b),
        InvalidAddresses(a, b) => format!("InvalidAddresses a={} b={}", a, b),
        InvalidTLV(a, b) => format!("InvalidTLV a={} b={}", a, b),
        Leftovers(a) => format!("Leftovers a={} b=-", a),
        #[allow(unreachable_patterns)]
        other => format!("Other:{} a=- b=-", sanitize(&format!("{:?}", other))),
    }
}

/// Debug text of an unknown variant reduced to one token (the line protocol is space separated).
fn sanitize(s: &str) -> String {
    s.chars().map(|c| if c.is_ascii_alphanumeric() { c } else { '_' }).take(40).collect()
}

/// Canonical text of one iterator item.
fn tlv_item_text(r: &Result<v2::TypeLengthValue<'_>, v2::ParseError>) -> String {
    match r {
        Ok(t) => format!("{}:{}", t.kind, hex(&t.value)),
        Err(v2::ParseError::Leftovers(_)) => "!leftovers".to_string(),
        Err(v2::ParseError::InvalidTLV(t, l)) => format!("!invalidtlv:{}:{}", t, l),
        Err(other) => format!("!other:{}", v2_err(other).replace(' ', "_")),
    }
}

/// The sequence obtained with `next()` alone (bounded), compared with what the other `Iterator`
/// methods report on fresh copies of the same iterator.
fn adaptors_agree(it0: v2::TypeLengthValues<'_>, nbytes: usize) -> bool {
    let cap = nbytes / 3 + 3;
    let mut base: Vec<String> = Vec::new();
    let mut it = it0;
    while base.len() < cap {
        match it.next() {
            None => break,
            Some(r) => base.push(tlv_item_text(&r)),
        }
    }
    if base.len() >= cap {
        return true; // non-terminating iterator: reported through `ended` / the step bound
    }
    let n = base.len();
    let texts = |v: Vec<Result<v2::TypeLengthValue<'_>, v2::ParseError>>| v.iter().map(tlv_item_text).collect::<Vec<_>>();
    let mut ok = texts(it0.take(cap).collect()) == base;
    ok &= it0.take(cap).count() == n;
    ok &= it0.take(cap).last().map(|r| tlv_item_text(&r)) == base.last().cloned();
    let (lo, hi) = it0.size_hint();
    ok &= lo <= n && hi.map_or(true, |h| h >= n);
    let ks: Vec<usize> = if n <= 6 { (0..=n + 2).collect() } else { vec![0, 1, 2, n - 2, n - 1, n, n + 1] };
    for &k in &ks {
        let mut c = it0;
        ok &= c.nth(k).map(|r| tlv_item_text(&r)) == base.get(k).cloned();
        // ... and the iterator continues right after the k-th item
        ok &= c.next().map(|r| tlv_item_text(&r)) == base.get(k + 1).cloned() || k >= n;
        ok &= texts(it0.skip(k).take(cap).collect()) == base.iter().skip(k).cloned().collect::<Vec<_>>();
        if k > 0 {
            ok &= texts(it0.step_by(k).take(cap).collect()) == base.iter().step_by(k).cloned().collect::<Vec<_>>();
        }
        // a copy taken after k calls of `next` yields the rest
        let mut d = it0;
        for _ in 0..k.min(n) {
            d.next();
        }
        let e = d;
        ok &= texts(e.take(cap).collect()) == base.iter().skip(k.min(n)).cloned().collect::<Vec<_>>();
        ok &= texts(d.by_ref().take(cap).collect()) == base.iter().skip(k.min(n)).cloned().collect::<Vec<_>>();
    }
    ok
}

fn tlv_items(mut it: v2::TypeLengthValues<'_>, nbytes: usize) -> String {
    let it0 = it;
    let cap = nbytes / 3 + 3;
    let mut parts: Vec<String> = Vec::new();
    let mut steps = 0usize;
    let mut ended = false;
    let mut owned_ok = true;
    while steps < cap {
        match it.next() {
            None => {
                ended = true;
                break;
            }
            Some(Ok(t)) => {
                let o = t.to_owned();
                owned_ok &= o == t
                    && t == o
                    && t.clone() == t
                    && !(o != t)
                    && o.len() == t.len()
                    && o.is_empty() == t.is_empty()
                    && t.len() == t.value.len()
                    && t.is_empty() == (t.value.len() == 0)
                    && o.kind == t.kind
                    && o.value == t.value;
                parts.push(format!("{}:{}", t.kind, hex(&t.value)));
            }
            Some(Err(e)) => {
                let s = match e {
                    v2::ParseError::Leftovers(n) => format!("!leftovers:{}", n),
                    v2::ParseError::InvalidTLV(t, l) => format!("!invalidtlv:{}:{}", t, l),
                    other => format!("!other:{}", v2_err(&other).replace(' ', "_")),
                };
                parts.push(s);
            }
        }
        steps += 1;
    }
    // after the end, `next` must keep returning None
    let fused = ended && it.next().is_none() && it.next().is_none();
    // "Iterating" is more than calling `next` in a loop: the provided `Iterator` methods a caller
    // reaches for (`collect`, `count`, `last`, `nth`, `skip`, `step_by`, `by_ref`, a copy taken
    // mid-way) must describe the same sequence, also when a type overrides them.
    let adapt = adaptors_agree(it0, nbytes);
    // the section view is the whole section wherever the cursor is
    // (`len()` is a u16: what it reports for a raw slice above 65 535 bytes is not pinned by any property)
    let sbytes = it.as_bytes().len() == nbytes && (nbytes > 65535 || it.len() as usize == nbytes) && it.is_empty() == (nbytes == 0);
    format!(
        "[{}] steps={} ended={} fused={} towned={} sbytes={} adapt={}",
        parts.join(","),
        steps,
        b01(ended),
        b01(fused),
        b01(owned_ok),
        b01(sbytes),
        b01(adapt)
    )
}

fn v2_ok(h: &v2::Header<'_>) -> String {
    let o = h.to_owned();
    let c = h.clone();
    let owned = o == *h
        && *h == o
        && c == *h
        && !(o != *h)
        && o.header == h.header
        && o.version == h.version
        && o.command == h.command
        && o.protocol == h.protocol
        && o.addresses == h.addresses
        && c.tlv_bytes() == h.tlv_bytes()
        && c.address_bytes() == h.address_bytes()
        && o.to_owned() == o
        && o.len() == h.len()
        && o.length() == h.length()
        && o.address_bytes() == h.address_bytes()
        && o.tlv_bytes() == h.tlv_bytes()
        && o.as_bytes() == h.as_bytes()
        && o.address_family() == h.address_family()
        && o.to_string() == h.to_string()
        && o.tlvs().collect::<Vec<_>>() == h.tlvs().collect::<Vec<_>>();
    let tb = h.tlv_bytes();
    let its = h.tlvs();
    let sec_ok = its.as_bytes() == tb && its.len() == (tb.len() as u16) && its.is_empty() == tb.is_empty();
    format!(
        "ok hdr={} ver={} cmd={} tr={} fam={} addr={} alen={} aempty={} len={} length={} empty={} ab={} tb={} asb={} tlvs={} sec={} disp={} owned={}",
        hex(&h.header),
        match h.version {
            v2::Version::Two => "two",
        },
        command_name(h.command),
        transport_name(h.protocol),
        family_name(h.address_family()),
        v2_addr(&h.addresses),
        h.addresses.len(),
        b01(h.addresses.is_empty()),
        h.len(),
        h.length(),
        b01(h.is_empty()),
        hex(h.address_bytes()),
        hex(tb),
        b01(h.as_bytes() == &h.header[..]),
        tlv_items(its, tb.len()),
        b01(sec_ok),
        hex(h.to_string().as_bytes()),
        b01(owned)
    )
}

fn v2_result(r: &Result<v2::Header<'_>, v2::ParseError>) -> String {
    match r {
        Ok(h) => format!("{} inc={} comp={}", v2_ok(h), b01(r.is_incomplete()), b01(r.is_complete())),
        Err(e) => format!(
            "err {} inc={} comp={} einc={}",
            v2_err(e),
            b01(r.is_incomplete()),
            b01(r.is_complete()),
            b01(e.is_incomplete())
        ),
    }
}

fn v2_clobber(input: &[u8]) -> char {
    let mut buf = input.to_vec();
    let (owned, bytes, addrs, tlvs) = match v2::Header::try_from(&buf[..]) {
        Ok(h) => (
            h.to_owned(),
            h.header.to_vec(),
            h.addresses,
            h.tlvs()
                .filter_map(|t| t.ok())
                .map(|t| (t.to_owned(), t.kind, t.value.to_vec()))
                .collect::<Vec<_>>(),
        ),
        Err(_) => return '-',
    };
    buf.iter_mut().for_each(|b| *b = 0xAA);
    drop(buf);
    let t_ok = tlvs.iter().all(|(o, k, v)| o.kind == *k && o.value.as_ref() == &v[..]);
    b01(owned.header.as_ref() == &bytes[..] && owned.addresses == addrs && owned.as_bytes() == &bytes[..] && t_ok)
}

fn op_v2(input: &[u8]) -> String {
    let r = v2::Header::try_from(input);
    touch(&r);
    match &r {
        Ok(h) => {
            touch(&h.to_owned());
            touch(&h.addresses);
            touch(&h.tlvs());
            let items: Vec<_> = h.tlvs().take(input.len() / 3 + 3).collect();
            touch(&items);
            for it in items.iter().flatten() {
                touch(&it.to_owned());
            }
            for e in items.iter().filter_map(|i| i.as_ref().err()) {
                touch_err(e);
            }
        }
        Err(e) => touch_err(e),
    }
    format!("{} clob={}", v2_result(&r), v2_clobber(input))
}

fn op_auto(input: &[u8]) -> String {
    let r = HeaderResult::parse(input);
    touch(&r);
    // the `From<Result<..>>` impls tag a dedicated parser's result with its own version
    let from_ok = matches!(HeaderResult::from(v2::Header::try_from(input)), HeaderResult::V2(_))
        && matches!(HeaderResult::from(v1::Header::try_from(input)), HeaderResult::V1(_))
        && HeaderResult::from(v2::Header::try_from(input)) == HeaderResult::V2(v2::Header::try_from(input))
        && HeaderResult::from(v1::Header::try_from(input)) == HeaderResult::V1(v1::Header::try_from(input))
        && r == HeaderResult::parse(input);

    match &r {
        HeaderResult::V1(Err(e)) => touch_err(e),
        HeaderResult::V2(Err(e)) => touch_err(e),
        _ => {}
    }
    let (inc, comp) = (r.is_incomplete(), r.is_complete());
    let inner = match &r {
        HeaderResult::V1(x) => format!("v1 {}", v1_bin_result(x)),
        HeaderResult::V2(x) => format!("v2 {}", v2_result(x)),
    };
    format!("{} ainc={} acomp={} from={}", inner, b01(inc), b01(comp), b01(from_ok))
}

fn op_tlv(input: &[u8]) -> String {
    let it = v2::TypeLengthValues::from(input);
    touch(&it);
    let items: Vec<_> = it.take(input.len() / 3 + 3).collect();
    touch(&items);
    for t in items.iter().flatten() {
        touch(&t.to_owned());
    }
    for e in items.iter().filter_map(|i| i.as_ref().err()) {
        touch_err(e);
    }
    let meta = format!("slen={} sempty={}", it.len(), b01(it.is_empty()));
    format!("tlvs={} {}", tlv_items(it, input.len()), meta)
}

/// C13: parse, then rebuild from the parts through the real views and the real builder.
fn op_rb(input: &[u8]) -> String {
    let h = match v2::Header::try_from(input) {
        Ok(h) => h,
        Err(_) => return "nohdr".to_string(),
    };
    let show = |r: std::io::Result<Vec<u8>>| match r {
        Ok(b) if b == h.as_bytes() => "eq".to_string(),
        Ok(b) => hex(&b),
        Err(_) => "err".to_string(),
    };
    let (vc, afp) = (h.header[12], h.header[13]);
    let raw = v2::Builder::new(vc, afp)
        .write_payload(h.address_bytes())
        .and_then(|b| b.write_payload(h.tlv_bytes()))
        .and_then(|b| b.build());
    let sec = v2::Builder::new(vc, afp)
        .write_payload(h.address_bytes())
        .and_then(|b| b.write_payload(h.tlvs()))
        .and_then(|b| b.build());
    let items: Result<Vec<v2::TypeLengthValue<'_>>, v2::ParseError> = h.tlvs().collect();
    let it = match &items {
        Ok(items) => show(
            v2::Builder::new(vc, afp)
                .write_payload(h.address_bytes())
                .and_then(|b| b.write_payloads(items.iter()))
                .and_then(|b| b.build()),
        ),
        Err(_) => "na".to_string(),
    };
    let addr = if h.address_family() != v2::AddressFamily::Unspecified {
        show(
            v2::Builder::with_addresses(h.version | h.command, h.protocol, h.addresses)
                .write_payload(h.tlvs())
                .and_then(|b| b.build()),
        )
    } else {
        "na".to_string()
    };
    // the same parts handed over as one batch (the first write of a fresh builder)
    let braw = v2::Builder::new(vc, afp)
        .write_payloads([h.address_bytes(), h.tlv_bytes()])
        .and_then(|b| b.build());
    let baddr = if h.address_family() != v2::AddressFamily::Unspecified {
        match &items {
            Ok(items) => show(
                v2::Builder::with_addresses(h.version | h.command, h.protocol, h.addresses)
                    .write_payloads(items.iter())
                    .and_then(|b| b.build()),
            ),
            Err(_) => "na".to_string(),
        }
    } else {
        "na".to_string()
    };
    // augmenting proxy: the decoded parts re-emitted TLV by TLV with one more TLV appended must
    // parse back to the same endpoints and to the old items followed by the new one
    let aug = if h.address_family() != v2::AddressFamily::Unspecified {
        match &items {
            Ok(items) => {
                let extra = v2::TypeLengthValue::new(v2::Type::NoOp, &[0xAA, 0xBB][..]);
                let mut b = Ok(v2::Builder::with_addresses(h.version | h.command, h.protocol, h.addresses));
                for t in items.iter() {
                    b = b.and_then(|b| b.write_tlv(t.kind, t.value.as_ref()));
                }
                match b.and_then(|b| b.write_payload(&extra)).and_then(|b| b.build()) {
                    Err(_) => "big".to_string(),
                    Ok(out) => match v2::Header::try_from(out.as_slice()) {
                        Err(_) => format!("noparse:{}", hex(&out)),
                        Ok(h2) => {
                            let got: Vec<_> = h2.tlvs().collect();
                            let mut want: Vec<Result<v2::TypeLengthValue<'_>, v2::ParseError>> = items.iter().cloned().map(Ok).collect();
                            want.push(Ok(extra.clone()));
                            if h2.command == h.command
                                && h2.protocol == h.protocol
                                && h2.addresses == h.addresses
                                && h2.as_bytes() == out.as_slice()
                                && got == want
                            {
                                "eq".to_string()
                            } else {
                                format!("diff:{}", hex(&out))
                            }
                        }
                    },
                }
            }
            Err(_) => "na".to_string(),
        }
    } else {
        "na".to_string()
    };
    format!(
        "hdr={} raw={} sec={} items={} addr={} braw={} baddr={} aug={}",
        hex(h.as_bytes()),
        show(raw),
        show(sec),
        it,
        addr,
        show(braw),
        baddr,
        aug
    )
}

// ---------------------------------------------------------------- builder / writer

enum Payload {
    U8(u8),
    U16(u16),
    U32(u32),
    U64(u64),
    U128(u128),
    Usize(usize),
    I8(i8),
    I16(i16),
    I32(i32),
    I64(i64),
    I128(i128),
    Isize(isize),
    Slice(Vec<u8>),
    Addr(v2::Addresses),
    Tlv(u8, Vec<u8>),
    Pair(u8, Vec<u8>),
    PairT(v2::Type, Vec<u8>),
    Section(Vec<u8>),
    /// a `TypeLengthValues` that has already been advanced by `n` calls of `next()`
    SectionAdv(usize, Vec<u8>),
    Type(v2::Type),
}

fn parse_payload(s: &str) -> Option<Payload> {
    let (k, v) = s.split_once(':')?;
    Some(match k {
        "u8" => Payload::U8(v.parse().ok()?),
        "u16" => Payload::U16(v.parse().ok()?),
        "u32" => Payload::U32(v.parse().ok()?),
        "u64" => Payload::U64(v.parse().ok()?),
        "u128" => Payload::U128(v.parse().ok()?),
        "usize" => Payload::Usize(v.parse().ok()?),
        "i8" => Payload::I8(v.parse().ok()?),
        "i16" => Payload::I16(v.parse().ok()?),
        "i32" => Payload::I32(v.parse().ok()?),
        "i64" => Payload::I64(v.parse().ok()?),
        "i128" => Payload::I128(v.parse().ok()?),
        "isize" => Payload::Isize(v.parse().ok()?),
        "sl" => Payload::Slice(bytes_spec(v)?),
        "ad" => Payload::Addr(parse_v2_addr(v)?),
        "tv" => {
            let (t, b) = v.split_once(':')?;
            Payload::Tlv(t.parse().ok()?, bytes_spec(b)?)
        }
        "pr" => {
            let (t, b) = v.split_once(':')?;
            Payload::Pair(t.parse().ok()?, bytes_spec(b)?)
        }
        "prt" => {
            let (t, b) = v.split_once(':')?;
            Payload::PairT(tlv_type(t)?, bytes_spec(b)?)
        }
        "sec" => Payload::Section(bytes_spec(v)?),
        "seca" => {
            let (n, b) = v.split_once(':')?;
            Payload::SectionAdv(n.parse().ok()?, bytes_spec(b)?)
        }
        "ty" => Payload::Type(tlv_type(v)?),
        _ => return None,
    })
}

/// Calls `f` with the payload as a `&dyn`-free concrete `WriteToHeader` value.
macro_rules! with_payload {
    ($p:expr, $x:ident => $body:expr) => {
        match $p {
            Payload::U8($x) => $body,
            Payload::U16($x) => $body,
            Payload::U32($x) => $body,
            Payload::U64($x) => $body,
            Payload::U128($x) => $body,
            Payload::Usize($x) => $body,
            Payload::I8($x) => $body,
            Payload::I16($x) => $body,
            Payload::I32($x) => $body,
            Payload::I64($x) => $body,
            Payload::I128($x) => $body,
            Payload::Isize($x) => $body,
            Payload::Slice(v) => {
                let $x: &[u8] = v.as_slice();
                $body
            }
            Payload::Addr($x) => $body,
            Payload::Tlv(k, v) => {
                let $x = v2::TypeLengthValue::new(*k, v.as_slice());
                $body
            }
            Payload::Pair(k, v) => {
                let $x: (u8, &[u8]) = (*k, v.as_slice());
                $body
            }
            Payload::PairT(k, v) => {
                let $x: (v2::Type, &[u8]) = (*k, v.as_slice());
                $body
            }
            Payload::Section(v) => {
                let $x = v2::TypeLengthValues::from(v.as_slice());
                $body
            }
            Payload::SectionAdv(n, v) => {
                let mut it = v2::TypeLengthValues::from(v.as_slice());
                for _ in 0..*n {
                    let _ = it.next();
                }
                let $x = it;
                $body
            }
            Payload::Type($x) => $body,
        }
    };
}

/// A payload behind a uniform type so that batches can be heterogeneous.
struct Dyn<'a>(&'a Payload);

impl<'a> WriteToHeader for Dyn<'a> {
    fn write_to(&self, writer: &mut v2::Writer) -> std::io::Result<usize> {
        with_payload!(self.0, x => x.write_to(writer))
    }
}

fn op_bld(rest: &str) -> Option<String> {
    let mut toks = rest.split(';');
    let ctor = toks.next()?;
    let c: Vec<&str> = ctor.split(':').collect();
    let mut b = match c.as_slice() {
        ["new", vc, afp] => v2::Builder::new(vc.parse().ok()?, afp.parse().ok()?),
        ["with", vc, tr, addr] => {
            v2::Builder::with_addresses(vc.parse().ok()?, transport(tr)?, parse_v2_addr(addr)?)
        }
        ["with4", vc, tr, addr] => match parse_v2_addr(addr)? {
            // the generic `Into<Addresses>` path
            v2::Addresses::IPv4(a) => v2::Builder::with_addresses(vc.parse().ok()?, transport(tr)?, a),
            v2::Addresses::IPv6(a) => v2::Builder::with_addresses(vc.parse().ok()?, transport(tr)?, a),
            v2::Addresses::Unix(a) => v2::Builder::with_addresses(vc.parse().ok()?, transport(tr)?, a),
            a => v2::Builder::with_addresses(vc.parse().ok()?, transport(tr)?, a),
        },
        _ => return None,
    };
    let mut step = 0usize;
    for t in toks {
        if t.is_empty() {
            continue;
        }
        let (k, v) = t.split_once(':')?;
        let r = match k {
            "res" => Ok(b.reserve_capacity(v.parse().ok()?)),
            "len" => {
                if v == "none" {
                    Ok(b.set_length(None))
                } else {
                    Ok(b.set_length(Some(v.parse::<u16>().ok()?)))
                }
            }
            "lenv" => Ok(b.set_length(v.parse::<u16>().ok()?)),
            "wp" => {
                let p = parse_payload(v)?;
                with_payload!(&p, x => b.write_payload(x))
            }
            "wpr" => {
                // by reference: `impl WriteToHeader for &T`
                let p = parse_payload(v)?;
                with_payload!(&p, x => b.write_payload(&x))
            }
            "wps" | "wpl" | "wpf" | "wpc" => {
                let ps: Option<Vec<Payload>> =
                    if v.is_empty() { Some(vec![]) } else { v.split('+').map(parse_payload).collect() };
                let ps = ps?;
                match k {
                    // exact size hint
                    "wps" => b.write_payloads(ps.iter().map(Dyn)),
                    // lazy adaptor: size_hint() == (0, Some(n))
                    "wpl" => b.write_payloads(ps.iter().map(Dyn).filter(|_| true)),
                    // single-use generator: size_hint() == (0, None)
                    "wpf" => {
                        let mut it = ps.iter();
                        b.write_payloads(std::iter::from_fn(move || it.next().map(Dyn)))
                    }
                    // two halves chained, handed over as an owned Vec of wrappers
                    _ => {
                        let (a, c) = ps.split_at(ps.len() / 2);
                        let v2: Vec<Dyn<'_>> = a.iter().map(Dyn).chain(c.iter().map(Dyn)).collect();
                        b.write_payloads(v2)
                    }
                }
            }
            "tlv" => {
                let (t, bs) = v.split_once(':')?;
                let bs = bytes_spec(bs)?;
                match tlv_type(t) {
                    Some(ty) => b.write_tlv(ty, &bs),
                    None => b.write_tlv(t.parse::<u8>().ok()?, &bs),
                }
            }
            _ => return None,
        };
        match r {
            Ok(nb) => b = nb,
            Err(_) => return Some(format!("err@{}", step)),
        }
        step += 1;
    }
    Some(match b.build() {
        Ok(bytes) => format!("ok {}", hex(&bytes)),
        Err(_) => format!("err@{}", step),
    })
}

fn op_wr(rest: &str) -> Option<String> {
    let (pre, pl) = rest.split_once(' ')?;
    let pre = bytes_spec(pre)?;
    let p = parse_payload(pl)?;
    let mut w = v2::Writer::from(pre.clone());
    let r = with_payload!(&p, x => x.write_to(&mut w));
    let out = w.finish();
    let prefix_ok = out.len() >= pre.len() && out[..pre.len()] == pre[..];
    let app = if prefix_ok { hex(&out[pre.len()..]) } else { "?".to_string() };
    let tb = with_payload!(&p, x => x.to_bytes());
    // the by-reference impl must behave identically
    let mut w2 = v2::Writer::from(pre.clone());
    let r2 = with_payload!(&p, x => (&x).write_to(&mut w2));
    let out2 = w2.finish();
    let ref_same = out2 == out
        && match (&r, &r2) {
            (Ok(a), Ok(b)) => a == b,
            (Err(_), Err(_)) => true,
            _ => false,
        };
    // the same writer used again afterwards (one more byte): a refusal, or a success, must not
    // leave state behind that makes a later write into a writer below its limit fail
    let mut w3 = v2::Writer::from(pre.clone());
    let _ = with_payload!(&p, x => x.write_to(&mut w3));
    let r3 = 7u8.write_to(&mut w3);
    let out3 = w3.finish();
    let after = match r3 {
        Ok(1) if out3.len() == out.len() + 1 && out3[..out.len()] == out[..] && out3[out.len()] == 7 => "ok",
        Err(_) if out3 == out => "err",
        _ => "odd",
    };
    // the same value written a second time into one writer: the second call reports the size of
    // what it wrote itself and appends the same bytes once more (a refusal leaves the writer alone)
    let mut w4 = v2::Writer::from(pre.clone());
    let r4a = with_payload!(&p, x => x.write_to(&mut w4));
    let r4b = with_payload!(&p, x => x.write_to(&mut w4));
    let out4 = w4.finish();
    let again = match (&r, &r4a, &r4b) {
        (Ok(n), Ok(a), Ok(b))
            if a == n
                && b == n
                && out4.len() == 2 * out.len() - pre.len()
                && out4[..out.len()] == out[..]
                && out4[out.len()..] == out[pre.len()..] =>
        {
            "ok"
        }
        (Ok(n), Ok(a), Err(_)) if a == n => "err",
        (Err(_), Err(_), Err(_)) if out4 == out => "ref",
        (Err(_), Err(_), Err(_)) => "refp",
        _ => "odd",
    };
    Some(format!(
        "ret={} pre={} app={} tb={} ref={} after={} again={}",
        match r {
            Ok(n) => format!("ok:{}", n),
            Err(_) => "err".to_string(),
        },
        b01(prefix_ok),
        app,
        match tb {
            Ok(b) => hex(&b),
            Err(_) => "err".to_string(),
        },
        b01(ref_same),
        after,
        again
    ))
}

// ---------------------------------------------------------------- constructors

fn parse_sock(s: &str) -> Option<SocketAddr> {
    let p: Vec<&str> = s.split('/').collect();
    match p.as_slice() {
        ["v4", ip, port] => Some(SocketAddr::V4(SocketAddrV4::new(parse_ip4(ip)?, port.parse().ok()?))),
        ["v6", ip, port, flow, scope] => Some(SocketAddr::V6(SocketAddrV6::new(
            parse_ip6(ip)?,
            port.parse().ok()?,
            flow.parse().ok()?,
            scope.parse().ok()?,
        ))),
        _ => None,
    }
}

fn ipv4_fields(a: &v2::IPv4) -> String {
    format!(
        "sa={} sp={} da={} dp={}",
        ip4(&a.source_address),
        a.source_port,
        ip4(&a.destination_address),
        a.destination_port
    )
}

fn ipv6_fields(a: &v2::IPv6) -> String {
    format!(
        "sa={} sp={} da={} dp={}",
        ip6(&a.source_address),
        a.source_port,
        ip6(&a.destination_address),
        a.destination_port
    )
}

fn op_ctor(rest: &str) -> Option<String> {
    let p: Vec<&str> = rest.split(' ').collect();
    match p.as_slice() {
        ["ip4", sa, da, sp, dp] => {
            let (sa, da, sp, dp) = (parse_ip4(sa)?, parse_ip4(da)?, sp.parse().ok()?, dp.parse().ok()?);
            let a = v2::IPv4::new(sa, da, sp, dp);
            let b = v2::IPv4::new(sa.octets(), da.octets(), sp, dp);
            let c = v1::Addresses::new_tcp4(sa, da, sp, dp);
            let d: v1::Addresses = a.into();
            let e: v2::Addresses = a.into();
            Some(format!(
                "{} arr={} tcp4={} from1={} from2={}",
                ipv4_fields(&a),
                b01(a == b),
                v1_addr(&c),
                v1_addr(&d),
                v2_addr(&e)
            ))
        }
        ["ip6", sa, da, sp, dp] => {
            let (sa, da, sp, dp) = (parse_ip6(sa)?, parse_ip6(da)?, sp.parse().ok()?, dp.parse().ok()?);
            let a = v2::IPv6::new(sa, da, sp, dp);
            let b = v2::IPv6::new(sa.octets(), da.octets(), sp, dp);
            let c = v1::Addresses::new_tcp6(sa, da, sp, dp);
            let d: v1::Addresses = a.into();
            let e: v2::Addresses = a.into();
            Some(format!(
                "{} arr={} tcp6={} from1={} from2={}",
                ipv6_fields(&a),
                b01(a == b),
                v1_addr(&c),
                v1_addr(&d),
                v2_addr(&e)
            ))
        }
        ["unix", s, d] => {
            let s: [u8; 108] = bytes_spec(s)?.try_into().ok()?;
            let d: [u8; 108] = bytes_spec(d)?.try_into().ok()?;
            let u = v2::Unix::new(s, d);
            let a: v2::Addresses = u.into();
            Some(format!("src={} dst={} from2={}", hex(&u.source), hex(&u.destination), v2_addr(&a)))
        }
        ["sock", s, d] => {
            let (s, d) = (parse_sock(s)?, parse_sock(d)?);
            let a: v1::Addresses = (s, d).into();
            let b: v2::Addresses = (s, d).into();
            Some(format!(
                "v1={} v2={} fam={} def={}",
                v1_addr(&a),
                v2_addr(&b),
                family_name(b.address_family()),
                v1_addr(&v1::Addresses::default())
            ))
        }
        ["hdr1", text, addr] => {
            // v1::Header::new keeps both arguments as given
            let t = unhex(text)?;
            let t = std::str::from_utf8(&t).ok()?;
            let a = parse_v1_addr(addr)?;
            let h = v1::Header::new(t, a);
            Some(format!("hdr={} addr={}", hex(h.header.as_bytes()), v1_addr(&h.addresses)))
        }
        ["tlvnew", kind, value] => {
            let v = bytes_spec(value)?;
            let k: u8 = kind.parse().ok()?;
            let a = v2::TypeLengthValue::new(k, &v);
            let b: v2::TypeLengthValue = (k, v.as_slice()).into();
            Some(format!(
                "kind={} value={} len={} empty={} same={}",
                a.kind,
                hex(&a.value),
                a.len(),
                b01(a.is_empty()),
                b01(a == b)
            ))
        }
        _ => None,
    }
}

// ---------------------------------------------------------------- tables

fn op_tbl() -> String {
    use v2::{AddressFamily as F, Command as C, Protocol as P, Version as V};
    let mut e: Vec<String> = Vec::new();
    e.push(format!("v1.prefix={}", hex(v1::PROTOCOL_PREFIX.as_bytes())));
    e.push(format!("v1.suffix={}", hex(v1::PROTOCOL_SUFFIX.as_bytes())));
    e.push(format!("v1.tcp4={}", hex(v1::TCP4.as_bytes())));
    e.push(format!("v1.tcp6={}", hex(v1::TCP6.as_bytes())));
    e.push(format!("v1.unknown={}", hex(v1::UNKNOWN.as_bytes())));
    e.push(format!("v1.sep={}", v1::SEPARATOR as u32));
    e.push(format!("v2.prefix={}", hex(v2::PROTOCOL_PREFIX)));
    e.push(format!("ver.two={}", V::Two as u8));
    for c in [C::Local, C::Proxy] {
        e.push(format!("cmd.{}={}", command_name(c), c as u8));
        e.push(format!("vc.{}={}/{}", command_name(c), V::Two | c, c | V::Two));
    }
    for f in [F::Unspecified, F::IPv4, F::IPv6, F::Unix] {
        e.push(format!(
            "fam.{}={}/{}/{}",
            family_name(f),
            f as u8,
            match f.byte_length() {
                Some(n) => n.to_string(),
                None => "none".to_string(),
            },
            u16::from(f)
        ));
        for p in [P::Unspecified, P::Stream, P::Datagram] {
            e.push(format!("afp.{}.{}={}/{}", family_name(f), transport_name(p), f | p, p | f));
        }
    }
    for p in [P::Unspecified, P::Stream, P::Datagram] {
        e.push(format!("tr.{}={}", transport_name(p), p as u8));
    }
    for n in TLV_TYPE_NAMES {
        let t = tlv_type(n).unwrap();
        e.push(format!("type.{}={}/{}", n, t as u8, u8::from(t)));
    }
    // completeness classification of every error variant
    let bad_addr = "x".parse::<Ipv4Addr>().unwrap_err();
    let bad_int = "x".parse::<u16>().unwrap_err();
    let v1errs: Vec<v1::ParseError> = vec![
        v1::ParseError::InvalidPrefix,
        v1::ParseError::Partial,
        v1::ParseError::MissingPrefix,
        v1::ParseError::MissingNewLine,
        v1::ParseError::MissingProtocol,
        v1::ParseError::MissingSourceAddress,
        v1::ParseError::MissingDestinationAddress,
        v1::ParseError::MissingSourcePort,
        v1::ParseError::MissingDestinationPort,
        v1::ParseError::HeaderTooLong,
        v1::ParseError::InvalidProtocol,
        v1::ParseError::InvalidSuffix,
        v1::ParseError::InvalidSourceAddress(bad_addr.clone()),
        v1::ParseError::InvalidDestinationAddress(bad_addr),
        v1::ParseError::InvalidSourcePort(None),
        v1::ParseError::InvalidSourcePort(Some(bad_int.clone())),
        v1::ParseError::InvalidDestinationPort(None),
        v1::ParseError::InvalidDestinationPort(Some(bad_int)),
    ];
    for er in v1errs {
        let name = v1_err(&er);
        let i = er.is_incomplete();
        let c = er.is_complete();
        let w = v1::BinaryParseError::Parse(er);
        e.push(format!("inc1.{}={}{}{}{}", name, b01(i), b01(c), b01(w.is_incomplete()), b01(w.is_complete())));
    }
    let utf8err = std::str::from_utf8(&[0xff]).unwrap_err();
    let w = v1::BinaryParseError::InvalidUtf8(utf8err);
    e.push(format!("inc1.InvalidUtf8={}{}", b01(w.is_incomplete()), b01(w.is_complete())));
    let v2errs = vec![
        v2::ParseError::Incomplete(3),
        v2::ParseError::Prefix,
        v2::ParseError::Version(1),
        v2::ParseError::Command(2),
        v2::ParseError::AddressFamily(0x40),
        v2::ParseError::Protocol(3),
        v2::ParseError::Partial(1, 2),
        v2::ParseError::InvalidAddresses(1, 12),
        v2::ParseError::InvalidTLV(1, 2),
        v2::ParseError::Leftovers(2),
    ];
    for er in v2errs {
        let name = v2_err(&er).split(' ').next().unwrap().to_string();
        e.push(format!("inc2.{}={}{}", name, b01(er.is_incomplete()), b01(er.is_complete())));
    }
    e.join(";")
}
