#!/bin/sh
# Builds the framework from files on disk only (offline): Lean model, theorems, driver; Rust harness.
set -e
cd "$(dirname "$0")"
export CARGO_NET_OFFLINE=true
(cd lean && lake build)
(cd harness && cp -n /repo/Cargo.lock . 2>/dev/null || true; CARGO_TARGET_DIR="$PWD/target" cargo build --release --offline && CARGO_TARGET_DIR="$PWD/target" cargo build --profile nochecks --offline)
mkdir -p work replays evidence
echo "setup ok"
