import PppModel.Basic
import PppModel.V2.Model
import PppModel.V2.Parse
import PppModel.V2.Tlv
import PppModel.V2.Builder
