import PppModel.Props.C02
import PppModel.Auto

/-!
# The v2 parser on a growing buffer

* an accepted header is a function of its own `16 + declared length` bytes
  (`parse_trailing`, `parse_header_self`);
* every proper prefix of an accepted header is reported incomplete
  (`prefix_incomplete`, with the exact error in `prefix_incomplete_exact`);
* a terminal error is final (`terminal_stable`);
* a receiver that re-parses its buffer after every read ends with the header,
  however the bytes are chunked (`streaming`).
-/

namespace V2

/-! ## An accepted header depends only on its own bytes -/

/-- Length facts about an accepted input. -/
theorem parse_ok_header {x : B} {h : Header} (hp : parse x = .ok h) :
    x.take 12 = sig ∧
    16 + be16 (byteAt x 14) (byteAt x 15) ≤ x.length ∧
    h.header = x.take (16 + be16 (byteAt x 14) (byteAt x 15)) ∧
    h.header.length = 16 + be16 (byteAt x 14) (byteAt x 15) := by
  obtain ⟨g1, g2, c, f, t, h1, h2, h3, h4, rfl⟩ := (C02.accept_iff_table x h).mp hp
  refine ⟨g1, h4, rfl, ?_⟩
  simp only [List.length_take]
  omega

/-- Any input that agrees with an accepted one on the first `16 + declared length`
bytes is accepted with the same result. -/
theorem parse_ok_transfer {x y : B} {h : Header} (hp : parse x = .ok h)
    (hy : y.take (16 + be16 (byteAt x 14) (byteAt x 15)) =
          x.take (16 + be16 (byteAt x 14) (byteAt x 15))) :
    parse y = .ok h := by
  obtain ⟨g1, g2, c, f, t, h1, h2, h3, h4, rfl⟩ := (C02.accept_iff_table x h).mp hp
  generalize hL : be16 (byteAt x 14) (byteAt x 15) = L at *
  have hylen : 16 + L ≤ y.length := by
    have := congrArg List.length hy
    simp only [List.length_take] at this
    omega
  have hb : ∀ i, i < 16 → byteAt y i = byteAt x i := by
    intro i hi
    rw [← byteAt_take (x := y) (n := 16 + L) (by omega), hy, byteAt_take (by omega)]
  have ht : y.take 12 = x.take 12 := by
    have := congrArg (List.take 12) hy
    simpa only [List.take_take, Nat.min_eq_left (by omega : 12 ≤ 16 + L)] using this
  rw [C02.accept_iff_table]
  refine ⟨ht ▸ g1, by omega, c, f, t, ?_⟩
  rw [hb 12 (by omega), hb 13 (by omega), hb 14 (by omega), hb 15 (by omega), hL, hy]
  exact ⟨h1, h2, h3, hylen, rfl⟩

/-- T1: bytes after an accepted header never change the result. -/
theorem parse_trailing {x : B} {h : Header} (hp : parse x = .ok h) (t : B) :
    parse (x ++ t) = .ok h := by
  obtain ⟨-, hlen, -, -⟩ := parse_ok_header hp
  exact parse_ok_transfer hp (List.take_append_of_le_length hlen)

/-- T2: an accepted header parses to itself, is a prefix of the input, and is
exactly the first `16 + declared length` bytes. -/
theorem parse_header_self {x : B} {h : Header} (hp : parse x = .ok h) :
    parse h.header = .ok h ∧ h.header <+: x ∧
    h.header = x.take (16 + be16 (byteAt x 14) (byteAt x 15)) ∧
    h.header.length = 16 + be16 (byteAt x 14) (byteAt x 15) := by
  obtain ⟨-, hlen, hh, hl⟩ := parse_ok_header hp
  refine ⟨?_, ?_, hh, hl⟩
  · apply parse_ok_transfer hp
    rw [hh, List.take_take, Nat.min_self]
  · rw [hh]; exact List.take_prefix _ _

/-! ## Proper prefixes of an accepted header are incomplete -/

/-- The gate on an input that is short and still a possible signature. -/
theorem gate_incomplete {x : B} (hl : x.length < 16) (hs : x.take 12 <+: sig) :
    gate x = .error (.incomplete x.length) := by
  have hsl : sig.length = 12 := rfl
  have hm : minLen = 16 := rfl
  unfold gate
  by_cases h1 : x.length < 12
  · rw [if_pos (by omega), if_pos]
    rw [List.take_of_length_le (by omega)] at hs
    exact isPrefixOf_iff_prefix.mpr hs
  · have : (x.take 12).length = sig.length := by simp only [List.length_take, hsl]; omega
    rw [if_neg (by omega), if_neg (by simpa using hs.eq_of_length this), if_pos (by omega)]

theorem parse_of_gate_error {x : B} {e : ParseError} (hg : gate x = .error e) :
    parse x = .error e := by
  simp only [parse, hg]

theorem parse_of_control_error {x : B} {e : ParseError} (hg : gate x = .ok ())
    (hc : control (byteAt x 12) (byteAt x 13) = .error e) : parse x = .error e := by
  simp only [parse, hg, hc]

/-- T3, exact form: the error reported on the first `n` bytes of an accepted
header, `n` smaller than its length. -/
theorem prefix_incomplete_exact {x : B} {h : Header} (hp : parse x = .ok h) (n : Nat)
    (hn : n < h.header.length) :
    parse (x.take n) = .error (if n < 16 then .incomplete n
      else .partialHdr (n - 16) (be16 (byteAt x 14) (byteAt x 15))) := by
  obtain ⟨-, -, -, hl⟩ := parse_ok_header hp
  rw [hl] at hn
  obtain ⟨g1, g2, c, f, t, h1, h2, h3, h4, -⟩ := (C02.accept_iff_table x h).mp hp
  generalize hL : be16 (byteAt x 14) (byteAt x 15) = L at *
  have hlen : (x.take n).length = n := by simp only [List.length_take]; omega
  by_cases h16 : n < 16
  · rw [if_pos h16]
    have := gate_incomplete (x := x.take n) (by omega) (by
      rw [List.take_take, Nat.min_comm, ← List.take_take, g1]
      exact List.take_prefix _ _)
    rw [hlen] at this
    exact parse_of_gate_error this
  · rw [if_neg h16]
    have hb : ∀ i, i < 16 → byteAt (x.take n) i = byteAt x i :=
      fun i hi => byteAt_take (by omega)
    have hg : gate (x.take n) = .ok () := by
      rw [gate_ok_iff, hlen, List.take_take, Nat.min_eq_left (by omega)]
      exact ⟨g1, by omega⟩
    have hc : control (byteAt (x.take n) 12) (byteAt (x.take n) 13) = .ok (.two, c, f, t) := by
      rw [hb 12 (by omega), hb 13 (by omega)]
      exact (control_ok_iff _ _ _ _ _ _).mpr ⟨h1, h2⟩
    rw [parse_eq_body hg hc]
    simp only [body, hb 14 (by omega), hb 15 (by omega), hL, minLen, hlen, size_eq_spec]
    rw [if_neg (by omega), if_pos (by omega)]

/-- T3: every proper prefix of an accepted header is reported incomplete. -/
theorem prefix_incomplete {x : B} {h : Header} (hp : parse x = .ok h) (n : Nat)
    (hn : n < h.header.length) :
    ∃ e, parse (x.take n) = .error e ∧ e.isIncomplete = true := by
  refine ⟨_, prefix_incomplete_exact hp n hn, ?_⟩
  split <;> rfl

/-! ## Terminal errors are final -/

theorem gate_badPrefix_iff (x : B) :
    gate x = .error .badPrefix ↔
      (x.length < 12 ∧ ¬ x <+: sig) ∨ (12 ≤ x.length ∧ x.take 12 ≠ sig) := by
  have hsl : sig.length = 12 := rfl
  have hm : minLen = 16 := rfl
  unfold gate
  by_cases h1 : x.length < 12
  · rw [if_pos (by omega)]
    by_cases h2 : x <+: sig
    · rw [if_pos (isPrefixOf_iff_prefix.mpr h2)]
      constructor
      · intro h; cases h
      · rintro (⟨-, h⟩ | ⟨h, -⟩)
        · exact absurd h2 h
        · omega
    · rw [if_neg (fun h => h2 (isPrefixOf_iff_prefix.mp h))]
      exact ⟨fun _ => .inl ⟨h1, h2⟩, fun _ => rfl⟩
  · rw [if_neg (by omega)]
    by_cases h2 : x.take 12 = sig
    · rw [if_neg (by simpa using h2)]
      constructor
      · intro h; split at h <;> cases h
      · rintro (⟨h, -⟩ | ⟨-, h⟩)
        · omega
        · exact absurd h2 h
    · rw [if_pos h2]
      exact ⟨fun _ => .inr ⟨by omega, h2⟩, fun _ => rfl⟩

/-- A rejected signature stays rejected whatever follows. -/
theorem gate_badPrefix_append {x : B} (hg : gate x = .error .badPrefix) (t : B) :
    gate (x ++ t) = .error .badPrefix := by
  have hsl : sig.length = 12 := rfl
  rw [gate_badPrefix_iff] at hg ⊢
  rcases hg with ⟨h1, h2⟩ | ⟨h1, h2⟩
  · by_cases h3 : (x ++ t).length < 12
    · exact .inl ⟨h3, fun h => h2 ((List.prefix_append x t).trans h)⟩
    · refine .inr ⟨by omega, fun h => h2 ?_⟩
      rw [← h]
      refine List.prefix_of_prefix_length_le (List.prefix_append x t) (List.take_prefix 12 _) ?_
      simp only [List.length_take]
      omega
  · refine .inr ⟨by simp only [List.length_append]; omega, ?_⟩
    rw [List.take_append_of_le_length h1]
    exact h2

/-- T4: a terminal v2 error is final: no later byte can change it. -/
theorem terminal_stable {x : B} {e : ParseError} (hp : parse x = .error e)
    (he : e.isIncomplete = false) (t : B) : parse (x ++ t) = .error e := by
  cases hg : gate x with
  | error e' =>
    have := parse_of_gate_error hg
    rw [hp] at this
    cases this
    rcases gate_error_cases x e hg with ⟨rfl, -⟩ | rfl
    · cases he
    · exact parse_of_gate_error (gate_badPrefix_append hg t)
  | ok u =>
    cases u
    obtain ⟨-, g2⟩ := (gate_ok_iff x).mp hg
    have hb : ∀ i, i < 16 → byteAt (x ++ t) i = byteAt x i :=
      fun i hi => byteAt_append_of_lt t (by omega)
    cases hc : control (byteAt x 12) (byteAt x 13) with
    | error e' =>
      have := parse_of_control_error hg hc
      rw [hp] at this
      cases this
      exact parse_of_control_error (gate_ok_append t hg)
        (by rw [hb 12 (by omega), hb 13 (by omega)]; exact hc)
    | ok r =>
      obtain ⟨v, c, f, tr⟩ := r
      rw [parse_eq_body hg hc] at hp
      rw [parse_eq_body (gate_ok_append t hg)
        (by rw [hb 12 (by omega), hb 13 (by omega)]; exact hc)]
      simp only [body, hb 14 (by omega), hb 15 (by omega)] at hp ⊢
      split at hp
      · rename_i h1
        rw [if_pos h1]; exact hp
      · split at hp
        · cases hp; cases he
        · cases hp

/-! ## Streaming -/

/-- A receiver that appends each read to its buffer, re-parses the whole buffer
and stops at the first result that is not incomplete. `none` = still waiting
after the last read. -/
def receive (buf : B) : List B → Option (Except ParseError Header)
  | [] => none
  | r :: rs =>
    let buf' := buf ++ r
    if Auto.isIncompleteV2 (parse buf') then receive buf' rs else some (parse buf')

/-- T5, general form: if the buffer so far is a proper prefix of an accepted
header and the reads still to come complete `x ++ payload`, the receiver ends
with exactly that header, however the bytes are chunked (empty reads included). -/
theorem receive_from_prefix {x : B} {h : Header} (hp : parse x = .ok h) (payload : B) :
    ∀ (reads : List B) (buf : B), buf ++ reads.flatten = x ++ payload →
      buf.length < h.header.length → receive buf reads = some (.ok h) := by
  obtain ⟨-, hlen, -, hl⟩ := parse_ok_header hp
  intro reads
  induction reads with
  | nil =>
    intro buf hb hlt
    have := congrArg List.length hb
    simp only [List.flatten_nil, List.append_nil, List.length_append] at this
    omega
  | cons r rs ih =>
    intro buf hb hlt
    have hb' : (buf ++ r) ++ rs.flatten = x ++ payload := by
      rw [← hb, List.flatten_cons, List.append_assoc]
    simp only [receive]
    by_cases hm : (buf ++ r).length < h.header.length
    · have hpre : buf ++ r = x.take (buf ++ r).length := by
        have := congrArg (List.take (buf ++ r).length) hb'
        rw [List.take_left' rfl, List.take_append_of_le_length (by omega)] at this
        exact this
      obtain ⟨e, he1, he2⟩ := prefix_incomplete hp _ hm
      rw [← hpre] at he1
      rw [he1]
      simp only [Auto.isIncompleteV2, he2, if_true]
      exact ih _ hb' hm
    · have hok : parse (buf ++ r) = .ok h := by
        apply parse_ok_transfer hp
        have := congrArg (List.take (16 + be16 (byteAt x 14) (byteAt x 15))) hb'
        rw [List.take_append_of_le_length (by omega), List.take_append_of_le_length hlen] at this
        exact this
      rw [hok]
      simp [Auto.isIncompleteV2]

/-- T5: a receiver starting from the empty buffer that is fed an accepted header
followed by any payload, cut into reads in any way, ends with that header. -/
theorem streaming {x : B} {h : Header} (hp : parse x = .ok h) (payload : B) (reads : List B)
    (hr : reads.flatten = x ++ payload) : receive [] reads = some (.ok h) := by
  obtain ⟨-, -, -, hl⟩ := parse_ok_header hp
  exact receive_from_prefix hp payload reads [] (by rw [List.nil_append]; exact hr)
    (by rw [hl]; simp only [List.length_nil]; omega)

/-- Non-vacuity: an IPv4 header delivered in five reads (one of them empty, the
last one carrying two payload bytes); the receiver waits through the first four. -/
example :
    receive [] [[0x0D, 0x0A, 0x0D], [], [0x0A, 0x00, 0x0D, 0x0A, 0x51, 0x55, 0x49, 0x54, 0x0A, 0x21],
      [0x11, 0x00, 0x0C, 127, 0, 0, 1], [192, 168, 1, 1, 0, 80, 1, 187, 0x50, 0x52]] =
    some (parse [0x0D, 0x0A, 0x0D, 0x0A, 0x00, 0x0D, 0x0A, 0x51, 0x55, 0x49, 0x54, 0x0A,
      0x21, 0x11, 0x00, 0x0C, 127, 0, 0, 1, 192, 168, 1, 1, 0, 80, 1, 187]) ∧
    receive [] [[0x0D, 0x0A, 0x0D], [], [0x0A, 0x00, 0x0D, 0x0A, 0x51, 0x55, 0x49, 0x54, 0x0A, 0x21],
      [0x11, 0x00, 0x0C, 127, 0, 0, 1]] = none ∧
    Auto.isErr (parse [0x0D, 0x0A, 0x0D, 0x0A, 0x00, 0x0D, 0x0A, 0x51, 0x55, 0x49, 0x54, 0x0A,
      0x21, 0x11, 0x00, 0x0C, 127, 0, 0, 1, 192, 168, 1, 1, 0, 80, 1, 187]) = false := by
  decide

end V2
