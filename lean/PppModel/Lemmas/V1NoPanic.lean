import PppModel.V1.Parse
import PppModel.Lemmas.Utf8

/-!
# The v1 entry points never panic

`&input[..length]` on a `&str` panics when `length` is not a char boundary or is out of
range; on a `&[u8]` it panics when it is out of range.  The window length is at most
the input length, and the `&str` entry point slices only after its explicit
`is_char_boundary` check, so neither panics.
-/

namespace V1

/-- The window never reaches past the input. -/
theorem windowLength_le {x : B} {n : Nat} (h : windowLength x = some n) : n ≤ x.length := by
  unfold windowLength at h
  split at h
  · simp only [Option.some.injEq] at h
    omega
  · split at h
    · cases h
    · simp only [Option.some.injEq] at h
      omega

/-- `TryFrom<&str>` never panics (for every input that is a `&str`, though the proof
does not need validity: the slice is guarded by the explicit boundary check). -/
theorem parseStr_no_panic (x : B) (_hx : Utf8.valid x = true) : parseStrP x = .val (parseStr x) := by
  unfold parseStrP parseStr
  cases hw : windowLength x with
  | none => rfl
  | some n =>
    have hle := windowLength_le hw
    cases hb : Utf8.isCharBoundary x n <;> simp [hle, hb]

/-- `TryFrom<&[u8]>` never panics. -/
theorem parseBytes_no_panic (x : B) : parseBytesP x = .val (parseBytes x) := by
  unfold parseBytesP parseBytes
  cases hw : windowLength x with
  | none => rfl
  | some n =>
    have hle := windowLength_le hw
    simp only [sliceToP, hle, if_true]
    show (if (!Utf8.valid (x.take n)) = true then _ else _) = _
    cases hv : Utf8.valid (x.take n)
    · rfl
    · simp only [Bool.not_true, Bool.false_eq_true, if_false]
      cases parseHeader (x.take n) <;> rfl

end V1
