import PppModel.V1.Parse
import PppModel.Lemmas.Bytes

/-!
# Decimal text, ports and IPv4 addresses: exact characterisations

* `StdInt.dec` produces canonical decimal text (digits only, non-empty, no leading zero, injective);
* `V1.parsePort` accepts exactly the canonical decimal texts of `u16` values;
* `StdNet.parseIpv4` accepts exactly the outputs of `StdNet.displayIpv4`.
-/

/-! ## Digits -/

/-- ASCII decimal digit. -/
def IsDig (c : UInt8) : Prop := 0x30 ≤ c ∧ c ≤ 0x39

instance (c : UInt8) : Decidable (IsDig c) := by unfold IsDig; infer_instance

theorem IsDig.toNat {c : UInt8} (h : IsDig c) : 48 ≤ c.toNat ∧ c.toNat ≤ 57 := by
  rcases h with ⟨h1, h2⟩
  rw [UInt8.le_iff_toNat_le] at h1 h2
  exact ⟨h1, h2⟩

theorem isDig_iff_toNat {c : UInt8} : IsDig c ↔ 48 ≤ c.toNat ∧ c.toNat ≤ 57 := by
  unfold IsDig
  rw [UInt8.le_iff_toNat_le, UInt8.le_iff_toNat_le]
  rfl

theorem isDig_ofNat {k : Nat} (h : k < 10) : IsDig (UInt8.ofNat (48 + k)) := by
  rw [isDig_iff_toNat, UInt8.toNat_ofNat']
  omega

theorem toNat_ofNat_digit {k : Nat} (h : k < 10) : (UInt8.ofNat (48 + k)).toNat = 48 + k := by
  rw [UInt8.toNat_ofNat']; omega

theorem ofNat_digit_of_isDig {c : UInt8} (h : IsDig c) : UInt8.ofNat (48 + (c.toNat - 48)) = c := by
  have := h.toNat
  apply UInt8.toNat_inj.mp
  rw [UInt8.toNat_ofNat']; omega

/-- Left-to-right decimal value with an accumulator (the fold of every digit loop). -/
def valL : List UInt8 → Nat → Nat
  | [], acc => acc
  | c :: cs, acc => valL cs (acc * 10 + (c.toNat - 48))

/-- Same with the accumulator first. (Defined through `valL`: matching with the `Nat`
argument first makes `whnf` evaluate `_ - 48` by unary recursion.) -/
def valAcc (acc : Nat) (ds : List UInt8) : Nat := valL ds acc

@[simp] theorem valAcc_nil (acc : Nat) : valAcc acc [] = acc := by simp only [valAcc, valL]
@[simp] theorem valAcc_cons (acc : Nat) (c : UInt8) (cs : B) :
    valAcc acc (c :: cs) = valAcc (acc * 10 + (c.toNat - 48)) cs := by simp only [valAcc, valL]

theorem valAcc_append (acc : Nat) (x y : B) : valAcc acc (x ++ y) = valAcc (valAcc acc x) y := by
  induction x generalizing acc with
  | nil => rfl
  | cons c cs ih => simp only [List.cons_append, valAcc_cons, ih]

theorem le_valAcc (acc : Nat) (x : B) : acc ≤ valAcc acc x := by
  induction x generalizing acc with
  | nil => simp
  | cons c cs ih =>
    have := ih (acc * 10 + (c.toNat - 48))
    simp only [valAcc_cons]; omega

theorem valAcc_mono {a b : Nat} (h : a ≤ b) (x : B) : valAcc a x ≤ valAcc b x := by
  induction x generalizing a b with
  | nil => simpa
  | cons c cs ih => simp only [valAcc_cons]; apply ih; omega

theorem head?_append_ne_nil {α : Type} {l l' : List α} (h : l ≠ []) : (l ++ l').head? = l.head? := by
  cases l with
  | nil => exact absurd rfl h
  | cons a t => rfl

/-- Canonical decimal text: non-empty, digits only, no leading zero unless it is `"0"`. -/
def Canon (ds : B) : Prop :=
  ds ≠ [] ∧ (∀ c ∈ ds, IsDig c) ∧ (ds.head? = some 0x30 → ds = [0x30])

namespace StdInt

theorem dec_lt {n : Nat} (h : n < 10) : dec n = [UInt8.ofNat (48 + n)] := by
  rw [dec]; simp [h]

theorem dec_ge {n : Nat} (h : 10 ≤ n) : dec n = dec (n / 10) ++ [UInt8.ofNat (48 + n % 10)] := by
  rw [dec]; simp [Nat.not_lt.mpr h]

theorem dec_zero : dec 0 = [0x30] := by
  rw [dec_lt (by omega)]; rfl

theorem dec_isDig (n : Nat) : ∀ c ∈ dec n, IsDig c := by
  induction n using Nat.strongRecOn with
  | ind n ih =>
    by_cases h : n < 10
    · rw [dec_lt h]; intro c hc
      simp only [List.mem_singleton] at hc
      subst hc; exact isDig_ofNat h
    · rw [dec_ge (by omega)]; intro c hc
      rcases List.mem_append.mp hc with hc | hc
      · exact ih (n / 10) (by omega) c hc
      · simp only [List.mem_singleton] at hc
        subst hc; exact isDig_ofNat (Nat.mod_lt _ (by omega))

theorem dec_digits (n : Nat) : ∀ c ∈ dec n, 0x30 ≤ c ∧ c ≤ 0x39 := dec_isDig n

theorem dec_ne_nil (n : Nat) : dec n ≠ [] := by
  by_cases h : n < 10
  · rw [dec_lt h]; simp
  · rw [dec_ge (by omega)]; simp

theorem dec_length_le (k : Nat) : ∀ n, n < 10 ^ (k + 1) → (dec n).length ≤ k + 1 := by
  induction k with
  | zero => intro n h; rw [dec_lt (by simpa using h)]; simp
  | succ k ih =>
    intro n h
    by_cases h10 : n < 10
    · rw [dec_lt h10]; simp
    · rw [dec_ge (by omega)]
      have : n / 10 < 10 ^ (k + 1) := by
        apply Nat.div_lt_of_lt_mul
        rw [Nat.pow_succ, Nat.mul_comm] at h; exact h
      have := ih _ this
      simp only [List.length_append, List.length_singleton]; omega

theorem dec_length_pos (n : Nat) : 0 < (dec n).length :=
  List.length_pos_iff.mpr (dec_ne_nil n)

theorem dec_length_u16 (n : Nat) (h : n < 65536) : (dec n).length ≤ 5 :=
  dec_length_le 4 n (by omega)

theorem dec_length_u8 (n : Nat) (h : n < 256) : (dec n).length ≤ 3 :=
  dec_length_le 2 n (by omega)

theorem dec_no_leading_zero (n : Nat) : (dec n).head? = some 0x30 → n = 0 := by
  induction n using Nat.strongRecOn with
  | ind n ih =>
    by_cases h : n < 10
    · rw [dec_lt h]; intro hh
      simp only [List.head?_cons, Option.some.injEq] at hh
      have := congrArg UInt8.toNat hh
      rw [toNat_ofNat_digit h] at this
      have h48 : (0x30 : UInt8).toNat = 48 := rfl
      omega
    · rw [dec_ge (by omega)]; intro hh
      rw [head?_append_ne_nil (dec_ne_nil _)] at hh
      have := ih (n / 10) (by omega) hh
      omega

theorem dec_canon (n : Nat) : Canon (dec n) :=
  ⟨dec_ne_nil n, dec_isDig n, fun h => by rw [dec_no_leading_zero n h, dec_zero]⟩

theorem valAcc_dec (n : Nat) : valAcc 0 (dec n) = n := by
  induction n using Nat.strongRecOn with
  | ind n ih =>
    by_cases h : n < 10
    · rw [dec_lt h]; simp only [valAcc_cons, valAcc_nil, toNat_ofNat_digit h]; omega
    · rw [dec_ge (by omega), valAcc_append, ih (n / 10) (by omega)]
      simp only [valAcc_cons, valAcc_nil, toNat_ofNat_digit (Nat.mod_lt n (by omega : 0 < 10))]
      omega

theorem dec_injective {m n : Nat} (h : dec m = dec n) : m = n := by
  rw [← valAcc_dec m, ← valAcc_dec n, h]

end StdInt

/-! ## Canonical text is the `dec` of its value -/

namespace StdInt

theorem dec_step {acc : Nat} (hacc : 0 < acc) {c : UInt8} (hc : IsDig c) :
    dec (acc * 10 + (c.toNat - 48)) = dec acc ++ [c] := by
  have := hc.toNat
  rw [dec_ge (by omega)]
  have h1 : (acc * 10 + (c.toNat - 48)) / 10 = acc := by omega
  have h2 : (acc * 10 + (c.toNat - 48)) % 10 = c.toNat - 48 := by omega
  rw [h1, h2, ofNat_digit_of_isDig hc]

theorem dec_valAcc_pos (ds : B) (hds : ∀ c ∈ ds, IsDig c) :
    ∀ acc, 0 < acc → dec (valAcc acc ds) = dec acc ++ ds := by
  induction ds with
  | nil => intro acc _; simp
  | cons c cs ih =>
    intro acc hacc
    have hc : IsDig c := hds c (List.mem_cons_self ..)
    rw [valAcc_cons, ih (fun x hx => hds x (List.mem_cons_of_mem _ hx)) _ (by omega), dec_step hacc hc]
    simp

theorem dec_valAcc_of_canon {ds : B} (h : Canon ds) : dec (valAcc 0 ds) = ds := by
  rcases h with ⟨hne, hdig, hz⟩
  cases ds with
  | nil => exact absurd rfl hne
  | cons c cs =>
    have hc : IsDig c := hdig c (List.mem_cons_self ..)
    have hcn := hc.toNat
    by_cases h0 : c = 0x30
    · subst h0
      have := hz rfl
      rw [this]
      have hv : valAcc 0 [0x30] = 0 := by simp only [valAcc_cons, valAcc_nil]; rfl
      rw [hv, dec_zero]
    · have hne48 : c.toNat ≠ 48 := fun h => h0 (UInt8.toNat_inj.mp h)
      rw [valAcc_cons, dec_valAcc_pos cs (fun x hx => hdig x (List.mem_cons_of_mem _ hx)) _ (by omega)]
      rw [dec_lt (by omega)]
      have : 0 * 10 + (c.toNat - 48) = c.toNat - 48 := by omega
      rw [this, ofNat_digit_of_isDig hc]; rfl

/-- A byte string is canonical decimal text iff it is `dec` of some number. -/
theorem canon_iff_dec {ds : B} : Canon ds ↔ ∃ n, ds = dec n :=
  ⟨fun h => ⟨_, (dec_valAcc_of_canon h).symm⟩, fun ⟨n, h⟩ => h ▸ dec_canon n⟩

end StdInt

theorem Canon.take {ds : B} (h : Canon ds) {k : Nat} (hk : 0 < k) : Canon (ds.take k) := by
  rcases h with ⟨hne, hdig, hz⟩
  cases ds with
  | nil => exact absurd rfl hne
  | cons c cs =>
    cases k with
    | zero => omega
    | succ k =>
      refine ⟨by simp, fun x hx => hdig x (List.mem_of_mem_take hx), ?_⟩
      intro hh
      simp only [List.take_succ_cons, List.head?_cons] at hh
      have := hz (by simpa using hh)
      rw [this]; simp

theorem valAcc_take_le (ds : B) (k : Nat) : valAcc 0 (ds.take k) ≤ valAcc 0 ds := by
  conv => rhs; rw [← List.take_append_drop k ds, valAcc_append]
  exact le_valAcc _ _

/-! ## `u16::from_str` and the port check -/

namespace StdInt

theorem decDigit_of_isDig {c : UInt8} (h : IsDig c) : decDigit c = some (c.toNat - 48) := by
  unfold decDigit
  rw [if_pos (by simpa [IsDig] using h)]

theorem decDigit_of_not_isDig {c : UInt8} (h : ¬ IsDig c) : decDigit c = none := by
  unfold decDigit
  rw [if_neg (by simpa [IsDig] using h)]

theorem parseDigits_ok {ds : B} {acc n : Nat} (h : parseDigits ds acc = .ok n) :
    (∀ c ∈ ds, IsDig c) ∧ n = valAcc acc ds ∧ (ds = [] ∨ n ≤ 65535) := by
  induction ds generalizing acc with
  | nil =>
    simp only [parseDigits, Except.ok.injEq] at h
    simp [h]
  | cons c cs ih =>
    by_cases hc : IsDig c
    · simp only [parseDigits, decDigit_of_isDig hc] at h
      split at h
      · cases h
      · rename_i hle
        rcases ih h with ⟨h1, h2, h3⟩
        refine ⟨?_, ?_, Or.inr ?_⟩
        · intro x hx
          rcases List.mem_cons.mp hx with rfl | hx
          · exact hc
          · exact h1 x hx
        · rw [valAcc_cons]; exact h2
        · rcases h3 with rfl | h3
          · rw [h2, valAcc_nil]; omega
          · exact h3
    · simp only [parseDigits, decDigit_of_not_isDig hc] at h
      cases h

theorem parseDigits_of_digits {ds : B} (hds : ∀ c ∈ ds, IsDig c) {acc : Nat}
    (hle : valAcc acc ds ≤ 65535) : parseDigits ds acc = .ok (valAcc acc ds) := by
  induction ds generalizing acc with
  | nil => simp [parseDigits]
  | cons c cs ih =>
    have hc : IsDig c := hds c (List.mem_cons_self ..)
    rw [valAcc_cons] at hle ⊢
    have := le_valAcc (acc * 10 + (c.toNat - 48)) cs
    simp only [parseDigits, decDigit_of_isDig hc]
    rw [if_neg (by omega)]
    exact ih (fun x hx => hds x (List.mem_cons_of_mem _ hx)) hle

theorem parseU16_of_head_ne_plus {s : B} (hp : s.head? ≠ some 0x2B) {n : Nat}
    (h : parseU16 s = .ok n) : s ≠ [] ∧ parseDigits s 0 = .ok n := by
  cases s with
  | nil => simp [parseU16] at h
  | cons c rest =>
    have hc : (c == 0x2B) = false := by
      simpa using hp
    refine ⟨by simp, ?_⟩
    cases rest with
    | nil =>
      simp only [parseU16, hc, Bool.false_or] at h
      split at h
      · cases h
      · exact h
    | cons d rest' =>
      simpa only [parseU16, hc, Bool.false_eq_true, if_false] using h

theorem parseU16_of_head_isDig {c : UInt8} (hc : IsDig c) (rest : B) :
    parseU16 (c :: rest) = parseDigits (c :: rest) 0 := by
  have hcn := hc.toNat
  have h1 : (c == 0x2B) = false := by
    apply beq_false_of_ne; intro h; rw [h] at hcn; revert hcn; decide
  have h2 : (c == 0x2D) = false := by
    apply beq_false_of_ne; intro h; rw [h] at hcn; revert hcn; decide
  cases rest with
  | nil => simp only [parseU16, h1, h2, Bool.or_self, Bool.false_eq_true, if_false]
  | cons d rest' => simp only [parseU16, h1, Bool.false_eq_true, if_false]

end StdInt

namespace V1

/-- `parsePort` on canonical text of a small enough value. -/
theorem parsePort_dec {n : Nat} (hn : n ≤ 65535) : parsePort (StdInt.dec n) = .ok (UInt16.ofNat n) := by
  have hcanon := StdInt.dec_canon n
  rcases hcanon with ⟨hne, hdig, hz⟩
  have hval := StdInt.valAcc_dec n
  generalize StdInt.dec n = s at *
  cases s with
  | nil => exact absurd rfl hne
  | cons c rest =>
    have hc : IsDig c := hdig c (List.mem_cons_self ..)
    have hcn := hc.toNat
    have h1 : (c == 0x2B) = false := by
      apply beq_false_of_ne; intro h; rw [h] at hcn; revert hcn; decide
    have hcond : ((c :: rest).head? == some 0x2B || ((c :: rest).head? == some 0x30 && decide (c :: rest ≠ [0x30]))) = false := by
      simp only [List.head?_cons, Option.some_beq_some, h1, Bool.false_or]
      by_cases h0 : c = 0x30
      · have := hz (by simp [h0])
        simp [this]
      · simp [h0]
    unfold parsePort
    rw [if_neg (by rw [hcond]; simp)]
    rw [StdInt.parseU16_of_head_isDig hc, StdInt.parseDigits_of_digits hdig (by omega), hval]

theorem parsePort_iff (s : B) (p : UInt16) : parsePort s = .ok p ↔ s = StdInt.dec p.toNat := by
  constructor
  · intro h
    unfold parsePort at h
    split at h
    · cases h
    · rename_i hcond
      simp only [Bool.or_eq_true, Bool.and_eq_true, beq_iff_eq, decide_eq_true_eq, not_or, not_and,
        Decidable.not_not] at hcond
      rcases hcond with ⟨hp, hz⟩
      split at h
      · cases h
      · rename_i n hn
        simp only [Except.ok.injEq] at h
        rcases StdInt.parseU16_of_head_ne_plus hp hn with ⟨hne, hd⟩
        rcases StdInt.parseDigits_ok hd with ⟨hdig, hv, hle⟩
        have hle : n ≤ 65535 := by
          rcases hle with rfl | hle
          · exact absurd rfl hne
          · exact hle
        have hcanon : Canon s := ⟨hne, hdig, hz⟩
        have hpn : p.toNat = n := by
          rw [← h, UInt16.toNat_ofNat']; omega
        rw [hpn, hv, StdInt.dec_valAcc_of_canon hcanon]
  · intro h
    have := p.toNat_lt
    rw [h, parsePort_dec (by omega)]
    simp

theorem parsePort_prefix (p : UInt16) (k : Nat) (hk : 0 < k) :
    ∃ q, parsePort ((StdInt.dec p.toNat).take k) = .ok q := by
  have hc : Canon ((StdInt.dec p.toNat).take k) := (StdInt.dec_canon _).take hk
  have hle := valAcc_take_le (StdInt.dec p.toNat) k
  rw [StdInt.valAcc_dec] at hle
  have := p.toNat_lt
  refine ⟨UInt16.ofNat (valAcc 0 ((StdInt.dec p.toNat).take k)), ?_⟩
  have h := parsePort_dec (n := valAcc 0 ((StdInt.dec p.toNat).take k)) (by omega)
  rw [StdInt.dec_valAcc_of_canon hc] at h
  exact h

end V1

/-! ## `Ipv4Addr::from_str` -/

/-- What may follow a greedy run of digits: nothing, or a non-digit. -/
def RestOK (rest : B) : Prop := rest = [] ∨ ∃ c r, rest = c :: r ∧ ¬ IsDig c

theorem restOK_nil : RestOK [] := Or.inl rfl

theorem restOK_cons {c : UInt8} (h : ¬ IsDig c) (r : B) : RestOK (c :: r) := Or.inr ⟨c, r, rfl, h⟩

theorem restOK_dot (r : B) : RestOK (0x2E :: r) := restOK_cons (by decide) r

namespace StdNet

theorem digitVal10_of_isDig {c : UInt8} (h : IsDig c) : digitVal 10 c = some (c.toNat - 48) := by
  unfold digitVal
  rw [if_pos (by simpa [IsDig] using h)]

theorem digitVal10_of_not_isDig {c : UInt8} (h : ¬ IsDig c) : digitVal 10 c = none := by
  unfold digitVal
  rw [if_neg (by simpa [IsDig] using h)]
  rfl

theorem readDigits_append {m : Nat} {ds : B} (hds : ∀ c ∈ ds, IsDig c) {rest : B} (hrest : RestOK rest)
    {acc cnt : Nat} (hcnt : cnt + ds.length ≤ m) :
    readDigits 10 m (ds ++ rest) acc cnt = some (valAcc acc ds, cnt + ds.length, rest) := by
  induction ds generalizing acc cnt with
  | nil =>
    rcases hrest with rfl | ⟨c, r, rfl, hc⟩
    · simp [readDigits]
    · simp [readDigits, digitVal10_of_not_isDig hc]
  | cons c cs ih =>
    have hc : IsDig c := hds c (List.mem_cons_self ..)
    simp only [List.length_cons] at hcnt
    simp only [List.cons_append, readDigits, digitVal10_of_isDig hc]
    rw [if_neg (by omega), ih (fun x hx => hds x (List.mem_cons_of_mem _ hx)) (by omega)]
    simp only [valAcc_cons, List.length_cons]
    congr 3; omega

theorem readDigits_some {m : Nat} {s : B} {acc cnt v cnt' : Nat} {rest : B}
    (h : readDigits 10 m s acc cnt = some (v, cnt', rest)) (hcnt : cnt ≤ m) :
    ∃ ds, s = ds ++ rest ∧ (∀ c ∈ ds, IsDig c) ∧ cnt' = cnt + ds.length ∧ cnt' ≤ m ∧
      v = valAcc acc ds ∧ RestOK rest := by
  induction s generalizing acc cnt with
  | nil =>
    simp only [readDigits, Option.some.injEq, Prod.mk.injEq] at h
    rcases h with ⟨rfl, rfl, rfl⟩
    exact ⟨[], rfl, by simp, rfl, hcnt, rfl, restOK_nil⟩
  | cons c cs ih =>
    by_cases hc : IsDig c
    · simp only [readDigits, digitVal10_of_isDig hc] at h
      split at h
      · cases h
      · rename_i hle
        rcases ih h (by omega) with ⟨ds, h1, h2, h3, h4, h5, h6⟩
        refine ⟨c :: ds, by rw [h1]; rfl, ?_, ?_, h4, ?_, h6⟩
        · intro x hx
          rcases List.mem_cons.mp hx with rfl | hx
          · exact hc
          · exact h2 x hx
        · simp only [List.length_cons]; omega
        · rw [valAcc_cons]; exact h5
    · simp only [readDigits, digitVal10_of_not_isDig hc, Option.some.injEq, Prod.mk.injEq] at h
      rcases h with ⟨rfl, rfl, rfl⟩
      exact ⟨[], rfl, by simp, rfl, hcnt, rfl, restOK_cons hc cs⟩

end StdNet

namespace StdNet

/-- `readOctet` on canonical text (general `RestOK` form). -/
theorem readOctet_dec' {n : Nat} (h : n < 256) {rest : B} (hrest : RestOK rest) :
    readOctet (StdInt.dec n ++ rest) = some (n, rest) := by
  rcases StdInt.dec_canon n with ⟨hne, hdig, hz⟩
  have hlen := StdInt.dec_length_u8 n h
  have hpos := StdInt.dec_length_pos n
  have hhead : (StdInt.dec n ++ rest).head? = (StdInt.dec n).head? := head?_append_ne_nil hne
  unfold readOctet readNumber
  simp only [hhead]
  rw [readDigits_append hdig hrest (by omega), StdInt.valAcc_dec]
  simp only [Nat.zero_add]
  rw [if_neg (by simp; omega)]
  by_cases h0 : (StdInt.dec n).head? = some 0x30
  · have := hz h0
    rw [this]; simp [h]
  · have : ((StdInt.dec n).head? == some 0x30) = false := by simpa using h0
    simp [this, h]

theorem readOctet_dec (n : Nat) (h : n < 256) (rest : B)
    (hrest : rest = [] ∨ ∃ c r, rest = c :: r ∧ ¬(0x30 ≤ c ∧ c ≤ 0x39)) :
    readOctet (StdInt.dec n ++ rest) = some (n, rest) :=
  readOctet_dec' h hrest

/-- Converse: what `readOctet` accepts is canonical text of a value below 256, followed by
nothing or a non-digit. -/
theorem readOctet_some {s : B} {v : Nat} {rest : B} (h : readOctet s = some (v, rest)) :
    v < 256 ∧ s = StdInt.dec v ++ rest ∧ RestOK rest := by
  unfold readOctet readNumber at h
  simp only at h
  split at h
  · cases h
  · rename_i v' cnt rest' hrd
    rcases readDigits_some hrd (by omega) with ⟨ds, h1, h2, h3, h4, h5, h6⟩
    split at h
    · cases h
    · rename_i hcnt
      split at h
      · cases h
      · rename_i hlz
        split at h
        · rename_i hlt
          simp only [Option.some.injEq, Prod.mk.injEq] at h
          rcases h with ⟨rfl, rfl⟩
          have hne : ds ≠ [] := by
            intro hnil; subst hnil
            simp at h3; simp [h3] at hcnt
          have hhead : s.head? = ds.head? := by rw [h1]; exact head?_append_ne_nil hne
          have hcanon : Canon ds := by
            refine ⟨hne, h2, fun hh => ?_⟩
            rw [hhead, hh] at hlz
            have hc1 : ¬ cnt > 1 := by simpa using hlz
            cases ds with
            | nil => exact absurd rfl hne
            | cons c cs =>
              cases cs with
              | nil => simpa using hh
              | cons d cs' => simp at h3; omega
          refine ⟨hlt, ?_, h6⟩
          rw [h5, StdInt.dec_valAcc_of_canon hcanon, h1]
        · cases h

end StdNet

namespace StdNet

theorem readSeparator_zero {α : Type} (sep : UInt8) (inner : B → Option (α × B)) (s : B) :
    readSeparator sep 0 inner s = inner s := by
  simp [readSeparator]

theorem readSeparator_succ_cons {α : Type} (sep : UInt8) (i : Nat) (inner : B → Option (α × B)) (s : B) :
    readSeparator sep (i + 1) inner (sep :: s) = inner s := by
  simp [readSeparator, readGivenChar]

theorem readSeparator_succ_some {α : Type} {sep : UInt8} {i : Nat} {inner : B → Option (α × B)} {s : B}
    {r : α × B} (h : readSeparator sep (i + 1) inner s = some r) :
    ∃ s', s = sep :: s' ∧ inner s' = some r := by
  unfold readSeparator at h
  rw [if_pos (by omega)] at h
  cases s with
  | nil => simp [readGivenChar] at h
  | cons d rest =>
    by_cases hd : d = sep
    · subst hd
      simp only [readGivenChar, beq_self_eq_true, if_true] at h
      exact ⟨rest, rfl, h⟩
    · have : (d == sep) = false := beq_false_of_ne hd
      simp [readGivenChar, this] at h

theorem displayIpv4_eq (a : Ip4) (rest : B) :
    displayIpv4 a ++ rest =
      StdInt.dec a.a.toNat ++ (0x2E :: (StdInt.dec a.b.toNat ++ (0x2E :: (StdInt.dec a.c.toNat ++
        (0x2E :: (StdInt.dec a.d.toNat ++ rest)))))) := by
  simp [displayIpv4]

theorem readIpv4_display' (a : Ip4) {rest : B} (hrest : RestOK rest) :
    readIpv4 (displayIpv4 a ++ rest) = some (a, rest) := by
  rw [displayIpv4_eq]
  unfold readIpv4
  rw [readSeparator_zero, readOctet_dec' a.a.toNat_lt (restOK_dot _)]
  simp only
  rw [readSeparator_succ_cons, readOctet_dec' a.b.toNat_lt (restOK_dot _)]
  simp only
  rw [readSeparator_succ_cons, readOctet_dec' a.c.toNat_lt (restOK_dot _)]
  simp only
  rw [readSeparator_succ_cons, readOctet_dec' a.d.toNat_lt hrest]
  simp only [UInt8.ofNat_toNat]

theorem readIpv4_display (a : Ip4) (rest : B)
    (hrest : rest = [] ∨ ∃ c r, rest = c :: r ∧ ¬(0x30 ≤ c ∧ c ≤ 0x39)) :
    readIpv4 (displayIpv4 a ++ rest) = some (a, rest) :=
  readIpv4_display' a hrest

/-- Converse: what `readIpv4` consumes is exactly the `Display` text of the result. -/
theorem readIpv4_some {s : B} {a : Ip4} {rest : B} (h : readIpv4 s = some (a, rest)) :
    s = displayIpv4 a ++ rest ∧ RestOK rest := by
  unfold readIpv4 at h
  rw [readSeparator_zero] at h
  split at h
  · cases h
  · rename_i va s1 h1
    split at h
    · cases h
    · rename_i vb s2 h2
      split at h
      · cases h
      · rename_i vc s3 h3
        split at h
        · cases h
        · rename_i vd s4 h4
          simp only [Option.some.injEq, Prod.mk.injEq] at h
          rcases h with ⟨rfl, rfl⟩
          rcases readOctet_some h1 with ⟨la, ea, _⟩
          rcases readSeparator_succ_some h2 with ⟨t2, rfl, h2'⟩
          rcases readOctet_some h2' with ⟨lb, eb, _⟩
          rcases readSeparator_succ_some h3 with ⟨t3, rfl, h3'⟩
          rcases readOctet_some h3' with ⟨lc, ec, _⟩
          rcases readSeparator_succ_some h4 with ⟨t4, rfl, h4'⟩
          rcases readOctet_some h4' with ⟨ld, ed, hr⟩
          refine ⟨?_, hr⟩
          rw [displayIpv4_eq]
          simp only [UInt8.toNat_ofNat', Nat.mod_eq_of_lt la, Nat.mod_eq_of_lt lb, Nat.mod_eq_of_lt lc,
            Nat.mod_eq_of_lt ld]
          rw [ea, eb, ec, ed]

theorem displayIpv4_charset (a : Ip4) : ∀ c ∈ displayIpv4 a, (0x30 ≤ c ∧ c ≤ 0x39) ∨ c = 0x2E := by
  intro c hc
  simp only [displayIpv4, List.mem_append, List.mem_singleton] at hc
  rcases hc with (((((h | h) | h) | h) | h) | h) | h
  all_goals first
    | exact Or.inr h
    | exact Or.inl (StdInt.dec_digits _ c h)

theorem displayIpv4_length (a : Ip4) : 7 ≤ (displayIpv4 a).length ∧ (displayIpv4 a).length ≤ 15 := by
  have := StdInt.dec_length_u8 _ a.a.toNat_lt
  have := StdInt.dec_length_u8 _ a.b.toNat_lt
  have := StdInt.dec_length_u8 _ a.c.toNat_lt
  have := StdInt.dec_length_u8 _ a.d.toNat_lt
  have := StdInt.dec_length_pos a.a.toNat
  have := StdInt.dec_length_pos a.b.toNat
  have := StdInt.dec_length_pos a.c.toNat
  have := StdInt.dec_length_pos a.d.toNat
  simp only [displayIpv4, List.length_append, List.length_singleton]
  omega

theorem parseIpv4_display (a : Ip4) : parseIpv4 (displayIpv4 a) = some a := by
  unfold parseIpv4
  rw [if_neg (by have := (displayIpv4_length a).2; omega)]
  have := readIpv4_display' a restOK_nil
  rw [List.append_nil] at this
  rw [this]

theorem parseIpv4_iff (s : B) (a : Ip4) : parseIpv4 s = some a ↔ s = displayIpv4 a := by
  constructor
  · intro h
    unfold parseIpv4 at h
    split at h
    · cases h
    · split at h
      · rename_i a' hr
        simp only [Option.some.injEq] at h
        subst h
        have := (readIpv4_some hr).1
        rw [List.append_nil] at this
        exact this
      · cases h
  · intro h
    rw [h, parseIpv4_display]

theorem displayIpv4_injective {a b : Ip4} (h : displayIpv4 a = displayIpv4 b) : a = b := by
  have h1 := parseIpv4_display a
  rw [h, parseIpv4_display] at h1
  exact (Option.some.inj h1).symm

end StdNet

/-! ## Prefixes of decimal text -/

namespace StdInt

/-- Dropping the last `j` digits of `n` divides by `10^j`. -/
theorem dec_take (j : Nat) : ∀ n, j < (dec n).length →
    (dec n).take ((dec n).length - j) = dec (n / 10 ^ j) := by
  induction j with
  | zero => intro n _; simp
  | succ j ih =>
    intro n hj
    by_cases h : n < 10
    · rw [dec_lt h] at hj; simp at hj
    · have hge : 10 ≤ n := by omega
      rw [dec_ge hge] at hj ⊢
      simp only [List.length_append, List.length_singleton] at hj ⊢
      have hj' : j < (dec (n / 10)).length := by omega
      have e : (dec (n / 10)).length + 1 - (j + 1) = (dec (n / 10)).length - j := by omega
      rw [e, List.take_append_of_le_length (by omega), ih _ hj', Nat.div_div_eq_div_mul, Nat.pow_succ,
        Nat.mul_comm]

end StdInt
