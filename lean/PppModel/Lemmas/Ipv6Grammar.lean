import PppModel.Lemmas.Ipv6GrammarPieces
import PppModel.Lemmas.Ipv6Roundtrip

/-!
# `Ipv6Addr::from_str` accepts exactly the RFC 4291 section 2.2 text forms

`StdNet.parseIpv6_iff_text : parseIpv6 s = some a ↔ Spec.V1.Ipv6Text s a`.
-/

namespace StdNet

open Spec.V1 (HexGroup Groups TailPieces HeadPieces Ipv4Text v4Groups Ipv6Pieces Ipv6Text)

/-! ## `read_separator` -/

theorem readSep_some {α : Type} {i : Nat} {inner : B → Option (α × B)} {s : B} {r : α × B}
    (h : readSeparator 0x3A i inner s = some r) :
    ∃ s', s = sepB (decide (0 < i)) ++ s' ∧ inner s' = some r := by
  cases i with
  | zero => rw [readSeparator_zero] at h; exact ⟨s, rfl, h⟩
  | succ i =>
    rcases readSeparator_succ_some h with ⟨s', rfl, h'⟩
    exact ⟨s', by simp, h'⟩

theorem readSep_sepB {α : Type} (i : Nat) (inner : B → Option (α × B)) (s : B) :
    readSeparator 0x3A i inner (sepB (decide (0 < i)) ++ s) = inner s := by
  cases i with
  | zero => rw [readSeparator_zero]; rfl
  | succ i => simpa using readSeparator_succ_cons 0x3A i inner s

/-! ## soundness of `read_groups` -/

theorem v4Groups_eq (a : Ip4) : [be16 a.a a.b, be16 a.c a.d] = v4Groups a := rfl

theorem readGroupsFrom_sound (limit : Nat) : ∀ (fuel i : Nat) (s : B) (gs : List Nat) (b : Bool) (rest : B),
    i + fuel = limit → readGroupsFrom limit fuel i s = (gs, b, rest) →
    ∃ t, s = t ++ rest ∧ PiecesAt (decide (0 < i)) t gs b ∧ gs.length ≤ fuel := by
  intro fuel
  induction fuel with
  | zero =>
    intro i s gs b rest _ h
    simp only [readGroupsFrom, Prod.mk.injEq] at h
    rcases h with ⟨rfl, rfl, rfl⟩
    exact ⟨[], rfl, PiecesAt.nil _, by simp⟩
  | succ fuel ih =>
    intro i s gs b rest hlim h
    rw [readGroupsFrom] at h
    simp only at h
    split at h
    · -- an embedded IPv4 address ended the read
      rename_i ip rest' hv4
      simp only [Prod.mk.injEq] at h
      rcases h with ⟨rfl, rfl, rfl⟩
      split at hv4
      · rcases readSep_some hv4 with ⟨s', rfl, hs'⟩
        rcases readIpv4_some hs' with ⟨rfl, _⟩
        refine ⟨sepB (decide (0 < i)) ++ displayIpv4 ip, by simp [List.append_assoc], ?_, ?_⟩
        · rw [v4Groups_eq]
          exact PiecesAt.v4 _ _ ip ((ipv4Text_iff_display _ _).mpr rfl)
        · simp only [List.length_cons, List.length_nil]; omega
      · cases hv4
    · split at h
      · rename_i g rest' hhex
        rcases readSep_some hhex with ⟨s', rfl, hs'⟩
        rcases (readHex16_iff _ _ _).mp hs' with ⟨ds, rfl, hg, _⟩
        cases hrec : readGroupsFrom limit fuel (i + 1) rest' with
        | mk gs' p =>
          cases p with
          | mk b' r' =>
            rw [hrec] at h
            simp only [Prod.mk.injEq] at h
            rcases h with ⟨rfl, rfl, rfl⟩
            rcases ih (i + 1) rest' gs' b' r' (by omega) hrec with ⟨t, rfl, hp, hl⟩
            have hp' : PiecesAt true t gs' b' := by simpa using hp
            refine ⟨sepB (decide (0 < i)) ++ (ds ++ t), by simp [List.append_assoc], ?_, ?_⟩
            · exact PiecesAt.cons _ ds g t gs' b' hg hp'
            · simp only [List.length_cons]; omega
      · simp only [Prod.mk.injEq] at h
        rcases h with ⟨rfl, rfl, rfl⟩
        exact ⟨[], rfl, PiecesAt.nil _, by simp⟩

theorem readGroups_sound {limit : Nat} {s : B} {gs : List Nat} {b : Bool} {rest : B}
    (h : readGroups limit s = (gs, b, rest)) :
    ∃ t, s = t ++ rest ∧ PiecesAt false t gs b ∧ gs.length ≤ limit := by
  have := readGroupsFrom_sound limit limit 0 s gs b rest (by omega) h
  simpa using this

/-! ## completeness of `read_groups` -/

/-- Empty, or starting with a colon. -/
def ColonOrEnd (u : B) : Prop := u = [] ∨ ∃ r, u = 0x3A :: r

theorem colonOrEnd_of_endOK {u : B} (h : EndOK u) : ColonOrEnd u := by
  rcases h with rfl | ⟨r, rfl⟩
  · exact Or.inl rfl
  · exact Or.inr ⟨_, rfl⟩

theorem stops16_of_colonOrEnd {u : B} (h : ColonOrEnd u) : Stops 16 u := by
  rcases h with rfl | ⟨r, rfl⟩
  · exact stops_nil _
  · exact stops16_colon _

theorem restOK_of_colonOrEnd {u : B} (h : ColonOrEnd u) : RestOK u := by
  rcases h with rfl | ⟨r, rfl⟩
  · exact restOK_nil
  · exact restOK_cons not_isDig_colon _

theorem colonOrEnd_append {t : B} {gs : List Nat} {b : Bool} (ht : PiecesAt true t gs b) {rest : B}
    (hr : EndOK rest) : ColonOrEnd (t ++ rest) := by
  rcases piecesAt_true_head ht with rfl | ⟨r, rfl⟩
  · simpa using colonOrEnd_of_endOK hr
  · exact Or.inr ⟨_, rfl⟩

/-- A hex group followed by a colon or the end is not the start of a dotted quad. -/
theorem readIpv4_none_of_hex {s : B} (hs : ∀ c ∈ s, IsHex c) {u : B} (hu : ColonOrEnd u) :
    readIpv4 (s ++ u) = none := by
  cases h : readIpv4 (s ++ u) with
  | none => rfl
  | some p =>
    exfalso
    obtain ⟨a, r⟩ := p
    have e := (readIpv4_some h).1
    rw [displayIpv4_eq] at e
    have hu' : ∀ x m, u = x :: m → x = 0x3A := by
      intro x m hx
      rcases hu with rfl | ⟨r', rfl⟩
      · cases hx
      · simp only [List.cons.injEq] at hx; exact hx.1.symm
    rcases List.append_eq_append_iff.mp e with ⟨a', h1, h2⟩ | ⟨c', h1, h2⟩
    · cases a' with
      | nil =>
        have := hu' _ _ h2
        revert this; decide
      | cons x a'' =>
        have hx : IsDig x := StdInt.dec_isDig a.a.toNat x (by rw [h1]; simp)
        have := hu' _ _ h2
        subst this
        exact not_isDig_colon hx
    · cases c' with
      | nil =>
        have := hu' _ _ h2.symm
        revert this; decide
      | cons x c'' =>
        simp only [List.cons_append, List.cons.injEq] at h2
        have hx : IsHex x := hs x (by rw [h1]; simp)
        rw [← h2.1] at hx
        exact not_isHex_dot hx

/-- At the end of a run of groups the reader stops and restores its state. -/
theorem readGroupsFrom_endOK (limit fuel i : Nat) {rest : B} (he : EndOK rest) :
    readGroupsFrom limit fuel i rest = ([], false, rest) := by
  cases fuel with
  | zero => rfl
  | succ fuel =>
    have hnil : ∀ u, ColonOrEnd u → readIpv4 u = none := fun u hu =>
      readIpv4_none_of_hex (s := []) (by simp) hu
    have hv4 : (if i + 1 < limit then readSeparator 0x3A i readIpv4 rest else none) = none := by
      split
      · rcases he with rfl | ⟨r, rfl⟩
        · simp only [readSeparator]
          split
          · simp [readGivenChar]
          · exact hnil _ (Or.inl rfl)
        · simp only [readSeparator]
          split
          · simp only [readGivenChar_cons_self]; exact hnil _ (Or.inr ⟨_, rfl⟩)
          · exact hnil _ (Or.inr ⟨_, rfl⟩)
      · rfl
    have hhex : readSeparator 0x3A i readHex16 rest = none := by
      rcases he with rfl | ⟨r, rfl⟩
      · simp only [readSeparator]; split <;> simp [readGivenChar, readHex16_nil]
      · simp only [readSeparator]; split <;> simp [readGivenChar_cons_self, readHex16_colon]
    simp only [readGroupsFrom, hv4, hhex]

theorem readGroupsFrom_complete (limit : Nat) {c : Bool} {t : B} {gs : List Nat} {b : Bool}
    (h : PiecesAt c t gs b) : ∀ (fuel i : Nat) (rest : B), c = decide (0 < i) → i + fuel = limit →
      gs.length ≤ fuel → EndOK rest → readGroupsFrom limit fuel i (t ++ rest) = (gs, b, rest) := by
  induction h with
  | nil c =>
    intro fuel i rest _ _ _ he
    exact readGroupsFrom_endOK limit fuel i he
  | v4 c t a ht =>
    intro fuel i rest hc hlim hlen he
    simp only [v4Groups, List.length_cons, List.length_nil] at hlen
    cases fuel with
    | zero => omega
    | succ fuel =>
      rw [(ipv4Text_iff_display _ _).mp ht, hc, List.append_assoc]
      have hv4 : (if i + 1 < limit then
          readSeparator 0x3A i readIpv4 (sepB (decide (0 < i)) ++ (displayIpv4 a ++ rest)) else none) =
          some (a, rest) := by
        rw [if_pos (by omega), readSep_sepB]
        exact readIpv4_display' a (restOK_of_colonOrEnd (colonOrEnd_of_endOK he))
      simp only [readGroupsFrom, hv4]
      rfl
  | cons c s g t gs b hg ht ih =>
    intro fuel i rest hc hlim hlen he
    simp only [List.length_cons] at hlen
    cases fuel with
    | zero => omega
    | succ fuel =>
      have hcoe := colonOrEnd_append ht he
      rw [hc, List.append_assoc, List.append_assoc]
      have hv4 : (if i + 1 < limit then
          readSeparator 0x3A i readIpv4 (sepB (decide (0 < i)) ++ (s ++ (t ++ rest))) else none) = none := by
        split
        · rw [readSep_sepB]; exact readIpv4_none_of_hex (hexGroup_isHex hg) hcoe
        · rfl
      have hhex : readSeparator 0x3A i readHex16 (sepB (decide (0 < i)) ++ (s ++ (t ++ rest))) =
          some (g, t ++ rest) := by
        rw [readSep_sepB]
        exact (readHex16_iff _ _ _).mpr ⟨s, rfl, hg, stops16_of_colonOrEnd hcoe⟩
      have hrec := ih fuel (i + 1) rest (by simp) (by omega) (by omega) he
      simp only [readGroupsFrom, hv4, hhex, hrec]

theorem readGroups_complete {limit : Nat} {t : B} {gs : List Nat} {b : Bool}
    (h : PiecesAt false t gs b) (hlen : gs.length ≤ limit) {rest : B} (he : EndOK rest) :
    readGroups limit (t ++ rest) = (gs, b, rest) :=
  readGroupsFrom_complete limit h limit 0 rest (by simp) (by omega) hlen he

/-! ## `read_ipv6_addr` -/

theorem ipv6Pieces_length {s : B} {gs : List Nat} (h : Ipv6Pieces s gs) : gs.length = 8 := by
  cases h with
  | full _ _ _ hl => exact hl
  | compressed h hs t ts _ _ hl =>
    simp only [List.length_append, List.length_replicate]; omega

theorem readIpv6_sound {s : B} {gs : List Nat} (h : readIpv6 s = some (gs, [])) : Ipv6Pieces s gs := by
  unfold readIpv6 at h
  cases hr : readGroups 8 s with
  | mk head p =>
    cases p with
    | mk headV4 s1 =>
      rw [hr] at h
      simp only at h
      rcases readGroups_sound hr with ⟨t, rfl, hp, hl⟩
      split at h
      · rename_i h8
        simp only [Option.some.injEq, Prod.mk.injEq] at h
        rcases h with ⟨rfl, rfl⟩
        rw [List.append_nil]
        exact Ipv6Pieces.full _ _ (tail_of_piecesAt hp) (by simpa using h8)
      · rename_i h8
        have h8' : head.length ≠ 8 := by simpa using h8
        split at h
        · cases h
        · rename_i hv4
          have hv4' : headV4 = false := by simpa using hv4
          subst hv4'
          split at h
          · cases h
          · rename_i s2 hc1
            split at h
            · cases h
            · rename_i s3 hc2
              cases hr2 : readGroups (8 - (head.length + 1)) s3 with
              | mk tail q =>
                cases q with
                | mk tv4 s4 =>
                  rw [hr2] at h
                  simp only [Option.some.injEq, Prod.mk.injEq] at h
                  rcases h with ⟨rfl, rfl⟩
                  rcases readGroups_sound hr2 with ⟨t2, rfl, hp2, hl2⟩
                  have e1 : s1 = 0x3A :: s2 := by
                    cases s1 with
                    | nil => simp [readGivenChar] at hc1
                    | cons d r =>
                      simp only [readGivenChar] at hc1
                      split at hc1
                      · rename_i hd
                        simp only [Option.some.injEq] at hc1
                        rw [hc1, eq_of_beq hd]
                      · cases hc1
                  have e2 : s2 = 0x3A :: (t2 ++ []) := by
                    cases s2 with
                    | nil => simp [readGivenChar] at hc2
                    | cons d r =>
                      simp only [readGivenChar] at hc2
                      split at hc2
                      · rename_i hd
                        simp only [Option.some.injEq] at hc2
                        rw [hc2, eq_of_beq hd]
                      · cases hc2
                  rw [e1, e2, List.append_nil]
                  have := Ipv6Pieces.compressed t head t2 tail (head_of_piecesAt hp) (tail_of_piecesAt hp2)
                    (by omega)
                  simpa [Spec.V1.COLON, List.append_assoc] using this

theorem readIpv6_complete {s : B} {gs : List Nat} (h : Ipv6Pieces s gs) : readIpv6 s = some (gs, []) := by
  cases h with
  | full _ _ ht hl =>
    rcases piecesAt_of_tail ht with ⟨b, hp⟩
    have hr := readGroups_complete (limit := 8) hp (by omega) endOK_nil
    rw [List.append_nil] at hr
    unfold readIpv6
    rw [hr]
    simp [hl]
  | compressed h hs t ts hh ht hl =>
    have hp := piecesAt_of_head hh
    rcases piecesAt_of_tail ht with ⟨b, hp2⟩
    have hr : readGroups 8 (h ++ [Spec.V1.COLON, Spec.V1.COLON] ++ t) = (hs, false, 0x3A :: 0x3A :: t) := by
      have := readGroups_complete (limit := 8) hp (by omega) (rest := 0x3A :: 0x3A :: t) (Or.inr ⟨t, rfl⟩)
      simpa [Spec.V1.COLON, List.append_assoc] using this
    have hr2 := readGroups_complete (limit := 8 - (hs.length + 1)) hp2 (by omega) endOK_nil
    rw [List.append_nil] at hr2
    have h8 : (hs.length == 8) = false := by rw [beq_eq_false_iff_ne]; omega
    unfold readIpv6
    rw [hr]
    simp only [h8, Bool.false_eq_true, if_false, readGivenChar_cons_self, hr2]

/-! ## `Ipv6Addr::from_str` -/

theorem groupsToOctets_eq (gs : List Nat) : groupsToOctets gs = Spec.V1.piecesOctets gs := rfl

theorem groupsToOctets_length (gs : List Nat) : (groupsToOctets gs).length = 2 * gs.length := by
  induction gs with
  | nil => rfl
  | cons g gs ih =>
    simp only [groupsToOctets, List.flatMap_cons, List.length_append, be16Bytes_length,
      List.length_cons] at ih ⊢
    omega

/-- Soundness: every text `Ipv6Addr::from_str` accepts is an RFC 4291 text form of the result. -/
theorem ipv6Text_of_parse (s : B) (a : Ip6) (h : parseIpv6 s = some a) : Ipv6Text s a := by
  unfold parseIpv6 at h
  split at h
  · rename_i gs hr
    simp only [Option.some.injEq] at h
    have hp := readIpv6_sound hr
    refine ⟨gs, hp, ?_⟩
    rw [← h, ← groupsToOctets_eq]
    exact FixB.ofList_val (by rw [groupsToOctets_length, ipv6Pieces_length hp])
  · cases h

/-- Completeness: every RFC 4291 text form is accepted, with the value it denotes. -/
theorem parse_of_ipv6Text (s : B) (a : Ip6) (h : Ipv6Text s a) : parseIpv6 s = some a := by
  rcases h with ⟨gs, hp, ha⟩
  unfold parseIpv6
  rw [readIpv6_complete hp]
  simp only [Option.some.injEq]
  apply Subtype.ext
  rw [ha, ← groupsToOctets_eq]
  exact FixB.ofList_val (by rw [groupsToOctets_length, ipv6Pieces_length hp])

/-- `Ipv6Addr::from_str` accepts exactly the RFC 4291 section 2.2 text forms. -/
theorem parseIpv6_iff_text (s : B) (a : Ip6) : parseIpv6 s = some a ↔ Ipv6Text s a :=
  ⟨ipv6Text_of_parse s a, parse_of_ipv6Text s a⟩

/-! ## the bytes of an accepted text -/

theorem ipv6Pieces_bytes {s : B} {gs : List Nat} (h : Ipv6Pieces s gs) : ∀ c ∈ s, AddrByte c := by
  cases h with
  | full _ _ ht _ =>
    rcases piecesAt_of_tail ht with ⟨b, hp⟩
    exact piecesAt_bytes hp
  | compressed h hs t ts hh ht _ =>
    rcases piecesAt_of_tail ht with ⟨b, hp2⟩
    intro c hc
    simp only [List.mem_append, List.mem_cons, List.not_mem_nil, or_false] at hc
    rcases hc with (hc | hc | hc) | hc
    · exact piecesAt_bytes (piecesAt_of_head hh) c hc
    · exact Or.inr (Or.inl hc)
    · exact Or.inr (Or.inl hc)
    · exact piecesAt_bytes hp2 c hc

/-- Every accepted text consists of hex digits, `:` and `.` only. -/
theorem parseIpv6_addrBytes (s : B) (a : Ip6) (h : parseIpv6 s = some a) : ∀ c ∈ s, AddrByte c := by
  rcases ipv6Text_of_parse s a h with ⟨gs, hp, _⟩
  exact ipv6Pieces_bytes hp

/-- In particular it contains neither a space nor a carriage return. -/
theorem parseIpv6_sepFree (s : B) (a : Ip6) (h : parseIpv6 s = some a) : ∀ c ∈ s, c ≠ 0x20 ∧ c ≠ 0x0D :=
  fun c hc => addrByte_ne (parseIpv6_addrBytes s a h c hc)

/-- The eight pieces of an accepted text are 16-bit values. -/
theorem ipv6Pieces_lt {s : B} {gs : List Nat} (h : Ipv6Pieces s gs) : ∀ g ∈ gs, g < 65536 := by
  cases h with
  | full _ _ ht _ =>
    rcases piecesAt_of_tail ht with ⟨b, hp⟩
    exact piecesAt_lt hp
  | compressed h hs t ts hh ht _ =>
    rcases piecesAt_of_tail ht with ⟨b, hp2⟩
    intro g hg
    simp only [List.mem_append, List.mem_replicate] at hg
    rcases hg with (hg | hg) | hg
    · exact piecesAt_lt (piecesAt_of_head hh) g hg
    · omega
    · exact piecesAt_lt hp2 g hg

/-- `read_ipv6_addr` consuming the whole input, against the grammar. -/
theorem readIpv6_iff (s : B) (gs : List Nat) : readIpv6 s = some (gs, []) ↔ Ipv6Pieces s gs :=
  ⟨readIpv6_sound, readIpv6_complete⟩

end StdNet
