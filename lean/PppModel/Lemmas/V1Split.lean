import PppModel.V1.Parse
import PppModel.Lemmas.Bytes

/-!
# Splitting, first CR and the header window (`src/v1/mod.rs`)
-/

namespace V1

/-- No space and no CR. -/
def sepFree (s : B) : Prop := ∀ c ∈ s, isSep c = false

/-- No CR. -/
def crFree (s : B) : Prop := ∀ c ∈ s, c ≠ CR

theorem isSep_iff (c : UInt8) : isSep c = true ↔ c = SP ∨ c = CR := by
  simp [isSep]

theorem isSep_SP : isSep SP = true := by decide
theorem isSep_CR : isSep CR = true := by decide

theorem sepFree_nil : sepFree [] := by intro c h; cases h

theorem sepFree_cons {c : UInt8} {s : B} : sepFree (c :: s) ↔ isSep c = false ∧ sepFree s := by
  simp [sepFree]

theorem sepFree_append {a b : B} : sepFree (a ++ b) ↔ sepFree a ∧ sepFree b := by
  simp only [sepFree, List.mem_append]
  constructor
  · intro h; exact ⟨fun c hc => h c (.inl hc), fun c hc => h c (.inr hc)⟩
  · rintro ⟨h1, h2⟩ c (hc | hc)
    · exact h1 c hc
    · exact h2 c hc

theorem sepFree.crFree {s : B} (h : sepFree s) : crFree s := by
  intro c hc hcr
  have := h c hc
  rw [hcr] at this
  exact absurd this (by decide)

/-! ## `splitOnce` -/

theorem splitOnce_sepFree {s : B} (h : sepFree s) : splitOnce s = (s, none) := by
  induction s with
  | nil => rfl
  | cons c cs ih =>
    obtain ⟨h1, h2⟩ := sepFree_cons.mp h
    simp [splitOnce, h1, ih h2]

theorem splitOnce_append {a : B} {c : UInt8} {r : B} (ha : sepFree a) (hc : isSep c = true) :
    splitOnce (a ++ c :: r) = (a, some r) := by
  induction a with
  | nil => simp [splitOnce, hc]
  | cons d ds ih =>
    obtain ⟨h1, h2⟩ := sepFree_cons.mp ha
    simp [splitOnce, h1, ih h2]

/-- Every string either has no separator, or splits at its first one. -/
theorem splitOnce_cases (s : B) :
    (sepFree s ∧ splitOnce s = (s, none)) ∨
    (∃ a c r, sepFree a ∧ isSep c = true ∧ s = a ++ c :: r ∧ splitOnce s = (a, some r)) := by
  induction s with
  | nil => left; exact ⟨sepFree_nil, rfl⟩
  | cons d ds ih =>
    by_cases hd : isSep d = true
    · right
      exact ⟨[], d, ds, sepFree_nil, hd, rfl, by simp [splitOnce, hd]⟩
    · have hd' : isSep d = false := by simpa using hd
      rcases ih with ⟨h1, h2⟩ | ⟨a, c, r, h1, h2, h3, h4⟩
      · left
        exact ⟨sepFree_cons.mpr ⟨hd', h1⟩, by simp [splitOnce, hd', h2]⟩
      · right
        refine ⟨d :: a, c, r, sepFree_cons.mpr ⟨hd', h1⟩, h2, by simp [h3], by simp [splitOnce, hd', h4]⟩

/-! ## `splitN` -/

theorem splitN_sepFree (n : Nat) {s : B} (h : sepFree s) : splitN (n + 1) s = [s] := by
  cases n with
  | zero => rfl
  | succ n => simp [splitN, splitOnce_sepFree h]

theorem splitN_append (n : Nat) {a : B} {c : UInt8} {r : B} (ha : sepFree a) (hc : isSep c = true) :
    splitN (n + 2) (a ++ c :: r) = a :: splitN (n + 1) r := by
  simp [splitN, splitOnce_append ha hc]

theorem splitN_one (s : B) : splitN 1 s = [s] := rfl

theorem splitN_ne_nil (n : Nat) (s : B) : splitN (n + 1) s ≠ [] := by
  cases n with
  | zero => simp [splitN]
  | succ n =>
    simp only [splitN]
    rcases h : splitOnce s with ⟨a, _ | r⟩ <;> simp

/-- Shape of the result of `splitN (n+2)`: either the input has no separator, or it
splits at the first one and the rest is split further. -/
theorem splitN_cases (n : Nat) (s : B) :
    (sepFree s ∧ splitN (n + 2) s = [s]) ∨
    (∃ a c r, sepFree a ∧ isSep c = true ∧ s = a ++ c :: r ∧ splitN (n + 2) s = a :: splitN (n + 1) r) := by
  rcases splitOnce_cases s with ⟨h1, h2⟩ | ⟨a, c, r, h1, h2, h3, h4⟩
  · left; exact ⟨h1, by simp [splitN, h2]⟩
  · right; exact ⟨a, c, r, h1, h2, h3, by simp [splitN, h4]⟩

/-! ## `firstCR` -/

theorem firstCR_none_iff (s : B) : firstCR s = none ↔ crFree s := by
  induction s with
  | nil => simp [firstCR, crFree]
  | cons c cs ih =>
    by_cases hc : c = CR
    · subst hc
      simp [firstCR, crFree]
    · have hc' : (c == CR) = false := by simpa using hc
      simp only [firstCR, hc', Bool.false_eq_true, if_false, Option.map_eq_none_iff, ih]
      simp [crFree, hc]

theorem firstCR_append_cr {a : B} (r : B) (ha : crFree a) : firstCR (a ++ CR :: r) = some a.length := by
  induction a with
  | nil => simp [firstCR]
  | cons d ds ih =>
    have hd : d ≠ CR := ha d (List.mem_cons_self ..)
    have hd' : (d == CR) = false := by simpa using hd
    have := ih (fun c hc => ha c (List.mem_cons_of_mem _ hc))
    simp [firstCR, hd', this]

theorem firstCR_some {s : B} {i : Nat} (h : firstCR s = some i) :
    ∃ a r, s = a ++ CR :: r ∧ crFree a ∧ a.length = i := by
  induction s generalizing i with
  | nil => simp [firstCR] at h
  | cons c cs ih =>
    by_cases hc : c = CR
    · subst hc
      simp only [firstCR, beq_self_eq_true, if_true, Option.some.injEq] at h
      subst h
      exact ⟨[], cs, rfl, (by intro c h; cases h), rfl⟩
    · have hc' : (c == CR) = false := by simpa using hc
      simp only [firstCR, hc', Bool.false_eq_true, if_false, Option.map_eq_some_iff] at h
      obtain ⟨j, hj, rfl⟩ := h
      obtain ⟨a, r, rfl, ha, hl⟩ := ih hj
      refine ⟨c :: a, r, rfl, ?_, by simp [hl]⟩
      intro d hd
      rcases List.mem_cons.mp hd with rfl | hd
      · exact hc
      · exact ha d hd

theorem firstCR_append_of_some {x : B} {i : Nat} (t : B) (h : firstCR x = some i) :
    firstCR (x ++ t) = some i := by
  obtain ⟨a, r, rfl, ha, rfl⟩ := firstCR_some h
  rw [List.append_assoc, List.cons_append]
  exact firstCR_append_cr _ ha

theorem firstCR_lt {s : B} {i : Nat} (h : firstCR s = some i) : i < s.length := by
  obtain ⟨a, r, rfl, -, rfl⟩ := firstCR_some h
  simp

/-! ## the header window -/

/-- The input is *frozen*: its first CR is followed by at least one more byte, or
107 bytes have been supplied without any CR. -/
def frozen (x : B) : Prop :=
  (∃ c, firstCR x = some c ∧ c + 1 < x.length) ∨ (firstCR x = none ∧ 107 ≤ x.length)

theorem windowLength_frozen_cr {x : B} {c : Nat} (h : firstCR x = some c) (hc : c + 1 < x.length) :
    windowLength x = some (c + 2) := by
  simp only [windowLength, h, CRLF, List.length_cons, List.length_nil]
  congr 1; omega

theorem windowLength_long {x : B} (h : firstCR x = none) (hl : 107 ≤ x.length) : windowLength x = none := by
  simp [windowLength, h, MAX_LENGTH, hl]

theorem windowLength_short {x : B} (h : firstCR x = none) (hl : x.length < 107) :
    windowLength x = some x.length := by
  simp [windowLength, h, MAX_LENGTH]; omega

/-- Appending bytes to a CR-frozen input changes neither the window length nor
the window. -/
theorem window_append_frozen {x : B} {c : Nat} (t : B) (h : firstCR x = some c) (hc : c + 1 < x.length) :
    windowLength (x ++ t) = some (c + 2) ∧ (x ++ t).take (c + 2) = x.take (c + 2) := by
  refine ⟨?_, ?_⟩
  · exact windowLength_frozen_cr (firstCR_append_of_some t h) (by simp; omega)
  · exact List.take_append_of_le_length (by omega)

/-- The window of a CR-frozen input: `a ++ [CR, b]` with `a` CR-free. -/
theorem window_shape {x : B} {c : Nat} (h : firstCR x = some c) (hc : c + 1 < x.length) :
    ∃ a b, crFree a ∧ a.length = c ∧ x.take (c + 2) = a ++ [CR, b] := by
  obtain ⟨a, r, rfl, ha, rfl⟩ := firstCR_some h
  cases r with
  | nil => simp at hc
  | cons b r' =>
    refine ⟨a, b, ha, rfl, ?_⟩
    rw [show a ++ CR :: b :: r' = (a ++ [CR, b]) ++ r' by simp]
    rw [List.take_append_of_le_length (by simp)]
    exact List.take_of_length_le (by simp)

theorem terminated_window {a : B} {b : UInt8} (ha : crFree a) : terminated (a ++ [CR, b]) = true := by
  simp [terminated, firstCR_append_cr [b] ha]

end V1
