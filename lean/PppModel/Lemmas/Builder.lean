import PppModel.Spec.Builder
import PppModel.Lemmas.V2

/-!
# Writer and builder lemmas
-/

namespace V2
open Spec.Builder

/-! ## encodings: model chunks vs specification -/

theorem ofNat_mod256 (n : Nat) : UInt8.ofNat (n % 256) = UInt8.ofNat n := by
  apply UInt8.toNat_inj.mp; simp

theorem beBytes_eq_intBE (w v : Nat) : beBytes w v = intBE w v := by
  induction w with
  | zero => rfl
  | succ w ih => simp [beBytes, intBE, ih, ofNat_mod256]

theorem typeCode_eq (t : TlvType) : t.code = typeCode t := by cases t <;> rfl

theorem octets_eq (a : Ip4) : a.octets = [a.a, a.b, a.c, a.d] := rfl

theorem chunks_flatten_addr (a : Addresses) : a.chunks.flatten = Spec.V2.addrBytes a := by
  cases a <;> simp [Addresses.chunks, Spec.V2.addrBytes, portBytes, be16Bytes, Spec.V2.u16be, Ip4.octets]

/-- The chunks of a payload concatenate to its specified encoding, and a payload
is refused up front exactly when the specification refuses it. -/
theorem chunks_spec (p : Payload) : p.chunks.map List.flatten = enc p := by
  cases p with
  | int w v => simp [Payload.chunks, enc, beBytes_eq_intBE]
  | slice bs =>
    simp only [Payload.chunks, enc]
    by_cases h : bs.length > 65535
    · simp [h]
    · simp [h]
  | addresses a => simp [Payload.chunks, enc, chunks_flatten_addr]
  | tlv k v =>
    simp only [Payload.chunks, enc]
    by_cases h : v.length > 65535
    · simp [h]
    · simp [h, Spec.Tlv.enc, be16Bytes]
  | pair k v =>
    simp only [Payload.chunks, enc]
    by_cases h : v.length > 65535
    · simp [h]
    · simp [h, Spec.Tlv.enc, be16Bytes]
  | tlvSection bs => simp [Payload.chunks, enc]
  | type t => simp [Payload.chunks, enc, typeCode_eq]

theorem size_spec (p : Payload) (e : B) (h : enc p = some e) : p.size = e.length := by
  cases p with
  | int w v =>
    simp only [enc, Option.some.injEq] at h; subst h
    simp only [Payload.size]
    induction w with
    | zero => rfl
    | succ w ih => simp [intBE, ← ih]
  | slice bs =>
    simp only [enc] at h; split at h <;> simp at h; subst h; rfl
  | addresses a =>
    simp only [enc, Option.some.injEq] at h; subst h
    simp [Payload.size, Addresses.len, addrBytes_length, size_eq_spec]
  | tlv k v =>
    simp only [enc] at h; split at h <;> simp at h; subst h
    simp [Payload.size, Spec.Tlv.enc, minTlvLen]; omega
  | pair k v =>
    simp only [enc] at h; split at h <;> simp at h; subst h
    simp [Payload.size, Spec.Tlv.enc, minTlvLen]; omega
  | tlvSection bs => simp only [enc, Option.some.injEq] at h; subst h; rfl
  | type t => simp only [enc, Option.some.injEq] at h; subst h; rfl

/-! ## the writer -/

/-- The guard is evaluated at the start of every non-empty chunk. -/
def guardOk (w : Writer) : List B → Prop
  | [] => True
  | c :: cs => (c = [] ∨ w.length ≤ writerLimit) ∧ guardOk (w ++ c) cs

theorem writeAll_some_iff (w : Writer) (c : B) (w' : Writer) :
    Writer.writeAll w c = some w' ↔ (c = [] ∨ w.length ≤ writerLimit) ∧ w' = w ++ c := by
  unfold Writer.writeAll Writer.write
  by_cases hc : c = []
  · subst hc; simp [eq_comm]
  · have : c.isEmpty = false := by cases c <;> simp_all
    simp only [this, Bool.false_eq_true, if_false, hc, false_or]
    by_cases hg : w.length > writerLimit
    · simp [hg]; omega
    · simp [hg, eq_comm]; omega

theorem writeAll_none_iff (w : Writer) (c : B) :
    Writer.writeAll w c = none ↔ c ≠ [] ∧ writerLimit < w.length := by
  unfold Writer.writeAll Writer.write
  by_cases hc : c = []
  · subst hc; simp
  · have : c.isEmpty = false := by cases c <;> simp_all
    simp only [this, Bool.false_eq_true, if_false, hc, ne_eq, not_false_eq_true, true_and]
    by_cases hg : w.length > writerLimit
    · simp [hg]
    · simp [hg]

/-- Exact success condition of a sequence of `write_all` calls. -/
theorem writeChunksE_ok_iff (w : Writer) (cs : List B) (w' : Writer) :
    Writer.writeChunksE w cs = .ok w' ↔ guardOk w cs ∧ w' = w ++ cs.flatten := by
  induction cs generalizing w with
  | nil => simp [Writer.writeChunksE, guardOk, eq_comm]
  | cons c cs ih =>
    simp only [Writer.writeChunksE, guardOk, List.flatten_cons]
    cases hw : Writer.writeAll w c with
    | none =>
      have := (writeAll_none_iff w c).mp hw
      simp only [reduceCtorEq, false_iff, not_and]
      rintro ⟨h1 | h1, -⟩
      · exact absurd h1 this.1
      · omega
    | some w1 =>
      obtain ⟨h1, rfl⟩ := (writeAll_some_iff w c w1).mp hw
      simp only [ih, h1, true_and, List.append_assoc]

/-- On failure the writer keeps what it held and whatever chunks were written
before the failing one: the old content is a prefix. -/
theorem writeChunksE_error_prefix (w : Writer) (cs : List B) (w' : Writer)
    (h : Writer.writeChunksE w cs = .error w') : w <+: w' := by
  induction cs generalizing w with
  | nil => simp [Writer.writeChunksE] at h
  | cons c cs ih =>
    simp only [Writer.writeChunksE] at h
    cases hw : Writer.writeAll w c with
    | none => rw [hw] at h; cases h; exact List.prefix_refl _
    | some w1 =>
      rw [hw] at h
      obtain ⟨-, rfl⟩ := (writeAll_some_iff w c w1).mp hw
      exact (List.prefix_append w c).trans (ih _ h)

theorem guardOk_of_fits (w : Writer) (cs : List B) (h : w.length + cs.flatten.length ≤ writerLimit + 1 ∨
    w.length + cs.flatten.length ≤ writerLimit) (h' : w.length + cs.flatten.length ≤ writerLimit) :
    guardOk w cs := by
  induction cs generalizing w with
  | nil => trivial
  | cons c cs ih =>
    simp only [List.flatten_cons, List.length_append] at h'
    refine ⟨.inr (by omega), ih _ (.inr ?_) ?_⟩ <;> simp only [List.length_append] <;> omega

theorem size_chunks (p : Payload) (cs : List B) (h : p.chunks = some cs) : p.size = cs.flatten.length := by
  apply size_spec
  rw [← chunks_spec, h]; rfl

theorem writeTo_nontype (p : Payload) (w : Writer) (hp : ∀ t, p ≠ .type t) :
    p.writeTo w = match p.chunks with
      | none => .error w
      | some cs => match Writer.writeChunksE w cs with
        | .error w' => .error w'
        | .ok w' => .ok (p.size, w') := by
  cases p <;> first | rfl | exact absurd rfl (hp _)

/-- **Exact characterisation of `write_to`.** -/
theorem writeTo_ok_iff (p : Payload) (w : Writer) (n : Nat) (w' : Writer) :
    p.writeTo w = .ok (n, w') ↔
      ∃ cs, p.chunks = some cs ∧ guardOk w cs ∧
        (∀ t, p = .type t → w.length ≤ writerLimit) ∧
        w' = w ++ cs.flatten ∧ n = cs.flatten.length := by
  by_cases hp : ∃ t, p = .type t
  · obtain ⟨t, rfl⟩ := hp
    simp only [Payload.writeTo, Writer.write, Payload.chunks]
    by_cases hg : w.length > writerLimit
    · simp only [hg, if_true, reduceCtorEq, false_iff]
      rintro ⟨cs, -, -, h3, -⟩
      have := h3 t rfl; omega
    · simp only [hg, if_false]
      constructor
      · intro h; cases h
        refine ⟨[[t.code]], rfl, ⟨.inr (by omega), trivial⟩, fun _ _ => by omega, by simp, by simp⟩
      · rintro ⟨cs, h1, -, -, rfl, rfl⟩
        cases h1; simp
  · have hp' : ∀ t, p ≠ .type t := fun t h => hp ⟨t, h⟩
    rw [writeTo_nontype p w hp']
    cases hcs : p.chunks with
    | none => simp
    | some cs =>
      have hs := size_chunks p cs hcs
      simp only
      cases hw : Writer.writeChunksE w cs with
      | error e =>
        simp only [reduceCtorEq, false_iff]
        rintro ⟨cs', h1, h2, -, h4, -⟩
        cases h1
        have := (writeChunksE_ok_iff w _ w').mpr ⟨h2, h4⟩
        rw [hw] at this; cases this
      | ok w1 =>
        obtain ⟨g, rfl⟩ := (writeChunksE_ok_iff _ _ _).mp hw
        simp only [Except.ok.injEq, Prod.mk.injEq]
        constructor
        · rintro ⟨rfl, rfl⟩
          exact ⟨cs, rfl, g, fun t ht => absurd ht (hp' t), rfl, hs⟩
        · rintro ⟨cs', h1, -, -, rfl, rfl⟩
          cases h1; exact ⟨hs, rfl⟩

/-- Success appends exactly the specified encoding and reports its size. -/
theorem writeTo_ok (p : Payload) (w : Writer) (n : Nat) (w' : Writer)
    (h : p.writeTo w = .ok (n, w')) : ∃ e, enc p = some e ∧ w' = w ++ e ∧ n = e.length := by
  obtain ⟨cs, h1, -, -, h4, h5⟩ := (writeTo_ok_iff p w n w').mp h
  refine ⟨cs.flatten, ?_, h4, h5⟩
  rw [← chunks_spec, h1]; rfl

/-- A value whose encoding fits below the writer's limit is written. -/
theorem writeTo_succeeds (p : Payload) (w : Writer) (e : B) (he : enc p = some e)
    (hfit : w.length + e.length ≤ writerLimit) (hty : ∀ t, p = .type t → w.length ≤ writerLimit) :
    p.writeTo w = .ok (e.length, w ++ e) := by
  have hc := chunks_spec p
  rw [he] at hc
  cases hcs : p.chunks with
  | none => rw [hcs] at hc; cases hc
  | some cs =>
    rw [hcs] at hc
    simp only [Option.map_some, Option.some.injEq] at hc
    subst hc
    exact (writeTo_ok_iff p w _ _).mpr ⟨cs, hcs, guardOk_of_fits w cs (.inr hfit) hfit, hty, rfl, rfl⟩

/-- A refused value writes nothing. -/
theorem writeTo_refused (p : Payload) (w : Writer) (he : enc p = none) : p.writeTo w = .error w := by
  have hc := chunks_spec p
  rw [he] at hc
  cases hcs : p.chunks with
  | some cs => rw [hcs] at hc; cases hc
  | none =>
    cases p <;> simp_all [Payload.writeTo, Payload.chunks]

end V2

namespace V2
open Spec.Builder

/-! ## the builder as a state machine -/

/-- Buffer contents once the fixed part has been written: signature, control
bytes, a length field holding `l0`, the construction-time address block, and
the payload bytes `bd` written so far. -/
def hdrOf (vc afp : UInt8) (addr : Addresses) (l0 : Nat) (bd : B) : B :=
  sig ++ [vc, afp] ++ be16Bytes l0 ++ Spec.V2.addrBytes addr ++ bd

theorem hdrOf_append (vc afp addr l0 bd e) : hdrOf vc afp addr l0 bd ++ e = hdrOf vc afp addr l0 (bd ++ e) := by
  simp [hdrOf]

theorem hdrOf_length (vc afp addr l0 bd) :
    (hdrOf vc afp addr l0 bd).length = 16 + (Spec.V2.addrBytes addr).length + bd.length := by
  simp [hdrOf, sig]; omega

theorem hdrOf_patch (vc afp addr l0 l bd) :
    (hdrOf vc afp addr l0 bd).take 14 ++ be16Bytes l ++ (hdrOf vc afp addr l0 bd).drop 16 =
      hdrOf vc afp addr l bd := by
  simp [hdrOf, sig, be16Bytes]

theorem hdrOf_patch' (vc afp addr l0 l bd) :
    (hdrOf vc afp addr l0 bd).take 14 ++ (be16Bytes l ++ (Spec.V2.addrBytes addr ++ bd)) =
      hdrOf vc afp addr l bd := by
  simp [hdrOf, sig, be16Bytes]

theorem hdrOf_drop16 (vc afp addr l0 bd) :
    (hdrOf vc afp addr l0 bd).drop 16 = Spec.V2.addrBytes addr ++ bd := by
  simp [hdrOf, sig, be16Bytes]

/-- The invariant of every reachable builder state. -/
structure Shape (b : Builder) (vc afp : UInt8) (addr : Addresses) (len : Option Nat) (bd : B) : Prop where
  hvc : b.versionCommand = vc
  hafp : b.addressFamilyProtocol = afp
  haddr : b.addresses = addr
  hlen : b.length = len
  hhdr : (b.header = none ∧ bd = []) ∨ ∃ l0, b.header = some (hdrOf vc afp addr l0 bd)

theorem shape_new (vc afp : UInt8) : Shape (Builder.new vc afp) vc afp .unspec none [] :=
  ⟨rfl, rfl, rfl, rfl, .inl ⟨rfl, rfl⟩⟩

theorem shape_withAddresses (vc : UInt8) (t : Transport) (a : Addresses) :
    Shape (Builder.withAddresses vc t a) vc (afpByte a.family t) a none [] :=
  ⟨rfl, rfl, rfl, rfl, .inl ⟨rfl, rfl⟩⟩

theorem addrBytes_le (a : Addresses) : (Spec.V2.addrBytes a).length ≤ 216 := by
  rw [addrBytes_length]; cases a <;> simp [Addresses.family, Spec.V2.familySize]

/-- `write_header` always succeeds and establishes the written shape. -/
theorem writeHeader_shape {b vc afp addr len bd} (h : Shape b vc afp addr len bd) :
    ∃ b' l0, b.writeHeader = some b' ∧ Shape b' vc afp addr len bd ∧
      b'.header = some (hdrOf vc afp addr l0 bd) := by
  obtain ⟨h1, h2, h3, h4, h5⟩ := h
  rcases h5 with ⟨hn, rfl⟩ | ⟨l0, hs⟩
  · have hfit : (sig ++ [b.versionCommand, b.addressFamilyProtocol] ++ be16Bytes (b.length.getD 0)).length +
        (Spec.V2.addrBytes b.addresses).length ≤ writerLimit := by
      have := addrBytes_le b.addresses
      simp [sig, writerLimit, minLen]; omega
    have hw := writeTo_succeeds (.addresses b.addresses) _ _ rfl hfit (by intro t ht; cases ht)
    refine ⟨{ b with header := some (hdrOf vc afp addr (len.getD 0) []) }, len.getD 0, ?_, ?_, rfl⟩
    · simp only [Builder.writeHeader, hn, hw]
      subst h1 h2 h3 h4
      simp [hdrOf]
    · exact ⟨h1, h2, h3, h4, .inr ⟨_, rfl⟩⟩
  · refine ⟨b, l0, ?_, ⟨h1, h2, h3, h4, .inr ⟨l0, hs⟩⟩, hs⟩
    simp [Builder.writeHeader, hs]

theorem encAll_append (ps qs : List Payload) :
    encAll (ps ++ qs) = match encAll ps, encAll qs with
      | some a, some b => some (a ++ b)
      | _, _ => none := by
  induction ps with
  | nil => cases h : encAll qs <;> simp [encAll, h]
  | cons p ps ih =>
    simp only [List.cons_append, encAll, ih]
    cases enc p <;> cases encAll ps <;> cases encAll qs <;> simp

theorem writeMany_ok (w : Writer) (ps : List Payload) (w' : Writer) (h : writeMany w ps = some w') :
    ∃ e, encAll ps = some e ∧ w' = w ++ e := by
  induction ps generalizing w with
  | nil => simp [writeMany] at h; exact ⟨[], rfl, by simp [h]⟩
  | cons p ps ih =>
    simp only [writeMany] at h
    cases hp : p.writeTo w with
    | error e => rw [hp] at h; cases h
    | ok r =>
      obtain ⟨n, w1⟩ := r
      rw [hp] at h
      obtain ⟨e1, he1, rfl, -⟩ := writeTo_ok p w n w1 hp
      obtain ⟨e2, he2, rfl⟩ := ih _ h
      exact ⟨e1 ++ e2, by simp [encAll, he1, he2], by simp⟩

theorem writeMany_succeeds (w : Writer) (ps : List Payload) (e : B) (he : encAll ps = some e)
    (hfit : w.length + e.length ≤ writerLimit) : writeMany w ps = some (w ++ e) := by
  induction ps generalizing w e with
  | nil => simp [encAll] at he; subst he; simp [writeMany]
  | cons p ps ih =>
    simp only [encAll] at he
    cases h1 : enc p with
    | none => simp [h1] at he
    | some e1 =>
      cases h2 : encAll ps with
      | none => simp [h1, h2] at he
      | some e2 =>
        simp only [h1, h2, Option.some.injEq] at he
        subst he
        simp only [List.length_append] at hfit
        have := writeTo_succeeds p w e1 h1 (by omega) (fun _ _ => by omega)
        simp only [writeMany, this]
        rw [ih (w ++ e1) e2 h2 (by simp; omega)]
        simp

/-- The explicit length after one call. -/
def lenAfter (len : Option Nat) : Op → Option Nat
  | .setLength l => l
  | _ => len

/-- One call: the buffer grows by exactly the encodings of the payloads of that
call; everything else is untouched except the explicit length. -/
theorem step_shape {b vc afp addr len bd} (h : Shape b vc afp addr len bd) (op : Op) (b' : Builder)
    (hs : b.step op = some b') :
    ∃ e, encAll (opPayloads op) = some e ∧
      Shape b' vc afp addr (lenAfter len op) (bd ++ e) := by
  cases op with
  | reserve n =>
    refine ⟨[], rfl, ?_⟩
    simp only [Builder.step] at hs
    obtain ⟨h1, h2, h3, h4, h5⟩ := h
    rcases h5 with ⟨hn, rfl⟩ | ⟨l0, hh⟩
    · simp only [hn] at hs; cases hs
      exact ⟨h1, h2, h3, h4, .inl ⟨rfl, rfl⟩⟩
    · simp only [hh] at hs; cases hs
      exact ⟨h1, h2, h3, h4, .inr ⟨l0, by simpa using hh⟩⟩
  | setLength l =>
    refine ⟨[], rfl, ?_⟩
    simp only [Builder.step, Option.some.injEq] at hs; subst hs
    obtain ⟨h1, h2, h3, h4, h5⟩ := h
    exact ⟨h1, h2, h3, rfl, by simpa using h5⟩
  | writePayload p =>
    obtain ⟨b1, l0, hw, hsh, hh⟩ := writeHeader_shape h
    simp only [Builder.step, hw, Builder.writeInternal, hh, Option.getD_some] at hs
    cases hp : p.writeTo (hdrOf vc afp addr l0 bd) with
    | error e => rw [hp] at hs; cases hs
    | ok r =>
      obtain ⟨n, w1⟩ := r
      rw [hp] at hs; cases hs
      obtain ⟨e, he, rfl, -⟩ := writeTo_ok _ _ _ _ hp
      refine ⟨e, by simp [opPayloads, encAll, he], ⟨hsh.hvc, hsh.hafp, hsh.haddr, hsh.hlen, .inr ⟨l0, ?_⟩⟩⟩
      simp [hdrOf_append]
  | writePayloads ps =>
    obtain ⟨b1, l0, hw, hsh, hh⟩ := writeHeader_shape h
    simp only [Builder.step, hw, hh, Option.getD_some] at hs
    cases hp : writeMany (hdrOf vc afp addr l0 bd) ps with
    | none => rw [hp] at hs; cases hs
    | some w1 =>
      rw [hp] at hs; cases hs
      obtain ⟨e, he, rfl⟩ := writeMany_ok _ _ _ hp
      refine ⟨e, by simpa [opPayloads] using he, ⟨hsh.hvc, hsh.hafp, hsh.haddr, hsh.hlen, .inr ⟨l0, ?_⟩⟩⟩
      simp [hdrOf_append]
  | writeTlv k v =>
    obtain ⟨b1, l0, hw, hsh, hh⟩ := writeHeader_shape h
    simp only [Builder.step, hw, Builder.writeInternal, hh, Option.getD_some] at hs
    cases hp : (Payload.tlv k v).writeTo (hdrOf vc afp addr l0 bd) with
    | error e => rw [hp] at hs; cases hs
    | ok r =>
      obtain ⟨n, w1⟩ := r
      rw [hp] at hs; cases hs
      obtain ⟨e, he, rfl, -⟩ := writeTo_ok _ _ _ _ hp
      refine ⟨e, by simp [opPayloads, encAll, he], ⟨hsh.hvc, hsh.hafp, hsh.haddr, hsh.hlen, .inr ⟨l0, ?_⟩⟩⟩
      simp [hdrOf_append]

theorem lengthFrom_cons (acc : Option Nat) (op : Op) (ops : List Op) :
    lengthFrom acc (op :: ops) = lengthFrom (lenAfter acc op) ops := rfl

/-- A whole call history. -/
theorem runFrom_shape {b vc afp addr len bd} (h : Shape b vc afp addr len bd) (ops : List Op)
    (b' : Builder) (hr : Builder.runFrom b ops = some b') :
    ∃ e, encAll (ops.flatMap opPayloads) = some e ∧
      Shape b' vc afp addr (lengthFrom len ops) (bd ++ e) := by
  induction ops generalizing b len bd with
  | nil =>
    simp only [Builder.runFrom, Option.some.injEq] at hr; subst hr
    exact ⟨[], rfl, by simpa [lengthFrom] using h⟩
  | cons op ops ih =>
    simp only [Builder.runFrom] at hr
    cases hs : b.step op with
    | none => rw [hs] at hr; cases hr
    | some b1 =>
      rw [hs] at hr
      obtain ⟨e1, he1, hsh1⟩ := step_shape h op b1 hs
      obtain ⟨e2, he2, hsh2⟩ := ih hsh1 hr
      refine ⟨e1 ++ e2, ?_, ?_⟩
      · simp [List.flatMap_cons, encAll_append, he1, he2]
      · rw [lengthFrom_cons]
        simpa using hsh2

/-- What `build` returns from a state of known shape. -/
def buildOf (vc afp : UInt8) (addr : Addresses) (len : Option Nat) (bd : B) : Option B :=
  match len with
  | some l => some (hdrOf vc afp addr l bd)
  | none =>
    if (Spec.V2.addrBytes addr).length + bd.length ≤ 65535 then
      some (hdrOf vc afp addr ((Spec.V2.addrBytes addr).length + bd.length) bd)
    else none

/-- `build` on a state of known shape. -/
theorem build_shape {b vc afp addr len bd} (h : Shape b vc afp addr len bd) :
    b.build = buildOf vc afp addr len bd := by
  unfold buildOf
  obtain ⟨b1, l0, hw, hsh, hh⟩ := writeHeader_shape h
  simp only [Builder.build, hw, hh, Option.getD_some, hsh.hlen]
  cases len with
  | some l => simp [hdrOf_drop16, hdrOf_patch']
  | none =>
    simp only [hdrOf_drop16, minLen, List.length_append, List.append_assoc, hdrOf_patch']

end V2

namespace V2
open Spec.Builder

/-! ## success: nothing fails while the buffer stays within a full-size header -/

theorem step_succeeds {b vc afp addr len bd} (h : Shape b vc afp addr len bd) (op : Op) (e : B)
    (he : encAll (opPayloads op) = some e)
    (hfit : 16 + (Spec.V2.addrBytes addr).length + bd.length + e.length ≤ writerLimit) :
    ∃ b', b.step op = some b' ∧ Shape b' vc afp addr (lenAfter len op) (bd ++ e) := by
  cases op with
  | reserve n =>
    simp only [opPayloads, encAll, Option.some.injEq] at he; subst he
    have hsome : ∃ b', b.step (.reserve n) = some b' := by
      cases hh : b.header <;> simp [Builder.step, hh]
    obtain ⟨b', hb'⟩ := hsome
    obtain ⟨e', he', hsh⟩ := step_shape h (.reserve n) b' hb'
    simp only [opPayloads, encAll, Option.some.injEq] at he'; subst he'
    exact ⟨b', hb', hsh⟩
  | setLength l =>
    simp only [opPayloads, encAll, Option.some.injEq] at he; subst he
    refine ⟨_, rfl, ?_⟩
    obtain ⟨e', he', hsh⟩ := step_shape h (.setLength l) _ rfl
    simp only [opPayloads, encAll, Option.some.injEq] at he'; subst he'
    exact hsh
  | writePayload p =>
    obtain ⟨b1, l0, hw, hsh, hh⟩ := writeHeader_shape h
    have hep : enc p = some e := by
      simp only [opPayloads, encAll] at he
      cases hp : enc p with
      | none => simp [hp] at he
      | some e1 => simp [hp] at he; subst he; rfl
    have hwr := writeTo_succeeds p (hdrOf vc afp addr l0 bd) e hep
      (by rw [hdrOf_length]; omega) (fun _ _ => by rw [hdrOf_length]; omega)
    refine ⟨{ b1 with header := some (hdrOf vc afp addr l0 bd ++ e) }, ?_, ?_⟩
    · simp only [Builder.step, hw, Builder.writeInternal, hh, Option.getD_some, hwr]
    · exact ⟨hsh.hvc, hsh.hafp, hsh.haddr, hsh.hlen, .inr ⟨l0, by simp [hdrOf_append]⟩⟩
  | writePayloads ps =>
    obtain ⟨b1, l0, hw, hsh, hh⟩ := writeHeader_shape h
    have hwr := writeMany_succeeds (hdrOf vc afp addr l0 bd) ps e (by simpa [opPayloads] using he)
      (by rw [hdrOf_length]; omega)
    refine ⟨{ b1 with header := some (hdrOf vc afp addr l0 bd ++ e) }, ?_, ?_⟩
    · simp only [Builder.step, hw, hh, Option.getD_some, hwr]
    · exact ⟨hsh.hvc, hsh.hafp, hsh.haddr, hsh.hlen, .inr ⟨l0, by simp [hdrOf_append]⟩⟩
  | writeTlv k v =>
    obtain ⟨b1, l0, hw, hsh, hh⟩ := writeHeader_shape h
    have hep : enc (.tlv k v) = some e := by
      simp only [opPayloads, encAll] at he
      cases hp : enc (.tlv k v) with
      | none => simp [hp] at he
      | some e1 => simp [hp] at he; subst he; rfl
    have hwr := writeTo_succeeds (.tlv k v) (hdrOf vc afp addr l0 bd) e hep
      (by rw [hdrOf_length]; omega) (fun _ _ => by rw [hdrOf_length]; omega)
    refine ⟨{ b1 with header := some (hdrOf vc afp addr l0 bd ++ e) }, ?_, ?_⟩
    · simp only [Builder.step, hw, Builder.writeInternal, hh, Option.getD_some, hwr]
    · exact ⟨hsh.hvc, hsh.hafp, hsh.haddr, hsh.hlen, .inr ⟨l0, by simp [hdrOf_append]⟩⟩

theorem runFrom_succeeds {b vc afp addr len bd} (h : Shape b vc afp addr len bd) (ops : List Op) (e : B)
    (he : encAll (ops.flatMap opPayloads) = some e)
    (hfit : 16 + (Spec.V2.addrBytes addr).length + bd.length + e.length ≤ writerLimit) :
    ∃ b', Builder.runFrom b ops = some b' ∧ Shape b' vc afp addr (lengthFrom len ops) (bd ++ e) := by
  induction ops generalizing b len bd e with
  | nil =>
    simp only [List.flatMap_nil, encAll, Option.some.injEq] at he; subst he
    exact ⟨b, rfl, by simpa [lengthFrom] using h⟩
  | cons op ops ih =>
    rw [List.flatMap_cons, encAll_append] at he
    cases h1 : encAll (opPayloads op) with
    | none => simp [h1] at he
    | some e1 =>
      cases h2 : encAll (ops.flatMap opPayloads) with
      | none => simp [h1, h2] at he
      | some e2 =>
        simp only [h1, h2, Option.some.injEq] at he; subst he
        simp only [List.length_append] at hfit
        obtain ⟨b1, hs1, hsh1⟩ := step_succeeds h op e1 h1 (by omega)
        obtain ⟨b2, hs2, hsh2⟩ := ih hsh1 e2 h2 (by simp only [List.length_append]; omega)
        refine ⟨b2, by simp only [Builder.runFrom, hs1, hs2], ?_⟩
        rw [lengthFrom_cons]
        simpa using hsh2

/-- The reference output in terms of `hdrOf`. -/
theorem reference_eq (vc afp : UInt8) (addr : Addresses) (ops : List Op) (e : B)
    (he : encAll (ops.flatMap opPayloads) = some e) :
    reference vc afp addr ops =
      some (hdrOf vc afp addr ((lengthInForce ops).getD ((Spec.V2.addrBytes addr).length + e.length)) e) := by
  have hb : Spec.Builder.body ops = some e := he
  simp [reference, hb, hdrOf, sig_eq_spec, Spec.V2.u16be, be16Bytes]

end V2

namespace V2
open Spec.Builder

/-! ## success depends only on the buffer length; bisimulation up to the captured length field -/

theorem guardOk_congr (w w2 : Writer) (cs : List B) (h : w.length = w2.length) :
    guardOk w cs ↔ guardOk w2 cs := by
  induction cs generalizing w w2 with
  | nil => simp [guardOk]
  | cons c cs ih =>
    simp only [guardOk, h]
    rw [ih (w ++ c) (w2 ++ c) (by simp [h])]

theorem writeTo_isOk_congr (p : Payload) (w w2 : Writer) (h : w.length = w2.length)
    (hok : ∃ r, p.writeTo w = .ok r) : ∃ r, p.writeTo w2 = .ok r := by
  obtain ⟨⟨n, w'⟩, hr⟩ := hok
  obtain ⟨cs, h1, h2, h3, -, -⟩ := (writeTo_ok_iff p w n w').mp hr
  exact ⟨_, (writeTo_ok_iff p w2 _ _).mpr
    ⟨cs, h1, (guardOk_congr w w2 cs h).mp h2, fun t ht => h ▸ h3 t ht, rfl, rfl⟩⟩

theorem writeMany_isSome_congr (ps : List Payload) (w w2 : Writer) (h : w.length = w2.length)
    (hok : ∃ r, writeMany w ps = some r) : ∃ r, writeMany w2 ps = some r := by
  induction ps generalizing w w2 with
  | nil => exact ⟨w2, rfl⟩
  | cons p ps ih =>
    obtain ⟨r, hr⟩ := hok
    simp only [writeMany] at hr ⊢
    cases hp : p.writeTo w with
    | error e => rw [hp] at hr; cases hr
    | ok r1 =>
      obtain ⟨n, w1⟩ := r1
      rw [hp] at hr
      obtain ⟨⟨n2, w2'⟩, hp2⟩ := writeTo_isOk_congr p w w2 h ⟨_, hp⟩
      rw [hp2]
      obtain ⟨e1, he1, rfl, -⟩ := writeTo_ok p w n w1 hp
      obtain ⟨e2, he2, rfl, -⟩ := writeTo_ok p w2 n2 w2' hp2
      rw [he1] at he2; cases he2
      exact ih (w ++ e1) (w2 ++ e1) (by simp [h]) ⟨r, hr⟩

/-- Two states of the same shape (they may differ in the captured length field,
in whether the fixed part has been written yet while nothing has been written
after it, and in the capacity hint). -/
def Sim (b b' : Builder) : Prop :=
  ∃ vc afp addr len bd, Shape b vc afp addr len bd ∧ Shape b' vc afp addr len bd

theorem step_isSome_congr {b b' vc afp addr len bd} (h : Shape b vc afp addr len bd)
    (h' : Shape b' vc afp addr len bd) (op : Op) (hok : ∃ r, b.step op = some r) :
    ∃ r, b'.step op = some r := by
  obtain ⟨r, hr⟩ := hok
  obtain ⟨b1, l0, hw, hsh, hh⟩ := writeHeader_shape h
  obtain ⟨b1', l0', hw', hsh', hh'⟩ := writeHeader_shape h'
  have hlen : (hdrOf vc afp addr l0 bd).length = (hdrOf vc afp addr l0' bd).length := by
    simp [hdrOf_length]
  cases op with
  | reserve n => cases hb : b'.header <;> simp [Builder.step, hb]
  | setLength l => exact ⟨_, rfl⟩
  | writePayload p =>
    simp only [Builder.step, hw, Builder.writeInternal, hh, Option.getD_some] at hr
    simp only [Builder.step, hw', Builder.writeInternal, hh', Option.getD_some]
    cases hp : p.writeTo (hdrOf vc afp addr l0 bd) with
    | error e => rw [hp] at hr; cases hr
    | ok r1 =>
      obtain ⟨r2, hp2⟩ := writeTo_isOk_congr p _ _ hlen ⟨_, hp⟩
      rw [hp2]; exact ⟨_, rfl⟩
  | writePayloads ps =>
    simp only [Builder.step, hw, hh, Option.getD_some] at hr
    simp only [Builder.step, hw', hh', Option.getD_some]
    cases hp : writeMany (hdrOf vc afp addr l0 bd) ps with
    | none => rw [hp] at hr; cases hr
    | some w1 =>
      obtain ⟨r2, hp2⟩ := writeMany_isSome_congr ps _ _ hlen ⟨_, hp⟩
      rw [hp2]; exact ⟨_, rfl⟩
  | writeTlv k v =>
    simp only [Builder.step, hw, Builder.writeInternal, hh, Option.getD_some] at hr
    simp only [Builder.step, hw', Builder.writeInternal, hh', Option.getD_some]
    cases hp : (Payload.tlv k v).writeTo (hdrOf vc afp addr l0 bd) with
    | error e => rw [hp] at hr; cases hr
    | ok r1 =>
      obtain ⟨r2, hp2⟩ := writeTo_isOk_congr (.tlv k v) _ _ hlen ⟨_, hp⟩
      rw [hp2]; exact ⟨_, rfl⟩

/-- Similar states stay similar, and fail together. -/
theorem step_sim {b b' : Builder} (h : Sim b b') (op : Op) :
    (b.step op = none ∧ b'.step op = none) ∨
    ∃ b1 b1', b.step op = some b1 ∧ b'.step op = some b1' ∧ Sim b1 b1' := by
  obtain ⟨vc, afp, addr, len, bd, hs, hs'⟩ := h
  cases hb : b.step op with
  | none =>
    left
    refine ⟨rfl, ?_⟩
    cases hb' : b'.step op with
    | none => rfl
    | some r =>
      obtain ⟨r2, hr2⟩ := step_isSome_congr hs' hs op ⟨r, hb'⟩
      rw [hb] at hr2; cases hr2
  | some b1 =>
    right
    obtain ⟨b1', hb'⟩ := step_isSome_congr hs hs' op ⟨b1, hb⟩
    obtain ⟨e, he, hsh⟩ := step_shape hs op b1 hb
    obtain ⟨e', he', hsh'⟩ := step_shape hs' op b1' hb'
    rw [he] at he'; cases he'
    exact ⟨b1, b1', rfl, hb', _, _, _, _, _, hsh, hsh'⟩

theorem build_sim {b b' : Builder} (h : Sim b b') : b.build = b'.build := by
  obtain ⟨vc, afp, addr, len, bd, hs, hs'⟩ := h
  rw [build_shape hs, build_shape hs']

theorem run_sim {b b' : Builder} (h : Sim b b') (ops : List Op) : b.run ops = b'.run ops := by
  induction ops generalizing b b' with
  | nil => simp only [Builder.run, Builder.runFrom]; exact build_sim h
  | cons op ops ih =>
    rcases step_sim h op with ⟨h1, h2⟩ | ⟨b1, b1', h1, h2, hsim⟩
    · simp [Builder.run, Builder.runFrom, h1, h2]
    · have := ih hsim
      simp only [Builder.run, Builder.runFrom, h1, h2] at this ⊢
      exact this

theorem run_cons (b : Builder) (op : Op) (ops : List Op) :
    b.run (op :: ops) = match b.step op with
      | none => none
      | some b1 => b1.run ops := by
  simp only [Builder.run, Builder.runFrom]
  cases b.step op <;> rfl

theorem run_append (b : Builder) (ops1 ops2 : List Op) :
    b.run (ops1 ++ ops2) = match Builder.runFrom b ops1 with
      | none => none
      | some b1 => b1.run ops2 := by
  induction ops1 generalizing b with
  | nil => rfl
  | cons op ops ih =>
    simp only [List.cons_append, run_cons, Builder.runFrom]
    cases b.step op with
    | none => rfl
    | some b1 => exact ih b1

theorem sim_refl_of_shape {b vc afp addr len bd} (h : Shape b vc afp addr len bd) : Sim b b :=
  ⟨_, _, _, _, _, h, h⟩

/-- A reservation leaves the state similar to itself. -/
theorem reserve_sim {b vc afp addr len bd} (h : Shape b vc afp addr len bd) (n : Nat) :
    ∃ b1, b.step (.reserve n) = some b1 ∧ Sim b b1 := by
  have hsome : ∃ b', b.step (.reserve n) = some b' := by
    cases hh : b.header <;> simp [Builder.step, hh]
  obtain ⟨b1, hb1⟩ := hsome
  obtain ⟨e, he, hsh⟩ := step_shape h (.reserve n) b1 hb1
  simp only [opPayloads, encAll, Option.some.injEq] at he; subst he
  exact ⟨b1, hb1, _, _, _, _, _, h, by simpa [lenAfter] using hsh⟩

/-- Every reachable state has a shape. -/
theorem sim_shape_left {b b' : Builder} (h : Sim b b') : ∃ vc afp addr len bd, Shape b vc afp addr len bd := by
  obtain ⟨vc, afp, addr, len, bd, hs, -⟩ := h; exact ⟨_, _, _, _, _, hs⟩

theorem sim_symm {b b' : Builder} (h : Sim b b') : Sim b' b := by
  obtain ⟨vc, afp, addr, len, bd, hs, hs'⟩ := h; exact ⟨_, _, _, _, _, hs', hs⟩

end V2

namespace V2
open Spec.Builder

theorem afpByte_eq_spec (f : Family) (t : Transport) : afpByte f t = Spec.V2.familyTransport f t := by
  cases f <;> cases t <;> decide

theorem vc_eq_spec (c : Command) : vcByte .two c = Spec.V2.versionCommand c := by cases c <;> decide

/-- A successful run, in closed form. -/
theorem run_some {b : Builder} {vc afp : UInt8} {addr : Addresses} (h : Shape b vc afp addr none [])
    (ops : List Op) (out : B) (hr : b.run ops = some out) :
    ∃ e, encAll (ops.flatMap opPayloads) = some e ∧
      buildOf vc afp addr (lengthInForce ops) e = some out := by
  simp only [Builder.run] at hr
  cases hrf : Builder.runFrom b ops with
  | none => rw [hrf] at hr; cases hr
  | some b' =>
    rw [hrf] at hr
    simp only at hr
    obtain ⟨e, he, hsh⟩ := runFrom_shape h ops b' hrf
    rw [build_shape hsh] at hr
    exact ⟨e, he, by simpa [lengthInForce] using hr⟩

/-- A run whose payload fits in a full-size header succeeds, in closed form. -/
theorem run_succeeds {b : Builder} {vc afp : UInt8} {addr : Addresses} (h : Shape b vc afp addr none [])
    (ops : List Op) (e : B) (he : encAll (ops.flatMap opPayloads) = some e)
    (hfit : (Spec.V2.addrBytes addr).length + e.length ≤ 65535) :
    b.run ops = buildOf vc afp addr (lengthInForce ops) e := by
  obtain ⟨b', hrf, hsh⟩ := runFrom_succeeds h ops e he (by simp [writerLimit, minLen]; omega)
  simp only [Builder.run, hrf]
  rw [build_shape hsh]
  simp [lengthInForce]

theorem encAll_some_all {ps : List Payload} {e : B} (h : encAll ps = some e) :
    ∀ p ∈ ps, ∃ ep, enc p = some ep := by
  induction ps generalizing e with
  | nil => intro p hp; cases hp
  | cons q qs ih =>
    simp only [encAll] at h
    cases hq : enc q with
    | none => simp [hq] at h
    | some eq =>
      cases hqs : encAll qs with
      | none => simp [hq, hqs] at h
      | some eqs =>
        intro p hp
        rcases List.mem_cons.mp hp with rfl | hp
        · exact ⟨eq, hq⟩
        · exact ih hqs p hp

end V2


namespace V2

/-- `build` never indexes out of range: every reachable state has written (or is about to
write) the 16-byte fixed part. -/
theorem buildP_eq {b vc afp addr len bd} (h : Shape b vc afp addr len bd) : b.buildP = .val b.build := by
  obtain ⟨b1, l0, hw, -, hh⟩ := writeHeader_shape h
  simp only [Builder.buildP, hw, hh, Option.getD_some, hdrOf_length, minLen]
  rw [if_neg (by omega)]

/-- … in particular after any call history from either constructor. -/
theorem buildP_reachable (b0 : Builder) (hb : (∃ vc afp, b0 = Builder.new vc afp) ∨ (∃ vc t a, b0 = Builder.withAddresses vc t a))
    (ops : List Op) (b : Builder) (hr : Builder.runFrom b0 ops = some b) : b.buildP = .val b.build := by
  rcases hb with ⟨vc, afp, rfl⟩ | ⟨vc, t, a, rfl⟩
  · obtain ⟨e, -, hsh⟩ := runFrom_shape (shape_new vc afp) ops b hr
    exact buildP_eq hsh
  · obtain ⟨e, -, hsh⟩ := runFrom_shape (shape_withAddresses vc t a) ops b hr
    exact buildP_eq hsh

end V2
