import PppModel.Lemmas.V1Blame
import PppModel.Lemmas.V1Text
import PppModel.Lemmas.Ipv6Grammar
import PppModel.Lemmas.AutoDetect

/-!
# Helper lemmas for the additional C12 theorems

* what the text parser does with an input that passed the v2 signature gate, or with a
  well-formed v2 header one of whose signature bytes was replaced;
* G2 (protocol) for lines with any number of fields;
* no text is an address of both families;
* the payload of the port errors (`parsePort`), row by row;
* the address / port hypotheses of G3–G6 restated with the grammar of `Spec/V1.lean`;
* the 107 byte limit at the text entry point.
-/

/-! ## The text parser on (corrupted) binary headers -/

namespace V1.Blame
open V1

/-- An input that starts with CR and one more byte is frozen. -/
theorem frozen_cr_cons (b : UInt8) (t : B) : frozen (CR :: b :: t) :=
  .inl ⟨0, by simp [firstCR], by simp⟩

/-- On an input that starts with `CR LF` the text parser sees the window `CR LF`, whose first
field is empty: `InvalidPrefix`. -/
theorem parseBytes_crlf (t : B) : parseBytes (CR :: LF :: t) = .error (.parse .invalidPrefix) := by
  have hw : windowLength (CR :: LF :: t) = some 2 :=
    windowLength_frozen_cr (c := 0) (by simp [firstCR]) (by simp)
  have ht : (CR :: LF :: t).take 2 = [CR, LF] := rfl
  simp only [parseBytes, hw, ht]
  decide

/-- An input that passes the v2 signature gate starts with `CR LF`. -/
theorem gate_ok_shape {x : B} (hg : V2.gate x = .ok ()) : ∃ t, x = CR :: LF :: t := by
  obtain ⟨h12, hl⟩ := (V2.gate_ok_iff x).mp hg
  rcases x with _ | ⟨a, _ | ⟨b, t⟩⟩
  · simp at hl
  · simp at hl
  · simp only [V2.sig, List.take_succ_cons, List.cons.injEq] at h12
    exact ⟨t, by rw [h12.1, h12.2.1]; rfl⟩

/-- The text parser on an input that passes the v2 signature gate: `InvalidPrefix`. -/
theorem parseBytes_of_gate_ok {x : B} (hg : V2.gate x = .ok ()) :
    parseBytes x = .error (.parse .invalidPrefix) := by
  obtain ⟨t, rfl⟩ := gate_ok_shape hg
  exact parseBytes_crlf t

/-- A well-formed v2 header followed by anything starts with `CR LF CR LF`. -/
theorem encode_shape (cmd : V2.Command) (tr : V2.Transport) (addr : V2.Addresses) (rest trail : B) :
    ∃ t, Spec.V2.encode cmd tr addr rest ++ trail = CR :: LF :: CR :: LF :: t :=
  ⟨_, by simp only [Spec.V2.encode, Spec.V2.signature, List.cons_append, List.append_assoc]; rfl⟩

/-- The text parser accepts nothing that starts with CR. -/
theorem parseBytes_not_ok_cr (t : B) (h : Header) : parseBytes (CR :: t) ≠ .ok h := by
  intro hp
  have := V1.AutoDetect.parseBytes_ok_take6 hp
  rw [List.take_succ_cons] at this
  exact absurd (List.cons.inj this).1 (by decide)

/-- The text parser accepts nothing whose second byte is LF. -/
theorem parseBytes_not_ok_lf (a : UInt8) (t : B) (h : Header) : parseBytes (a :: LF :: t) ≠ .ok h := by
  intro hp
  have := V1.AutoDetect.parseBytes_ok_take6 hp
  rw [List.take_succ_cons, List.take_succ_cons] at this
  exact absurd (List.cons.inj (List.cons.inj this).2).1 (by decide)

/-- A well-formed v2 header with one byte replaced by a byte that is not the signature byte of
that position (in particular: any signature byte changed): a CR of the signature that survives
is followed by a byte, so the text parser's verdict is final, and the text parser does not
accept. -/
theorem set_signature_text (cmd : V2.Command) (tr : V2.Transport) (addr : V2.Addresses) (rest trail : B)
    (i : Nat) (v : UInt8) (hv : v ≠ byteAt Spec.V2.signature i) :
    frozen ((Spec.V2.encode cmd tr addr rest ++ trail).set i v) ∧
    ∀ h, parseBytes ((Spec.V2.encode cmd tr addr rest ++ trail).set i v) ≠ .ok h := by
  obtain ⟨t, ht⟩ := encode_shape cmd tr addr rest trail
  rw [ht]
  cases i with
  | zero =>
    have hv' : ¬ v = 13 := hv
    refine ⟨.inl ⟨2, by simp [firstCR, hv', CR, LF], by simp⟩, fun h => ?_⟩
    exact parseBytes_not_ok_lf v _ h
  | succ k =>
    rw [List.set_cons_succ]
    refine ⟨?_, fun h => parseBytes_not_ok_cr _ h⟩
    cases k with
    | zero => exact frozen_cr_cons _ _
    | succ j => exact frozen_cr_cons _ _

theorem valid_sig0 : ∀ v : UInt8, Utf8.valid [v, 0x0A, 0x0D, 0x0A] = decide (v < 0x80) := by
  apply forall_uint8; decide +kernel
theorem parseHeader_sig0 : ∀ v : UInt8, v ≠ 0x0D → v < 0x80 →
    parseHeader [v, 0x0A, 0x0D, 0x0A] = .error .invalidPrefix := by
  apply forall_uint8; decide +kernel
theorem valid_sig1 : ∀ v : UInt8, Utf8.valid [0x0D, v] = decide (v < 0x80) := by
  apply forall_uint8; decide +kernel
theorem parseHeader_sig1 : ∀ v : UInt8, parseHeader [0x0D, v] = .error .invalidPrefix := by
  apply forall_uint8; decide +kernel

/-- What the text parser answers on a well-formed v2 header with one signature byte replaced:
`InvalidUtf8` if one of the first two bytes was replaced by a byte ≥ 0x80 (it is then inside the
window `… CR x`), `InvalidPrefix` otherwise. -/
theorem parseBytes_set_signature (cmd : V2.Command) (tr : V2.Transport) (addr : V2.Addresses)
    (rest trail : B) (i : Nat) (v : UInt8) (hv : v ≠ byteAt Spec.V2.signature i) :
    parseBytes ((Spec.V2.encode cmd tr addr rest ++ trail).set i v) =
      if i < 2 ∧ 0x80 ≤ v then .error .invalidUtf8 else .error (.parse .invalidPrefix) := by
  obtain ⟨t, ht⟩ := encode_shape cmd tr addr rest trail
  rw [ht]
  match i with
  | 0 =>
    have hv' : ¬ v = 13 := hv
    have hw : windowLength (v :: LF :: CR :: LF :: t) = some 4 :=
      windowLength_frozen_cr (c := 2) (by simp [firstCR, hv', CR, LF]) (by simp)
    have htk : (v :: LF :: CR :: LF :: t).take 4 = [v, 0x0A, 0x0D, 0x0A] := rfl
    simp only [List.set_cons_zero, parseBytes, hw, htk, valid_sig0]
    by_cases h80 : v < 0x80
    · have : ¬ (0x80 ≤ v) := UInt8.not_le.mpr h80
      simp [h80, this, parseHeader_sig0 v hv h80]
    · have : 0x80 ≤ v := UInt8.not_lt.mp h80
      simp [h80, this]
  | 1 =>
    have hw : windowLength (CR :: v :: CR :: LF :: t) = some 2 :=
      windowLength_frozen_cr (c := 0) (by simp [firstCR]) (by simp)
    have htk : (CR :: v :: CR :: LF :: t).take 2 = [0x0D, v] := rfl
    simp only [List.set_cons_succ, List.set_cons_zero, parseBytes, hw, htk, valid_sig1, parseHeader_sig1]
    by_cases h80 : v < 0x80
    · have : ¬ (0x80 ≤ v) := UInt8.not_le.mpr h80
      simp [h80, this]
    · have : 0x80 ≤ v := UInt8.not_lt.mp h80
      simp [h80, this]
  | k + 2 =>
    rw [List.set_cons_succ, List.set_cons_succ, if_neg (by omega)]
    exact parseBytes_crlf _

/-! ## G2 for lines with any number of fields -/

theorem crFree_proto_body {proto tail : B} (hproto : sepFree proto) (htail : crFree tail) :
    crFree (PROXY ++ [SP] ++ proto ++ tail) :=
  crFree_append (crFree_app_sp sepFree_PROXY.crFree hproto) htail

/-- **G2 (protocol), lines of any number of fields**: `PROXY␠<proto>` followed by nothing or by
a space and arbitrary CR-free text, then CR and one more byte. -/
theorem G2_protocol_short {proto tail : B} {c : UInt8} (hproto : sepFree proto)
    (hcr : crFree tail) (htail : tail = [] ∨ tail.head? = some SP)
    (h4 : proto ≠ TCP4) (h6 : proto ≠ TCP6) (hu : proto ≠ UNKNOWN)
    (hlen : (PROXY ++ [SP] ++ proto ++ tail ++ [CR, c]).length ≤ 107) :
    parseHeader (PROXY ++ [SP] ++ proto ++ tail ++ [CR, c]) = .error .invalidProtocol := by
  obtain ⟨s, r, hs, hsr⟩ := unknown_tail_sep c htail
  have e : PROXY ++ [SP] ++ proto ++ tail ++ [CR, c] = PROXY ++ SP :: (proto ++ s :: r) := by
    rw [← hsr]; simp
  have hw : Window (PROXY ++ [SP] ++ proto ++ tail ++ [CR, c]) proto (splitN 5 r) := {
    split := by
      rw [e]
      have h1 : splitN PARTS (PROXY ++ SP :: (proto ++ s :: r)) = PROXY :: splitN 6 (proto ++ s :: r) :=
        splitN_append 5 sepFree_PROXY isSep_SP
      have h2 : splitN 6 (proto ++ s :: r) = proto :: splitN 5 r := splitN_append 4 hproto hs
      rw [h1, h2]
    len := hlen
    long := by simp only [List.length_append, List.length_cons, List.length_nil]; omega }
  exact parseHeader_bad_protocol hw (terminated_window (crFree_proto_body hproto hcr))
    (splitN_ne_nil 4 r) h4 h6 hu

/-- **G11 for G2, lines of any number of fields.** -/
theorem G2_protocol_short_entry {proto tail : B} {c : UInt8} (hproto : sepFree proto)
    (hcr : crFree tail) (htail : tail = [] ∨ tail.head? = some SP)
    (h4 : proto ≠ TCP4) (h6 : proto ≠ TCP6) (hu : proto ≠ UNKNOWN)
    (hlen : (PROXY ++ [SP] ++ proto ++ tail ++ [CR, c]).length ≤ 107) :
    Blamed (PROXY ++ [SP] ++ proto ++ tail ++ [CR, c]) .invalidProtocol :=
  Blamed.of_line (crFree_proto_body hproto hcr) (G2_protocol_short hproto hcr htail h4 h6 hu hlen) rfl

/-! ## The 107 byte limit at the text entry point -/

/-- The window never extends beyond the input. -/
theorem windowLength_le {x : B} {n : Nat} (h : windowLength x = some n) : n ≤ x.length := by
  unfold windowLength at h
  split at h
  · simp only [Option.some.injEq] at h; omega
  · split at h
    · cases h
    · simp only [Option.some.injEq] at h; omega

/-- **G8, text entry point.** A window of more than 107 bytes that ends on a character
boundary: `HeaderTooLong`. -/
theorem G8_parseStr_too_long {x : B} {n : Nat} (h : windowLength x = some n) (hn : 107 < n)
    (hb : Utf8.isCharBoundary x n = true) : parseStr x = .error .headerTooLong := by
  have hx := windowLength_le h
  have hlen : (x.take n).length = n := by simp [hx]
  have hne : x.take n ≠ [] := by intro e; rw [e] at hlen; simp at hlen; omega
  simp only [parseStr, h, hb, Bool.not_true, Bool.false_eq_true, if_false,
    G8_parseHeader_too_long hne (by omega : 107 < (x.take n).length)]

/-- **Text entry point, window not ending on a character boundary**: `InvalidSuffix`
(whatever the length of the window). -/
theorem parseStr_not_boundary {x : B} {n : Nat} (h : windowLength x = some n)
    (hb : Utf8.isCharBoundary x n = false) : parseStr x = .error .invalidSuffix := by
  simp only [parseStr, h, hb, Bool.not_false, if_true]

end V1.Blame

/-! ## No text is an address of both families -/

namespace StdNet
open Spec.V1

theorem groups_colon {s : B} {gs : List Nat} (h : Groups s gs) (hl : 2 ≤ gs.length) : COLON ∈ s := by
  cases h with
  | one s g _ => simp at hl
  | cons s g rest gs _ _ => simp

/-- Every RFC 4291 text form contains a colon. -/
theorem ipv6Pieces_colon {s : B} {gs : List Nat} (h : Ipv6Pieces s gs) : COLON ∈ s := by
  cases h with
  | full s gs ht h8 =>
    cases ht with
    | empty => simp at h8
    | groups s gs hg => exact groups_colon hg (by omega)
    | v4 s a _ => simp [v4Groups] at h8
    | groupsV4 s gs t a _ _ => simp
  | compressed h hs t ts _ _ _ => simp

/-- A dotted quad contains no colon. -/
theorem displayIpv4_no_colon (a : Ip4) : COLON ∉ displayIpv4 a := by
  intro h
  rcases displayIpv4_charset a _ h with h | h
  · exact absurd h (by decide)
  · exact absurd h (by decide)

/-- No text is accepted by both `Ipv4Addr::from_str` and `Ipv6Addr::from_str`. -/
theorem not_both_families {s : B} {a : Ip4} {b : Ip6} (h4 : parseIpv4 s = some a)
    (h6 : parseIpv6 s = some b) : False := by
  rw [parseIpv4_iff] at h4
  obtain ⟨gs, hp, -⟩ := (parseIpv6_iff_text s b).mp h6
  subst h4
  exact displayIpv4_no_colon a (ipv6Pieces_colon hp)

end StdNet

/-! ## The payload of the port errors -/

namespace StdInt

/-- Digits only, value beyond `u16::MAX`: `PosOverflow` — whatever follows the digits. -/
theorem parseDigits_overflow {ds : B} (hds : ∀ c ∈ ds, IsDig c) (r : B) {acc : Nat} (hacc : acc ≤ 65535)
    (hgt : 65535 < valAcc acc ds) : parseDigits (ds ++ r) acc = .error .posOverflow := by
  induction ds generalizing acc with
  | nil => simp at hgt; omega
  | cons c cs ih =>
    have hc : IsDig c := hds c (List.mem_cons_self ..)
    rw [valAcc_cons] at hgt
    simp only [List.cons_append, parseDigits, decDigit_of_isDig hc]
    split
    · rfl
    · exact ih (fun x hx => hds x (List.mem_cons_of_mem _ hx)) (by omega) hgt

/-- Digits of a value within range followed by a byte that is not a digit: `InvalidDigit`. -/
theorem parseDigits_invalid {ds : B} (hds : ∀ c ∈ ds, IsDig c) {c : UInt8} (hc : ¬ IsDig c) (r : B)
    {acc : Nat} (hle : valAcc acc ds ≤ 65535) :
    parseDigits (ds ++ c :: r) acc = .error .invalidDigit := by
  induction ds generalizing acc with
  | nil => simp only [List.nil_append, parseDigits, decDigit_of_not_isDig hc]
  | cons d cs ih =>
    have hd : IsDig d := hds d (List.mem_cons_self ..)
    rw [valAcc_cons] at hle
    have := le_valAcc (acc * 10 + (d.toNat - 48)) cs
    simp only [List.cons_append, parseDigits, decDigit_of_isDig hd]
    rw [if_neg (by omega)]
    exact ih (fun x hx => hds x (List.mem_cons_of_mem _ hx)) hle

end StdInt

namespace V1

/-- The first two checks of the port parser pass on text that starts with a digit and has no
leading zero (unless it is `0`): an error of the digit loop is reported as it is. -/
theorem parsePort_of_head_isDig {c : UInt8} (hc : IsDig c) (rest : B)
    (hz : c = 0x30 → rest = []) {k : StdInt.IntErrorKind}
    (hk : StdInt.parseDigits (c :: rest) 0 = .error k) :
    parsePort (c :: rest) = .error (some k) := by
  have hcn := hc.toNat
  have h1 : (c == 0x2B) = false := by
    apply beq_false_of_ne; intro h; rw [h] at hcn; revert hcn; decide
  have hcond : ((c :: rest).head? == some 0x2B ||
      ((c :: rest).head? == some 0x30 && decide (c :: rest ≠ [0x30]))) = false := by
    simp only [List.head?_cons, Option.some_beq_some, h1, Bool.false_or]
    by_cases h0 : c = 0x30
    · simp [h0, hz h0]
    · simp [h0]
  unfold parsePort
  rw [if_neg (by rw [hcond]; simp), StdInt.parseU16_of_head_isDig hc, hk]

/-- The empty port text: `Some(Empty)`. -/
theorem parsePort_nil : parsePort [] = .error (some .empty) := by decide

/-- A leading `+`: rejected before `u16::from_str` (`None`). -/
theorem parsePort_plus (s : B) : parsePort (0x2B :: s) = .error none := by
  simp [parsePort]

/-- A leading zero followed by anything: `None`. -/
theorem parsePort_leading_zero {s : B} (hs : s ≠ []) : parsePort (0x30 :: s) = .error none := by
  simp [parsePort, hs]

/-- A first byte that is neither a digit nor `+` (e.g. `-`): `Some(InvalidDigit)`. -/
theorem parsePort_head_invalid {c : UInt8} (hc : ¬ IsDig c) (hp : c ≠ 0x2B) (s : B) :
    parsePort (c :: s) = .error (some .invalidDigit) := by
  have h0 : c ≠ 0x30 := by intro h; exact hc (by rw [h]; decide)
  have h : StdInt.parseU16 (c :: s) = .error .invalidDigit := by
    cases s with
    | nil =>
      simp only [StdInt.parseU16, StdInt.parseDigits, StdInt.decDigit_of_not_isDig hc]
      split <;> rfl
    | cons d r =>
      simp [StdInt.parseU16, StdInt.parseDigits, StdInt.decDigit_of_not_isDig hc, hp]
  simp [parsePort, h, hp, h0]

/-- A leading `-`: `Some(InvalidDigit)`. -/
theorem parsePort_minus (s : B) : parsePort (0x2D :: s) = .error (some .invalidDigit) :=
  parsePort_head_invalid (by decide) (by decide) s

/-- Plain decimal beyond 65535: `Some(PosOverflow)`. -/
theorem parsePort_overflow {s : B} {n : Nat} (hd : Spec.V1.Decimal s n) (hn : 65535 < n) :
    parsePort s = .error (some .posOverflow) := by
  obtain ⟨⟨hne, hdig, hz⟩, hval⟩ := (decimal_iff_canon s n).mp hd
  cases s with
  | nil => exact absurd rfl hne
  | cons c rest =>
    have hc : IsDig c := hdig c (List.mem_cons_self ..)
    have := StdInt.parseDigits_overflow hdig [] (acc := 0) (by omega) (by rw [hval]; exact hn)
    rw [List.append_nil] at this
    exact parsePort_of_head_isDig hc rest (fun h0 => (List.cons.inj (hz (by simp [h0]))).2) this

/-- Plain decimal beyond 65535 followed by anything (`99999x`): the overflow is reported,
`Some(PosOverflow)`. -/
theorem parsePort_overflow_first {s : B} {n : Nat} (hd : Spec.V1.Decimal s n) (hn : 65535 < n) (r : B) :
    parsePort (s ++ r) = .error (some .posOverflow) := by
  obtain ⟨⟨hne, hdig, hz⟩, hval⟩ := (decimal_iff_canon s n).mp hd
  cases s with
  | nil => exact absurd rfl hne
  | cons c rest =>
    have hc : IsDig c := hdig c (List.mem_cons_self ..)
    have hz' : c = 0x30 → rest ++ r = [] := by
      intro h0
      have h := hz (by simp [h0])
      simp only [List.cons.injEq] at h
      rw [h.2] at hval
      rw [h0] at hval
      simp at hval
      omega
    exact parsePort_of_head_isDig hc (rest ++ r) hz'
      (StdInt.parseDigits_overflow hdig r (by omega) (by rw [hval]; exact hn))

/-- Plain decimal within range followed by a byte that is not a digit (`6553x`, `80 `):
`Some(InvalidDigit)`. -/
theorem parsePort_digit_first {s : B} {n : Nat} (hd : Spec.V1.Decimal s n) (hn : n ≤ 65535)
    (h0 : n ≠ 0) {c : UInt8} (hc : ¬ IsDig c) (r : B) :
    parsePort (s ++ c :: r) = .error (some .invalidDigit) := by
  obtain ⟨⟨hne, hdig, hz⟩, hval⟩ := (decimal_iff_canon s n).mp hd
  cases s with
  | nil => exact absurd rfl hne
  | cons d rest =>
    have hd' : IsDig d := hdig d (List.mem_cons_self ..)
    have hz' : d = 0x30 → rest ++ c :: r = [] := by
      intro h
      have h' := hz (by simp [h])
      simp only [List.cons.injEq] at h'
      rw [h'.2, h] at hval
      simp at hval
      omega
    exact parsePort_of_head_isDig hd' (rest ++ c :: r) hz'
      (StdInt.parseDigits_invalid hdig hc r (by rw [hval]; exact hn))

/-! ## The hypotheses of G3–G6, from the grammar of `Spec/V1.lean` -/

theorem parseIpv4_none_of_spec {s : B} (h : ∀ a, ¬ Spec.V1.Ipv4Text s a) : StdNet.parseIpv4 s = none := by
  cases hp : StdNet.parseIpv4 s with
  | none => rfl
  | some a => exact absurd ((ipv4Text_iff s a).mpr hp) (h a)

theorem parseIpv6_none_of_spec {s : B} (h : ∀ a, ¬ Spec.V1.Ipv6Text s a) : StdNet.parseIpv6 s = none := by
  cases hp : StdNet.parseIpv6 s with
  | none => rfl
  | some a => exact absurd ((StdNet.parseIpv6_iff_text s a).mp hp) (h a)

theorem parsePort_error_of_spec {s : B} (h : ∀ p, ¬ Spec.V1.PortText s p) : ∃ k, parsePort s = .error k := by
  cases hp : parsePort s with
  | error k => exact ⟨k, rfl⟩
  | ok p => exact absurd ((portText_iff s p).mpr hp) (h p)

/-- The converses: a text the model's field parser refuses is outside the grammar. -/
theorem not_ipv4Text_of_none {s : B} (h : StdNet.parseIpv4 s = none) (a : Ip4) : ¬ Spec.V1.Ipv4Text s a := by
  intro ht; rw [(ipv4Text_iff s a).mp ht] at h; cases h

theorem not_ipv6Text_of_none {s : B} (h : StdNet.parseIpv6 s = none) (a : Ip6) : ¬ Spec.V1.Ipv6Text s a := by
  intro ht; rw [(StdNet.parseIpv6_iff_text s a).mpr ht] at h; cases h

theorem not_portText_of_error {s : B} {k} (h : parsePort s = .error k) (p : UInt16) :
    ¬ Spec.V1.PortText s p := by
  intro ht; rw [(portText_iff s p).mp ht] at h; cases h

/-- An RFC 4291 text form contains neither a space nor a CR. -/
theorem ipv6Text_sepFree {s : B} {a : Ip6} (h : Spec.V1.Ipv6Text s a) : sepFree s := by
  intro c hc
  have := StdNet.parseIpv6_sepFree s a ((StdNet.parseIpv6_iff_text s a).mpr h) c hc
  have h1 : c ≠ SP := this.1
  have h2 : c ≠ CR := this.2
  simp [isSep, h1, h2]

end V1
