import PppModel.Lemmas.V1Term
import PppModel.Lemmas.V1NoPanic

/-!
# Windows of more than 107 bytes (helper lemmas for C18)

The window handed to `parse_header` is longer than 107 bytes exactly when the first CR sits at
index 106 or later and is followed by a byte; `parse_header` then answers `HeaderTooLong`
(unless the entry point rejected the window before: `InvalidUtf8` / `InvalidSuffix`).
-/

namespace V1

/-- If `x` has no CR, the first CR of `x ++ t` (if any) lies in `t`. -/
theorem firstCR_append_ge {x t : B} {i : Nat} (h : firstCR x = none) (hi : firstCR (x ++ t) = some i) :
    x.length ≤ i := by
  obtain ⟨a, r, hxt, ha, rfl⟩ := firstCR_some hi
  rcases Nat.lt_or_ge a.length x.length with hlt | hge
  · exfalso
    have hx : byteAt (x ++ t) a.length = CR := by
      rw [hxt, byteAt_append_right (Nat.le_refl _)]; simp
    rw [byteAt_append_left hlt] at hx
    have hmem : byteAt x a.length ∈ x := by
      simp only [byteAt, List.getElem?_eq_getElem hlt, Option.getD_some]
      exact List.getElem_mem _
    exact (firstCR_none_iff x).mp h _ hmem hx
  · exact hge

/-- `parse_header` on more than 107 bytes. -/
theorem parseHeader_long {w : B} (h : 107 < w.length) : parseHeader w = .error .headerTooLong := by
  have hlen : w.length > MAX_LENGTH := h
  have hne : w.isEmpty = false := by
    cases w with
    | nil => simp at h
    | cons _ _ => rfl
  simp only [parseHeader, hne, Bool.false_eq_true, if_false, hlen, if_true]

/-- A window of more than 107 bytes: `TryFrom<&[u8]>` answers `HeaderTooLong`, or
`InvalidUtf8` when the window is not text. -/
theorem parseBytes_window_long {x : B} {n : Nat} (hw : windowLength x = some n) (hn : 107 < n) :
    parseBytes x = .error (.parse .headerTooLong) ∨ parseBytes x = .error .invalidUtf8 := by
  have hle := windowLength_le hw
  have hp : parseHeader (x.take n) = .error .headerTooLong :=
    parseHeader_long (by simp only [List.length_take]; omega)
  simp only [parseBytes, hw, hp]
  split
  · exact Or.inr rfl
  · exact Or.inl rfl

/-- A window of more than 107 bytes: `TryFrom<&str>` answers `HeaderTooLong`, or
`InvalidSuffix` when the window would cut a character. -/
theorem parseStr_window_long {x : B} {n : Nat} (hw : windowLength x = some n) (hn : 107 < n) :
    parseStr x = .error .headerTooLong ∨ parseStr x = .error .invalidSuffix := by
  have hle := windowLength_le hw
  have hp : parseHeader (x.take n) = .error .headerTooLong :=
    parseHeader_long (by simp only [List.length_take]; omega)
  simp only [parseStr, hw, hp]
  split
  · exact Or.inr rfl
  · exact Or.inl rfl

/-- The window of an input whose first CR is its last byte is the whole input. -/
theorem windowLength_cr_last {x : B} {c : Nat} (h : firstCR x = some c) (hc : ¬ c + 1 < x.length) :
    windowLength x = some x.length := by
  simp only [windowLength, h, CRLF, List.length_cons, List.length_nil]
  congr 1; omega

/-- The window of `x ++ t` when `x` is CR-free and has at least 107 bytes: none, or longer than 107. -/
theorem windowLength_append_long {x t : B} (h : firstCR x = none) (hl : 107 ≤ x.length) :
    windowLength (x ++ t) = none ∨ ∃ n, windowLength (x ++ t) = some n ∧ 107 < n := by
  cases hcr : firstCR (x ++ t) with
  | none => exact Or.inl (windowLength_long hcr (by simp; omega))
  | some i =>
    right
    have h1 := firstCR_append_ge h hcr
    have h2 := firstCR_lt hcr
    refine ⟨min (i + CRLF.length) (x ++ t).length, by simp only [windowLength, hcr], ?_⟩
    simp only [CRLF, List.length_cons, List.length_nil]
    omega

/-- An input whose first CR sits at index 106 or later and is followed by a byte (bytes). -/
theorem parseBytes_cr_late {x : B} {c : Nat} (h : firstCR x = some c) (hc : 106 ≤ c) (hl : c + 1 < x.length) :
    parseBytes x = .error (.parse .headerTooLong) ∨ parseBytes x = .error .invalidUtf8 :=
  parseBytes_window_long (windowLength_frozen_cr h hl) (by omega)

/-- An input whose first CR sits at index 106 or later and is followed by a byte (text). -/
theorem parseStr_cr_late {x : B} {c : Nat} (h : firstCR x = some c) (hc : 106 ≤ c) (hl : c + 1 < x.length) :
    parseStr x = .error .headerTooLong ∨ parseStr x = .error .invalidSuffix :=
  parseStr_window_long (windowLength_frozen_cr h hl) (by omega)

end V1
