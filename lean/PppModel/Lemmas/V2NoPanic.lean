import PppModel.V2.Parse
import PppModel.V2.Tlv
import PppModel.Lemmas.Bytes
import PppModel.Lemmas.V2
import PppModel.Props.C11
import PppModel.Props.C14

/-!
# The v2 panic-aware layer never panics

Every `…P` function of the v2 model (`parseP`, `parseAddressesP` on its only
call path, the four header accessors, `Iter.nextP`) returns `.val` of the
corresponding pure function: every index / slice / `copy_from_slice` /
`usize` subtraction is preceded by a sufficient length check.
-/

/-! ## Evaluation lemmas for the `Outcome` monad and the panicking primitives -/

@[simp] theorem Outcome.val_bind {α β} (a : α) (f : α → Outcome β) :
    (Outcome.val a >>= f) = f a := rfl

@[simp] theorem Outcome.panic_bind {α β} (f : α → Outcome β) :
    ((Outcome.panic : Outcome α) >>= f) = .panic := rfl

@[simp] theorem Outcome.pure_eq_val {α} (a : α) : (pure a : Outcome α) = .val a := rfl

theorem idxP_of_lt {x : B} {i : Nat} (h : i < x.length) : idxP x i = .val (byteAt x i) := by
  simp [idxP, h]

theorem sliceToP_of_le {x : B} {b : Nat} (h : b ≤ x.length) : sliceToP x b = .val (x.take b) := by
  simp [sliceToP, h]

theorem sliceFromP_of_le {x : B} {a : Nat} (h : a ≤ x.length) :
    sliceFromP x a = .val (x.drop a) := by
  simp [sliceFromP, h]

theorem sliceP_of_le {x : B} {a b : Nat} (hab : a ≤ b) (hb : b ≤ x.length) :
    sliceP x a b = .val ((x.take b).drop a) := by
  simp [sliceP, hab, hb]

theorem subP_of_le {a b : Nat} (h : b ≤ a) : subP a b = .val (a - b) := by
  simp [subP, h]

theorem FixB.ofListP_of_length {n : Nat} {bs : B} (h : bs.length = n) :
    FixB.ofListP n bs = .val (FixB.ofList n bs) := by
  simp [FixB.ofListP, h]

namespace V2

/-! ## N1: address decoding -/

/-- **N1.** On a slice of exactly the family's size (the only call path),
`parse_addresses` does not panic and agrees with the pure model. -/
theorem parseAddressesP_eq (f : Family) (bytes : B) (h : bytes.length = f.size) :
    parseAddressesP f bytes = .val (parseAddresses f bytes) := by
  cases f
  · rfl
  · have h' : bytes.length = 12 := h
    simp only [parseAddressesP, parseAddresses]
    rw [idxP_of_lt (by omega), idxP_of_lt (by omega), idxP_of_lt (by omega),
      idxP_of_lt (by omega), idxP_of_lt (by omega), idxP_of_lt (by omega),
      idxP_of_lt (by omega), idxP_of_lt (by omega), idxP_of_lt (by omega),
      idxP_of_lt (by omega), idxP_of_lt (by omega), idxP_of_lt (by omega)]
    rfl
  · have h' : bytes.length = 36 := h
    simp only [parseAddressesP, parseAddresses]
    rw [sliceToP_of_le (by omega), sliceP_of_le (by omega) (by omega),
      idxP_of_lt (by omega), idxP_of_lt (by omega), idxP_of_lt (by omega),
      idxP_of_lt (by omega)]
    simp only [Outcome.val_bind]
    rw [FixB.ofListP_of_length (by simp; omega), FixB.ofListP_of_length (by simp; omega)]
    rfl
  · have h' : bytes.length = 216 := h
    simp only [parseAddressesP, parseAddresses]
    rw [sliceToP_of_le (by omega), sliceFromP_of_le (by omega)]
    simp only [Outcome.val_bind]
    rw [FixB.ofListP_of_length (by simp; omega), FixB.ofListP_of_length (by simp; omega)]
    rfl

/-! ## N2: the parser -/

/-- **N2.** For every byte string the panic-aware parser returns normally and
agrees with the pure parser: each index, slice, `copy_from_slice` and the
`usize` subtraction `x.len() - MINIMUM_LENGTH` is guarded by an earlier length
check on the same path. -/
theorem parseP_eq (x : B) : parseP x = .val (parse x) := by
  unfold parseP parse gate
  by_cases h12 : x.length < sig.length
  · simp only [h12, if_true]
    split <;> rfl
  · simp only [h12, if_false]
    have h12' : 12 ≤ x.length := by simpa [sig] using h12
    rw [sliceToP_of_le h12']
    simp only [Outcome.val_bind]
    by_cases hsig : x.take 12 = sig
    · simp only [ne_eq, hsig, not_true_eq_false, if_false]
      by_cases h16 : x.length < minLen
      · simp only [h16, if_true]; rfl
      · simp only [h16, if_false]
        have h16' : 16 ≤ x.length := by simpa [minLen] using h16
        rw [idxP_of_lt (by omega), idxP_of_lt (by omega)]
        simp only [Outcome.val_bind]
        rcases hc : control (byteAt x 12) (byteAt x 13) with e | ⟨v, c, f, t⟩
        · rfl
        · simp only []
          rw [idxP_of_lt (by omega), idxP_of_lt (by omega)]
          simp only [Outcome.val_bind, body]
          generalize be16 (byteAt x 14) (byteAt x 15) = len
          by_cases hls : len < f.size
          · simp only [hls, if_true]; rfl
          · simp only [hls, if_false]
            by_cases hfull : x.length < minLen + len
            · simp only [hfull, if_true]
              rw [subP_of_le (by simpa [minLen] using h16')]
              rfl
            · simp only [hfull, if_false]
              have hfull' : minLen + len ≤ x.length := Nat.le_of_not_lt hfull
              rw [sliceToP_of_le hfull']
              simp only [Outcome.val_bind]
              have hhl : (x.take (minLen + len)).length = minLen + len := by
                simp only [List.length_take]; omega
              rw [sliceP_of_le (by omega) (by omega)]
              simp only [Outcome.val_bind]
              rw [parseAddressesP_eq f _ (by
                simp only [List.length_drop, List.length_take]; omega)]
              rfl
    · simp only [ne_eq, hsig, not_false_eq_true, if_true]; rfl

/-! ## N3: header accessors -/

namespace Header

/-- `Header::length` does not panic on any header value with at least 16 bytes. -/
theorem lengthP_eq (h : Header) (hl : 16 ≤ h.header.length) : h.lengthP = .val h.length := by
  unfold lengthP length
  rw [sliceFromP_of_le (by simpa [minLen] using hl)]
  rfl

theorem addressBytesEndP_eq (h : Header) (hl : 16 ≤ h.header.length) :
    h.addressBytesEndP = .val h.addressBytesEnd := by
  unfold addressBytesEndP addressBytesEnd
  rw [lengthP_eq h hl]
  rfl

/-- `address_bytes_end()` is within the buffer and not below 16. -/
theorem addressBytesEnd_bounds (h : Header) (hl : 16 ≤ h.header.length) :
    minLen ≤ h.addressBytesEnd ∧ h.addressBytesEnd ≤ h.header.length := by
  unfold addressBytesEnd length
  simp only [List.length_drop, minLen]
  omega

theorem addressBytesP_eq (h : Header) (hl : 16 ≤ h.header.length) :
    h.addressBytesP = .val h.addressBytes := by
  unfold addressBytesP addressBytes
  rw [addressBytesEndP_eq h hl]
  obtain ⟨h1, h2⟩ := addressBytesEnd_bounds h hl
  simp only [Outcome.val_bind]
  rw [sliceP_of_le h1 h2]

theorem tlvBytesP_eq (h : Header) (hl : 16 ≤ h.header.length) :
    h.tlvBytesP = .val h.tlvBytes := by
  unfold tlvBytesP tlvBytes
  rw [addressBytesEndP_eq h hl]
  obtain ⟨-, h2⟩ := addressBytesEnd_bounds h hl
  simp only [Outcome.val_bind]
  rw [sliceFromP_of_le h2]

end Header

/-! The same four statements under the plain `V2.` names. -/
theorem lengthP_eq (h : Header) (hl : 16 ≤ h.header.length) : h.lengthP = .val h.length :=
  Header.lengthP_eq h hl
theorem addressBytesEndP_eq (h : Header) (hl : 16 ≤ h.header.length) :
    h.addressBytesEndP = .val h.addressBytesEnd := Header.addressBytesEndP_eq h hl
theorem addressBytesP_eq (h : Header) (hl : 16 ≤ h.header.length) :
    h.addressBytesP = .val h.addressBytes := Header.addressBytesP_eq h hl
theorem tlvBytesP_eq (h : Header) (hl : 16 ≤ h.header.length) :
    h.tlvBytesP = .val h.tlvBytes := Header.tlvBytesP_eq h hl

/-- Every parsed header owns at least the 16 fixed bytes. -/
theorem accepted_len {x : B} {h : Header} (hp : parse x = .ok h) : 16 ≤ h.header.length := by
  obtain ⟨-, h2, h3, -⟩ := C14.lengths hp
  omega

/-- Hence none of the four accessors panics on a parsed header. -/
theorem accepted_accessors {x : B} {h : Header} (hp : parse x = .ok h) :
    h.lengthP = .val h.length ∧ h.addressBytesEndP = .val h.addressBytesEnd ∧
    h.addressBytesP = .val h.addressBytes ∧ h.tlvBytesP = .val h.tlvBytes :=
  have hl := accepted_len hp
  ⟨Header.lengthP_eq h hl, Header.addressBytesEndP_eq h hl, Header.addressBytesP_eq h hl,
    Header.tlvBytesP_eq h hl⟩

/-- The same, phrased on the panic-aware parser's own output. -/
theorem parseP_accessors {x : B} {h : Header} (hp : parseP x = .val (.ok h)) :
    h.lengthP = .val h.length ∧ h.addressBytesEndP = .val h.addressBytesEnd ∧
    h.addressBytesP = .val h.addressBytes ∧ h.tlvBytesP = .val h.tlvBytes := by
  rw [parseP_eq] at hp
  exact accepted_accessors (Outcome.val.inj hp)

/-! ## N4: TLV iteration -/

/-- **N4.** `Iterator::next` on `TypeLengthValues` does not panic in any state. -/
theorem nextP_eq (it : Iter) : it.nextP = .val it.next := by
  unfold Iter.nextP Iter.next
  by_cases hoff : it.offset ≥ it.bytes.length
  · simp only [hoff, if_true]
  · simp only [hoff, if_false]
    have hoff' : it.offset ≤ it.bytes.length := by omega
    rw [sliceFromP_of_le hoff']
    simp only [Outcome.val_bind]
    generalize it.bytes.drop it.offset = rem
    by_cases h3 : rem.length < minTlvLen
    · simp only [h3, if_true]; rfl
    · simp only [h3, if_false]
      have h3' : 3 ≤ rem.length := by simpa [minTlvLen] using h3
      rw [idxP_of_lt (by omega), idxP_of_lt (by omega), idxP_of_lt (by omega)]
      simp only [Outcome.val_bind]
      generalize be16 (byteAt rem 1) (byteAt rem 2) = len
      by_cases hlen : rem.length < minTlvLen + len
      · simp only [hlen, if_true]; rfl
      · simp only [hlen, if_false]
        rw [sliceP_of_le (by omega) (by omega)]
        rfl

/-! ## N5: termination facts about the pure iterator -/

theorem tlv_count_bound (bs : B) : (tlvCollect bs).length ≤ bs.length / 3 + 1 :=
  C11.count_bound bs

theorem next_none_iff (it : Iter) : it.next = none ↔ it.bytes.length ≤ it.offset := by
  unfold Iter.next
  constructor
  · intro h
    by_cases hoff : it.offset ≥ it.bytes.length
    · exact hoff
    · simp only [hoff, if_false] at h
      split at h
      · cases h
      · split at h <;> cases h
  · intro h
    simp only [ge_iff_le, h, if_true]

/-- Strict progress: every yielded item moves the cursor forward over the same
buffer, so the loop cannot hang. -/
theorem next_offset_ge (it it' : Iter) (i : Item) (h : it.next = some (i, it')) :
    it.offset < it'.offset ∧ it'.bytes = it.bytes ∧ it'.offset ≤ it.bytes.length := by
  unfold Iter.next at h
  by_cases hoff : it.offset ≥ it.bytes.length
  · simp only [hoff, if_true] at h; cases h
  · simp only [hoff, if_false] at h
    split at h
    · cases h; exact ⟨by simp only; omega, rfl, Nat.le_refl _⟩
    · split at h
      · cases h; exact ⟨by simp only; omega, rfl, Nat.le_refl _⟩
      · rename_i h3 hlen
        simp only [List.length_drop] at hlen
        cases h
        refine ⟨?_, rfl, ?_⟩
        · simp only [minTlvLen]; omega
        · simp only; omega

/-- After an error item the iterator is exhausted (restated from C11). -/
theorem next_after_error (it it' : Iter) (e : ParseError)
    (h : it.next = some (.error e, it')) : it'.next = none :=
  C11.after_error_exhausted it it' e h

/-- An exhausted iterator stays exhausted and `nextP` keeps returning `none`
without panicking. -/
theorem nextP_none_of_exhausted (it : Iter) (h : it.bytes.length ≤ it.offset) :
    it.nextP = .val none := by
  rw [nextP_eq, (next_none_iff it).mpr h]

/-! ## N6: arithmetic overflow

The only `usize` subtraction in the modelled code is `x.len() - MINIMUM_LENGTH`
on the `Partial` path of `parseP` (modelled by `subP`, which panics on
underflow as an overflow-checked build would). `parseP_eq` covers it: the
subtraction is reached only after `16 ≤ x.len()` has been established, so
`subP` returns `.val (x.length - 16)`, the same value the wrapping (unchecked)
build computes. No other `…P` function of the v2 model uses `subP`;
`parseAddressesP_eq`, `Header.*P_eq` and `nextP_eq` show the remaining
operations (indexing, slicing, `copy_from_slice`) never panic either. Hence
debug (overflow-checked) and release builds agree on every input. -/

/-! ## N7 (added after audit 4): display, fuelled iteration in the panic layer, end of iteration -/

/-- `Display` goes through `length()`; no panic once the 16 fixed bytes are there. -/
theorem Header.displayP_eq (h : Header) (hl : 16 ≤ h.header.length) :
    h.displayP = .val h.display := by
  unfold Header.displayP Header.display
  rw [Header.lengthP_eq h hl]
  rfl

/-- The fuelled loop over `nextP` never panics and is the fuelled loop over `next`. -/
theorem runP_eq (fuel : Nat) (it : Iter) : Iter.runP fuel it = .val (Iter.run fuel it) := by
  induction fuel generalizing it with
  | zero => rfl
  | succ fuel ih =>
    simp only [Iter.runP, Iter.run, nextP_eq]
    cases it.next with
    | none => rfl
    | some p =>
      obtain ⟨i, it'⟩ := p
      simp only [ih]

/-- The cursor arithmetic of the item path: `self.offset += tlv_length` with
`tlv_length = 3 + value.len()`, and the sum stays inside the section. -/
theorem next_ok_offset {it it' : Iter} {t : Tlv} (h : it.next = some (.ok t, it')) :
    it'.offset = it.offset + (minTlvLen + t.value.length) ∧ it'.offset ≤ it.bytes.length ∧
    it'.bytes = it.bytes ∧ t.value.length < 65536 := by
  unfold Iter.next at h
  by_cases hoff : it.offset ≥ it.bytes.length
  · simp only [hoff, if_true] at h; cases h
  · simp only [hoff, if_false] at h
    split at h
    · cases h
    · split at h
      · cases h
      · rename_i h3 hlen
        simp only [List.length_drop] at hlen h3
        simp only [Option.some.injEq, Prod.mk.injEq, Except.ok.injEq] at h
        obtain ⟨rfl, rfl⟩ := h
        have hb := be16_lt (byteAt (it.bytes.drop it.offset) 1) (byteAt (it.bytes.drop it.offset) 2)
        simp only [List.length_drop, List.length_take, minTlvLen] at hlen h3 ⊢
        refine ⟨?_, ?_, trivial, ?_⟩ <;> omega

/-- From any state inside the section, some `k ≤ remaining / 3 + 1` successful calls of
`next` lead to a state in which `next` returns `None`. -/
theorem iterate_ends (n : Nat) : ∀ it : Iter, it.bytes.length - it.offset = n →
    ∃ k, k ≤ n / 3 + 1 ∧ ∃ it', Iter.iterate k it = some it' ∧ it'.next = none := by
  induction n using Nat.strongRecOn with
  | _ n ih =>
    intro it hn
    cases hnx : it.next with
    | none => exact ⟨0, by omega, it, rfl, hnx⟩
    | some p =>
      obtain ⟨i, it1⟩ := p
      cases i with
      | error e =>
        refine ⟨1, by omega, it1, ?_, C11.after_error_exhausted it it1 e hnx⟩
        simp only [Iter.iterate, hnx]
      | ok t =>
        obtain ⟨h1, h2, h3, -⟩ := next_ok_offset hnx
        simp only [minTlvLen] at h1
        obtain ⟨k, hk, it', hit, hnone⟩ :=
          ih (it1.bytes.length - it1.offset) (by rw [h3]; omega) it1 rfl
        refine ⟨k + 1, ?_, it', ?_, hnone⟩
        · rw [h3] at hk; omega
        · simp only [Iter.iterate, hnx, hit]

end V2
