import PppModel.Std.Ipv6
import PppModel.Lemmas.Bytes

/-!
# Digit-level lemmas for the `Ipv6Addr` display / parse round trip
-/

namespace StdNet

/-! ## generic facts about the readers -/

/-- The input that stops a digit loop of the given radix: empty, or the next byte is not a digit. -/
def Stops (radix : Nat) (s : B) : Prop := ∀ c ∈ s.head?, digitVal radix c = none

theorem stops_nil (radix : Nat) : Stops radix [] := by simp [Stops]

theorem stops_cons {radix : Nat} {c : UInt8} {s : B} (h : digitVal radix c = none) :
    Stops radix (c :: s) := by
  simp [Stops, h]

theorem readDigits_stops {radix m : Nat} {s : B} (h : Stops radix s) (acc cnt : Nat) :
    readDigits radix m s acc cnt = some (acc, cnt, s) := by
  cases s with
  | nil => rfl
  | cons c cs =>
    have : digitVal radix c = none := h c (by simp)
    simp [readDigits, this]

/-- A digit loop returns a suffix of its input. -/
theorem readDigits_mem {radix m : Nat} {s : B} {acc cnt v c : Nat} {rest : B}
    (h : readDigits radix m s acc cnt = some (v, c, rest)) : ∀ x ∈ rest, x ∈ s := by
  induction s generalizing acc cnt with
  | nil => simp [readDigits] at h; simp [h]
  | cons d ds ih =>
    simp only [readDigits] at h
    split at h
    · simp at h; simp [← h.2.2]
    · split at h
      · simp at h
      · intro x hx; exact List.mem_cons_of_mem _ (ih h x hx)

theorem readNumber_mem {radix m : Nat} {z : Bool} {bound : Nat} {s : B} {v : Nat} {rest : B}
    (h : readNumber radix m z bound s = some (v, rest)) : ∀ x ∈ rest, x ∈ s := by
  simp only [readNumber] at h
  split at h
  · simp at h
  · rename_i v' cnt rest' heq
    split at h
    · simp at h
    · split at h
      · simp at h
      · split at h
        · simp at h; rw [← h.2]; exact readDigits_mem heq
        · simp at h

/-- Without a `.` in the text there is no dotted quad. -/
theorem readIpv4_none_of_no_dot {s : B} (h : (0x2E : UInt8) ∉ s) : readIpv4 s = none := by
  simp only [readIpv4, readSeparator]
  split
  · rfl
  · rename_i a s1 heq
    simp only [Nat.lt_irrefl, ↓reduceIte] at heq
    have hs1 : (0x2E : UInt8) ∉ s1 := fun hm => h (readNumber_mem heq _ hm)
    have : readGivenChar 0x2E s1 = none := by
      cases s1 with
      | nil => rfl
      | cons d r =>
        simp only [readGivenChar]
        split
        · rename_i hd; simp at hd; simp [hd] at hs1
        · rfl
    simp [this]

theorem readSeparator_ipv4_none_of_no_dot {s : B} (i : Nat) (h : (0x2E : UInt8) ∉ s) :
    readSeparator 0x3A i readIpv4 s = none := by
  simp only [readSeparator]
  split
  · cases s with
    | nil => rfl
    | cons d r =>
      have hr : readIpv4 r = none :=
        readIpv4_none_of_no_dot (fun hm => h (List.mem_cons_of_mem _ hm))
      by_cases hd : (d == 0x3A) = true <;> simp [readGivenChar, hd, hr]
  · exact readIpv4_none_of_no_dot h

/-- Induction along repeated division by the radix. -/
theorem div_induct (b : Nat) (hb : 1 < b) (motive : Nat → Prop)
    (base : ∀ n, n < b → motive n) (step : ∀ n, ¬ n < b → motive (n / b) → motive n) :
    ∀ n, motive n := by
  intro n
  induction n using Nat.strongRecOn with
  | _ n ih =>
    by_cases h : n < b
    · exact base n h
    · exact step n h (ih _ (Nat.div_lt_self (by omega) hb))

/-! ## hexadecimal digits -/

theorem hexLower_lt {n : Nat} (h : n < 16) : hexLower n = [hexLowerDigit n] := by
  rw [hexLower.eq_1, if_pos h]

theorem hexLower_ge {n : Nat} (h : ¬ n < 16) :
    hexLower n = hexLower (n / 16) ++ [hexLowerDigit (n % 16)] := by
  rw [hexLower.eq_1, if_neg h]

theorem digitVal16_hexLowerDigit (d : Nat) (h : d < 16) : digitVal 16 (hexLowerDigit d) = some d := by
  have : ∀ d : Fin 16, digitVal 16 (hexLowerDigit d.val) = some d.val := by decide
  exact this ⟨d, h⟩

/-- Lower-case hexadecimal digit. -/
def IsHexLower (c : UInt8) : Prop := (0x30 ≤ c ∧ c ≤ 0x39) ∨ (0x61 ≤ c ∧ c ≤ 0x66)

instance (c : UInt8) : Decidable (IsHexLower c) := by unfold IsHexLower; infer_instance

theorem isHexLower_hexLowerDigit (d : Nat) (h : d < 16) : IsHexLower (hexLowerDigit d) := by
  have : ∀ d : Fin 16, IsHexLower (hexLowerDigit d.val) := by decide
  exact this ⟨d, h⟩

theorem hexLower_chars (n : Nat) : ∀ c ∈ hexLower n, IsHexLower c := by
  induction n using div_induct 16 (by decide) with
  | base n h =>
    intro c hc; rw [hexLower_lt h] at hc; simp at hc; subst hc; exact isHexLower_hexLowerDigit n h
  | step n h ih =>
    intro c hc
    rw [hexLower_ge h] at hc
    simp only [List.mem_append, List.mem_singleton] at hc
    rcases hc with hc | hc
    · exact ih c hc
    · subst hc; exact isHexLower_hexLowerDigit _ (Nat.mod_lt _ (by decide))

theorem hexLower_length_pos (n : Nat) : 0 < (hexLower n).length := by
  by_cases h : n < 16
  · simp [hexLower_lt h]
  · simp [hexLower_ge h]

theorem hexLower_length_le (n : Nat) (k : Nat) (h : n < 16 ^ (k + 1)) : (hexLower n).length ≤ k + 1 := by
  induction k generalizing n with
  | zero => simp at h; simp [hexLower_lt h]
  | succ k ih =>
    by_cases h16 : n < 16
    · simp [hexLower_lt h16]
    · have : n / 16 < 16 ^ (k + 1) := by
        rw [Nat.div_lt_iff_lt_mul (by decide)]; rw [Nat.pow_succ] at h; exact h
      have := ih _ this
      simp [hexLower_ge h16]; omega

theorem hexLower_length_le4 (n : Nat) (h : n < 65536) : (hexLower n).length ≤ 4 :=
  hexLower_length_le n 3 (by simpa using h)

/-- Reading back the digits `hexLower n` prints. -/
theorem readDigits_hexLower (m n : Nat) (rest : B) (acc cnt : Nat)
    (hm : cnt + (hexLower n).length ≤ m) :
    readDigits 16 m (hexLower n ++ rest) acc cnt =
      readDigits 16 m rest (acc * 16 ^ (hexLower n).length + n) (cnt + (hexLower n).length) := by
  induction n using div_induct 16 (by decide) generalizing rest acc cnt with
  | base n h =>
    rw [hexLower_lt h] at hm ⊢
    have hm' : ¬ (m < cnt + 1) := by simp at hm; omega
    simp [readDigits, digitVal16_hexLowerDigit n h, hm']
  | step n h ih =>
    rw [hexLower_ge h] at hm ⊢
    simp only [List.length_append, List.length_singleton] at hm
    rw [List.append_assoc, ih _ _ _ (by omega)]
    simp only [List.singleton_append, readDigits, digitVal16_hexLowerDigit _ (Nat.mod_lt n (by decide : 0 < 16))]
    rw [if_neg (by omega)]
    simp only [List.length_append, List.length_singleton, Nat.pow_succ]
    congr 1
    rw [Nat.add_mul, Nat.mul_assoc]; omega

theorem readHex16_hexLower (n : Nat) (h : n < 65536) (rest : B) (hr : Stops 16 rest) :
    readHex16 (hexLower n ++ rest) = some (n, rest) := by
  have hl := hexLower_length_le4 n h
  have hp := hexLower_length_pos n
  simp only [readHex16, readNumber]
  rw [readDigits_hexLower 4 n rest 0 0 (by omega), readDigits_stops hr]
  have : ((hexLower n).length == 0) = false := by rw [beq_eq_false_iff_ne]; omega
  simp [this, h]

/-! ## decimal digits -/

open StdInt (dec)

theorem dec_lt {n : Nat} (h : n < 10) : dec n = [UInt8.ofNat (48 + n)] := by
  rw [StdInt.dec.eq_1, if_pos h]

theorem dec_ge {n : Nat} (h : ¬ n < 10) : dec n = dec (n / 10) ++ [UInt8.ofNat (48 + n % 10)] := by
  rw [StdInt.dec.eq_1, if_neg h]

def IsDecDigit (c : UInt8) : Prop := 0x30 ≤ c ∧ c ≤ 0x39

instance (c : UInt8) : Decidable (IsDecDigit c) := by unfold IsDecDigit; infer_instance

theorem digitVal10_decDigit (d : Nat) (h : d < 10) : digitVal 10 (UInt8.ofNat (48 + d)) = some d := by
  have : ∀ d : Fin 10, digitVal 10 (UInt8.ofNat (48 + d.val)) = some d.val := by decide
  exact this ⟨d, h⟩

theorem isDecDigit_decDigit (d : Nat) (h : d < 10) : IsDecDigit (UInt8.ofNat (48 + d)) := by
  have : ∀ d : Fin 10, IsDecDigit (UInt8.ofNat (48 + d.val)) := by decide
  exact this ⟨d, h⟩

theorem dec_chars (n : Nat) : ∀ c ∈ dec n, IsDecDigit c := by
  induction n using div_induct 10 (by decide) with
  | base n h =>
    intro c hc; rw [dec_lt h] at hc; simp only [List.mem_singleton] at hc
    subst hc; exact isDecDigit_decDigit n h
  | step n h ih =>
    intro c hc
    rw [dec_ge h] at hc
    simp only [List.mem_append, List.mem_singleton] at hc
    rcases hc with hc | hc
    · exact ih c hc
    · subst hc; exact isDecDigit_decDigit _ (Nat.mod_lt _ (by decide))

theorem dec_length_pos (n : Nat) : 0 < (dec n).length := by
  by_cases h : n < 10
  · simp [dec_lt h]
  · simp [dec_ge h]

theorem dec_length_le (n : Nat) (k : Nat) (h : n < 10 ^ (k + 1)) : (dec n).length ≤ k + 1 := by
  induction k generalizing n with
  | zero => simp at h; simp [dec_lt h]
  | succ k ih =>
    by_cases h10 : n < 10
    · simp [dec_lt h10]
    · have : n / 10 < 10 ^ (k + 1) := by
        rw [Nat.div_lt_iff_lt_mul (by decide)]; rw [Nat.pow_succ] at h; exact h
      have := ih _ this
      simp [dec_ge h10]; omega

theorem dec_length_le3 (n : Nat) (h : n < 256) : (dec n).length ≤ 3 :=
  dec_length_le n 2 (by simp; omega)

theorem dec_head_ne_zero (n : Nat) (h : 0 < n) (rest : B) : (dec n ++ rest).head? ≠ some 0x30 := by
  induction n using div_induct 10 (by decide) generalizing rest with
  | base n hn =>
    rw [dec_lt hn]
    have : ∀ d : Fin 10, 0 < d.val → UInt8.ofNat (48 + d.val) ≠ 0x30 := by decide
    simpa using this ⟨n, hn⟩ h
  | step n hn ih =>
    rw [dec_ge hn, List.append_assoc]
    exact ih (Nat.div_pos (by omega) (by decide)) _

theorem readDigits_dec (m n : Nat) (rest : B) (acc cnt : Nat)
    (hm : cnt + (dec n).length ≤ m) :
    readDigits 10 m (dec n ++ rest) acc cnt =
      readDigits 10 m rest (acc * 10 ^ (dec n).length + n) (cnt + (dec n).length) := by
  induction n using div_induct 10 (by decide) generalizing rest acc cnt with
  | base n h =>
    rw [dec_lt h] at hm ⊢
    have hm' : ¬ (m < cnt + 1) := by simp at hm; omega
    simp only [List.singleton_append, readDigits, digitVal10_decDigit n h, List.length_singleton,
      Nat.pow_one]
    rw [if_neg (by omega)]
  | step n h ih =>
    rw [dec_ge h] at hm ⊢
    simp only [List.length_append, List.length_singleton] at hm
    rw [List.append_assoc, ih _ _ _ (by omega)]
    simp only [List.singleton_append, readDigits, digitVal10_decDigit _ (Nat.mod_lt n (by decide : 0 < 10))]
    rw [if_neg (by omega)]
    simp only [List.length_append, List.length_singleton, Nat.pow_succ]
    congr 1
    rw [Nat.add_mul, Nat.mul_assoc]; omega

theorem readOctet_dec_stops (n : Nat) (h : n < 256) (rest : B) (hr : Stops 10 rest) :
    readOctet (dec n ++ rest) = some (n, rest) := by
  have hl := dec_length_le3 n h
  have hp := dec_length_pos n
  simp only [readOctet, readNumber]
  rw [readDigits_dec 3 n rest 0 0 (by omega), readDigits_stops hr]
  have h0 : ((dec n).length == 0) = false := by rw [beq_eq_false_iff_ne]; omega
  simp only [Nat.zero_mul, Nat.zero_add, h0, Bool.false_eq_true, ↓reduceIte, Bool.not_false,
    Bool.true_and, h]
  by_cases h10 : n < 10
  · simp only [dec_lt h10, List.length_singleton, Nat.lt_irrefl, decide_false, Bool.and_false,
      Bool.false_eq_true, ↓reduceIte]
  · have := dec_head_ne_zero n (by omega) rest
    have h1 : (List.head? (dec n ++ rest) == some 48) = false := by
      rw [beq_eq_false_iff_ne]; exact this
    simp only [h1, Bool.false_and, Bool.false_eq_true, ↓reduceIte]

theorem readGivenChar_cons_self (c : UInt8) (r : B) : readGivenChar c (c :: r) = some r := by
  simp [readGivenChar]

theorem stops10_dot (s : B) : Stops 10 (0x2E :: s) := stops_cons (by decide)

theorem readIpv4_displayIpv4 (ip : Ip4) (rest : B) (hr : Stops 10 rest) :
    readIpv4 (displayIpv4 ip ++ rest) = some (ip, rest) := by
  obtain ⟨a, b, c, d⟩ := ip
  simp only [displayIpv4, List.append_assoc, List.nil_append, List.cons_append, readIpv4, readSeparator,
    Nat.lt_irrefl, ↓reduceIte, gt_iff_lt, Nat.zero_lt_succ, Nat.lt_add_one]
  rw [readOctet_dec_stops _ a.toNat_lt _ (stops10_dot _)]
  simp only [readGivenChar_cons_self]
  rw [readOctet_dec_stops _ b.toNat_lt _ (stops10_dot _)]
  simp only [readGivenChar_cons_self]
  rw [readOctet_dec_stops _ c.toNat_lt _ (stops10_dot _)]
  simp only [readGivenChar_cons_self]
  rw [readOctet_dec_stops _ d.toNat_lt _ hr]
  simp

end StdNet
