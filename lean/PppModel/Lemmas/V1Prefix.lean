import PppModel.Spec.V1
import PppModel.Lemmas.V1Split
import PppModel.Lemmas.V1Term
import PppModel.Lemmas.Ipv4Port
import PppModel.Auto

/-!
# Streaming: every proper prefix of a well-formed PROXY v1 line is *incomplete*

`V1.Prefix.parseHeader_prefix_incomplete`, `V1.Prefix.parseBytes_prefix_incomplete`,
`V1.Prefix.parseStr_prefix_incomplete`.
-/

namespace V1.Prefix

open V1

/-! ## P0: bridges between the specification's text forms and the std models -/

theorem foldl_eq_valAcc (s : B) (acc : Nat) :
    s.foldl (fun acc c => acc * 10 + (c.toNat - 0x30)) acc = valAcc acc s := by
  induction s generalizing acc with
  | nil => rfl
  | cons c cs ih => simp only [List.foldl_cons, valAcc_cons]; exact ih _

theorem decValue_eq_valAcc (s : B) : Spec.V1.decValue s = valAcc 0 s :=
  foldl_eq_valAcc s 0

theorem decimal_iff_canon (s : B) (n : Nat) : Spec.V1.Decimal s n ↔ Canon s ∧ valAcc 0 s = n := by
  unfold Spec.V1.Decimal Canon
  rw [decValue_eq_valAcc]
  constructor
  · rintro ⟨h1, h2, h3, h4⟩; exact ⟨⟨h1, h2, h3⟩, h4⟩
  · rintro ⟨⟨h1, h2, h3⟩, h4⟩; exact ⟨h1, h2, h3, h4⟩

/-- The specification's plain decimals are exactly the outputs of `Display` for integers. -/
theorem decimal_iff_dec (s : B) (n : Nat) : Spec.V1.Decimal s n ↔ s = StdInt.dec n := by
  rw [decimal_iff_canon]
  constructor
  · rintro ⟨hc, hv⟩
    rw [← hv, StdInt.dec_valAcc_of_canon hc]
  · rintro rfl
    exact ⟨StdInt.dec_canon n, StdInt.valAcc_dec n⟩

theorem portText_dec {sp : B} {p : UInt16} (h : Spec.V1.PortText sp p) : sp = StdInt.dec p.toNat :=
  (decimal_iff_dec sp p.toNat).mp h

theorem ipv4Text_display {s : B} {a : Ip4} (h : Spec.V1.Ipv4Text s a) : s = StdNet.displayIpv4 a := by
  obtain ⟨A, B', C, D, hA, hB, hC, hD, rfl⟩ := h
  rw [(decimal_iff_dec _ _).mp hA, (decimal_iff_dec _ _).mp hB, (decimal_iff_dec _ _).mp hC,
    (decimal_iff_dec _ _).mp hD]
  rfl

theorem ipv4Text_parse {s : B} {a : Ip4} (h : Spec.V1.Ipv4Text s a) : StdNet.parseIpv4 s = some a :=
  (StdNet.parseIpv4_iff s a).mpr (ipv4Text_display h)

theorem isSep_of_digit {c : UInt8} (h : 0x30 ≤ c ∧ c ≤ 0x39) : isSep c = false := by
  have h' := (isDig_iff_toNat (c := c)).mp h
  cases hs : isSep c with
  | false => rfl
  | true =>
    rcases (isSep_iff c).mp hs with rfl | rfl
    · exact absurd h'.1 (by decide)
    · exact absurd h'.1 (by decide)

theorem sepFree_dec (n : Nat) : sepFree (StdInt.dec n) :=
  fun c hc => isSep_of_digit (StdInt.dec_digits n c hc)

theorem sepFree_displayIpv4 (a : Ip4) : sepFree (StdNet.displayIpv4 a) := by
  intro c hc
  rcases StdNet.displayIpv4_charset a c hc with h | rfl
  · exact isSep_of_digit h
  · decide

theorem ipv4Text_sepFree {s : B} {a : Ip4} (h : Spec.V1.Ipv4Text s a) : sepFree s := by
  rw [ipv4Text_display h]; exact sepFree_displayIpv4 a

theorem ipv4Text_ne_nil {s : B} {a : Ip4} (h : Spec.V1.Ipv4Text s a) : s ≠ [] := by
  rw [ipv4Text_display h]
  intro hn
  have := (StdNet.displayIpv4_length a).1
  rw [hn] at this
  simp at this

theorem portText_sepFree {sp : B} {p : UInt16} (h : Spec.V1.PortText sp p) : sepFree sp := by
  rw [portText_dec h]; exact sepFree_dec _

theorem sepFree_take {s : B} (h : sepFree s) (k : Nat) : sepFree (s.take k) :=
  fun c hc => h c (List.mem_of_mem_take hc)

/-! ## Fields joined by single spaces, and their prefixes -/

/-- `f₁ ++ " " ++ f₂ ++ " " ++ … ++ g` -/
def joinSP : List B → B → B
  | [], g => g
  | f :: fs, g => f ++ SP :: joinSP fs g

theorem splitN_joinSP (fs : List B) (g : B) (hfs : ∀ f ∈ fs, sepFree f) (k : Nat) :
    splitN (fs.length + (k + 1)) (joinSP fs g) = fs ++ splitN (k + 1) g := by
  induction fs with
  | nil => simp [joinSP]
  | cons f fs ih =>
    have e : (f :: fs).length + (k + 1) = (fs.length + k) + 2 := by simp only [List.length_cons]; omega
    have e' : fs.length + k + 1 = fs.length + (k + 1) := by omega
    rw [e, joinSP, splitN_append _ (hfs f (List.mem_cons_self ..)) isSep_SP, e',
      ih (fun x hx => hfs x (List.mem_cons_of_mem _ hx))]
    rfl

/-- A proper prefix of `f ++ c :: r` is a prefix of `f`, or `f ++ [c]` followed by a proper
prefix of `r`. -/
theorem take_field (f : B) (c : UInt8) (r : B) (n : Nat) (hn : n < (f ++ c :: r).length) :
    (∃ m, m ≤ f.length ∧ (f ++ c :: r).take n = f.take m) ∨
    (∃ m, m < r.length ∧ (f ++ c :: r).take n = f ++ c :: r.take m) := by
  by_cases h : n ≤ f.length
  · left
    exact ⟨n, h, List.take_append_of_le_length h⟩
  · right
    refine ⟨n - f.length - 1, ?_, ?_⟩
    · simp only [List.length_append, List.length_cons] at hn; omega
    · obtain ⟨k, rfl⟩ : ∃ k, n = f.length + 1 + k := ⟨n - f.length - 1, by omega⟩
      rw [List.take_append, List.take_of_length_le (by omega)]
      have e : f.length + 1 + k - f.length = k + 1 := by omega
      rw [e, Nat.add_sub_cancel, List.take_succ_cons]

/-! ## Termination and CRLF suffix of proper prefixes of `body ++ CRLF` -/

theorem crFree_take {s : B} (h : crFree s) (k : Nat) : crFree (s.take k) :=
  fun c hc => h c (List.mem_of_mem_take hc)

/-- A proper prefix of `body ++ [CR, LF]` is CR-free, or is `body ++ [CR]`. -/
theorem take_body (body : B) (n : Nat) (hn : n < (body ++ [CR, LF]).length) :
    (∃ m, (body ++ [CR, LF]).take n = body.take m) ∨ (body ++ [CR, LF]).take n = body ++ [CR] := by
  rcases take_field body CR [LF] n hn with ⟨m, -, h⟩ | ⟨m, hm, h⟩
  · exact Or.inl ⟨m, h⟩
  · right
    simp only [List.length_singleton, Nat.lt_one_iff] at hm
    subst hm
    exact h

theorem terminated_crFree {p : B} (h : crFree p) : terminated p = false := by
  simp [terminated, (firstCR_none_iff p).mpr h]

theorem terminated_append_cr {body : B} (h : crFree body) : terminated (body ++ [CR]) = false := by
  simp [terminated, firstCR_append_cr [] h]

theorem crlf_suffix_crFree {p : B} (h : crFree p) : CRLF.isSuffixOf p = false := by
  cases hs : CRLF.isSuffixOf p with
  | false => rfl
  | true =>
    rw [List.isSuffixOf_iff_suffix] at hs
    obtain ⟨t, rfl⟩ := hs
    exact absurd rfl (h CR (by simp [CRLF, CR]))

theorem crlf_suffix_append_cr (body : B) : CRLF.isSuffixOf (body ++ [CR]) = false := by
  cases hs : CRLF.isSuffixOf (body ++ [CR]) with
  | false => rfl
  | true =>
    rw [List.isSuffixOf_iff_suffix] at hs
    obtain ⟨t, ht⟩ := hs
    have h' : (t ++ [CR]) ++ [LF] = body ++ [CR] := by simpa [CRLF, CR, LF] using ht
    have := (List.append_inj' h' rfl).2
    simp [CR, LF] at this

theorem terminated_take {body : B} (h : crFree body) (n : Nat) (hn : n < (body ++ [CR, LF]).length) :
    terminated ((body ++ [CR, LF]).take n) = false := by
  rcases take_body body n hn with ⟨m, e⟩ | e
  · rw [e]; exact terminated_crFree (crFree_take h m)
  · rw [e]; exact terminated_append_cr h

theorem crlf_suffix_take {body : B} (h : crFree body) (n : Nat) (hn : n < (body ++ [CR, LF]).length) :
    CRLF.isSuffixOf ((body ++ [CR, LF]).take n) = false := by
  rcases take_body body n hn with ⟨m, e⟩ | e
  · rw [e]; exact crlf_suffix_crFree (crFree_take h m)
  · rw [e]; exact crlf_suffix_append_cr body

theorem windowLength_take {body : B} (h : crFree body) (n : Nat) (hn : n < (body ++ [CR, LF]).length)
    (hlen : (body ++ [CR, LF]).length ≤ 107) :
    windowLength ((body ++ [CR, LF]).take n) = some n := by
  have hl : ((body ++ [CR, LF]).take n).length = n := by
    rw [List.length_take]; omega
  rcases take_body body n hn with ⟨m, e⟩ | e
  · have hcr : crFree ((body ++ [CR, LF]).take n) := by rw [e]; exact crFree_take h m
    rw [windowLength_short ((firstCR_none_iff _).mpr hcr) (by omega), hl]
  · rw [e] at hl ⊢
    simp only [windowLength, firstCR_append_cr [] h, CRLF, List.length_cons, List.length_nil]
    rw [← hl]
    simp only [List.length_append, List.length_singleton]
    congr 1; omega

/-! ## Incomplete results -/

/-- The result is an error flagged incomplete. -/
def Inc (r : Except ParseError Header) : Prop := ∃ e, r = .error e ∧ e.isIncomplete = true

theorem inc_of_bool {r : Except ParseError Header} (h : Auto.isIncompleteV1Str r = true) : Inc r := by
  cases r with
  | ok v => simp [Auto.isIncompleteV1Str] at h
  | error e => exact ⟨e, rfl, h⟩

/-- What `parse_addresses` does on the parts of a proper prefix: an incomplete error, or
success with nothing (or one empty part) left over. -/
def PA {α : Type} (f : B → Option α) (rest : List B) : Prop :=
  (∃ e, parseAddresses f rest false = .error e ∧ e.isIncomplete = true) ∨
  (∃ x1 x2 x3 x4 rest', parseAddresses f rest false = .ok (x1, x2, x3, x4, rest') ∧
    (rest' = [] ∨ rest' = [[]]))

theorem takeFields_short {rest : List B} (h : rest.length < 4) :
    ∃ e, takeFields rest false = .error e ∧ e.isIncomplete = true := by
  rcases rest with _ | ⟨a, _ | ⟨b, _ | ⟨c, _ | ⟨d, r⟩⟩⟩⟩
  · exact ⟨_, rfl, rfl⟩
  · exact ⟨_, rfl, rfl⟩
  · exact ⟨_, rfl, rfl⟩
  · exact ⟨_, rfl, rfl⟩
  · simp at h; omega

theorem pa_of_takeFields_error {α : Type} (f : B → Option α) {rest : List B} {e : ParseError}
    (h : takeFields rest false = .error e) (he : e.isIncomplete = true) : PA f rest := by
  left
  refine ⟨e, ?_, he⟩
  simp only [parseAddresses, h]

theorem pa_short {α : Type} (f : B → Option α) {rest : List B} (h : rest.length < 4) : PA f rest := by
  obtain ⟨e, h1, h2⟩ := takeFields_short h
  exact pa_of_takeFields_error f h1 h2

theorem pa_empty_dp {α : Type} (f : B → Option α) (sa da sp : B) : PA f [sa, da, sp, []] :=
  pa_of_takeFields_error f (e := .missingDestinationPort) rfl rfl

theorem finish_missingNewLine {h : B} (hterm : terminated h = false) (a : Addresses) {rest' : List B}
    (hr : rest' = [] ∨ rest' = [[]]) : finish h a rest' = .error .missingNewLine := by
  rcases hr with rfl | rfl <;> simp [finish, hterm, Option.filter]

theorem takeFields_four {sa da sp dp : B} (hne : dp ≠ []) :
    takeFields [sa, da, sp, dp] false = .ok (sa, da, sp, dp, []) := by
  cases dp with
  | nil => exact absurd rfl hne
  | cons c cs => rfl

theorem takeFields_five (sa da sp dp x : B) :
    takeFields [sa, da, sp, dp, x] false = .ok (sa, da, sp, dp, [x]) := by
  cases dp <;> rfl

theorem pa_of_takeFields_ok {α : Type} (f : B → Option α) {rest : List B} {sa da sp dp : B} {rest' : List B}
    {a b : α} {p q : UInt16} (ht : takeFields rest false = .ok (sa, da, sp, dp, rest'))
    (hsa : f sa = some a) (hda : f da = some b)
    (hsp : parsePort sp = .ok p) (hdp : parsePort dp = .ok q) (hr : rest' = [] ∨ rest' = [[]]) :
    PA f rest := by
  right
  refine ⟨a, b, p, q, rest', ?_, hr⟩
  simp only [parseAddresses, ht, hsa, hda, hsp, hdp]

theorem parsePort_ne_nil {s : B} {p : UInt16} (h : parsePort s = .ok p) : s ≠ [] := by
  rintro rfl
  simp [parsePort, StdInt.parseU16] at h

/-! ## `parse_header` on a header whose parts are known -/

theorem splitN7_nil : splitN 7 [] = [[]] := rfl

theorem parseHeader_tcp_inc {h K : B} {rest : List B} (hlen : h.length ≤ 107)
    (hsplit : splitN 7 h = PROXY :: K :: rest) (hterm : terminated h = false)
    (hK : (K = TCP4 ∧ PA StdNet.parseIpv4 rest) ∨ (K = TCP6 ∧ PA StdNet.parseIpv6 rest)) :
    Inc (parseHeader h) := by
  have hne : h.isEmpty = false := by
    cases h with
    | nil => simp [splitN7_nil] at hsplit
    | cons c cs => rfl
  have hneq : (h == PROXY) = false := by
    have : h ≠ PROXY := by
      rintro rfl
      have : splitN 7 PROXY = [PROXY] := by decide
      rw [this] at hsplit
      simp at hsplit
    simpa using this
  unfold parseHeader
  simp only [hne, Bool.false_eq_true, if_false]
  rw [if_neg (by simp only [MAX_LENGTH]; omega)]
  have hsplit' : splitN PARTS h = PROXY :: K :: rest := hsplit
  rw [hsplit']
  simp only [hneq, Bool.and_false, Bool.false_eq_true, if_false, ne_eq, not_true_eq_false, hterm]
  rcases hK with ⟨rfl, hpa⟩ | ⟨rfl, hpa⟩
  · simp only [if_true]
    rcases hpa with ⟨e, h1, h2⟩ | ⟨x1, x2, x3, x4, rest', h1, h2⟩
    · rw [h1]; exact ⟨e, rfl, h2⟩
    · rw [h1]; simp only [finish_missingNewLine hterm _ h2]
      exact ⟨_, rfl, rfl⟩
  · rw [if_neg (by decide)]
    simp only [if_true]
    rcases hpa with ⟨e, h1, h2⟩ | ⟨x1, x2, x3, x4, rest', h1, h2⟩
    · rw [h1]; exact ⟨e, rfl, h2⟩
    · rw [h1]; simp only [finish_missingNewLine hterm _ h2]
      exact ⟨_, rfl, rfl⟩

theorem parseHeader_unknown_inc {h : B} {rest : List B} (hlen : h.length ≤ 107)
    (hsplit : splitN 7 h = PROXY :: UNKNOWN :: rest) (hterm : terminated h = false)
    (hsuf : CRLF.isSuffixOf h = false) :
    Inc (parseHeader h) := by
  have hne : h.isEmpty = false := by
    cases h with
    | nil => simp [splitN7_nil] at hsplit
    | cons c cs => rfl
  have hneq : (h == PROXY) = false := by
    have : h ≠ PROXY := by
      rintro rfl
      have : splitN 7 PROXY = [PROXY] := by decide
      rw [this] at hsplit
      simp at hsplit
    simpa using this
  unfold parseHeader
  simp only [hne, Bool.false_eq_true, if_false]
  rw [if_neg (by simp only [MAX_LENGTH]; omega)]
  have hsplit' : splitN PARTS h = PROXY :: UNKNOWN :: rest := hsplit
  rw [hsplit']
  simp only [hneq, Bool.and_false, Bool.false_eq_true, if_false, ne_eq, not_true_eq_false, hterm, hsuf]
  rw [if_neg (by decide), if_neg (by decide)]
  simp only [if_true]
  exact ⟨_, rfl, rfl⟩

/-! ## The short, concrete prefixes -/

theorem sepFree_PROXY : sepFree PROXY := by unfold sepFree; decide
theorem sepFree_TCP4 : sepFree TCP4 := by unfold sepFree; decide
theorem sepFree_TCP6 : sepFree TCP6 := by unfold sepFree; decide
theorem sepFree_UNKNOWN : sepFree UNKNOWN := by unfold sepFree; decide

theorem small_proxy (m : Nat) (hm : m ≤ 5) : Inc (parseHeader (PROXY.take m)) := by
  rcases m with _ | _ | _ | _ | _ | _ | m
  · exact inc_of_bool (by decide)
  · exact inc_of_bool (by decide)
  · exact inc_of_bool (by decide)
  · exact inc_of_bool (by decide)
  · exact inc_of_bool (by decide)
  · exact inc_of_bool (by decide)
  · omega

theorem small_tcp4 (m : Nat) (hm : m < 4) : Inc (parseHeader (PROXY ++ SP :: TCP4.take m)) := by
  rcases m with _ | _ | _ | _ | m
  · exact inc_of_bool (by decide)
  · exact inc_of_bool (by decide)
  · exact inc_of_bool (by decide)
  · exact inc_of_bool (by decide)
  · omega

theorem small_tcp6 (m : Nat) (hm : m < 4) : Inc (parseHeader (PROXY ++ SP :: TCP6.take m)) := by
  rcases m with _ | _ | _ | _ | m
  · exact inc_of_bool (by decide)
  · exact inc_of_bool (by decide)
  · exact inc_of_bool (by decide)
  · exact inc_of_bool (by decide)
  · omega

theorem small_unknown (m : Nat) (hm : m < 7) : Inc (parseHeader (PROXY ++ SP :: UNKNOWN.take m)) := by
  rcases m with _ | _ | _ | _ | _ | _ | _ | m
  · exact inc_of_bool (by decide)
  · exact inc_of_bool (by decide)
  · exact inc_of_bool (by decide)
  · exact inc_of_bool (by decide)
  · exact inc_of_bool (by decide)
  · exact inc_of_bool (by decide)
  · exact inc_of_bool (by decide)
  · omega

/-! ## TCP lines -/

/-- The text of a TCP line, in right-nested form. -/
def tcpLine (K sa da sp dp : B) : B :=
  PROXY ++ SP :: (K ++ SP :: (sa ++ SP :: (da ++ SP :: (sp ++ SP :: (dp ++ CR :: [LF])))))

/-- Classification of the proper prefixes of a TCP line. -/
theorem tcp_take_cases (K sa da sp dp : B) (n : Nat) (hn : n < (tcpLine K sa da sp dp).length) :
    (∃ m, m ≤ PROXY.length ∧ (tcpLine K sa da sp dp).take n = PROXY.take m) ∨
    (∃ m, m ≤ K.length ∧ (tcpLine K sa da sp dp).take n = joinSP [PROXY] (K.take m)) ∨
    (∃ m, (tcpLine K sa da sp dp).take n = joinSP [PROXY, K] (sa.take m)) ∨
    (∃ m, (tcpLine K sa da sp dp).take n = joinSP [PROXY, K, sa] (da.take m)) ∨
    (∃ m, (tcpLine K sa da sp dp).take n = joinSP [PROXY, K, sa, da] (sp.take m)) ∨
    (∃ m, (tcpLine K sa da sp dp).take n = joinSP [PROXY, K, sa, da, sp] (dp.take m)) ∨
    (tcpLine K sa da sp dp).take n = joinSP [PROXY, K, sa, da, sp] (dp ++ [CR]) := by
  unfold tcpLine at hn ⊢
  rcases take_field _ SP _ n hn with ⟨m, hm, e⟩ | ⟨n1, hn1, e⟩
  · exact Or.inl ⟨m, hm, e⟩
  right
  rw [e]; clear e hn
  rcases take_field _ SP _ n1 hn1 with ⟨m, hm, e⟩ | ⟨n2, hn2, e⟩
  · exact Or.inl ⟨m, hm, by rw [e]; rfl⟩
  right
  rw [e]; clear e hn1
  rcases take_field _ SP _ n2 hn2 with ⟨m, hm, e⟩ | ⟨n3, hn3, e⟩
  · exact Or.inl ⟨m, by rw [e]; rfl⟩
  right
  rw [e]; clear e hn2
  rcases take_field _ SP _ n3 hn3 with ⟨m, hm, e⟩ | ⟨n4, hn4, e⟩
  · exact Or.inl ⟨m, by rw [e]; rfl⟩
  right
  rw [e]; clear e hn3
  rcases take_field _ SP _ n4 hn4 with ⟨m, hm, e⟩ | ⟨n5, hn5, e⟩
  · exact Or.inl ⟨m, by rw [e]; rfl⟩
  right
  rw [e]; clear e hn4
  rcases take_field _ CR _ n5 hn5 with ⟨m, hm, e⟩ | ⟨n6, hn6, e⟩
  · exact Or.inl ⟨m, by rw [e]; rfl⟩
  right
  rw [e]
  simp only [List.length_singleton, Nat.lt_one_iff] at hn6
  subst hn6
  rfl

theorem sf1 {a : B} (ha : sepFree a) : ∀ f ∈ [a], sepFree f := by
  intro f hf; simp only [List.mem_cons, List.not_mem_nil, or_false] at hf
  subst hf; exact ha

theorem sf_cons {a : B} {l : List B} (ha : sepFree a) (hl : ∀ f ∈ l, sepFree f) :
    ∀ f ∈ a :: l, sepFree f := by
  intro f hf
  rcases List.mem_cons.mp hf with rfl | hf
  · exact ha
  · exact hl f hf

theorem splitN7_joinSP (fs : List B) (g : B) (hfs : ∀ f ∈ fs, sepFree f) (k : Nat)
    (hk : fs.length + (k + 1) = 7) : splitN 7 (joinSP fs g) = fs ++ splitN (k + 1) g :=
  hk ▸ splitN_joinSP fs g hfs k

/-- Parts of a proper prefix of a TCP line, for an arbitrary address parser. -/
theorem tcp_parts {α : Type} (f : B → Option α) {K sa da sp dp : B} {a b : α} {p q : UInt16}
    (hK : sepFree K) (hsa : sepFree sa) (hda : sepFree da) (hfa : f sa = some a) (hfb : f da = some b)
    (hsp : sp = StdInt.dec p.toNat) (hdp : dp = StdInt.dec q.toNat)
    (n : Nat) (hn : n < (tcpLine K sa da sp dp).length) :
    (∃ m, m ≤ 5 ∧ (tcpLine K sa da sp dp).take n = PROXY.take m) ∨
    (∃ m, m < K.length ∧ (tcpLine K sa da sp dp).take n = PROXY ++ SP :: K.take m) ∨
    (∃ rest, splitN 7 ((tcpLine K sa da sp dp).take n) = PROXY :: K :: rest ∧ PA f rest) := by
  have hP := sepFree_PROXY
  have hspf : sepFree sp := hsp ▸ sepFree_dec _
  have hdpf : sepFree dp := hdp ▸ sepFree_dec _
  have hpsp : parsePort sp = .ok p := (parsePort_iff sp p).mpr hsp
  have hpdp : parsePort dp = .ok q := (parsePort_iff dp q).mpr hdp
  have hfive : ∀ f ∈ [PROXY, K, sa, da, sp], sepFree f :=
    sf_cons hP (sf_cons hK (sf_cons hsa (sf_cons hda (sf1 hspf))))
  rcases tcp_take_cases K sa da sp dp n hn with
    ⟨m, hm, e⟩ | ⟨m, hm, e⟩ | ⟨m, e⟩ | ⟨m, e⟩ | ⟨m, e⟩ | ⟨m, e⟩ | e
  · exact Or.inl ⟨m, hm, e⟩
  · right
    by_cases hlt : m < K.length
    · exact Or.inl ⟨m, hlt, e⟩
    · right
      rw [List.take_of_length_le (show K.length ≤ m by omega)] at e
      refine ⟨[], ?_, pa_short f (by simp)⟩
      rw [e, splitN7_joinSP [PROXY] K (sf1 hP) 5 rfl, splitN_sepFree 5 hK]
      rfl
  · right; right
    refine ⟨[sa.take m], ?_, pa_short f (by simp)⟩
    rw [e, splitN7_joinSP [PROXY, K] _ (sf_cons hP (sf1 hK)) 4 rfl,
      splitN_sepFree 4 (sepFree_take hsa m)]
    rfl
  · right; right
    refine ⟨[sa, da.take m], ?_, pa_short f (by simp)⟩
    rw [e, splitN7_joinSP [PROXY, K, sa] _ (sf_cons hP (sf_cons hK (sf1 hsa))) 3 rfl,
      splitN_sepFree 3 (sepFree_take hda m)]
    rfl
  · right; right
    refine ⟨[sa, da, sp.take m], ?_, pa_short f (by simp)⟩
    rw [e, splitN7_joinSP [PROXY, K, sa, da] _ (sf_cons hP (sf_cons hK (sf_cons hsa (sf1 hda)))) 2
        rfl,
      splitN_sepFree 2 (sepFree_take hspf m)]
    rfl
  · right; right
    refine ⟨[sa, da, sp, dp.take m], ?_, ?_⟩
    · rw [e, splitN7_joinSP [PROXY, K, sa, da, sp] _ hfive 1 rfl,
        splitN_sepFree 1 (sepFree_take hdpf m)]
      rfl
    · rcases Nat.eq_zero_or_pos m with rfl | hpos
      · exact pa_empty_dp f sa da sp
      · obtain ⟨q', hq'⟩ := parsePort_prefix q m hpos
        rw [← hdp] at hq'
        exact pa_of_takeFields_ok f (takeFields_four (parsePort_ne_nil hq')) hfa hfb hpsp hq' (Or.inl rfl)
  · right; right
    refine ⟨[sa, da, sp, dp, []], ?_, ?_⟩
    · rw [e, splitN7_joinSP [PROXY, K, sa, da, sp] _ hfive 1 rfl,
        (splitN_append 0 hdpf isSep_CR : splitN 2 (dp ++ [CR]) = dp :: splitN 1 [])]
      rfl
    · exact pa_of_takeFields_ok f (takeFields_five sa da sp dp []) hfa hfb hpsp hpdp (Or.inr rfl)

theorem crFree_append {a b : B} (ha : crFree a) (hb : crFree b) : crFree (a ++ b) := by
  intro c hc
  rcases List.mem_append.mp hc with h | h
  · exact ha c h
  · exact hb c h

theorem crFree_SP : crFree [SP] := by unfold crFree; decide

theorem tcpLine_spec (K sa da sp dp : B) :
    PROXY ++ [SP] ++ K ++ [SP] ++ sa ++ [SP] ++ da ++ [SP] ++ sp ++ [SP] ++ dp ++ [CR, LF] =
      tcpLine K sa da sp dp := by
  simp [tcpLine]

theorem length_take_le_of_lt {w : B} {n : Nat} (hn : n < w.length) (hlen : w.length ≤ 107) :
    (w.take n).length ≤ 107 := by
  rw [List.length_take]; omega

theorem tcp_body_crFree {K sa da sp dp : B} (hK : sepFree K) (hsa : sepFree sa) (hda : sepFree da)
    (hsp : sepFree sp) (hdp : sepFree dp) :
    crFree (PROXY ++ [SP] ++ K ++ [SP] ++ sa ++ [SP] ++ da ++ [SP] ++ sp ++ [SP] ++ dp) := by
  have s := crFree_SP
  exact crFree_append (crFree_append (crFree_append (crFree_append (crFree_append (crFree_append
    (crFree_append (crFree_append (crFree_append (crFree_append sepFree_PROXY.crFree s) hK.crFree) s)
    hsa.crFree) s) hda.crFree) s) hsp.crFree) s) hdp.crFree

/-- Proper prefixes of a TCP line (either family). -/
theorem tcp_prefix_inc {K sa da sp dp : B} {p q : UInt16}
    (hK : (K = TCP4 ∧ ∃ a b, StdNet.parseIpv4 sa = some a ∧ StdNet.parseIpv4 da = some b) ∨
          (K = TCP6 ∧ ∃ a b, StdNet.parseIpv6 sa = some a ∧ StdNet.parseIpv6 da = some b))
    (hsa : sepFree sa) (hda : sepFree da)
    (hsp : sp = StdInt.dec p.toNat) (hdp : dp = StdInt.dec q.toNat)
    (hlen : (tcpLine K sa da sp dp).length ≤ 107) (n : Nat) (hn : n < (tcpLine K sa da sp dp).length) :
    Inc (parseHeader ((tcpLine K sa da sp dp).take n)) := by
  have hlen' := length_take_le_of_lt hn hlen
  have hKf : sepFree K := by
    rcases hK with ⟨rfl, -⟩ | ⟨rfl, -⟩
    · exact sepFree_TCP4
    · exact sepFree_TCP6
  have hterm : terminated ((tcpLine K sa da sp dp).take n) = false := by
    have hbody := tcp_body_crFree hKf hsa hda (hsp ▸ sepFree_dec _ : sepFree sp)
      (hdp ▸ sepFree_dec _ : sepFree dp)
    have e := tcpLine_spec K sa da sp dp
    rw [← e] at hn ⊢
    exact terminated_take hbody n hn
  rcases hK with ⟨rfl, a, b, ha, hb⟩ | ⟨rfl, a, b, ha, hb⟩
  · rcases tcp_parts StdNet.parseIpv4 sepFree_TCP4 hsa hda ha hb hsp hdp n hn with
      ⟨m, hm, e⟩ | ⟨m, hm, e⟩ | ⟨rest, hs, hpa⟩
    · rw [e]; exact small_proxy m hm
    · rw [e]; exact small_tcp4 m hm
    · exact parseHeader_tcp_inc hlen' hs hterm (Or.inl ⟨rfl, hpa⟩)
  · rcases tcp_parts StdNet.parseIpv6 sepFree_TCP6 hsa hda ha hb hsp hdp n hn with
      ⟨m, hm, e⟩ | ⟨m, hm, e⟩ | ⟨rest, hs, hpa⟩
    · rw [e]; exact small_proxy m hm
    · rw [e]; exact small_tcp6 m hm
    · exact parseHeader_tcp_inc hlen' hs hterm (Or.inr ⟨rfl, hpa⟩)

/-! ## UNKNOWN lines -/

/-- Proper prefixes of `PROXY UNKNOWN…\r\n`. -/
theorem unknown_prefix_inc (tail : B) (htail : tail = [] ∨ tail.head? = some SP) (hcr : crFree tail)
    (hlen : (PROXY ++ [SP] ++ UNKNOWN ++ tail ++ [CR, LF]).length ≤ 107) (n : Nat)
    (hn : n < (PROXY ++ [SP] ++ UNKNOWN ++ tail ++ [CR, LF]).length) :
    Inc (parseHeader ((PROXY ++ [SP] ++ UNKNOWN ++ tail ++ [CR, LF]).take n)) := by
  have hlen' := length_take_le_of_lt hn hlen
  have hbody : crFree (PROXY ++ [SP] ++ UNKNOWN ++ tail) :=
    crFree_append (crFree_append (crFree_append sepFree_PROXY.crFree crFree_SP) sepFree_UNKNOWN.crFree) hcr
  have hterm := terminated_take hbody n hn
  have hsuf := crlf_suffix_take hbody n hn
  -- what follows the keyword starts with a separator
  obtain ⟨c, r, hc, htl⟩ : ∃ c r, isSep c = true ∧ tail ++ [CR, LF] = c :: r := by
    rcases htail with rfl | h
    · exact ⟨CR, [LF], isSep_CR, rfl⟩
    · cases tail with
      | nil => simp at h
      | cons d t =>
        simp only [List.head?_cons, Option.some.injEq] at h
        subst h
        exact ⟨SP, t ++ [CR, LF], isSep_SP, rfl⟩
  have e : PROXY ++ [SP] ++ UNKNOWN ++ tail ++ [CR, LF] = PROXY ++ SP :: (UNKNOWN ++ c :: r) := by
    rw [← htl]; simp
  rw [e] at hn hterm hsuf hlen' ⊢
  rcases take_field _ SP _ n hn with ⟨m, hm, e1⟩ | ⟨n1, hn1, e1⟩
  · rw [e1]; exact small_proxy m hm
  rw [e1] at hterm hsuf hlen' ⊢
  rcases take_field _ c _ n1 hn1 with ⟨m, hm, e2⟩ | ⟨n2, hn2, e2⟩
  · rw [e2] at hterm hsuf hlen' ⊢
    by_cases hlt : m < 7
    · exact small_unknown m hlt
    · rw [List.take_of_length_le (show UNKNOWN.length ≤ m from Nat.not_lt.mp hlt)] at hterm hsuf hlen' ⊢
      refine parseHeader_unknown_inc (rest := []) hlen' ?_ hterm hsuf
      have := splitN7_joinSP [PROXY] UNKNOWN (sf1 sepFree_PROXY) 5 rfl
      rw [splitN_sepFree 5 sepFree_UNKNOWN] at this
      exact this
  · rw [e2] at hterm hsuf hlen' ⊢
    refine parseHeader_unknown_inc (rest := splitN 5 (r.take n2)) hlen' ?_ hterm hsuf
    have := splitN7_joinSP [PROXY] (UNKNOWN ++ c :: r.take n2) (sf1 sepFree_PROXY) 5 rfl
    rw [splitN_append 4 sepFree_UNKNOWN hc] at this
    exact this

/-! ## P1: `parse_header` on proper prefixes -/

/-- **Streaming (parse_header).** Every proper prefix of a well-formed v1 line of at most 107
bytes is reported incomplete. -/
theorem parseHeader_prefix_incomplete (ip6 : B → Ip6 → Prop)
    (hip6 : ∀ s a, ip6 s a → StdNet.parseIpv6 s = some a ∧ V1.sepFree s)
    {w : B} {addr : V1.Addresses} (hl : Spec.V1.Line ip6 w addr) (hlen : w.length ≤ 107)
    (n : Nat) (hn : n < w.length) :
    ∃ e, V1.parseHeader (w.take n) = .error e ∧ e.isIncomplete = true := by
  cases hl with
  | unknown tail h1 h2 => exact unknown_prefix_inc tail h1 h2 hlen n hn
  | tcp4 sa da sp dp a b p q hsa hda hsp hdp =>
    have e : Spec.V1.kwPROXY ++ [Spec.V1.SP] ++ Spec.V1.kwTCP4 ++ [Spec.V1.SP] ++ sa ++ [Spec.V1.SP] ++ da ++
        [Spec.V1.SP] ++ sp ++ [Spec.V1.SP] ++ dp ++ [Spec.V1.CR, Spec.V1.LF] = tcpLine TCP4 sa da sp dp :=
      tcpLine_spec TCP4 sa da sp dp
    rw [e] at hlen hn ⊢
    exact tcp_prefix_inc (Or.inl ⟨rfl, a, b, ipv4Text_parse hsa, ipv4Text_parse hda⟩)
      (ipv4Text_sepFree hsa) (ipv4Text_sepFree hda) (portText_dec hsp) (portText_dec hdp) hlen n hn
  | tcp6 sa da sp dp a b p q hsa hda hsp hdp =>
    have e : Spec.V1.kwPROXY ++ [Spec.V1.SP] ++ Spec.V1.kwTCP6 ++ [Spec.V1.SP] ++ sa ++ [Spec.V1.SP] ++ da ++
        [Spec.V1.SP] ++ sp ++ [Spec.V1.SP] ++ dp ++ [Spec.V1.CR, Spec.V1.LF] = tcpLine TCP6 sa da sp dp :=
      tcpLine_spec TCP6 sa da sp dp
    rw [e] at hlen hn ⊢
    exact tcp_prefix_inc (Or.inr ⟨rfl, a, b, (hip6 sa a hsa).1, (hip6 da b hda).1⟩)
      (hip6 sa a hsa).2 (hip6 da b hda).2 (portText_dec hsp) (portText_dec hdp) hlen n hn

/-! ## P2: the entry points -/

/-- Every well-formed line is a CR-free body followed by CRLF. -/
theorem line_body (ip6 : B → Ip6 → Prop)
    (hip6 : ∀ s a, ip6 s a → StdNet.parseIpv6 s = some a ∧ V1.sepFree s)
    {w : B} {addr : V1.Addresses} (hl : Spec.V1.Line ip6 w addr) :
    ∃ body, crFree body ∧ w = body ++ [CR, LF] := by
  cases hl with
  | unknown tail h1 h2 =>
    exact ⟨PROXY ++ [SP] ++ UNKNOWN ++ tail,
      crFree_append (crFree_append (crFree_append sepFree_PROXY.crFree crFree_SP) sepFree_UNKNOWN.crFree) h2,
      rfl⟩
  | tcp4 sa da sp dp a b p q hsa hda hsp hdp =>
    exact ⟨_, tcp_body_crFree sepFree_TCP4 (ipv4Text_sepFree hsa) (ipv4Text_sepFree hda)
      (portText_sepFree hsp) (portText_sepFree hdp), rfl⟩
  | tcp6 sa da sp dp a b p q hsa hda hsp hdp =>
    exact ⟨_, tcp_body_crFree sepFree_TCP6 (hip6 sa a hsa).2 (hip6 da b hda).2
      (portText_sepFree hsp) (portText_sepFree hdp), rfl⟩

theorem valid_of_ascii (x : B) (h : ∀ c ∈ x, c < 0x80) : Utf8.valid x = true := by
  induction x with
  | nil => rfl
  | cons c cs ih =>
    unfold Utf8.valid
    rw [if_pos (h c (List.mem_cons_self ..))]
    exact ih (fun d hd => h d (List.mem_cons_of_mem _ hd))

theorem isCharBoundary_length (x : B) : Utf8.isCharBoundary x x.length = true := by
  unfold Utf8.isCharBoundary
  split
  · rfl
  · simp

/-- The window of a proper prefix of a well-formed line is the prefix itself. -/
theorem window_prefix (ip6 : B → Ip6 → Prop)
    (hip6 : ∀ s a, ip6 s a → StdNet.parseIpv6 s = some a ∧ V1.sepFree s)
    {w : B} {addr : V1.Addresses} (hl : Spec.V1.Line ip6 w addr) (hlen : w.length ≤ 107)
    (n : Nat) (hn : n < w.length) : windowLength (w.take n) = some n := by
  obtain ⟨body, hb, rfl⟩ := line_body ip6 hip6 hl
  exact windowLength_take hb n hn hlen

/-- **Streaming (`TryFrom<&[u8]>`).** -/
theorem parseBytes_prefix_incomplete (ip6 : B → Ip6 → Prop)
    (hip6 : ∀ s a, ip6 s a → StdNet.parseIpv6 s = some a ∧ V1.sepFree s)
    {w : B} {addr : V1.Addresses} (hl : Spec.V1.Line ip6 w addr) (hlen : w.length ≤ 107)
    (hascii : ∀ c ∈ w, c < 0x80) (rest : B) (n : Nat) (hn : n < w.length) :
    ∃ e, V1.parseBytes ((w ++ rest).take n) = .error e ∧ e.isIncomplete = true := by
  obtain ⟨e, he, hinc⟩ := parseHeader_prefix_incomplete ip6 hip6 hl hlen n hn
  have htake : (w ++ rest).take n = w.take n := List.take_append_of_le_length (Nat.le_of_lt hn)
  have hl' : (w.take n).length = n := by rw [List.length_take]; omega
  have hval : Utf8.valid (w.take n) = true :=
    valid_of_ascii _ (fun c hc => hascii c (List.mem_of_mem_take hc))
  have htt : (w.take n).take n = w.take n := List.take_of_length_le (by omega)
  refine ⟨.parse e, ?_, hinc⟩
  rw [htake]
  unfold parseBytes
  rw [window_prefix ip6 hip6 hl hlen n hn]
  simp only [htt, hval, he, Bool.not_true, Bool.false_eq_true, if_false]

set_option linter.unusedVariables false in
/-- **Streaming (`TryFrom<&str>`).** (`hascii` is kept for symmetry with the byte entry point; the
`&str` path does not need it: the window of a prefix is the whole prefix, whose end is always a
character boundary.) -/
theorem parseStr_prefix_incomplete (ip6 : B → Ip6 → Prop)
    (hip6 : ∀ s a, ip6 s a → StdNet.parseIpv6 s = some a ∧ V1.sepFree s)
    {w : B} {addr : V1.Addresses} (hl : Spec.V1.Line ip6 w addr) (hlen : w.length ≤ 107)
    (hascii : ∀ c ∈ w, c < 0x80) (rest : B) (n : Nat) (hn : n < w.length) :
    ∃ e, V1.parseStr ((w ++ rest).take n) = .error e ∧ e.isIncomplete = true := by
  obtain ⟨e, he, hinc⟩ := parseHeader_prefix_incomplete ip6 hip6 hl hlen n hn
  have htake : (w ++ rest).take n = w.take n := List.take_append_of_le_length (Nat.le_of_lt hn)
  have hl' : (w.take n).length = n := by rw [List.length_take]; omega
  have hcb : Utf8.isCharBoundary (w.take n) n = true := by
    have := isCharBoundary_length (w.take n)
    rwa [hl'] at this
  have htt : (w.take n).take n = w.take n := List.take_of_length_le (by omega)
  refine ⟨e, ?_, hinc⟩
  rw [htake]
  unfold parseStr
  rw [window_prefix ip6 hip6 hl hlen n hn]
  simp only [htt, hcb, he, Bool.not_true, Bool.false_eq_true, if_false]

/-- The same statements phrased with the crate's `PartialResult::is_incomplete`. -/
theorem parseBytes_prefix_isIncomplete (ip6 : B → Ip6 → Prop)
    (hip6 : ∀ s a, ip6 s a → StdNet.parseIpv6 s = some a ∧ V1.sepFree s)
    {w : B} {addr : V1.Addresses} (hl : Spec.V1.Line ip6 w addr) (hlen : w.length ≤ 107)
    (hascii : ∀ c ∈ w, c < 0x80) (rest : B) (n : Nat) (hn : n < w.length) :
    Auto.isIncompleteV1 (V1.parseBytes ((w ++ rest).take n)) = true := by
  obtain ⟨e, he, hinc⟩ := parseBytes_prefix_incomplete ip6 hip6 hl hlen hascii rest n hn
  rw [he]; exact hinc

theorem parseStr_prefix_isIncomplete (ip6 : B → Ip6 → Prop)
    (hip6 : ∀ s a, ip6 s a → StdNet.parseIpv6 s = some a ∧ V1.sepFree s)
    {w : B} {addr : V1.Addresses} (hl : Spec.V1.Line ip6 w addr) (hlen : w.length ≤ 107)
    (hascii : ∀ c ∈ w, c < 0x80) (rest : B) (n : Nat) (hn : n < w.length) :
    Auto.isIncompleteV1Str (V1.parseStr ((w ++ rest).take n)) = true := by
  obtain ⟨e, he, hinc⟩ := parseStr_prefix_incomplete ip6 hip6 hl hlen hascii rest n hn
  rw [he]; exact hinc

/-! ## Sharper forms: the exact condition on the prefix -/

/-- **Streaming (`TryFrom<&str>`)**, without the (unused) US-ASCII hypothesis of
`parseStr_prefix_incomplete`: the window of a proper prefix is the whole prefix, whose end is
always a character boundary. -/
theorem parseStr_prefix_incomplete' (ip6 : B → Ip6 → Prop)
    (hip6 : ∀ s a, ip6 s a → StdNet.parseIpv6 s = some a ∧ V1.sepFree s)
    {w : B} {addr : V1.Addresses} (hl : Spec.V1.Line ip6 w addr) (hlen : w.length ≤ 107)
    (rest : B) (n : Nat) (hn : n < w.length) :
    ∃ e, V1.parseStr ((w ++ rest).take n) = .error e ∧ e.isIncomplete = true := by
  obtain ⟨e, he, hinc⟩ := parseHeader_prefix_incomplete ip6 hip6 hl hlen n hn
  have htake : (w ++ rest).take n = w.take n := List.take_append_of_le_length (Nat.le_of_lt hn)
  have hl' : (w.take n).length = n := by rw [List.length_take]; omega
  have hcb : Utf8.isCharBoundary (w.take n) n = true := by
    have := isCharBoundary_length (w.take n)
    rwa [hl'] at this
  have htt : (w.take n).take n = w.take n := List.take_of_length_le (by omega)
  refine ⟨e, ?_, hinc⟩
  rw [htake]
  unfold parseStr
  rw [window_prefix ip6 hip6 hl hlen n hn]
  simp only [htt, hcb, he, Bool.not_true, Bool.false_eq_true, if_false]

/-- **Streaming (`TryFrom<&[u8]>`)** under the exact condition: the prefix itself is valid UTF-8
(the cut is on a character boundary). -/
theorem parseBytes_prefix_incomplete' (ip6 : B → Ip6 → Prop)
    (hip6 : ∀ s a, ip6 s a → StdNet.parseIpv6 s = some a ∧ V1.sepFree s)
    {w : B} {addr : V1.Addresses} (hl : Spec.V1.Line ip6 w addr) (hlen : w.length ≤ 107)
    (rest : B) (n : Nat) (hn : n < w.length) (hval : Utf8.valid ((w ++ rest).take n) = true) :
    ∃ e, V1.parseBytes ((w ++ rest).take n) = .error e ∧ e.isIncomplete = true := by
  obtain ⟨e, he, hinc⟩ := parseHeader_prefix_incomplete ip6 hip6 hl hlen n hn
  have htake : (w ++ rest).take n = w.take n := List.take_append_of_le_length (Nat.le_of_lt hn)
  have hl' : (w.take n).length = n := by rw [List.length_take]; omega
  have htt : (w.take n).take n = w.take n := List.take_of_length_le (by omega)
  rw [htake] at hval ⊢
  refine ⟨.parse e, ?_, hinc⟩
  unfold parseBytes
  rw [window_prefix ip6 hip6 hl hlen n hn]
  simp only [htt, hval, he, Bool.not_true, Bool.false_eq_true, if_false]

/-- The complement: a proper prefix that is not valid UTF-8 (a cut inside a character) is the
terminal `InvalidUtf8`. -/
theorem parseBytes_prefix_invalidUtf8 (ip6 : B → Ip6 → Prop)
    (hip6 : ∀ s a, ip6 s a → StdNet.parseIpv6 s = some a ∧ V1.sepFree s)
    {w : B} {addr : V1.Addresses} (hl : Spec.V1.Line ip6 w addr) (hlen : w.length ≤ 107)
    (rest : B) (n : Nat) (hn : n < w.length) (hval : Utf8.valid ((w ++ rest).take n) = false) :
    V1.parseBytes ((w ++ rest).take n) = .error .invalidUtf8 := by
  have htake : (w ++ rest).take n = w.take n := List.take_append_of_le_length (Nat.le_of_lt hn)
  have hl' : (w.take n).length = n := by rw [List.length_take]; omega
  have htt : (w.take n).take n = w.take n := List.take_of_length_le (by omega)
  rw [htake] at hval ⊢
  unfold parseBytes
  rw [window_prefix ip6 hip6 hl hlen n hn]
  simp only [htt, hval, Bool.not_false, if_true]

end V1.Prefix
