import PppModel.Lemmas.V1Text
import PppModel.Lemmas.V1Term

/-!
# `parse_header` accepts exactly the well-formed v1 lines (on a window)
-/

namespace V1

/-- The IPv6 text predicate used until the RFC 4291 grammar equivalence is available. -/
def ip6Model (s : B) (a : Ip6) : Prop := StdNet.parseIpv6 s = some a ∧ sepFree s

/-- What the entry points hand to `parseHeader`: nothing after the byte that follows the first CR. -/
def IsWindow (w : B) : Prop := ∀ i, firstCR w = some i → w.length ≤ i + 2

/-! ## CR-free strings -/

theorem crFree_nil : crFree [] := by intro c h; cases h

theorem crFree_cons {c : UInt8} {s : B} : crFree (c :: s) ↔ c ≠ CR ∧ crFree s := by
  simp [crFree]

theorem crFree_append {a b : B} : crFree (a ++ b) ↔ crFree a ∧ crFree b := by
  simp only [crFree, List.mem_append]
  constructor
  · intro h; exact ⟨fun c hc => h c (.inl hc), fun c hc => h c (.inr hc)⟩
  · rintro ⟨h1, h2⟩ c (hc | hc)
    · exact h1 c hc
    · exact h2 c hc

theorem sepFree_PROXY : sepFree PROXY := by unfold sepFree; decide
theorem sepFree_TCP4 : sepFree TCP4 := by unfold sepFree; decide
theorem sepFree_TCP6 : sepFree TCP6 := by unfold sepFree; decide
theorem sepFree_UNKNOWN : sepFree UNKNOWN := by unfold sepFree; decide

/-- A separator that is not a CR is a space. -/
theorem sep_of_crFree {s : B} {c : UInt8} (hs : crFree s) (hc : c ∈ s) (hsep : isSep c = true) : c = SP := by
  rcases (isSep_iff c).mp hsep with h | h
  · exact h
  · exact absurd h (hs c hc)

/-! ## Lines end in the only CR -/

theorem isSuffixOf_CRLF_iff (w : B) : CRLF.isSuffixOf w = true ↔ ∃ body, w = body ++ [CR, LF] := by
  rw [List.isSuffixOf_iff_suffix]
  constructor
  · rintro ⟨t, ht⟩; exact ⟨t, ht.symm⟩
  · rintro ⟨t, ht⟩; exact ⟨t, ht.symm⟩

theorem window_of_crFree {body : B} (hb : crFree body) :
    IsWindow (body ++ [CR, LF]) ∧ firstCR (body ++ [CR, LF]) = some ((body ++ [CR, LF]).length - 2) ∧
      CRLF.isSuffixOf (body ++ [CR, LF]) = true := by
  have hf : firstCR (body ++ [CR, LF]) = some body.length := firstCR_append_cr [LF] hb
  refine ⟨?_, ?_, (isSuffixOf_CRLF_iff _).mpr ⟨body, rfl⟩⟩
  · intro i hi
    rw [hf] at hi
    cases hi
    simp
  · rw [hf]; simp

/-- On a window that ends in CR LF, the part before is CR-free. -/
theorem crFree_of_window {body : B} (hw : IsWindow (body ++ [CR, LF])) : crFree body := by
  rw [← firstCR_none_iff]
  cases hf : firstCR body with
  | none => rfl
  | some i =>
    exfalso
    have h1 := firstCR_lt hf
    have h2 := hw i (firstCR_append_of_some _ hf)
    simp at h2
    omega

/-! ## The splitter on a line -/

/-- Right-nested form of a line of six fields. -/
theorem line_nest (f0 f1 f2 f3 f4 f5 : B) (c0 c1 c2 c3 c4 c5 : UInt8) (t : B) :
    f0 ++ [c0] ++ f1 ++ [c1] ++ f2 ++ [c2] ++ f3 ++ [c3] ++ f4 ++ [c4] ++ f5 ++ c5 :: t =
      f0 ++ c0 :: (f1 ++ c1 :: (f2 ++ c2 :: (f3 ++ c3 :: (f4 ++ c4 :: (f5 ++ c5 :: t))))) := by
  simp only [List.append_assoc, List.cons_append, List.nil_append]

/-- Six separator-free fields followed by separators, then a remainder. -/
theorem splitN_six {f0 f1 f2 f3 f4 f5 : B} {c0 c1 c2 c3 c4 c5 : UInt8} (t : B)
    (h0 : sepFree f0) (h1 : sepFree f1) (h2 : sepFree f2) (h3 : sepFree f3) (h4 : sepFree f4)
    (h5 : sepFree f5) (s0 : isSep c0 = true) (s1 : isSep c1 = true) (s2 : isSep c2 = true)
    (s3 : isSep c3 = true) (s4 : isSep c4 = true) (s5 : isSep c5 = true) :
    splitN 7 (f0 ++ c0 :: (f1 ++ c1 :: (f2 ++ c2 :: (f3 ++ c3 :: (f4 ++ c4 :: (f5 ++ c5 :: t)))))) =
      [f0, f1, f2, f3, f4, f5, t] := by
  have e0 := splitN_append 5 (r := f1 ++ c1 :: (f2 ++ c2 :: (f3 ++ c3 :: (f4 ++ c4 :: (f5 ++ c5 :: t))))) h0 s0
  have e1 := splitN_append 4 (r := f2 ++ c2 :: (f3 ++ c3 :: (f4 ++ c4 :: (f5 ++ c5 :: t)))) h1 s1
  have e2 := splitN_append 3 (r := f3 ++ c3 :: (f4 ++ c4 :: (f5 ++ c5 :: t))) h2 s2
  have e3 := splitN_append 2 (r := f4 ++ c4 :: (f5 ++ c5 :: t)) h3 s3
  have e4 := splitN_append 1 (r := f5 ++ c5 :: t) h4 s4
  have e5 := splitN_append 0 (r := t) h5 s5
  simp only [Nat.reduceAdd] at e0 e1 e2 e3 e4 e5
  rw [e0, e1, e2, e3, e4, e5, splitN_one]

/-- **Forward computation.** Six separator-free fields, single spaces, CR LF. -/
theorem splitN_line {f0 f1 f2 f3 f4 f5 : B} (h0 : sepFree f0) (h1 : sepFree f1) (h2 : sepFree f2)
    (h3 : sepFree f3) (h4 : sepFree f4) (h5 : sepFree f5) :
    splitN 7 (f0 ++ [SP] ++ f1 ++ [SP] ++ f2 ++ [SP] ++ f3 ++ [SP] ++ f4 ++ [SP] ++ f5 ++ [CR, LF]) =
      [f0, f1, f2, f3, f4, f5, [LF]] := by
  rw [line_nest]
  exact splitN_six [LF] h0 h1 h2 h3 h4 h5 isSep_SP isSep_SP isSep_SP isSep_SP isSep_SP isSep_CR

/-- One step of inversion: if at least two parts come out, the input was split at a separator. -/
theorem splitN_step {n : Nat} {s a b : B} {t : List B} (h : splitN (n + 2) s = a :: b :: t) :
    ∃ c r, sepFree a ∧ isSep c = true ∧ s = a ++ c :: r ∧ splitN (n + 1) r = b :: t := by
  rcases splitN_cases n s with ⟨-, hs⟩ | ⟨a', c, r, ha, hc, hs, hsplit⟩
  · rw [hs] at h; simp at h
  · rw [hsplit] at h
    simp only [List.cons.injEq] at h
    obtain ⟨rfl, h⟩ := h
    exact ⟨c, r, ha, hc, hs, h⟩

/-- **Inversion.** Seven parts (or more) come from six separators. -/
theorem splitN_seven' {w p0 p1 p2 p3 p4 p5 p6 : B} {t : List B}
    (h : splitN 7 w = p0 :: p1 :: p2 :: p3 :: p4 :: p5 :: p6 :: t) :
    t = [] ∧ ∃ c0 c1 c2 c3 c4 c5 : UInt8,
      isSep c0 = true ∧ isSep c1 = true ∧ isSep c2 = true ∧ isSep c3 = true ∧ isSep c4 = true ∧
      isSep c5 = true ∧ sepFree p0 ∧ sepFree p1 ∧ sepFree p2 ∧ sepFree p3 ∧ sepFree p4 ∧ sepFree p5 ∧
      w = p0 ++ [c0] ++ p1 ++ [c1] ++ p2 ++ [c2] ++ p3 ++ [c3] ++ p4 ++ [c4] ++ p5 ++ [c5] ++ p6 := by
  obtain ⟨c0, r0, f0, s0, rfl, h1⟩ := splitN_step (n := 5) h
  obtain ⟨c1, r1, f1, s1, rfl, h2⟩ := splitN_step (n := 4) h1
  obtain ⟨c2, r2, f2, s2, rfl, h3⟩ := splitN_step (n := 3) h2
  obtain ⟨c3, r3, f3, s3, rfl, h4⟩ := splitN_step (n := 2) h3
  obtain ⟨c4, r4, f4, s4, rfl, h5⟩ := splitN_step (n := 1) h4
  obtain ⟨c5, r5, f5, s5, rfl, h6⟩ := splitN_step (n := 0) h5
  simp only [Nat.zero_add, splitN_one, List.cons.injEq] at h6
  obtain ⟨rfl, rfl⟩ := h6
  refine ⟨rfl, c0, c1, c2, c3, c4, c5, s0, s1, s2, s3, s4, s5, f0, f1, f2, f3, f4, f5, ?_⟩
  simp only [List.append_assoc, List.cons_append, List.nil_append]

theorem splitN_seven {w p0 p1 p2 p3 p4 p5 p6 : B} (h : splitN 7 w = [p0, p1, p2, p3, p4, p5, p6]) :
    ∃ c0 c1 c2 c3 c4 c5 : UInt8,
      isSep c0 = true ∧ isSep c1 = true ∧ isSep c2 = true ∧ isSep c3 = true ∧ isSep c4 = true ∧
      isSep c5 = true ∧ sepFree p0 ∧ sepFree p1 ∧ sepFree p2 ∧ sepFree p3 ∧ sepFree p4 ∧ sepFree p5 ∧
      w = p0 ++ [c0] ++ p1 ++ [c1] ++ p2 ++ [c2] ++ p3 ++ [c3] ++ p4 ++ [c4] ++ p5 ++ [c5] ++ p6 :=
  (splitN_seven' h).2


/-! ## Well-formed lines are windows -/

theorem crFree_SP : crFree [SP] := by unfold crFree; decide

theorem crFree_fields {f0 f1 f2 f3 f4 f5 : B} (h0 : sepFree f0) (h1 : sepFree f1) (h2 : sepFree f2)
    (h3 : sepFree f3) (h4 : sepFree f4) (h5 : sepFree f5) :
    crFree (f0 ++ [SP] ++ f1 ++ [SP] ++ f2 ++ [SP] ++ f3 ++ [SP] ++ f4 ++ [SP] ++ f5) := by
  simp only [crFree_append]
  exact ⟨⟨⟨⟨⟨⟨⟨⟨⟨⟨h0.crFree, crFree_SP⟩, h1.crFree⟩, crFree_SP⟩, h2.crFree⟩, crFree_SP⟩, h3.crFree⟩,
    crFree_SP⟩, h4.crFree⟩, crFree_SP⟩, h5.crFree⟩

/-- A well-formed line is a CR-free body followed by CR LF. -/
theorem line_shape {w : B} {addr : Addresses} (hl : Spec.V1.Line ip6Model w addr) :
    ∃ body, crFree body ∧ w = body ++ [CR, LF] := by
  cases hl with
  | unknown tail h1 h2 =>
    refine ⟨PROXY ++ [SP] ++ UNKNOWN ++ tail, ?_, rfl⟩
    simp only [crFree_append]
    exact ⟨⟨⟨sepFree_PROXY.crFree, crFree_SP⟩, sepFree_UNKNOWN.crFree⟩, h2⟩
  | tcp4 sa da sp dp a b p q hsa hda hsp hdp =>
    exact ⟨_, crFree_fields sepFree_PROXY sepFree_TCP4 (ipv4Text_sepFree hsa) (ipv4Text_sepFree hda)
      (portText_sepFree hsp) (portText_sepFree hdp), rfl⟩
  | tcp6 sa da sp dp a b p q hsa hda hsp hdp =>
    exact ⟨_, crFree_fields sepFree_PROXY sepFree_TCP6 hsa.2 hda.2
      (portText_sepFree hsp) (portText_sepFree hdp), rfl⟩

/-- The only CR of a well-formed line is the one before the final LF. -/
theorem line_window {w : B} {addr : Addresses} (hl : Spec.V1.Line ip6Model w addr) :
    IsWindow w ∧ firstCR w = some (w.length - 2) ∧ CRLF.isSuffixOf w = true := by
  obtain ⟨body, hb, rfl⟩ := line_shape hl
  exact window_of_crFree hb


/-! ## `parseHeader` once the first two parts are known -/

theorem split_facts {w proto : B} {rest : List B} (hs : splitN 7 w = PROXY :: proto :: rest) :
    w.isEmpty = false ∧ (w == PROXY) = false := by
  constructor
  · cases w with
    | nil => simp [splitN, splitOnce] at hs
    | cons c cs => rfl
  · have : w ≠ PROXY := by
      rintro rfl
      have := splitN_sepFree 6 sepFree_PROXY
      rw [this] at hs
      simp at hs
    simpa using this

theorem parseHeader_tcp4 {w : B} {rest : List B} (hlen : w.length ≤ 107)
    (hs : splitN 7 w = PROXY :: TCP4 :: rest) :
    parseHeader w =
      match parseAddresses StdNet.parseIpv4 rest (terminated w) with
      | .error e => .error e
      | .ok (sa, da, sp, dp, rest') =>
        finish w (.tcp4 { srcAddr := sa, srcPort := sp, dstAddr := da, dstPort := dp }) rest' := by
  obtain ⟨hne, hneq⟩ := split_facts hs
  have hs' : splitN PARTS w = PROXY :: TCP4 :: rest := hs
  unfold parseHeader
  rw [if_neg (by simp [hne]), if_neg (by simp only [MAX_LENGTH]; omega), hs']
  simp only [hneq, Bool.and_false, Bool.false_eq_true, if_false, ne_eq, not_true_eq_false, if_true]
  generalize parseAddresses StdNet.parseIpv4 rest (terminated w) = r
  rcases r with e | ⟨sa, da, sp, dp, rest'⟩ <;> rfl


theorem parseHeader_tcp6 {w : B} {rest : List B} (hlen : w.length ≤ 107)
    (hs : splitN 7 w = PROXY :: TCP6 :: rest) :
    parseHeader w =
      match parseAddresses StdNet.parseIpv6 rest (terminated w) with
      | .error e => .error e
      | .ok (sa, da, sp, dp, rest') =>
        finish w (.tcp6 { srcAddr := sa, srcPort := sp, dstAddr := da, dstPort := dp }) rest' := by
  obtain ⟨hne, hneq⟩ := split_facts hs
  have hs' : splitN PARTS w = PROXY :: TCP6 :: rest := hs
  have h64 : TCP6 ≠ TCP4 := by decide
  unfold parseHeader
  rw [if_neg (by simp [hne]), if_neg (by simp only [MAX_LENGTH]; omega), hs']
  simp only [hneq, Bool.and_false, Bool.false_eq_true, if_false, ne_eq, not_true_eq_false, if_true]
  rw [if_neg h64]
  generalize parseAddresses StdNet.parseIpv6 rest (terminated w) = r
  rcases r with e | ⟨sa, da, sp, dp, rest'⟩ <;> rfl

theorem parseHeader_unknown {w : B} {rest : List B} (hlen : w.length ≤ 107)
    (hs : splitN 7 w = PROXY :: UNKNOWN :: rest) (hsuf : CRLF.isSuffixOf w = true) :
    parseHeader w = .ok { header := w, addresses := .unknown } := by
  obtain ⟨hne, hneq⟩ := split_facts hs
  have hs' : splitN PARTS w = PROXY :: UNKNOWN :: rest := hs
  have hu4 : UNKNOWN ≠ TCP4 := by decide
  have hu6 : UNKNOWN ≠ TCP6 := by decide
  unfold parseHeader
  rw [if_neg (by simp [hne]), if_neg (by simp only [MAX_LENGTH]; omega), hs']
  simp only [hneq, Bool.and_false, Bool.false_eq_true, if_false, ne_eq, not_true_eq_false, if_true]
  rw [if_neg hu4, if_neg hu6, if_pos hsuf]


/-! ## The field reader and the final check -/

theorem takeFields_five (sa da sp dp x : B) (tl : List B) (term : Bool) :
    takeFields (sa :: da :: sp :: dp :: x :: tl) term = .ok (sa, da, sp, dp, x :: tl) := by
  simp [takeFields, Option.filter]

/-- If `takeFields` leaves something, nothing was missing. -/
theorem takeFields_ok_cons {parts : List B} {term : Bool} {sa da sp dp x : B} {tl : List B}
    (h : takeFields parts term = .ok (sa, da, sp, dp, x :: tl)) :
    parts = sa :: da :: sp :: dp :: x :: tl := by
  rcases parts with _ | ⟨p0, _ | ⟨p1, _ | ⟨p2, _ | ⟨p3, t⟩⟩⟩⟩
  · cases term <;> simp [takeFields, Option.filter] at h
  · cases term <;> simp [takeFields, Option.filter] at h
  · cases term <;> simp [takeFields, Option.filter] at h
  · cases term <;> simp [takeFields, Option.filter] at h
  · simp only [takeFields, List.head?_cons, List.tail_cons, Option.some_or] at h
    split at h
    · cases h
    · rename_i dp' hdp
      simp only [Except.ok.injEq, Prod.mk.injEq] at h
      obtain ⟨rfl, rfl, rfl, rfl, rfl⟩ := h
      simp [Option.filter] at hdp
      rw [hdp]

theorem parseAddresses_of_fields {α : Type} (f : B → Option α) {parts : List B} {term : Bool}
    {sa da sp dp : B} {rest : List B} {a b : α} {p q : UInt16}
    (ht : takeFields parts term = .ok (sa, da, sp, dp, rest))
    (ha : f sa = some a) (hb : f da = some b) (hp : parsePort sp = .ok p) (hq : parsePort dp = .ok q) :
    parseAddresses f parts term = .ok (a, b, p, q, rest) := by
  simp only [parseAddresses, ht, ha, hb, hp, hq]

theorem parseAddresses_ok {α : Type} {f : B → Option α} {parts : List B} {term : Bool}
    {rest : List B} {a b : α} {p q : UInt16}
    (h : parseAddresses f parts term = .ok (a, b, p, q, rest)) :
    ∃ sa da sp dp, takeFields parts term = .ok (sa, da, sp, dp, rest) ∧
      f sa = some a ∧ f da = some b ∧ parsePort sp = .ok p ∧ parsePort dp = .ok q := by
  unfold parseAddresses at h
  split at h
  · cases h
  · rename_i sa da sp dp rest' ht
    split at h
    · cases h
    · rename_i a' ha
      split at h
      · cases h
      · rename_i b' hb
        split at h
        · cases h
        · rename_i p' hp
          split at h
          · cases h
          · rename_i q' hq
            simp only [Except.ok.injEq, Prod.mk.injEq] at h
            obtain ⟨rfl, rfl, rfl, rfl, rfl⟩ := h
            exact ⟨sa, da, sp, dp, ht, ha, hb, hp, hq⟩

theorem finish_of {w : B} (addr : Addresses) (tl : List B) (hsuf : CRLF.isSuffixOf w = true) :
    finish w addr ([LF] :: tl) = .ok { header := w, addresses := addr } := by
  simp [finish, hsuf, Option.filter]

theorem finish_ok {w : B} {addr : Addresses} {rest : List B} {h : Header}
    (hf : finish w addr rest = .ok h) :
    (∃ tl, rest = [LF] :: tl) ∧ CRLF.isSuffixOf w = true ∧ h = { header := w, addresses := addr } := by
  unfold finish at hf
  split at hf
  · cases hf
  · rename_i nl hnl
    split at hf
    · cases hf
    · rename_i hcond
      simp only [Except.ok.injEq] at hf
      simp only [ne_eq, Bool.or_eq_true, decide_eq_true_eq, Bool.not_eq_true', not_or, Decidable.not_not,
        Bool.not_eq_false] at hcond
      obtain ⟨rfl, hsuf⟩ := hcond
      refine ⟨?_, hsuf, hf.symm⟩
      cases rest with
      | nil => simp at hnl
      | cons y tl =>
        simp only [List.head?_cons, Option.filter_eq_some_iff, Option.some.injEq] at hnl
        exact ⟨tl, by rw [hnl.1]⟩

/-! ## Well-formed lines are accepted -/

theorem parseHeader_ok_of_line {w : B} {addr : Addresses} (hlen : w.length ≤ 107)
    (hl : Spec.V1.Line ip6Model w addr) : parseHeader w = .ok { header := w, addresses := addr } := by
  have hsuf := (line_window hl).2.2
  cases hl with
  | unknown tail h1 h2 =>
    have hcr : ∃ c r, isSep c = true ∧ tail ++ [CR, LF] = c :: r := by
      rcases h1 with rfl | h1
      · exact ⟨CR, [LF], isSep_CR, rfl⟩
      · cases tail with
        | nil => simp at h1
        | cons c t =>
          simp only [List.head?_cons, Option.some.injEq] at h1
          subst h1
          exact ⟨SP, t ++ [CR, LF], isSep_SP, rfl⟩
    obtain ⟨c, r, hc, hcr⟩ := hcr
    have e : Spec.V1.kwPROXY ++ [Spec.V1.SP] ++ Spec.V1.kwUNKNOWN ++ tail ++ [Spec.V1.CR, Spec.V1.LF] =
        PROXY ++ SP :: (UNKNOWN ++ c :: r) := by
      rw [← hcr]
      show PROXY ++ [SP] ++ UNKNOWN ++ tail ++ [CR, LF] = _
      simp only [List.append_assoc, List.cons_append, List.nil_append]
    rw [e] at hlen hsuf ⊢
    have hs : splitN 7 (PROXY ++ SP :: (UNKNOWN ++ c :: r)) = PROXY :: UNKNOWN :: splitN 5 r := by
      have e0 := splitN_append 5 (r := UNKNOWN ++ c :: r) sepFree_PROXY isSep_SP
      have e1 := splitN_append 4 (r := r) sepFree_UNKNOWN hc
      simp only [Nat.reduceAdd] at e0 e1
      rw [e0, e1]
    exact parseHeader_unknown hlen hs hsuf
  | tcp4 sa da sp dp a b p q hsa hda hsp hdp =>
    have hs := splitN_line sepFree_PROXY sepFree_TCP4 (ipv4Text_sepFree hsa) (ipv4Text_sepFree hda)
      (portText_sepFree hsp) (portText_sepFree hdp)
    rw [parseHeader_tcp4 hlen hs,
      parseAddresses_of_fields _ (takeFields_five _ _ _ _ _ _ _) ((ipv4Text_iff _ _).mp hsa)
        ((ipv4Text_iff _ _).mp hda) ((portText_iff _ _).mp hsp) ((portText_iff _ _).mp hdp)]
    exact finish_of _ _ hsuf
  | tcp6 sa da sp dp a b p q hsa hda hsp hdp =>
    have hs := splitN_line sepFree_PROXY sepFree_TCP6 hsa.2 hda.2
      (portText_sepFree hsp) (portText_sepFree hdp)
    rw [parseHeader_tcp6 hlen hs,
      parseAddresses_of_fields _ (takeFields_five _ _ _ _ _ _ _) hsa.1 hda.1
        ((portText_iff _ _).mp hsp) ((portText_iff _ _).mp hdp)]
    exact finish_of _ _ hsuf


/-! ## What an accepted header looks like -/

/-- Walking through `parseHeader`'s if-chain on a success. -/
theorem parseHeader_ok_inv {w : B} {h : Header} (hok : parseHeader w = .ok h) :
    w.length ≤ 107 ∧ ∃ proto rest, splitN 7 w = PROXY :: proto :: rest ∧
      ((proto = TCP4 ∧ ∃ a b p q rest',
          parseAddresses StdNet.parseIpv4 rest (terminated w) = .ok (a, b, p, q, rest') ∧
          finish w (.tcp4 { srcAddr := a, srcPort := p, dstAddr := b, dstPort := q }) rest' = .ok h) ∨
       (proto = TCP6 ∧ ∃ a b p q rest',
          parseAddresses StdNet.parseIpv6 rest (terminated w) = .ok (a, b, p, q, rest') ∧
          finish w (.tcp6 { srcAddr := a, srcPort := p, dstAddr := b, dstPort := q }) rest' = .ok h) ∨
       (proto = UNKNOWN ∧ CRLF.isSuffixOf w = true ∧ h = { header := w, addresses := .unknown })) := by
  unfold parseHeader at hok
  split at hok
  · cases hok
  · split at hok
    · cases hok
    · rename_i hlen
      simp only [MAX_LENGTH, gt_iff_lt, Nat.not_lt] at hlen
      refine ⟨hlen, ?_⟩
      split at hok
      · cases hok
      · rename_i pfx rest hs
        split at hok
        · cases hok
        · split at hok
          · cases hok
          · rename_i hpfx
            simp only [ne_eq, Decidable.not_not] at hpfx
            subst hpfx
            split at hok
            · cases hok
            · rename_i proto rest
              refine ⟨proto, rest, hs, ?_⟩
              split at hok
              · rename_i hp
                left
                refine ⟨hp, ?_⟩
                split at hok
                · cases hok
                · rename_i a b p q rest' hpa
                  exact ⟨a, b, p, q, rest', hpa, hok⟩
              · split at hok
                · rename_i hp
                  right; left
                  refine ⟨hp, ?_⟩
                  split at hok
                  · cases hok
                  · rename_i a b p q rest' hpa
                    exact ⟨a, b, p, q, rest', hpa, hok⟩
                · split at hok
                  · rename_i hp
                    right; right
                    refine ⟨hp, ?_⟩
                    split at hok
                    · rename_i hsuf
                      simp only [Except.ok.injEq] at hok
                      exact ⟨hsuf, hok.symm⟩
                    · split at hok <;> cases hok
                  · split at hok
                    · cases hok
                    · split at hok <;> cases hok


/-- The shape of an accepted address line: on a window that ends in CR LF and splits into
`PROXY`, the protocol, four fields and `"\n"`, every separator but the last is a single space. -/
theorem tcp_line_shape {w proto sa da sp dp : B} {tl : List B} (hw : IsWindow w)
    (hs : splitN 7 w = PROXY :: proto :: sa :: da :: sp :: dp :: [LF] :: tl)
    (hsuf : CRLF.isSuffixOf w = true) :
    sepFree sa ∧ sepFree da ∧ sepFree sp ∧ sepFree dp ∧
      w = PROXY ++ [SP] ++ proto ++ [SP] ++ sa ++ [SP] ++ da ++ [SP] ++ sp ++ [SP] ++ dp ++ [CR, LF] := by
  obtain ⟨-, c0, c1, c2, c3, c4, c5, s0, s1, s2, s3, s4, s5, -, -, f2, f3, f4, f5, e⟩ := splitN_seven' hs
  obtain ⟨body, hb⟩ := (isSuffixOf_CRLF_iff w).mp hsuf
  have e' : w = (PROXY ++ [c0] ++ proto ++ [c1] ++ sa ++ [c2] ++ da ++ [c3] ++ sp ++ [c4] ++ dp) ++ [c5, LF] := by
    rw [e]; simp only [List.append_assoc, List.cons_append, List.nil_append]
  have hinj := List.append_inj' (e'.symm.trans hb) rfl
  obtain ⟨hbody, h5⟩ := hinj
  simp only [List.cons.injEq, and_true] at h5
  subst h5
  have hcf : crFree body := crFree_of_window (hb ▸ hw)
  rw [← hbody] at hcf
  have m0 : c0 = SP := sep_of_crFree hcf (by simp) s0
  have m1 : c1 = SP := sep_of_crFree hcf (by simp) s1
  have m2 : c2 = SP := sep_of_crFree hcf (by simp) s2
  have m3 : c3 = SP := sep_of_crFree hcf (by simp) s3
  have m4 : c4 = SP := sep_of_crFree hcf (by simp) s4
  subst m0 m1 m2 m3 m4
  exact ⟨f2, f3, f4, f5, e'⟩


/-- Where the final CR LF sits relative to a separator. -/
theorem suffix_cases {X r body : B} {c : UInt8} (h : X ++ c :: r = body ++ [CR, LF]) (hc : c ≠ LF) :
    (c = CR ∧ r = [LF] ∧ X = body) ∨ ∃ r0, r = r0 ++ [CR, LF] ∧ body = X ++ c :: r0 := by
  rcases List.append_eq_append_iff.mp h with ⟨a', h1, h2⟩ | ⟨c', h1, h2⟩
  · -- `X` is a prefix of `body`
    rcases a' with _ | ⟨y, a''⟩
    · simp only [List.nil_append, List.cons.injEq] at h2
      left; exact ⟨h2.1, h2.2, by simpa using h1.symm⟩
    · simp only [List.cons_append, List.cons.injEq] at h2
      obtain ⟨rfl, rfl⟩ := h2
      right; exact ⟨a'', rfl, h1⟩
  · -- `body` is a prefix of `X`
    rcases c' with _ | ⟨y, _ | ⟨z, c''⟩⟩
    · simp only [List.nil_append, List.cons.injEq] at h2
      left; exact ⟨h2.1.symm, h2.2.symm, by simpa using h1⟩
    · simp only [List.cons_append, List.nil_append, List.cons.injEq] at h2
      exact absurd h2.2.1.symm hc
    · simp at h2

/-- The shape of an accepted `UNKNOWN` line. -/
theorem unknown_line_shape {w : B} {rest : List B} (hw : IsWindow w)
    (hs : splitN 7 w = PROXY :: UNKNOWN :: rest) (hsuf : CRLF.isSuffixOf w = true) :
    ∃ tail, (tail = [] ∨ tail.head? = some SP) ∧ crFree tail ∧
      w = PROXY ++ [SP] ++ UNKNOWN ++ tail ++ [CR, LF] := by
  obtain ⟨body, hb⟩ := (isSuffixOf_CRLF_iff w).mp hsuf
  have hcf : crFree body := crFree_of_window (hb ▸ hw)
  obtain ⟨c0, r, -, s0, e0, hs1⟩ := splitN_step (n := 5) hs
  have hLF : ∀ c, isSep c = true → c ≠ LF := by
    intro c hc e; rw [e] at hc; exact absurd hc (by decide)
  rcases splitN_cases 4 r with ⟨-, hr⟩ | ⟨a, c1, r1, -, s1, e1, hr⟩
  · -- nothing after `UNKNOWN`: no room for CR LF
    exfalso
    have hr' : splitN (5 + 1) r = [r] := hr
    rw [hr'] at hs1
    simp only [List.cons.injEq] at hs1
    obtain ⟨rfl, -⟩ := hs1
    rw [e0] at hb
    rcases suffix_cases hb (hLF c0 s0) with ⟨-, h, -⟩ | ⟨r0, h, -⟩
    · exact absurd h (by decide)
    · have := congrArg List.getLast? h
      simp [UNKNOWN, LF] at this
  · have hr' : splitN (5 + 1) r = a :: splitN (4 + 1) r1 := hr
    rw [hr'] at hs1
    simp only [List.cons.injEq] at hs1
    obtain ⟨rfl, -⟩ := hs1
    subst e1
    have e : w = (PROXY ++ [c0] ++ UNKNOWN) ++ c1 :: r1 := by
      rw [e0]; simp only [List.append_assoc, List.cons_append, List.nil_append]
    rcases suffix_cases (e.symm.trans hb) (hLF c1 s1) with ⟨rfl, rfl, hX⟩ | ⟨r0, rfl, hX⟩
    · -- `UNKNOWN` directly followed by CR LF
      rw [← hX] at hcf
      have m0 : c0 = SP := sep_of_crFree hcf (by simp) s0
      subst m0
      exact ⟨[], Or.inl rfl, crFree_nil, by rw [e]; simp⟩
    · rw [hX] at hcf
      have m0 : c0 = SP := sep_of_crFree hcf (by simp) s0
      have m1 : c1 = SP := sep_of_crFree hcf (by simp) s1
      subst m0 m1
      refine ⟨SP :: r0, Or.inr rfl, ?_, by rw [e]; simp⟩
      simp only [crFree_append, crFree_cons] at hcf
      exact crFree_cons.mpr ⟨by decide, hcf.2.2⟩


/-! ## Accepted headers are well-formed lines -/

theorem line_of_parseHeader_ok {w : B} (hw : IsWindow w) {h : Header} (hok : parseHeader w = .ok h) :
    h.header = w ∧ w.length ≤ 107 ∧ Spec.V1.Line ip6Model w h.addresses := by
  obtain ⟨hlen, proto, rest, hs, hcase⟩ := parseHeader_ok_inv hok
  rcases hcase with ⟨rfl, a, b, p, q, rest', hpa, hfin⟩ | ⟨rfl, a, b, p, q, rest', hpa, hfin⟩ |
    ⟨rfl, hsuf, rfl⟩
  · -- TCP4
    obtain ⟨⟨tl, rfl⟩, hsuf, rfl⟩ := finish_ok hfin
    obtain ⟨sa, da, sp, dp, htf, ha, hb, hp, hq⟩ := parseAddresses_ok hpa
    rw [takeFields_ok_cons htf] at hs
    obtain ⟨-, -, -, -, e⟩ := tcp_line_shape hw hs hsuf
    refine ⟨rfl, hlen, ?_⟩
    show Spec.V1.Line ip6Model w _
    rw [e]
    exact Spec.V1.Line.tcp4 sa da sp dp a b p q ((ipv4Text_iff _ _).mpr ha) ((ipv4Text_iff _ _).mpr hb)
      ((portText_iff _ _).mpr hp) ((portText_iff _ _).mpr hq)
  · -- TCP6
    obtain ⟨⟨tl, rfl⟩, hsuf, rfl⟩ := finish_ok hfin
    obtain ⟨sa, da, sp, dp, htf, ha, hb, hp, hq⟩ := parseAddresses_ok hpa
    rw [takeFields_ok_cons htf] at hs
    obtain ⟨fa, fb, -, -, e⟩ := tcp_line_shape hw hs hsuf
    refine ⟨rfl, hlen, ?_⟩
    show Spec.V1.Line ip6Model w _
    rw [e]
    exact Spec.V1.Line.tcp6 sa da sp dp a b p q ⟨ha, fa⟩ ⟨hb, fb⟩
      ((portText_iff _ _).mpr hp) ((portText_iff _ _).mpr hq)
  · -- UNKNOWN
    obtain ⟨tail, h1, h2, e⟩ := unknown_line_shape hw hs hsuf
    refine ⟨rfl, hlen, ?_⟩
    show Spec.V1.Line ip6Model w _
    rw [e]
    exact Spec.V1.Line.unknown tail h1 h2

/-- **Main theorem.** On a window, `parse_header` accepts exactly the well-formed lines of at
most 107 bytes and reports exactly the line and the addresses it denotes. -/
theorem parseHeader_ok_iff (w : B) (hw : IsWindow w) (h : Header) :
    parseHeader w = .ok h ↔
      h.header = w ∧ w.length ≤ 107 ∧ Spec.V1.Line ip6Model w h.addresses := by
  constructor
  · exact line_of_parseHeader_ok hw
  · rintro ⟨h1, h2, h3⟩
    cases h with
    | mk hd ad =>
      simp only at h1 h3
      subst h1
      exact parseHeader_ok_of_line h2 h3


end V1
