import PppModel.Spec.Utf8
import PppModel.Std.Utf8
import PppModel.Lemmas.Utf8

/-!
# `Utf8.valid` (the byte-range table) against the arithmetic specification

`Row c` restates the rows of Table 3-7 on the numeric values of the bytes.  `valid_row` /
`row_app` connect `valid` with `Row` (one encoded scalar at a time); `row_encode` /
`row_decode` connect `Row` with `Spec.Utf8.encode` on scalar values, by linear arithmetic.
The equivalence `valid_iff_wellFormed` is then an induction on the length of the string
(left to right) and on the list of scalars (right to left).
-/

namespace Utf8
open Spec.Utf8

/-- Table 3-7 rows, on the numeric values of the bytes. -/
inductive Row : B → Prop
  | r1 (b0 : UInt8) : b0.toNat < 0x80 → Row [b0]
  | r2 (b0 b1 : UInt8) : 0xC2 ≤ b0.toNat → b0.toNat ≤ 0xDF → 0x80 ≤ b1.toNat → b1.toNat ≤ 0xBF →
      Row [b0, b1]
  | r3 (b0 b1 b2 : UInt8) :
      (b0.toNat = 0xE0 ∧ 0xA0 ≤ b1.toNat ∧ b1.toNat ≤ 0xBF) ∨
      (((0xE1 ≤ b0.toNat ∧ b0.toNat ≤ 0xEC) ∨ (0xEE ≤ b0.toNat ∧ b0.toNat ≤ 0xEF)) ∧
        0x80 ≤ b1.toNat ∧ b1.toNat ≤ 0xBF) ∨
      (b0.toNat = 0xED ∧ 0x80 ≤ b1.toNat ∧ b1.toNat ≤ 0x9F) →
      0x80 ≤ b2.toNat → b2.toNat ≤ 0xBF → Row [b0, b1, b2]
  | r4 (b0 b1 b2 b3 : UInt8) :
      (b0.toNat = 0xF0 ∧ 0x90 ≤ b1.toNat ∧ b1.toNat ≤ 0xBF) ∨
      (0xF1 ≤ b0.toNat ∧ b0.toNat ≤ 0xF3 ∧ 0x80 ≤ b1.toNat ∧ b1.toNat ≤ 0xBF) ∨
      (b0.toNat = 0xF4 ∧ 0x80 ≤ b1.toNat ∧ b1.toNat ≤ 0x8F) →
      0x80 ≤ b2.toNat → b2.toNat ≤ 0xBF → 0x80 ≤ b3.toNat → b3.toNat ≤ 0xBF → Row [b0, b1, b2, b3]

theorem valid_row (x : B) (h : valid x = true) :
    x = [] ∨ ∃ c r, x = c ++ r ∧ Row c ∧ valid r = true := by
  fun_cases valid x
  · left; rfl
  all_goals right
  all_goals try (exfalso; unfold valid at h; simp [*] at h; done)
  all_goals (unfold valid at h; simp only [*] at h)
  all_goals simp [isCont, UInt8.le_iff_toNat_le, UInt8.lt_iff_toNat_lt, ← UInt8.toNat_inj] at *
  · exact ⟨[_], _, rfl, .r1 _ (by omega), h⟩
  · exact ⟨[_, _], _, rfl, .r2 _ _ (by omega) (by omega) (by omega) (by omega), h.2⟩
  · exact ⟨[_, _, _], _, rfl, .r3 _ _ _ (by omega) (by omega) (by omega), h.2⟩
  · exact ⟨[_, _, _], _, rfl, .r3 _ _ _ (by omega) (by omega) (by omega), h.2⟩
  · exact ⟨[_, _, _], _, rfl, .r3 _ _ _ (by omega) (by omega) (by omega), h.2⟩
  · exact ⟨[_, _, _, _], _, rfl, .r4 _ _ _ _ (by omega) (by omega) (by omega) (by omega) (by omega), h.2⟩
  · exact ⟨[_, _, _, _], _, rfl, .r4 _ _ _ _ (by omega) (by omega) (by omega) (by omega) (by omega), h.2⟩
  · exact ⟨[_, _, _, _], _, rfl, .r4 _ _ _ _ (by omega) (by omega) (by omega) (by omega) (by omega), h.2⟩

theorem row_app (c : B) (hc : Row c) (t : B) : valid (c ++ t) = valid t := by
  cases hc with
  | r1 b0 h0 =>
    show valid (b0 :: t) = valid t
    conv => lhs; unfold valid
    simp [isCont, UInt8.le_iff_toNat_le, UInt8.lt_iff_toNat_lt, ← UInt8.toNat_inj]
    intro; omega
  | r2 b0 b1 h0 h0' h1 h1' =>
    show valid (b0 :: b1 :: t) = valid t
    conv => lhs; unfold valid
    simp [isCont, UInt8.le_iff_toNat_le, UInt8.lt_iff_toNat_lt, ← UInt8.toNat_inj]
    repeat' (split <;> try omega)
    simp [*]
  | r3 b0 b1 b2 h0 h2 h2' =>
    show valid (b0 :: b1 :: b2 :: t) = valid t
    conv => lhs; unfold valid
    simp [isCont, UInt8.le_iff_toNat_le, UInt8.lt_iff_toNat_lt, ← UInt8.toNat_inj]
    repeat' (split <;> try omega)
    all_goals first | (simp; omega) | (have e : b0.toNat = 244 := by omega
                                       simp [e]; omega)
  | r4 b0 b1 b2 b3 h0 h2 h2' h3 h3' =>
    show valid (b0 :: b1 :: b2 :: b3 :: t) = valid t
    conv => lhs; unfold valid
    simp [isCont, UInt8.le_iff_toNat_le, UInt8.lt_iff_toNat_lt, ← UInt8.toNat_inj]
    repeat' (split <;> try omega)
    all_goals first | (simp; omega) | (have e : b0.toNat = 244 := by omega
                                       simp [e]; omega)

theorem toNat_ofNat_256 (n : Nat) : (UInt8.ofNat n).toNat = n % 256 := by simp

theorem ofNat_eq (n : Nat) (b : UInt8) (h : n = b.toNat) : UInt8.ofNat n = b := by
  subst h; exact UInt8.ofNat_toNat

/-- The encoding of a scalar value is a row of the table. -/
theorem row_encode (c : Nat) (hc : IsScalar c) : Row (encode c) := by
  unfold IsScalar at hc
  unfold encode
  split
  · exact .r1 _ (by rw [toNat_ofNat_256]; omega)
  split
  · exact .r2 _ _ (by rw [toNat_ofNat_256]; omega) (by rw [toNat_ofNat_256]; omega)
      (by rw [toNat_ofNat_256]; omega) (by rw [toNat_ofNat_256]; omega)
  split
  · exact .r3 _ _ _ (by simp only [toNat_ofNat_256]; omega) (by rw [toNat_ofNat_256]; omega)
      (by rw [toNat_ofNat_256]; omega)
  · exact .r4 _ _ _ _ (by simp only [toNat_ofNat_256]; omega) (by rw [toNat_ofNat_256]; omega)
      (by rw [toNat_ofNat_256]; omega) (by rw [toNat_ofNat_256]; omega) (by rw [toNat_ofNat_256]; omega)

/-- Every row of the table is the encoding of a scalar value. -/
theorem row_decode (x : B) (hx : Row x) : ∃ c, IsScalar c ∧ encode c = x := by
  cases hx with
  | r1 b0 h0 =>
    refine ⟨b0.toNat, by unfold IsScalar; omega, ?_⟩
    unfold encode
    rw [if_pos h0, UInt8.ofNat_toNat]
  | r2 b0 b1 h0 h0' h1 h1' =>
    refine ⟨(b0.toNat - 0xC0) * 64 + (b1.toNat - 0x80), by unfold IsScalar; omega, ?_⟩
    unfold encode
    rw [if_neg (by omega), if_pos (by omega)]
    rw [ofNat_eq _ b0 (by omega), ofNat_eq _ b1 (by omega)]
  | r3 b0 b1 b2 h0 h2 h2' =>
    refine ⟨(b0.toNat - 0xE0) * 4096 + (b1.toNat - 0x80) * 64 + (b2.toNat - 0x80),
      by unfold IsScalar; omega, ?_⟩
    unfold encode
    rw [if_neg (by omega), if_neg (by omega), if_pos (by omega)]
    rw [ofNat_eq _ b0 (by omega), ofNat_eq _ b1 (by omega), ofNat_eq _ b2 (by omega)]
  | r4 b0 b1 b2 b3 h0 h2 h2' h3 h3' =>
    refine ⟨(b0.toNat - 0xF0) * 262144 + (b1.toNat - 0x80) * 4096 + (b2.toNat - 0x80) * 64 +
      (b3.toNat - 0x80), by unfold IsScalar; omega, ?_⟩
    unfold encode
    rw [if_neg (by omega), if_neg (by omega), if_neg (by omega)]
    rw [ofNat_eq _ b0 (by omega), ofNat_eq _ b1 (by omega), ofNat_eq _ b2 (by omega),
      ofNat_eq _ b3 (by omega)]

theorem row_length_pos (c : B) (hc : Row c) : 0 < c.length := by
  cases hc <;> simp

/-- Appending the encoding of a scalar value in front does not change validity. -/
theorem valid_encode_append (c : Nat) (hc : IsScalar c) (t : B) :
    valid (encode c ++ t) = valid t :=
  row_app _ (row_encode c hc) t

theorem wellFormed_of_valid (x : B) (hx : valid x = true) : WellFormed x := by
  generalize hl : x.length = l
  induction l using Nat.strongRecOn generalizing x with
  | _ l ih =>
    rcases valid_row x hx with rfl | ⟨c, r, rfl, hc, hr⟩
    · exact ⟨[], by simp, rfl⟩
    · have hpos := row_length_pos c hc
      obtain ⟨cs, hcs, rfl⟩ := ih r.length (by simp at hl; omega) r hr rfl
      obtain ⟨s, hs, rfl⟩ := row_decode c hc
      refine ⟨s :: cs, ?_, by simp⟩
      intro a ha
      rcases List.mem_cons.mp ha with rfl | ha
      · exact hs
      · exact hcs a ha

theorem valid_of_wellFormed (x : B) (hx : WellFormed x) : valid x = true := by
  obtain ⟨cs, hcs, rfl⟩ := hx
  induction cs with
  | nil => rfl
  | cons c cs ih =>
    rw [List.flatMap_cons, valid_encode_append c (hcs c (by simp))]
    exact ih (fun a ha => hcs a (by simp [ha]))

/-- The byte-range table (`Utf8.valid`, Unicode Table 3-7) accepts exactly the
concatenations of shortest-form encodings of Unicode scalar values. -/
theorem valid_iff_wellFormed (x : B) : valid x = true ↔ WellFormed x :=
  ⟨wellFormed_of_valid x, valid_of_wellFormed x⟩

instance (x : B) : Decidable (WellFormed x) := decidable_of_iff _ (valid_iff_wellFormed x)

end Utf8

namespace Spec.Utf8
open _root_.Utf8

/-- Distinct scalar values have distinct encodings. -/
theorem encode_injective {a b : Nat} (ha : IsScalar a) (hb : IsScalar b)
    (h : encode a = encode b) : a = b := by
  unfold IsScalar at ha hb
  unfold encode at h
  repeat' split at h
  all_goals simp only [List.cons.injEq, and_true, reduceCtorEq, and_false] at h
  all_goals simp only [← UInt8.toNat_inj, toNat_ofNat_256] at h
  all_goals omega

/-! ## The specification is not vacuous -/

/-- "é" (U+00E9). -/
example : WellFormed [0xC3, 0xA9] := ⟨[0xE9], by simp [IsScalar], by decide⟩
example : encode 0xE9 = [0xC3, 0xA9] := by decide
example : encode 0x20AC = [0xE2, 0x82, 0xAC] := by decide
example : encode 0x1F600 = [0xF0, 0x9F, 0x98, 0x80] := by decide
/-- Overlong encoding of U+0000. -/
example : ¬ WellFormed [0xC0, 0x80] := by decide
/-- The surrogate U+D800. -/
example : ¬ WellFormed [0xED, 0xA0, 0x80] := by decide
/-- Beyond U+10FFFF. -/
example : ¬ WellFormed [0xF4, 0x90, 0x80, 0x80] := by decide
/-- A lone continuation byte, and a truncated sequence. -/
example : ¬ WellFormed [0x80] := by decide
example : ¬ WellFormed [0xE2, 0x82] := by decide
example : WellFormed [0x68, 0xC3, 0xA9, 0xE2, 0x82, 0xAC, 0xF0, 0x9F, 0x98, 0x80] := by decide

end Spec.Utf8

