import PppModel.Basic

/-!
# Byte-level lemmas used by every property proof
-/

theorem forall_uint8 (P : UInt8 → Prop) (h : ∀ n : Fin 256, P (UInt8.ofNat n.val)) : ∀ b, P b := by
  intro b
  have := h ⟨b.toNat, b.toNat_lt⟩
  simpa using this

theorem be16_lt (hi lo : UInt8) : be16 hi lo < 65536 := by
  have := hi.toNat_lt; have := lo.toNat_lt
  simp only [be16]; omega

theorem be16_be16Bytes (n : Nat) (h : n < 65536) :
    be16 (UInt8.ofNat (n / 256)) (UInt8.ofNat (n % 256)) = n := by
  simp [be16]; omega

theorem be16Bytes_be16 (hi lo : UInt8) : be16Bytes (be16 hi lo) = [hi, lo] := by
  have := hi.toNat_lt; have := lo.toNat_lt
  simp only [be16Bytes, be16]
  congr 1
  · apply UInt8.toNat_inj.mp; simp; omega
  · congr 1
    apply UInt8.toNat_inj.mp; simp

@[simp] theorem be16Bytes_length (n : Nat) : (be16Bytes n).length = 2 := rfl

theorem portOf_portBytes (p : UInt16) :
    portOf (UInt8.ofNat (p.toNat / 256)) (UInt8.ofNat (p.toNat % 256)) = p := by
  have := p.toNat_lt
  simp only [portOf]
  rw [be16_be16Bytes _ (by omega)]
  simp

theorem portBytes_portOf (hi lo : UInt8) : portBytes (portOf hi lo) = [hi, lo] := by
  have h := be16_lt hi lo
  simp only [portBytes, portOf]
  have : (UInt16.ofNat (be16 hi lo)).toNat = be16 hi lo := by
    simp; omega
  rw [this, be16Bytes_be16]

@[simp] theorem byteAt_cons_zero (a : UInt8) (l : B) : byteAt (a :: l) 0 = a := rfl
@[simp] theorem byteAt_cons_succ (a : UInt8) (l : B) (i : Nat) : byteAt (a :: l) (i + 1) = byteAt l i := by
  simp [byteAt]

theorem byteAt_append_left {x y : B} {i : Nat} (h : i < x.length) : byteAt (x ++ y) i = byteAt x i := by
  simp [byteAt, List.getElem?_append_left h]

theorem byteAt_append_right {x y : B} {i : Nat} (h : x.length ≤ i) :
    byteAt (x ++ y) i = byteAt y (i - x.length) := by
  simp [byteAt, List.getElem?_append_right h]

theorem byteAt_take {x : B} {i n : Nat} (h : i < n) : byteAt (x.take n) i = byteAt x i := by
  simp [byteAt, h]

theorem byteAt_drop {x : B} {i n : Nat} : byteAt (x.drop n) i = byteAt x (n + i) := by
  simp [byteAt]

theorem drop_eq_byteAt_cons {x : B} {i : Nat} (h : i < x.length) :
    x.drop i = byteAt x i :: x.drop (i + 1) := by
  rw [List.drop_eq_getElem_cons h]
  simp [byteAt, h]

/-- A list that is long enough splits into its first `n` elements one by one. -/
theorem split4 {x : B} {i : Nat} (h : i + 4 ≤ x.length) :
    x = x.take i ++ [byteAt x i, byteAt x (i + 1), byteAt x (i + 2), byteAt x (i + 3)] ++ x.drop (i + 4) := by
  conv => lhs; rw [← List.take_append_drop i x]
  rw [drop_eq_byteAt_cons (by omega : i < x.length), drop_eq_byteAt_cons (by omega : i + 1 < x.length),
      drop_eq_byteAt_cons (by omega : i + 2 < x.length), drop_eq_byteAt_cons (by omega : i + 3 < x.length)]
  simp

theorem take_add4 {x : B} {i : Nat} (h : i + 4 ≤ x.length) :
    x.take (i + 4) = x.take i ++ [byteAt x i, byteAt x (i + 1), byteAt x (i + 2), byteAt x (i + 3)] := by
  rw [List.take_add]
  congr 1
  rw [drop_eq_byteAt_cons (by omega : i < x.length), drop_eq_byteAt_cons (by omega : i + 1 < x.length),
      drop_eq_byteAt_cons (by omega : i + 2 < x.length), drop_eq_byteAt_cons (by omega : i + 3 < x.length)]
  simp

/-- `take`/`drop` through a prefix of known length. -/
theorem take_len_add_append {pre r : B} {n k : Nat} (h : pre.length = n) :
    (pre ++ r).take (n + k) = pre ++ r.take k := by
  subst h; simp [List.take_append, List.take_of_length_le]

theorem drop_len_append {pre r : B} {n : Nat} (h : pre.length = n) : (pre ++ r).drop n = r := by
  subst h; simp

theorem isPrefixOf_iff_prefix {x y : B} : x.isPrefixOf y = true ↔ x <+: y := by
  simp
