import PppModel.Lemmas.Builder

/-!
# The builder: exact success condition of a whole call history

`Lemmas/Builder.lean` shows that a successful run returns the reference output
and that a run whose payload fits in 65535 bytes succeeds. This file closes the
gap: `run = if <arithmetic predicate on lengths> then reference else none`.

The writer refuses a write only when the buffer already holds more than
`writerLimit = 65551` bytes *at the start of a non-empty chunk*; so whether a
history succeeds depends only on the chunk lengths, never on byte contents.
-/

namespace V2
open Spec.Builder

/-! ## arithmetic success predicates -/

/-- chunk lengths a payload hands to the writer (`none` = refused up front) -/
def Payload.chunkLens (p : Payload) : Option (List Nat) := p.chunks.map (·.map List.length)

/-- the guard on a buffer of `n` bytes for successive chunks of the given lengths -/
def lensOk : Nat → List Nat → Prop
  | _, [] => True
  | n, l :: ls => (l = 0 ∨ n ≤ writerLimit) ∧ lensOk (n + l) ls

instance lensOk.instDecidable : (n : Nat) → (ls : List Nat) → Decidable (lensOk n ls)
  | _, [] => isTrue trivial
  | n, l :: ls =>
    have := lensOk.instDecidable (n + l) ls
    inferInstanceAs (Decidable ((l = 0 ∨ n ≤ writerLimit) ∧ lensOk (n + l) ls))

/-- `lensOk` on an optional list of lengths; `none` (refused up front) fails. -/
def lensOkOpt (n : Nat) : Option (List Nat) → Prop
  | none => False
  | some ls => lensOk n ls

instance lensOkOpt.instDecidable (n : Nat) : (o : Option (List Nat)) → Decidable (lensOkOpt n o)
  | none => isFalse (fun h => h)
  | some ls => inferInstanceAs (Decidable (lensOk n ls))

/-- one `write_to` succeeds on a buffer of `n` bytes -/
def Payload.okAt (p : Payload) (n : Nat) : Prop :=
  ∃ ls, p.chunkLens = some ls ∧ lensOk n ls ∧ (∀ t, p = .type t → n ≤ writerLimit)

/-- The `write` (rather than `write_all`) of a type code adds nothing to the
guard on its single one-byte chunk: `okAt` is the chunk guard alone. -/
theorem Payload.okAt_iff (p : Payload) (n : Nat) : p.okAt n ↔ lensOkOpt n p.chunkLens := by
  constructor
  · rintro ⟨ls, h1, h2, -⟩
    rw [h1]; exact h2
  · intro h
    cases hc : p.chunkLens with
    | none => rw [hc] at h; exact h.elim
    | some ls =>
      rw [hc] at h
      refine ⟨ls, hc, h, ?_⟩
      rintro t rfl
      simp only [Payload.chunkLens, Payload.chunks, Option.map_some, List.map_cons, List.map_nil,
        List.length_cons, List.length_nil, Option.some.injEq] at hc
      subst hc
      rcases h.1 with h0 | h0
      · simp at h0
      · exact h0

instance Payload.okAt.instDecidable (p : Payload) (n : Nat) : Decidable (p.okAt n) :=
  decidable_of_iff _ (Payload.okAt_iff p n).symm

/-- total length of the chunks (0 if refused) -/
def Payload.encLen (p : Payload) : Nat := (p.chunkLens.getD []).sum

/-- successive payloads; the buffer grows by `encLen` -/
def manyOk : Nat → List Payload → Prop
  | _, [] => True
  | n, p :: ps => p.okAt n ∧ manyOk (n + p.encLen) ps

instance manyOk.instDecidable : (n : Nat) → (ps : List Payload) → Decidable (manyOk n ps)
  | _, [] => isTrue trivial
  | n, p :: ps =>
    have := manyOk.instDecidable (n + p.encLen) ps
    inferInstanceAs (Decidable (p.okAt n ∧ manyOk (n + p.encLen) ps))

/-- one builder call succeeds when the buffer (after `write_header`) holds `n` bytes -/
def opOk (n : Nat) : Op → Prop
  | .reserve _ => True
  | .setLength _ => True
  | .writePayload p => p.okAt n
  | .writePayloads ps => manyOk n ps
  | .writeTlv k v => (Payload.tlv k v).okAt n

instance opOk.instDecidable (n : Nat) : (op : Op) → Decidable (opOk n op)
  | .reserve _ => isTrue trivial
  | .setLength _ => isTrue trivial
  | .writePayload p => inferInstanceAs (Decidable (p.okAt n))
  | .writePayloads ps => inferInstanceAs (Decidable (manyOk n ps))
  | .writeTlv k v => inferInstanceAs (Decidable ((Payload.tlv k v).okAt n))

/-- bytes the call appends on success -/
def opLen : Op → Nat
  | .reserve _ => 0
  | .setLength _ => 0
  | .writePayload p => p.encLen
  | .writePayloads ps => (ps.map Payload.encLen).sum
  | .writeTlv k v => (Payload.tlv k v).encLen

/-- a whole call history from a buffer of `n` bytes -/
def opsOk : Nat → List Op → Prop
  | _, [] => True
  | n, op :: ops => opOk n op ∧ opsOk (n + opLen op) ops

instance opsOk.instDecidable : (n : Nat) → (ops : List Op) → Decidable (opsOk n ops)
  | _, [] => isTrue trivial
  | n, op :: ops =>
    have := opsOk.instDecidable (n + opLen op) ops
    inferInstanceAs (Decidable (opOk n op ∧ opsOk (n + opLen op) ops))

/-- bytes a whole history appends after the address block -/
def payloadLen (ops : List Op) : Nat := (ops.map opLen).sum

/-! ## lengths: `encLen`, `opLen`, `payloadLen` against the specified encodings -/

theorem chunkLens_of_chunks {p : Payload} {cs : List B} (h : p.chunks = some cs) :
    p.chunkLens = some (cs.map List.length) := by
  simp only [Payload.chunkLens, h, Option.map_some]

theorem chunks_of_chunkLens {p : Payload} {ls : List Nat} (h : p.chunkLens = some ls) :
    ∃ cs, p.chunks = some cs ∧ ls = cs.map List.length := by
  simp only [Payload.chunkLens] at h
  cases hc : p.chunks with
  | none => rw [hc] at h; cases h
  | some cs =>
    rw [hc] at h
    simp only [Option.map_some, Option.some.injEq] at h
    exact ⟨cs, rfl, h.symm⟩

theorem encLen_of_enc {p : Payload} {e : B} (he : enc p = some e) : p.encLen = e.length := by
  have hc := chunks_spec p
  rw [he] at hc
  cases hcs : p.chunks with
  | none => rw [hcs] at hc; cases hc
  | some cs =>
    rw [hcs] at hc
    simp only [Option.map_some, Option.some.injEq] at hc
    subst hc
    simp only [Payload.encLen, chunkLens_of_chunks hcs, Option.getD_some, List.length_flatten]

theorem encAll_len {ps : List Payload} {e : B} (he : encAll ps = some e) :
    (ps.map Payload.encLen).sum = e.length := by
  induction ps generalizing e with
  | nil => simp only [encAll, Option.some.injEq] at he; subst he; rfl
  | cons p ps ih =>
    simp only [encAll] at he
    cases h1 : enc p with
    | none => simp [h1] at he
    | some e1 =>
      cases h2 : encAll ps with
      | none => simp [h1, h2] at he
      | some e2 =>
        simp only [h1, h2, Option.some.injEq] at he; subst he
        simp only [List.map_cons, List.sum_cons, List.length_append, encLen_of_enc h1, ih h2]

theorem opLen_eq_sum (op : Op) : opLen op = ((opPayloads op).map Payload.encLen).sum := by
  cases op <;> simp [opLen, opPayloads]

/-- `opLen` is the length of what the call appends, whenever its payloads are encodable. -/
theorem opLen_of_encAll {op : Op} {e : B} (he : encAll (opPayloads op) = some e) :
    opLen op = e.length := by
  rw [opLen_eq_sum, encAll_len he]

theorem payloadLen_nil : payloadLen [] = 0 := rfl

theorem payloadLen_cons (op : Op) (ops : List Op) :
    payloadLen (op :: ops) = opLen op + payloadLen ops := by
  simp only [payloadLen, List.map_cons, List.sum_cons]

theorem payloadLen_eq_sum (ops : List Op) :
    payloadLen ops = ((ops.flatMap opPayloads).map Payload.encLen).sum := by
  induction ops with
  | nil => rfl
  | cons op ops ih =>
    simp only [payloadLen_cons, List.flatMap_cons, List.map_append, List.sum_append, ih, opLen_eq_sum]

/-- `payloadLen` is the length of the specified body, whenever that exists. -/
theorem payloadLen_of_body {ops : List Op} {e : B} (he : encAll (ops.flatMap opPayloads) = some e) :
    payloadLen ops = e.length := by
  rw [payloadLen_eq_sum, encAll_len he]

/-! ## one `write_to`, and a run of them -/

/-- The writer's guard depends on lengths only. -/
theorem guardOk_iff_lensOk (w : Writer) (cs : List B) :
    guardOk w cs ↔ lensOk w.length (cs.map List.length) := by
  induction cs generalizing w with
  | nil => simp only [guardOk, List.map_nil, lensOk]
  | cons c cs ih =>
    simp only [guardOk, List.map_cons, lensOk, ih (w ++ c), List.length_append,
      List.length_eq_zero_iff]

/-- **Exact success condition of one `write_to`.** -/
theorem writeTo_isOk_iff (p : Payload) (w : Writer) :
    (∃ r, p.writeTo w = .ok r) ↔ p.okAt w.length := by
  constructor
  · rintro ⟨⟨n, w'⟩, hr⟩
    obtain ⟨cs, h1, h2, h3, -, -⟩ := (writeTo_ok_iff p w n w').mp hr
    exact ⟨cs.map List.length, chunkLens_of_chunks h1, (guardOk_iff_lensOk w cs).mp h2, h3⟩
  · rintro ⟨ls, h1, h2, h3⟩
    obtain ⟨cs, hc, rfl⟩ := chunks_of_chunkLens h1
    exact ⟨_, (writeTo_ok_iff p w _ _).mpr ⟨cs, hc, (guardOk_iff_lensOk w cs).mpr h2, h3, rfl, rfl⟩⟩

/-- A payload that is written is encodable. -/
theorem okAt_enc {p : Payload} {n : Nat} (h : p.okAt n) : ∃ e, enc p = some e := by
  obtain ⟨ls, h1, -, -⟩ := h
  obtain ⟨cs, hc, -⟩ := chunks_of_chunkLens h1
  exact ⟨cs.flatten, by rw [← chunks_spec, hc]; rfl⟩

/-- **Exact success condition of a run of `write_to` calls.** -/
theorem writeMany_isSome_iff (ps : List Payload) (w : Writer) :
    (∃ w', writeMany w ps = some w') ↔ manyOk w.length ps := by
  induction ps generalizing w with
  | nil => simp only [writeMany, manyOk, iff_true]; exact ⟨w, rfl⟩
  | cons p ps ih =>
    simp only [writeMany, manyOk]
    cases hp : p.writeTo w with
    | error e =>
      simp only [reduceCtorEq, exists_false, false_iff]
      rintro ⟨h1, -⟩
      obtain ⟨r, hr⟩ := (writeTo_isOk_iff p w).mpr h1
      rw [hp] at hr; cases hr
    | ok r =>
      obtain ⟨n, w1⟩ := r
      have hok : p.okAt w.length := (writeTo_isOk_iff p w).mp ⟨_, hp⟩
      obtain ⟨e, he, rfl, -⟩ := writeTo_ok p w n w1 hp
      simp only [ih, hok, true_and, List.length_append, encLen_of_enc he]

theorem manyOk_encAll {ps : List Payload} {n : Nat} (h : manyOk n ps) : ∃ e, encAll ps = some e := by
  induction ps generalizing n with
  | nil => exact ⟨[], rfl⟩
  | cons p ps ih =>
    obtain ⟨h1, h2⟩ := h
    obtain ⟨e1, he1⟩ := okAt_enc h1
    obtain ⟨e2, he2⟩ := ih h2
    exact ⟨e1 ++ e2, by simp only [encAll, he1, he2]⟩

/-! ## one builder call -/

/-- **Exact success condition of one builder call** from a state of known shape:
the buffer after `write_header` holds the 16 fixed bytes, the address block and
the payload written so far. -/
theorem step_isSome_iff {b vc afp addr len bd} (h : Shape b vc afp addr len bd) (op : Op) :
    (∃ b', b.step op = some b') ↔ opOk (16 + (Spec.V2.addrBytes addr).length + bd.length) op := by
  obtain ⟨b1, l0, hw, hsh, hh⟩ := writeHeader_shape h
  cases op with
  | reserve n =>
    simp only [opOk, iff_true]
    cases hb : b.header <;> simp [Builder.step, hb]
  | setLength l =>
    simp only [opOk, iff_true]
    exact ⟨_, rfl⟩
  | writePayload p =>
    simp only [Builder.step, hw, Builder.writeInternal, hh, Option.getD_some, opOk]
    rw [← hdrOf_length vc afp addr l0 bd, ← writeTo_isOk_iff]
    cases hp : p.writeTo (hdrOf vc afp addr l0 bd) with
    | error e => simp
    | ok r => simp
  | writePayloads ps =>
    simp only [Builder.step, hw, hh, Option.getD_some, opOk]
    rw [← hdrOf_length vc afp addr l0 bd, ← writeMany_isSome_iff]
    cases hp : writeMany (hdrOf vc afp addr l0 bd) ps with
    | none => simp
    | some w1 => simp
  | writeTlv k v =>
    simp only [Builder.step, hw, Builder.writeInternal, hh, Option.getD_some, opOk]
    rw [← hdrOf_length vc afp addr l0 bd, ← writeTo_isOk_iff]
    cases hp : (Payload.tlv k v).writeTo (hdrOf vc afp addr l0 bd) with
    | error e => simp
    | ok r => simp

theorem opOk_encAll {op : Op} {n : Nat} (h : opOk n op) : ∃ e, encAll (opPayloads op) = some e := by
  cases op with
  | reserve _ => exact ⟨[], rfl⟩
  | setLength _ => exact ⟨[], rfl⟩
  | writePayload p =>
    obtain ⟨e, he⟩ := okAt_enc (show p.okAt n from h)
    exact ⟨e ++ [], by simp only [opPayloads, encAll, he]⟩
  | writePayloads ps => exact manyOk_encAll (show manyOk n ps from h)
  | writeTlv k v =>
    obtain ⟨e, he⟩ := okAt_enc (show (Payload.tlv k v).okAt n from h)
    exact ⟨e ++ [], by simp only [opPayloads, encAll, he]⟩

/-! ## a whole call history -/

/-- **Exact success condition of a call history** (before `build`). -/
theorem runFrom_isSome_iff {b vc afp addr len bd} (h : Shape b vc afp addr len bd) (ops : List Op) :
    (∃ b', Builder.runFrom b ops = some b') ↔
      opsOk (16 + (Spec.V2.addrBytes addr).length + bd.length) ops := by
  induction ops generalizing b len bd with
  | nil => simp only [Builder.runFrom, opsOk, iff_true]; exact ⟨b, rfl⟩
  | cons op ops ih =>
    simp only [Builder.runFrom, opsOk]
    have hstep := step_isSome_iff h op
    cases hs : b.step op with
    | none =>
      simp only [reduceCtorEq, exists_false, false_iff]
      rintro ⟨h1, -⟩
      obtain ⟨b', hb'⟩ := hstep.mpr h1
      rw [hs] at hb'; cases hb'
    | some b1 =>
      have hok := hstep.mp ⟨b1, hs⟩
      obtain ⟨e, he, hsh1⟩ := step_shape h op b1 hs
      have := ih hsh1
      rw [List.length_append, ← Nat.add_assoc, ← opLen_of_encAll he] at this
      simp only [this, hok, true_and]

/-- A history all of whose writes are accepted has a specified body. -/
theorem opsOk_body {ops : List Op} {n : Nat} (h : opsOk n ops) :
    ∃ e, encAll (ops.flatMap opPayloads) = some e := by
  induction ops generalizing n with
  | nil => exact ⟨[], rfl⟩
  | cons op ops ih =>
    obtain ⟨h1, h2⟩ := h
    obtain ⟨e1, he1⟩ := opOk_encAll h1
    obtain ⟨e2, he2⟩ := ih h2
    exact ⟨e1 ++ e2, by simp only [List.flatMap_cons, encAll_append, he1, he2]⟩

/-- **MAIN: the run of a call history, exactly.** Every write must pass the
writer's guard (`opsOk`, on lengths only, starting from the 16 fixed bytes and
the address block), and unless an explicit length is in force the payload must
fit the 16-bit length field; then the result is the reference output, otherwise
the run fails. -/
theorem run_exact {b vc afp addr} (h : Shape b vc afp addr none []) (ops : List Op) :
    b.run ops =
      if opsOk (16 + (Spec.V2.addrBytes addr).length) ops ∧
          (lengthInForce ops ≠ none ∨ (Spec.V2.addrBytes addr).length + payloadLen ops ≤ 65535)
      then reference vc afp addr ops else none := by
  have hiff := runFrom_isSome_iff h ops
  simp only [List.length_nil, Nat.add_zero] at hiff
  by_cases hok : opsOk (16 + (Spec.V2.addrBytes addr).length) ops
  · obtain ⟨b', hrf⟩ := hiff.mpr hok
    obtain ⟨e, he, hsh⟩ := runFrom_shape h ops b' hrf
    simp only [List.nil_append] at hsh
    have hb : b.run ops = buildOf vc afp addr (lengthInForce ops) e := by
      simp only [Builder.run, hrf]
      rw [build_shape hsh]; rfl
    rw [hb, reference_eq vc afp addr ops e he, payloadLen_of_body he]
    simp only [hok, true_and, buildOf]
    cases hl : lengthInForce ops with
    | some l => simp
    | none =>
      simp only [ne_eq, not_true_eq_false, false_or, Option.getD_none]
  · have hnone : Builder.runFrom b ops = none := by
      cases hrf : Builder.runFrom b ops with
      | none => rfl
      | some b' => exact absurd (hiff.mp ⟨b', hrf⟩) hok
    simp only [Builder.run, hnone, hok, false_and, if_false]

theorem run_exact_new (vc afp : UInt8) (ops : List Op) :
    (Builder.new vc afp).run ops =
      if opsOk 16 ops ∧ (lengthInForce ops ≠ none ∨ payloadLen ops ≤ 65535)
      then reference vc afp .unspec ops else none := by
  have := run_exact (shape_new vc afp) ops
  simpa [Spec.V2.addrBytes] using this

theorem run_exact_with (vc : UInt8) (t : Transport) (a : Addresses) (ops : List Op) :
    (Builder.withAddresses vc t a).run ops =
      if opsOk (16 + (Spec.V2.addrBytes a).length) ops ∧
          (lengthInForce ops ≠ none ∨ (Spec.V2.addrBytes a).length + payloadLen ops ≤ 65535)
      then reference vc (afpByte a.family t) a ops else none :=
  run_exact (shape_withAddresses vc t a) ops

/-! ## corollaries -/

/-- When every write is accepted the reference output exists. -/
theorem reference_isSome_of_opsOk {ops : List Op} {n : Nat} (h : opsOk n ops) (vc afp : UInt8)
    (addr : Addresses) : ∃ out, reference vc afp addr ops = some out := by
  obtain ⟨e, he⟩ := opsOk_body h
  exact ⟨_, reference_eq vc afp addr ops e he⟩

/-- (i) The run fails iff some write is refused by the writer (or up front), or
no explicit length is in force and the final length does not fit 16 bits. -/
theorem run_none_iff {b vc afp addr} (h : Shape b vc afp addr none []) (ops : List Op) :
    b.run ops = none ↔
      ¬ opsOk (16 + (Spec.V2.addrBytes addr).length) ops ∨
      (lengthInForce ops = none ∧ 65535 < (Spec.V2.addrBytes addr).length + payloadLen ops) := by
  rw [run_exact h ops]
  by_cases hok : opsOk (16 + (Spec.V2.addrBytes addr).length) ops
  · obtain ⟨out, hout⟩ := reference_isSome_of_opsOk hok vc afp addr
    by_cases hl : lengthInForce ops = none
    · by_cases hf : (Spec.V2.addrBytes addr).length + payloadLen ops ≤ 65535
      · simp only [hok, hl, hf, hout, ne_eq, not_true_eq_false, false_or, and_self, if_true,
          reduceCtorEq, true_and, false_iff]
        omega
      · simp only [hok, hl, hf, ne_eq, not_true_eq_false, false_or, and_false, if_false,
          true_and, true_iff]
        omega
    · simp only [hok, hl, hout, ne_eq, not_false_eq_true, true_or, and_self, if_true,
        reduceCtorEq, not_true_eq_false, false_and, or_self]
  · simp only [hok, false_and, if_false, not_false_eq_true, true_or]

/-- The run succeeds iff every write is accepted and the final length fits (or is explicit). -/
theorem run_isSome_iff {b vc afp addr} (h : Shape b vc afp addr none []) (ops : List Op) :
    (∃ out, b.run ops = some out) ↔
      opsOk (16 + (Spec.V2.addrBytes addr).length) ops ∧
      (lengthInForce ops ≠ none ∨ (Spec.V2.addrBytes addr).length + payloadLen ops ≤ 65535) := by
  have hn := run_none_iff h ops
  cases hr : b.run ops with
  | none =>
    rw [hr] at hn
    have := hn.mp rfl
    simp only [reduceCtorEq, exists_false, false_iff, not_and, not_or, Nat.not_le, ne_eq,
      Decidable.not_not]
    intro hok
    rcases this with h1 | h1
    · exact absurd hok h1
    · exact h1
  | some out =>
    rw [hr] at hn
    simp only [reduceCtorEq, false_iff, not_or, Decidable.not_not, not_and, Nat.not_lt] at hn
    refine ⟨fun _ => ⟨hn.1, ?_⟩, fun _ => ⟨out, rfl⟩⟩
    by_cases hl : lengthInForce ops = none
    · exact .inr (hn.2 hl)
    · exact .inl hl

/-- (ii) The guard is monotone: a history accepted on a longer buffer is accepted on a shorter one. -/
theorem lensOk_mono {m n : Nat} (hmn : m ≤ n) {ls : List Nat} (h : lensOk n ls) : lensOk m ls := by
  induction ls generalizing m n with
  | nil => trivial
  | cons l ls ih =>
    obtain ⟨h1, h2⟩ := h
    exact ⟨h1.imp id (fun h => Nat.le_trans hmn h), ih (Nat.add_le_add_right hmn l) h2⟩

theorem okAt_mono {m n : Nat} (hmn : m ≤ n) {p : Payload} (h : p.okAt n) : p.okAt m := by
  obtain ⟨ls, h1, h2, h3⟩ := h
  exact ⟨ls, h1, lensOk_mono hmn h2, fun t ht => Nat.le_trans hmn (h3 t ht)⟩

theorem manyOk_mono {m n : Nat} (hmn : m ≤ n) {ps : List Payload} (h : manyOk n ps) : manyOk m ps := by
  induction ps generalizing m n with
  | nil => trivial
  | cons p ps ih =>
    obtain ⟨h1, h2⟩ := h
    exact ⟨okAt_mono hmn h1, ih (Nat.add_le_add_right hmn _) h2⟩

theorem opOk_mono {m n : Nat} (hmn : m ≤ n) {op : Op} (h : opOk n op) : opOk m op := by
  cases op with
  | reserve _ => trivial
  | setLength _ => trivial
  | writePayload p => exact okAt_mono hmn (show p.okAt n from h)
  | writePayloads ps => exact manyOk_mono hmn (show manyOk n ps from h)
  | writeTlv k v => exact okAt_mono hmn (show (Payload.tlv k v).okAt n from h)

theorem opsOk_mono {m n : Nat} (hmn : m ≤ n) {ops : List Op} (h : opsOk n ops) : opsOk m ops := by
  induction ops generalizing m n with
  | nil => trivial
  | cons op ops ih =>
    obtain ⟨h1, h2⟩ := h
    exact ⟨opOk_mono hmn h1, ih (Nat.add_le_add_right hmn _) h2⟩

/-- (iii) The guard only ever bites beyond a full-size header: encodable payloads
that keep the buffer within the writer's limit are all accepted. -/
theorem lensOk_of_fits {n : Nat} {ls : List Nat} (h : n + ls.sum ≤ writerLimit) : lensOk n ls := by
  induction ls generalizing n with
  | nil => trivial
  | cons l ls ih =>
    simp only [List.sum_cons] at h
    exact ⟨.inr (by omega), ih (by omega)⟩

theorem okAt_of_fits {p : Payload} {e : B} {n : Nat} (he : enc p = some e)
    (h : n + e.length ≤ writerLimit) : p.okAt n := by
  have hl := encLen_of_enc he
  have hc := chunks_spec p
  rw [he] at hc
  cases hcs : p.chunks with
  | none => rw [hcs] at hc; cases hc
  | some cs =>
    refine ⟨_, chunkLens_of_chunks hcs, lensOk_of_fits ?_, fun _ _ => by omega⟩
    simp only [Payload.encLen, chunkLens_of_chunks hcs, Option.getD_some] at hl
    omega

theorem manyOk_of_fits {ps : List Payload} {e : B} {n : Nat} (he : encAll ps = some e)
    (h : n + e.length ≤ writerLimit) : manyOk n ps := by
  induction ps generalizing n e with
  | nil => trivial
  | cons p ps ih =>
    simp only [encAll] at he
    cases h1 : enc p with
    | none => simp [h1] at he
    | some e1 =>
      cases h2 : encAll ps with
      | none => simp [h1, h2] at he
      | some e2 =>
        simp only [h1, h2, Option.some.injEq] at he; subst he
        simp only [List.length_append] at h
        exact ⟨okAt_of_fits h1 (by omega), ih h2 (by rw [encLen_of_enc h1]; omega)⟩

theorem opOk_of_fits {op : Op} {e : B} {n : Nat} (he : encAll (opPayloads op) = some e)
    (h : n + e.length ≤ writerLimit) : opOk n op := by
  cases op with
  | reserve _ => trivial
  | setLength _ => trivial
  | writePayload p => exact (manyOk_of_fits (ps := [p]) he h).1
  | writePayloads ps => exact manyOk_of_fits (ps := ps) he h
  | writeTlv k v => exact (manyOk_of_fits (ps := [.tlv k v]) he h).1

theorem guard_only_beyond_full_header {ops : List Op} {e : B} {n : Nat}
    (he : encAll (ops.flatMap opPayloads) = some e) (h : n + e.length ≤ writerLimit) :
    opsOk n ops := by
  induction ops generalizing n e with
  | nil => trivial
  | cons op ops ih =>
    rw [List.flatMap_cons, encAll_append] at he
    cases h1 : encAll (opPayloads op) with
    | none => simp [h1] at he
    | some e1 =>
      cases h2 : encAll (ops.flatMap opPayloads) with
      | none => simp [h1, h2] at he
      | some e2 =>
        simp only [h1, h2, Option.some.injEq] at he; subst he
        simp only [List.length_append] at h
        exact ⟨opOk_of_fits h1 (by omega), ih h2 (by rw [opLen_of_encAll h1]; omega)⟩

/-- Conversely the guard is exact: a non-empty write on a buffer beyond the limit is refused. -/
theorem okAt_slice_iff (bs : B) (n : Nat) :
    (Payload.slice bs).okAt n ↔ bs.length ≤ 65535 ∧ (bs = [] ∨ n ≤ writerLimit) := by
  rw [Payload.okAt_iff]
  simp only [Payload.chunkLens, Payload.chunks]
  by_cases hb : bs.length > 65535
  · simp only [hb, if_true, Option.map_none, lensOkOpt, false_iff, not_and]
    omega
  · simp only [hb, if_false, Option.map_some, List.map_cons, List.map_nil, lensOkOpt, lensOk,
      and_true, List.length_eq_zero_iff]
    constructor
    · exact fun h => ⟨by omega, h⟩
    · exact fun h => h.2

/-- Beyond the limit only empty chunks are accepted. -/
theorem lensOk_beyond {n : Nat} (hn : writerLimit < n) (ls : List Nat) :
    lensOk n ls ↔ ∀ l ∈ ls, l = 0 := by
  induction ls generalizing n with
  | nil => simp only [lensOk, List.not_mem_nil, false_imp_iff, implies_true]
  | cons l ls ih =>
    simp only [lensOk, List.mem_cons, forall_eq_or_imp]
    constructor
    · rintro ⟨h1 | h1, h2⟩
      · exact ⟨h1, (ih (by omega)).mp h2⟩
      · omega
    · rintro ⟨h1, h2⟩
      exact ⟨.inl h1, (ih (by omega)).mpr h2⟩

/-! ## non-vacuity -/

theorem encLen_slice (bs : B) :
    (Payload.slice bs).encLen = if bs.length ≤ 65535 then bs.length else 0 := by
  by_cases h : bs.length > 65535
  · have h' : ¬ bs.length ≤ 65535 := by omega
    simp only [Payload.encLen, Payload.chunkLens, Payload.chunks, h, h', if_true, if_false,
      Option.map_none, Option.getD_none, List.sum_nil]
  · have h' : bs.length ≤ 65535 := by omega
    simp only [Payload.encLen, Payload.chunkLens, Payload.chunks, h, h', if_true, if_false,
      Option.map_some, List.map_cons, List.map_nil, Option.getD_some, List.sum_cons, List.sum_nil,
      Nat.add_zero]

/-- A 65535-byte slice, then one byte, then an empty slice, then one more byte. -/
def crossing : List Op :=
  [.writePayload (.slice (List.replicate 65535 0)), .writePayload (.slice [0]),
   .writePayload (.slice []), .writePayload (.slice [0])]

/-- The first write fills the buffer to exactly `writerLimit` (16 + 65535), the
second is still accepted (the guard reads the length *before* the write) and
takes it to 65552, an empty slice is still accepted there … -/
example : opsOk 16 (crossing.take 3) := by
  simp only [crossing, List.take, opsOk, opOk, opLen, okAt_slice_iff, encLen_slice,
    List.length_replicate, List.length_cons, List.length_nil]
  decide

/-- … and the first non-empty write after the crossing is refused. -/
example : ¬ opsOk 16 crossing := by
  simp only [crossing, opsOk, opOk, opLen, okAt_slice_iff, encLen_slice,
    List.length_replicate, List.length_cons, List.length_nil]
  decide

example (vc afp : UInt8) : (Builder.new vc afp).run crossing = none := by
  rw [run_exact_new, if_neg]
  rintro ⟨h, -⟩
  revert h
  simp only [crossing, opsOk, opOk, opLen, okAt_slice_iff, encLen_slice,
    List.length_replicate, List.length_cons, List.length_nil]
  decide

/-- With an explicit length in force the three accepted writes build the
reference output although 65536 payload bytes do not fit the length field … -/
example (vc afp : UInt8) :
    (Builder.new vc afp).run (.setLength (some 7) :: crossing.take 3) =
      reference vc afp .unspec (.setLength (some 7) :: crossing.take 3) := by
  rw [run_exact_new, if_pos]
  refine ⟨?_, .inl (by simp only [lengthInForce, lengthFrom, crossing, List.take, List.foldl]; exact Option.some_ne_none _)⟩
  simp only [crossing, List.take, opsOk, opOk, opLen, okAt_slice_iff, encLen_slice,
    List.length_replicate, List.length_cons, List.length_nil]
  decide

/-- … and without one the same accepted writes fail at `build`, on the length alone. -/
example (vc afp : UInt8) : (Builder.new vc afp).run (crossing.take 2) = none := by
  rw [run_exact_new, if_neg]
  rintro ⟨-, h | h⟩
  · exact h rfl
  · revert h
    simp only [crossing, List.take, payloadLen, List.map_cons, List.map_nil, opLen, encLen_slice,
      List.length_replicate, List.length_cons, List.length_nil, List.sum_cons, List.sum_nil]
    decide

/-! The predicates evaluate (`Decidable` instances), here by `decide` on small
values near the limit `65551`: -/

example : lensOk 16 [65535, 1, 0] := by decide
example : ¬ lensOk 16 [65535, 1, 0, 1] := by decide
example : opsOk 65551 [.writePayload (.slice [0]), .reserve 3, .writePayload (.slice []),
    .setLength none] := by decide
example : ¬ opsOk 65551 [.writePayload (.slice [0]), .writePayload (.slice [0])] := by decide
/-- a type code is a `write`, refused on a buffer beyond the limit, accepted at the limit -/
example : opsOk 65551 [.writePayload (.type .noOp)] ∧ ¬ opsOk 65552 [.writePayload (.type .noOp)] := by
  decide
/-- a TLV is three chunks: at 65551 the kind byte is accepted and the length bytes are refused -/
example : opsOk 65550 [.writeTlv 4 []] ∧ ¬ opsOk 65551 [.writeTlv 4 []] := by decide
/-- `write_payloads` threads the running length through its payloads -/
example : ¬ opsOk 65550 [.writePayloads [.slice [0, 0], .slice [], .slice [0]]] ∧
    opsOk 65550 [.writePayloads [.slice [0], .slice [], .slice [0]]] := by decide

end V2
