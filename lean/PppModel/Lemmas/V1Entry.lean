import PppModel.Lemmas.V1Accept
import PppModel.Lemmas.V1NoPanic
import PppModel.Lemmas.Utf8

/-!
# The v1 entry points on accepted inputs

`parseBytes` / `parseStr` run `parse_header` on the window `x.take n`
(`windowLength x = some n`).  This file unfolds the two entry points on a success
(`parseBytes_ok_iff_window`, `parseStr_ok_iff_window`), shows that the window is a
window in the sense of `V1.IsWindow`, and collects what is known about an accepted
header (`accepted_core`): it is a well-formed line, it is the input up to and including
the byte after the input's *first* CR, and it starts with `PROXY `.
-/

namespace V1

/-- The window handed to `parse_header` has nothing after the byte following its first CR. -/
theorem window_is_window (x : B) (n : Nat) (h : windowLength x = some n) : IsWindow (x.take n) := by
  intro i hi
  have hx : firstCR x = some i := by
    have := firstCR_append_of_some (x.drop n) hi
    rwa [List.take_append_drop] at this
  simp only [windowLength, hx, Option.some.injEq, CRLF, List.length_cons, List.length_nil] at h
  simp only [List.length_take]
  omega

/-- `TryFrom<&[u8]>` succeeds exactly when the window is valid UTF-8 and `parse_header` accepts it. -/
theorem parseBytes_ok_iff_window (x : B) (h : Header) :
    parseBytes x = .ok h ↔
      ∃ n, windowLength x = some n ∧ Utf8.valid (x.take n) = true ∧ parseHeader (x.take n) = .ok h := by
  unfold parseBytes
  cases hw : windowLength x with
  | none => simp
  | some n =>
    simp only [Option.some.injEq, exists_eq_left']
    cases hv : Utf8.valid (x.take n) with
    | false => simp
    | true =>
      simp only [Bool.not_true, Bool.false_eq_true, if_false, true_and]
      cases hp : parseHeader (x.take n) with
      | error e => simp
      | ok h' => simp

/-- `TryFrom<&str>` succeeds exactly when the window ends on a character boundary and
`parse_header` accepts it. -/
theorem parseStr_ok_iff_window (x : B) (h : Header) :
    parseStr x = .ok h ↔
      ∃ n, windowLength x = some n ∧ Utf8.isCharBoundary x n = true ∧ parseHeader (x.take n) = .ok h := by
  unfold parseStr
  cases hw : windowLength x with
  | none => simp
  | some n =>
    simp only [Option.some.injEq, exists_eq_left']
    cases hv : Utf8.isCharBoundary x n with
    | false => simp
    | true => simp

/-- Every well-formed line has at least 15 bytes (`PROXY UNKNOWN\r\n`) and starts with `PROXY `. -/
theorem line_prefix {w : B} {addr : Addresses} (hl : Spec.V1.Line ip6Model w addr) :
    15 ≤ w.length ∧ w.take 6 = PROXY ++ [SP] := by
  cases hl with
  | unknown tail h1 h2 =>
    constructor
    · simp only [List.length_append, Spec.V1.kwPROXY, Spec.V1.kwUNKNOWN, List.length_cons, List.length_nil]
      omega
    · simp [Spec.V1.kwPROXY, Spec.V1.SP, PROXY, SP]
  | tcp4 sa da sp dp a b p q hsa hda hsp hdp =>
    constructor
    · simp only [List.length_append, Spec.V1.kwPROXY, Spec.V1.kwTCP4, List.length_cons, List.length_nil]
      omega
    · simp [Spec.V1.kwPROXY, Spec.V1.SP, PROXY, SP]
  | tcp6 sa da sp dp a b p q hsa hda hsp hdp =>
    constructor
    · simp only [List.length_append, Spec.V1.kwPROXY, Spec.V1.kwTCP6, List.length_cons, List.length_nil]
      omega
    · simp [Spec.V1.kwPROXY, Spec.V1.SP, PROXY, SP]

/-- The window of an input that begins with a well-formed line is that line. -/
theorem window_of_line {hdr rest : B} {addr : Addresses} (hl : Spec.V1.Line ip6Model hdr addr) :
    firstCR (hdr ++ rest) = some (hdr.length - 2) ∧
    windowLength (hdr ++ rest) = some hdr.length ∧ (hdr ++ rest).take hdr.length = hdr := by
  obtain ⟨-, hcr, -⟩ := line_window hl
  have h15 := (line_prefix hl).1
  have hcr' := firstCR_append_of_some rest hcr
  refine ⟨hcr', ?_, List.take_left' rfl⟩
  have := windowLength_frozen_cr hcr' (by simp only [List.length_append]; omega)
  rw [this]
  congr 1
  omega

/-- What `parse_header` accepting the window of `x` means. -/
theorem accepted_core {x : B} {n : Nat} {h : Header} (hw : windowLength x = some n)
    (hp : parseHeader (x.take n) = .ok h) :
    h.header = x.take n ∧ n = h.header.length ∧ x = h.header ++ x.drop n ∧ h.header.length ≤ 107 ∧
      Spec.V1.Line ip6Model h.header h.addresses := by
  obtain ⟨h1, h2, h3⟩ := line_of_parseHeader_ok (window_is_window x n hw) hp
  have hn : n ≤ x.length := windowLength_le hw
  refine ⟨h1, ?_, ?_, h1 ▸ h2, h1 ▸ h3⟩
  · rw [h1, List.length_take]; omega
  · rw [h1, List.take_append_drop]

/-- The facts about an input that begins with a well-formed line. -/
theorem line_facts {hdr rest : B} {addr : Addresses} (hl : Spec.V1.Line ip6Model hdr addr) :
    hdr <+: hdr ++ rest ∧ CRLF.isSuffixOf hdr = true ∧
      firstCR (hdr ++ rest) = some (hdr.length - 2) ∧ 15 ≤ hdr.length ∧ hdr.take 6 = PROXY ++ [SP] :=
  ⟨List.prefix_append _ _, (line_window hl).2.2, (window_of_line hl).1, (line_prefix hl).1,
    (line_prefix hl).2⟩

end V1
