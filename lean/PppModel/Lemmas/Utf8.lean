import PppModel.Std.Utf8
import PppModel.Lemmas.Bytes

/-!
# UTF-8 validity and character boundaries

`Utf8.valid` recurses one encoded scalar at a time.  `IsChar c` collects what the
proofs below need to know about one such encoded scalar `c` (1 to 4 bytes), and
`valid_cases` says that a non-empty valid string starts with one, followed by a valid
string.  Everything else is induction on that decomposition.
-/

namespace Utf8

/-- `c` is the encoding of one scalar value, as `valid` consumes it. -/
structure IsChar (c : B) : Prop where
  pos : 0 < c.length
  head : isCont (byteAt c 0) = false
  cont : ∀ m, 0 < m → m < c.length → isCont (byteAt c m) = true
  app : ∀ t, valid (c ++ t) = valid t
  trunc : ∀ m, 0 < m → m < c.length → valid (c.take m) = false

/-! ## Single-byte facts -/

theorem cont_of_A0_BF : ∀ b : UInt8, (decide (160 ≤ b) && decide (b ≤ 191)) = true → isCont b = true := by
  apply forall_uint8; decide +kernel
theorem cont_of_80_9F : ∀ b : UInt8, (decide (128 ≤ b) && decide (b ≤ 159)) = true → isCont b = true := by
  apply forall_uint8; decide +kernel
theorem cont_of_90_BF : ∀ b : UInt8, (decide (144 ≤ b) && decide (b ≤ 191)) = true → isCont b = true := by
  apply forall_uint8; decide +kernel
theorem cont_of_80_8F : ∀ b : UInt8, (decide (128 ≤ b) && decide (b ≤ 143)) = true → isCont b = true := by
  apply forall_uint8; decide +kernel

theorem ascii_not_cont : ∀ b : UInt8, b < 0x80 → isCont b = false := by
  apply forall_uint8; decide +kernel

/-- A continuation byte is in none of the leading-byte classes. -/
theorem cont_not_lead : ∀ b : UInt8, isCont b = true →
    ¬ b < 128 ∧ (decide (194 ≤ b) && decide (b ≤ 223)) = false ∧ (b == 224) = false ∧
    (decide (225 ≤ b) && decide (b ≤ 236) || decide (238 ≤ b) && decide (b ≤ 239)) = false ∧
    (b == 237) = false ∧ (b == 240) = false ∧ (decide (241 ≤ b) && decide (b ≤ 243)) = false ∧
    (b == 244) = false := by
  apply forall_uint8; decide +kernel

theorem not_valid_of_cont (b : UInt8) (rest : B) (h : isCont b = true) : valid (b :: rest) = false := by
  obtain ⟨h1, h2, h3, h4, h5, h6, h7, h8⟩ := cont_not_lead b h
  unfold valid; simp only [h1, h2, h3, h4, h5, h6, h7, h8]; simp

/-- A valid string does not start with a continuation byte. -/
theorem head_not_cont (b : UInt8) (rest : B) (h : valid (b :: rest) = true) : isCont b = false := by
  cases hc : isCont b with
  | false => rfl
  | true => rw [not_valid_of_cont b rest hc] at h; cases h

/-! ## One encoded scalar -/

theorem isChar1 (b0 : UInt8) (h0 : b0 < 0x80) : IsChar [b0] := by
  refine ⟨by simp, by simpa using ascii_not_cont b0 h0, ?_, ?_, ?_⟩
  · intro m hm hm'; simp at hm'; omega
  · intro t; show valid (b0 :: t) = valid t
    conv => lhs; unfold valid
    simp only [h0]; simp
  · intro m hm hm'; simp at hm'; omega

theorem isChar2 (b0 b1 : UInt8)
    (e : ∀ t, valid (b0 :: b1 :: t) = (isCont b1 && valid t))
    (t1 : valid [b0] = false)
    (r : B) (h : valid (b0 :: b1 :: r) = true) : IsChar [b0, b1] ∧ valid r = true := by
  have hd := head_not_cont _ _ h
  rw [e] at h
  simp only [Bool.and_eq_true] at h
  refine ⟨⟨by simp, hd, ?_, ?_, ?_⟩, h.2⟩
  · intro m hm hm'
    have : m = 1 := by simp at hm'; omega
    subst this; simp [h.1]
  · intro t; simp [e, h.1]
  · intro m hm hm'
    have : m = 1 := by simp at hm'; omega
    subst this; simpa using t1

theorem isChar3 (b0 b1 b2 : UInt8) (P : UInt8 → Bool) (hP : ∀ b, P b = true → isCont b = true)
    (e : ∀ t, valid (b0 :: b1 :: b2 :: t) = (P b1 && isCont b2 && valid t))
    (t1 : valid [b0] = false) (t2 : valid [b0, b1] = false)
    (r : B) (h : valid (b0 :: b1 :: b2 :: r) = true) : IsChar [b0, b1, b2] ∧ valid r = true := by
  have hd := head_not_cont _ _ h
  rw [e] at h
  simp only [Bool.and_eq_true] at h
  obtain ⟨⟨h1, h2⟩, h3⟩ := h
  refine ⟨⟨by simp, hd, ?_, ?_, ?_⟩, h3⟩
  · intro m hm hm'
    have : m = 1 ∨ m = 2 := by simp at hm'; omega
    rcases this with rfl | rfl
    · simp [hP _ h1]
    · simp [h2]
  · intro t; simp [e, h1, h2]
  · intro m hm hm'
    have : m = 1 ∨ m = 2 := by simp at hm'; omega
    rcases this with rfl | rfl
    · simpa using t1
    · simpa using t2

theorem isChar4 (b0 b1 b2 b3 : UInt8) (P : UInt8 → Bool) (hP : ∀ b, P b = true → isCont b = true)
    (e : ∀ t, valid (b0 :: b1 :: b2 :: b3 :: t) = (P b1 && isCont b2 && isCont b3 && valid t))
    (t1 : valid [b0] = false) (t2 : valid [b0, b1] = false) (t3 : valid [b0, b1, b2] = false)
    (r : B) (h : valid (b0 :: b1 :: b2 :: b3 :: r) = true) :
    IsChar [b0, b1, b2, b3] ∧ valid r = true := by
  have hd := head_not_cont _ _ h
  rw [e] at h
  simp only [Bool.and_eq_true] at h
  obtain ⟨⟨⟨h1, h2⟩, h3⟩, h4⟩ := h
  refine ⟨⟨by simp, hd, ?_, ?_, ?_⟩, h4⟩
  · intro m hm hm'
    have : m = 1 ∨ m = 2 ∨ m = 3 := by simp at hm'; omega
    rcases this with rfl | rfl | rfl
    · simp [hP _ h1]
    · simp [h2]
    · simp [h3]
  · intro t; simp [e, h1, h2, h3]
  · intro m hm hm'
    have : m = 1 ∨ m = 2 ∨ m = 3 := by simp at hm'; omega
    rcases this with rfl | rfl | rfl
    · simpa using t1
    · simpa using t2
    · simpa using t3

/-- A non-empty valid string is one encoded scalar followed by a valid string. -/
theorem valid_cases (x : B) (h : valid x = true) :
    x = [] ∨ ∃ c r, x = c ++ r ∧ IsChar c ∧ valid r = true := by
  fun_cases valid x
  · left; rfl
  all_goals right
  all_goals try (exfalso; unfold valid at h; simp [*] at h; done)
  · rename_i b0 rest h0
    refine ⟨[b0], rest, rfl, isChar1 b0 h0, ?_⟩
    rw [← (isChar1 b0 h0).app rest]; exact h
  · exact ⟨_, _, rfl, isChar2 _ _
      (by intro t; conv => lhs; unfold valid
          simp only [*]; simp)
      (by unfold valid; simp only [*]; simp) _ h⟩
  · exact ⟨_, _, rfl, isChar3 _ _ _ (fun b => decide (160 ≤ b) && decide (b ≤ 191)) cont_of_A0_BF
      (by intro t; conv => lhs; unfold valid
          simp only [*]; simp)
      (by unfold valid; simp only [*]; simp) (by unfold valid; simp only [*]; simp) _ h⟩
  · exact ⟨_, _, rfl, isChar3 _ _ _ isCont (fun _ h => h)
      (by intro t; conv => lhs; unfold valid
          simp only [*]; simp)
      (by unfold valid; simp only [*]; simp) (by unfold valid; simp only [*]; simp) _ h⟩
  · exact ⟨_, _, rfl, isChar3 _ _ _ (fun b => decide (128 ≤ b) && decide (b ≤ 159)) cont_of_80_9F
      (by intro t; conv => lhs; unfold valid
          simp only [*]; simp)
      (by unfold valid; simp only [*]; simp) (by unfold valid; simp only [*]; simp) _ h⟩
  · exact ⟨_, _, rfl, isChar4 _ _ _ _ (fun b => decide (144 ≤ b) && decide (b ≤ 191)) cont_of_90_BF
      (by intro t; conv => lhs; unfold valid
          simp only [*]; simp)
      (by unfold valid; simp only [*]; simp) (by unfold valid; simp only [*]; simp)
      (by unfold valid; simp only [*]; simp) _ h⟩
  · exact ⟨_, _, rfl, isChar4 _ _ _ _ isCont (fun _ h => h)
      (by intro t; conv => lhs; unfold valid
          simp only [*]; simp)
      (by unfold valid; simp only [*]; simp) (by unfold valid; simp only [*]; simp)
      (by unfold valid; simp only [*]; simp) _ h⟩
  · exact ⟨_, _, rfl, isChar4 _ _ _ _ (fun b => decide (128 ≤ b) && decide (b ≤ 143)) cont_of_80_8F
      (by intro t; conv => lhs; unfold valid
          simp only [*]; simp)
      (by unfold valid; simp only [*]; simp) (by unfold valid; simp only [*]; simp)
      (by unfold valid; simp only [*]; simp) _ h⟩

/-- Induction over a valid string, one encoded scalar at a time. -/
theorem valid_induction {motive : B → Prop} (nil : motive [])
    (step : ∀ c r, IsChar c → valid r = true → motive r → motive (c ++ r))
    (x : B) (hx : valid x = true) : motive x := by
  generalize hl : x.length = l
  induction l using Nat.strongRecOn generalizing x with
  | _ l ih =>
    rcases valid_cases x hx with rfl | ⟨c, r, rfl, hc, hr⟩
    · exact nil
    · refine step c r hc hr (ih r.length ?_ r hr rfl)
      have := hc.pos
      simp at hl; omega

/-! ## `isCharBoundary` -/

theorem isCharBoundary_zero (x : B) : isCharBoundary x 0 = true := by
  simp [isCharBoundary]

theorem isCharBoundary_length (x : B) : isCharBoundary x x.length = true := by
  simp [isCharBoundary]

theorem isCharBoundary_append_lt (x t : B) (n : Nat) (h : n < x.length) :
    isCharBoundary (x ++ t) n = isCharBoundary x n := by
  have h1 : ¬ n ≥ (x ++ t).length := by simp; omega
  have h2 : ¬ n ≥ x.length := by omega
  simp only [isCharBoundary, h1, h2, if_false, byteAt_append_left h]

/-- Past the first encoded scalar, boundaries are those of the rest. -/
theorem isCharBoundary_char_append (c r : B) (hc : IsChar c) (hr : valid r = true) (n : Nat)
    (hn : c.length ≤ n) : isCharBoundary (c ++ r) n = isCharBoundary r (n - c.length) := by
  have hpos := hc.pos
  have hn0 : (n == 0) = false := by simp; omega
  by_cases he : n = c.length
  · subst he
    rw [Nat.sub_self, isCharBoundary_zero]
    cases r with
    | nil => simpa using isCharBoundary_length c
    | cons b r' =>
      -- the first byte of the (non-empty, valid) rest is not a continuation byte
      have h1 : ¬ c.length ≥ (c ++ b :: r').length := by simp
      simp only [isCharBoundary, hn0, h1, if_false, byteAt_append_right (Nat.le_refl _),
        Nat.sub_self, byteAt_cons_zero, head_not_cont b r' hr]
      simp
  · have hn1 : (n - c.length == 0) = false := by simp; omega
    simp only [isCharBoundary, hn0, hn1, List.length_append, Bool.false_eq_true, if_false]
    by_cases hlt : n < c.length + r.length
    · have h1 : ¬ n ≥ c.length + r.length := by omega
      have h2 : ¬ n - c.length ≥ r.length := by omega
      simp only [h1, h2, if_false, byteAt_append_right hn]
    · have h1 : n ≥ c.length + r.length := by omega
      have h2 : n - c.length ≥ r.length := by omega
      simp only [h1, h2, if_true]
      rw [Bool.eq_iff_iff]; simp; omega

/-- Strictly inside the first encoded scalar there is no boundary. -/
theorem isCharBoundary_inside (c r : B) (hc : IsChar c) (n : Nat) (h0 : 0 < n) (hn : n < c.length) :
    isCharBoundary (c ++ r) n = false := by
  have hn0 : (n == 0) = false := by simp; omega
  have h1 : ¬ n ≥ (c ++ r).length := by simp; omega
  simp only [isCharBoundary, hn0, h1, if_false, byteAt_append_left hn, hc.cont n h0 hn,
    Bool.false_eq_true, Bool.not_true]

/-! ## U1 – U7 -/

/-- U1. A prefix of a valid string is valid exactly when it ends on a character boundary. -/
theorem valid_take_iff_boundary (x : B) (hx : valid x = true) (n : Nat) (hn : n ≤ x.length) :
    valid (x.take n) = isCharBoundary x n := by
  revert n
  refine valid_induction (motive := fun x => ∀ n, n ≤ x.length → valid (x.take n) = isCharBoundary x n)
    ?_ ?_ x hx
  · intro n hn
    have : n = 0 := by simpa using hn
    subst this; simp [valid, isCharBoundary]
  · intro c r hc hr ih n hn
    by_cases h0 : n = 0
    · subst h0; simp [valid, isCharBoundary_zero]
    by_cases hlt : n < c.length
    · rw [isCharBoundary_inside c r hc n (by omega) hlt]
      rw [List.take_append_of_le_length (by omega)]
      exact hc.trunc n (by omega) hlt
    · have hle : c.length ≤ n := by omega
      rw [isCharBoundary_char_append c r hc hr n hle]
      have : n = c.length + (n - c.length) := by omega
      rw [this, List.take_length_add_append, hc.app, ← this]
      exact ih _ (by simp at hn; omega)

/-- U2. -/
theorem valid_append (a b : B) : valid a = true → valid b = true → valid (a ++ b) = true := by
  intro ha hb
  refine valid_induction (motive := fun a => valid (a ++ b) = true) ?_ ?_ a ha
  · simpa using hb
  · intro c r hc hr ih; rw [List.append_assoc, hc.app]; exact ih

/-- U3. -/
theorem valid_of_append_left (a b : B) : valid (a ++ b) = true → valid a = true → valid b = true := by
  intro hab ha
  revert hab
  refine valid_induction (motive := fun a => valid (a ++ b) = true → valid b = true) ?_ ?_ a ha
  · intro hab; simpa using hab
  · intro c r hc hr ih hab; rw [List.append_assoc, hc.app] at hab; exact ih hab

/-- U4. -/
theorem valid_drop_of_boundary (x : B) (hx : valid x = true) (n : Nat)
    (hb : isCharBoundary x n = true) : valid (x.drop n) = true := by
  by_cases hn : n ≤ x.length
  · apply valid_of_append_left (x.take n)
    · rw [List.take_append_drop]; exact hx
    · rw [valid_take_iff_boundary x hx n hn]; exact hb
  · rw [List.drop_of_length_le (by omega)]; rfl

/-- U5'. The position of an ASCII byte of a valid string is a boundary. -/
theorem boundary_before_ascii (a : B) (c : UInt8) (r : B) (hx : valid (a ++ c :: r) = true)
    (hc : c < 0x80) : isCharBoundary (a ++ c :: r) a.length = true ∧ valid a = true := by
  have hb : isCharBoundary (a ++ c :: r) a.length = true := by
    have h1 : ¬ a.length ≥ (a ++ c :: r).length := by simp
    simp only [isCharBoundary, h1, if_false, byteAt_append_right (Nat.le_refl _), Nat.sub_self,
      byteAt_cons_zero, ascii_not_cont c hc]
    simp
  refine ⟨hb, ?_⟩
  have := valid_take_iff_boundary _ hx a.length (by simp)
  rw [hb] at this
  simpa using this

/-- U5. The position right after an ASCII byte of a valid string is a boundary. -/
theorem boundary_after_ascii (a : B) (c : UInt8) (r : B) (hc : c < 0x80)
    (hx : valid (a ++ c :: r) = true) :
    isCharBoundary (a ++ c :: r) (a.length + 1) = true ∧ valid (a ++ [c]) = true ∧ valid r = true := by
  obtain ⟨_, ha⟩ := boundary_before_ascii a c r hx hc
  have hcr : valid (c :: r) = true := valid_of_append_left a _ hx ha
  have hr : valid r = true := by
    have := (isChar1 c hc).app r
    simp only [List.singleton_append] at this
    rw [← this]; exact hcr
  have hac : valid (a ++ [c]) = true :=
    valid_append a [c] ha (by have := (isChar1 c hc).app []; simpa [valid] using this)
  refine ⟨?_, hac, hr⟩
  have := valid_take_iff_boundary _ hx (a.length + 1) (by simp)
  rw [← this]
  have e : (a ++ c :: r).take (a.length + 1) = a ++ [c] := by
    rw [List.take_length_add_append]; rfl
  rw [e]; exact hac

/-- U6. -/
theorem ascii_valid (s : B) (h : ∀ c ∈ s, c < 0x80) : valid s = true := by
  induction s with
  | nil => rfl
  | cons c s ih =>
    have := (isChar1 c (h c (by simp))).app s
    simp only [List.singleton_append] at this
    rw [this]
    exact ih (fun d hd => h d (by simp [hd]))

end Utf8
