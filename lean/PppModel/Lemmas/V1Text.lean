import PppModel.Spec.V1
import PppModel.Lemmas.V1Split
import PppModel.Lemmas.Ipv4Port

/-!
# The text forms of the v1 grammar (`Spec.V1.Decimal`, `PortText`, `Ipv4Text`) are exactly
what the model's field parsers accept; none of them contains a separator
-/

namespace V1

theorem decValue_eq_valAcc (s : B) : Spec.V1.decValue s = valAcc 0 s := by
  have key : ∀ (s : B) (acc : Nat),
      s.foldl (fun acc c => acc * 10 + (c.toNat - 0x30)) acc = valAcc acc s := by
    intro s
    induction s with
    | nil => intro acc; rfl
    | cons c cs ih => intro acc; rw [List.foldl_cons, ih, valAcc_cons]
  exact key s 0

/-- The spec's `Decimal` is canonical decimal text together with its value. -/
theorem decimal_iff_canon (s : B) (n : Nat) : Spec.V1.Decimal s n ↔ Canon s ∧ valAcc 0 s = n := by
  unfold Spec.V1.Decimal Canon
  rw [decValue_eq_valAcc]
  constructor
  · rintro ⟨h1, h2, h3, h4⟩; exact ⟨⟨h1, h2, h3⟩, h4⟩
  · rintro ⟨⟨h1, h2, h3⟩, h4⟩; exact ⟨h1, h2, h3, h4⟩

/-- The spec's `Decimal` is exactly the `Display` text of the number. -/
theorem decimal_iff_dec (s : B) (n : Nat) : Spec.V1.Decimal s n ↔ s = StdInt.dec n := by
  rw [decimal_iff_canon]
  constructor
  · rintro ⟨hc, hv⟩
    rw [← hv, StdInt.dec_valAcc_of_canon hc]
  · rintro rfl
    exact ⟨StdInt.dec_canon n, StdInt.valAcc_dec n⟩

theorem portText_iff_dec (s : B) (p : UInt16) : Spec.V1.PortText s p ↔ s = StdInt.dec p.toNat :=
  decimal_iff_dec s p.toNat

theorem portText_iff (s : B) (p : UInt16) : Spec.V1.PortText s p ↔ parsePort s = .ok p := by
  rw [portText_iff_dec, parsePort_iff]

theorem ipv4Text_iff_display (s : B) (a : Ip4) : Spec.V1.Ipv4Text s a ↔ s = StdNet.displayIpv4 a := by
  unfold Spec.V1.Ipv4Text StdNet.displayIpv4
  constructor
  · rintro ⟨A, B, C, D, hA, hB, hC, hD, rfl⟩
    rw [(decimal_iff_dec _ _).mp hA, (decimal_iff_dec _ _).mp hB, (decimal_iff_dec _ _).mp hC,
      (decimal_iff_dec _ _).mp hD]
    rfl
  · rintro rfl
    exact ⟨_, _, _, _, (decimal_iff_dec _ _).mpr rfl, (decimal_iff_dec _ _).mpr rfl,
      (decimal_iff_dec _ _).mpr rfl, (decimal_iff_dec _ _).mpr rfl, rfl⟩

theorem ipv4Text_iff (s : B) (a : Ip4) : Spec.V1.Ipv4Text s a ↔ StdNet.parseIpv4 s = some a := by
  rw [ipv4Text_iff_display, StdNet.parseIpv4_iff]

/-! ## No separators in the field texts -/

theorem isSep_of_isDig {c : UInt8} (h : IsDig c) : isSep c = false := by
  have hn := h.toNat
  have h1 : c ≠ SP := by intro e; rw [e] at hn; revert hn; decide
  have h2 : c ≠ CR := by intro e; rw [e] at hn; revert hn; decide
  simp [isSep, h1, h2]

theorem dec_sepFree (n : Nat) : sepFree (StdInt.dec n) :=
  fun c hc => isSep_of_isDig (StdInt.dec_isDig n c hc)

theorem displayIpv4_sepFree (a : Ip4) : sepFree (StdNet.displayIpv4 a) := by
  intro c hc
  rcases StdNet.displayIpv4_charset a c hc with h | h
  · exact isSep_of_isDig h
  · subst h; decide

theorem portText_sepFree {s : B} {p : UInt16} (h : Spec.V1.PortText s p) : sepFree s := by
  rw [(portText_iff_dec s p).mp h]; exact dec_sepFree _

theorem ipv4Text_sepFree {s : B} {a : Ip4} (h : Spec.V1.Ipv4Text s a) : sepFree s := by
  rw [(ipv4Text_iff_display s a).mp h]; exact displayIpv4_sepFree _

end V1
