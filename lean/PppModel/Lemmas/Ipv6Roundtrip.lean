import PppModel.Lemmas.Ipv6Aux

/-!
# `Ipv6Addr`: `Display` then `from_str` is the identity
-/

namespace StdNet

/-! ## groups joined by colons -/

/-- Every group preceded by a colon. -/
def colonGroups (gs : List Nat) : B := gs.flatMap (fun g => 0x3A :: hexLower g)

@[simp] theorem colonGroups_nil : colonGroups [] = [] := rfl

theorem colonGroups_cons (g : Nat) (gs : List Nat) :
    colonGroups (g :: gs) = 0x3A :: (hexLower g ++ colonGroups gs) := by
  simp [colonGroups]

theorem fmtGroups_cons (g : Nat) (gs : List Nat) : fmtGroups (g :: gs) = hexLower g ++ colonGroups gs := by
  induction gs generalizing g with
  | nil => simp [fmtGroups]
  | cons g' gs ih => rw [fmtGroups, ih, colonGroups_cons] <;> simp

theorem no_dot_hexLower (g : Nat) : (0x2E : UInt8) ∉ hexLower g := by
  intro h
  exact absurd (hexLower_chars g _ h) (by decide)

theorem no_dot_colonGroups (gs : List Nat) : (0x2E : UInt8) ∉ colonGroups gs := by
  induction gs with
  | nil => simp
  | cons g gs ih =>
    rw [colonGroups_cons]
    simp only [List.mem_cons, List.mem_append, not_or]
    exact ⟨by decide, no_dot_hexLower g, ih⟩

theorem no_dot_fmtGroups (gs : List Nat) : (0x2E : UInt8) ∉ fmtGroups gs := by
  cases gs with
  | nil => simp [fmtGroups]
  | cons g gs =>
    rw [fmtGroups_cons]
    simp only [List.mem_append, not_or]
    exact ⟨no_dot_hexLower g, no_dot_colonGroups gs⟩

/-- What may follow a run of groups: the end of the text or `::`. -/
def EndOK (rest : B) : Prop := rest = [] ∨ ∃ r, rest = 0x3A :: 0x3A :: r

theorem readHex16_nil : readHex16 [] = none := by decide

theorem readHex16_colon (r : B) : readHex16 (0x3A :: r) = none := by
  have : digitVal 16 0x3A = none := by decide
  simp [readHex16, readNumber, readDigits, this]

theorem stops16_colon (r : B) : Stops 16 (0x3A :: r) := stops_cons (by decide)

theorem stops16_of_endOK {rest : B} (h : EndOK rest) : Stops 16 rest := by
  rcases h with rfl | ⟨r, rfl⟩
  · exact stops_nil _
  · exact stops16_colon _

theorem stops16_colonGroups_append (gs : List Nat) {rest : B} (h : EndOK rest) :
    Stops 16 (colonGroups gs ++ rest) := by
  cases gs with
  | nil => simpa using stops16_of_endOK h
  | cons g gs => rw [colonGroups_cons]; exact stops16_colon _

/-- At the end of a run of groups the reader stops and restores its state. -/
theorem readGroupsFrom_end (limit fuel i : Nat) {rest : B} (he : EndOK rest)
    (hd : (0x2E : UInt8) ∉ rest) : readGroupsFrom limit fuel i rest = ([], false, rest) := by
  cases fuel with
  | zero => rfl
  | succ fuel =>
    have hv4 : (if i + 1 < limit then readSeparator 0x3A i readIpv4 rest else none) = none := by
      split
      · exact readSeparator_ipv4_none_of_no_dot i hd
      · rfl
    have hhex : readSeparator 0x3A i readHex16 rest = none := by
      rcases he with rfl | ⟨r, rfl⟩
      · simp only [readSeparator]; split <;> simp [readGivenChar, readHex16_nil]
      · simp only [readSeparator]; split <;> simp [readGivenChar_cons_self, readHex16_colon]
    simp only [readGroupsFrom, hv4, hhex]

/-- Reading `:g1:g2…` from a slot other than the first. -/
theorem readGroupsFrom_colonGroups (limit : Nat) (gs : List Nat) (fuel i : Nat) (rest : B)
    (hi : 0 < i) (hf : gs.length ≤ fuel) (hb : ∀ g ∈ gs, g < 65536)
    (he : EndOK rest) (hd : (0x2E : UInt8) ∉ rest) :
    readGroupsFrom limit fuel i (colonGroups gs ++ rest) = (gs, false, rest) := by
  induction gs generalizing fuel i with
  | nil => simpa using readGroupsFrom_end limit fuel i he hd
  | cons g gs ih =>
    cases fuel with
    | zero => simp at hf
    | succ fuel =>
      have hnd : (0x2E : UInt8) ∉ colonGroups (g :: gs) ++ rest := by
        simp only [List.mem_append, not_or]; exact ⟨no_dot_colonGroups _, hd⟩
      have hv4 : (if i + 1 < limit then readSeparator 0x3A i readIpv4 (colonGroups (g :: gs) ++ rest)
          else none) = none := by
        split
        · exact readSeparator_ipv4_none_of_no_dot i hnd
        · rfl
      have hhex : readSeparator 0x3A i readHex16 (colonGroups (g :: gs) ++ rest) =
          some (g, colonGroups gs ++ rest) := by
        simp only [readSeparator, gt_iff_lt, hi, ↓reduceIte, colonGroups_cons, List.cons_append,
          readGivenChar_cons_self, List.append_assoc]
        exact readHex16_hexLower g (hb g (by simp)) _ (stops16_colonGroups_append gs he)
      have := ih fuel (i + 1) (by omega) (by simpa using hf)
        (fun g' hg' => hb g' (List.mem_cons_of_mem _ hg'))
      simp only [readGroupsFrom, hv4, hhex, this]

/-- Reading `g1:g2…` from the first slot. -/
theorem readGroupsFrom_fmtGroups (limit : Nat) (gs : List Nat) (fuel : Nat) (rest : B)
    (hf : gs.length ≤ fuel) (hb : ∀ g ∈ gs, g < 65536)
    (he : EndOK rest) (hd : (0x2E : UInt8) ∉ rest) :
    readGroupsFrom limit fuel 0 (fmtGroups gs ++ rest) = (gs, false, rest) := by
  cases gs with
  | nil => simpa [fmtGroups] using readGroupsFrom_end limit fuel 0 he hd
  | cons g gs =>
    cases fuel with
    | zero => simp at hf
    | succ fuel =>
      have hnd : (0x2E : UInt8) ∉ fmtGroups (g :: gs) ++ rest := by
        simp only [List.mem_append, not_or]; exact ⟨no_dot_fmtGroups _, hd⟩
      have hv4 : (if 0 + 1 < limit then readSeparator 0x3A 0 readIpv4 (fmtGroups (g :: gs) ++ rest)
          else none) = none := by
        split
        · exact readSeparator_ipv4_none_of_no_dot 0 hnd
        · rfl
      have hhex : readSeparator 0x3A 0 readHex16 (fmtGroups (g :: gs) ++ rest) =
          some (g, colonGroups gs ++ rest) := by
        simp only [readSeparator, gt_iff_lt, Nat.lt_irrefl, ↓reduceIte, fmtGroups_cons,
          List.append_assoc]
        exact readHex16_hexLower g (hb g (by simp)) _ (stops16_colonGroups_append gs he)
      have := readGroupsFrom_colonGroups limit gs fuel (0 + 1) rest (by omega) (by simpa using hf)
        (fun g' hg' => hb g' (List.mem_cons_of_mem _ hg')) he hd
      simp only [readGroupsFrom, hv4, hhex, this]

/-! ## the zero-span search -/

/-- All groups inside the span are zero. -/
def ZeroRun (gs : List Nat) (s : Span) : Prop :=
  ∀ j, s.start ≤ j → j < s.start + s.len → gs[j]? = some 0

/-- Loop invariant of the zero-span search after `n` groups. -/
def SpanInv (gs : List Nat) (n : Nat) (st : Span × Span) : Prop :=
  st.1.start + st.1.len ≤ n ∧ ZeroRun gs st.1 ∧
    (st.2.len = 0 ∨ st.2.start + st.2.len = n) ∧ ZeroRun gs st.2

theorem zeroSpanStep_inv (gs : List Nat) (n : Nat) (st : Span × Span) (g : Nat)
    (hg : gs[n]? = some g) (h : SpanInv gs n st) : SpanInv gs (n + 1) (zeroSpanStep st (n, g)) := by
  obtain ⟨⟨ls, ll⟩, ⟨cs, cl⟩⟩ := st
  obtain ⟨h1, h2, h3, h4⟩ := h
  simp only [ZeroRun] at h1 h2 h3 h4
  simp only [zeroSpanStep]
  by_cases hg0 : g = 0
  · subst hg0
    simp only [BEq.rfl, ↓reduceIte]
    by_cases hcl : cl = 0
    · subst hcl
      have hc : ZeroRun gs ⟨n, 1⟩ := by
        intro j hj1 hj2
        have : j = n := by simp at hj1 hj2; omega
        subst this; exact hg
      simp only [BEq.rfl, ↓reduceIte, Nat.zero_add]
      by_cases hl : 1 > ll
      · simp only [hl, ↓reduceIte]
        exact ⟨by simp, hc, Or.inr rfl, hc⟩
      · simp only [hl, ↓reduceIte]
        exact ⟨by simp; omega, h2, Or.inr rfl, hc⟩
    · have hcl' : (cl == 0) = false := by rw [beq_eq_false_iff_ne]; exact hcl
      have hc : ZeroRun gs ⟨cs, cl + 1⟩ := by
        intro j hj1 hj2
        simp at hj1 hj2
        by_cases hjn : j = n
        · subst hjn; exact hg
        · exact h4 j hj1 (by omega)
      simp only [hcl', Bool.false_eq_true, ↓reduceIte]
      have hsum : cs + cl = n := by simpa [hcl] using h3
      by_cases hl : cl + 1 > ll
      · simp only [hl, ↓reduceIte]
        exact ⟨by simp; omega, hc, Or.inr (by simp; omega), hc⟩
      · simp only [hl, ↓reduceIte]
        exact ⟨by simp; omega, h2, Or.inr (by simp; omega), hc⟩
  · have : (g == 0) = false := by rw [beq_eq_false_iff_ne]; exact hg0
    simp only [this, Bool.false_eq_true, ↓reduceIte]
    exact ⟨by simp at h1 ⊢; omega, h2, Or.inl rfl, by intro j hj1 hj2; simp at hj1 hj2⟩

theorem zeroSpan_foldl_inv (gs : List Nat) (l : List Nat) (k : Nat) (st : Span × Span)
    (hl : ∀ j, l[j]? = gs[k + j]?) (h : SpanInv gs k st) :
    SpanInv gs (k + l.length)
      (((l.zipIdx k).map (fun (g, i) => (i, g))).foldl zeroSpanStep st) := by
  induction l generalizing k st with
  | nil => simpa using h
  | cons a l ih =>
    simp only [List.zipIdx_cons, List.map_cons, List.foldl_cons, List.length_cons]
    have ha : gs[k]? = some a := by simpa using (hl 0).symm
    have := ih (k + 1) (zeroSpanStep st (k, a))
      (fun j => by have := hl (j + 1); simp at this; rw [this]; congr 1; omega)
      (zeroSpanStep_inv gs k st a ha h)
    rw [show k + (l.length + 1) = k + 1 + l.length by omega]
    exact this

theorem longestZeroSpan_spec (gs : List Nat) :
    (longestZeroSpan gs).start + (longestZeroSpan gs).len ≤ gs.length ∧
      ZeroRun gs (longestZeroSpan gs) := by
  have := zeroSpan_foldl_inv gs gs 0 (⟨0, 0⟩, ⟨0, 0⟩) (by simp)
    ⟨by simp, by intro j h1 h2; simp at h1 h2, Or.inl rfl, by intro j h1 h2; simp at h1 h2⟩
  simp only [Nat.zero_add] at this
  exact ⟨this.1, this.2.1⟩

theorem zeroRun_split (gs : List Nat) (z : Span) (hz : ZeroRun gs z) (hle : z.start + z.len ≤ gs.length) :
    gs = gs.take z.start ++ List.replicate z.len 0 ++ gs.drop (z.start + z.len) := by
  apply List.ext_getElem?
  intro j
  by_cases h1 : j < z.start
  · rw [List.append_assoc, List.getElem?_append_left (by simp; omega)]
    simp [h1]
  · by_cases h2 : j < z.start + z.len
    · rw [List.getElem?_append_left (by simp; omega),
        List.getElem?_append_right (by simp; omega)]
      rw [hz j (by omega) h2]
      rw [List.getElem?_replicate, if_pos (by simp; omega)]
    · rw [List.getElem?_append_right (by simp; omega)]
      simp
      congr 1
      have : min z.start gs.length = z.start := by omega
      omega

/-! ## `read_ipv6_addr` on the three shapes `Display` produces -/

theorem endOK_nil : EndOK [] := Or.inl rfl

theorem readGroups_fmtGroups (limit : Nat) (gs : List Nat) (hf : gs.length ≤ limit)
    (hb : ∀ g ∈ gs, g < 65536) : readGroups limit (fmtGroups gs) = (gs, false, []) := by
  have := readGroupsFrom_fmtGroups limit gs limit [] hf hb endOK_nil (by simp)
  rwa [List.append_nil] at this

/-- All eight groups written out. -/
theorem readIpv6_uncompressed (gs : List Nat) (hlen : gs.length = 8) (hb : ∀ g ∈ gs, g < 65536) :
    readIpv6 (fmtGroups gs) = some (gs, []) := by
  simp [readIpv6, readGroups_fmtGroups 8 gs (by omega) hb, hlen]

/-- `head::tail` with `n ≥ 1` elided zero groups. -/
theorem readIpv6_compressed (H T : List Nat) (n : Nat) (hn : 1 ≤ n)
    (hlen : H.length + n + T.length = 8)
    (hH : ∀ g ∈ H, g < 65536) (hT : ∀ g ∈ T, g < 65536) :
    readIpv6 (fmtGroups H ++ [0x3A, 0x3A] ++ fmtGroups T) =
      some (H ++ List.replicate n 0 ++ T, []) := by
  have hhead : readGroups 8 (fmtGroups H ++ [0x3A, 0x3A] ++ fmtGroups T) =
      (H, false, 0x3A :: 0x3A :: fmtGroups T) := by
    have := readGroupsFrom_fmtGroups 8 H 8 (0x3A :: 0x3A :: fmtGroups T) (by omega) hH
      (Or.inr ⟨_, rfl⟩)
      (by simp only [List.mem_cons, not_or]; exact ⟨by decide, by decide, no_dot_fmtGroups T⟩)
    simpa [readGroups] using this
  have htail := readGroups_fmtGroups (8 - (H.length + 1)) T (by omega) hT
  have hne : (H.length == 8) = false := by rw [beq_eq_false_iff_ne]; omega
  simp only [readIpv6, hhead, hne, Bool.false_eq_true, ↓reduceIte, readGivenChar_cons_self, htail]
  have : 8 - H.length - T.length = n := by omega
  rw [this]

/-- The IPv4-mapped form `::ffff:a.b.c.d`. -/
theorem readIpv6_mapped (ip : Ip4) :
    readIpv6 ([0x3A, 0x3A, 0x66, 0x66, 0x66, 0x66, 0x3A] ++ displayIpv4 ip) =
      some ([0, 0, 0, 0, 0, 0xFFFF, be16 ip.a ip.b, be16 ip.c ip.d], []) := by
  have h1 : ∀ r : B, readIpv4 (0x3A :: r) = none := by
    intro r
    have : digitVal 10 0x3A = none := by decide
    simp [readIpv4, readSeparator, readOctet, readNumber, readDigits, this]
  have h2 : ∀ r : B, readIpv4 (0x66 :: r) = none := by
    intro r
    have : digitVal 10 0x66 = none := by decide
    simp [readIpv4, readSeparator, readOctet, readNumber, readDigits, this]
  have h3 : ∀ r : B, readHex16 (0x66 :: 0x66 :: 0x66 :: 0x66 :: 0x3A :: r) = some (0xFFFF, 0x3A :: r) := by
    intro r
    have := readHex16_hexLower 0xFFFF (by decide) (0x3A :: r) (stops16_colon r)
    have e : hexLower 0xFFFF = [0x66, 0x66, 0x66, 0x66] := by
      rw [hexLower_ge (by decide), hexLower_ge (by decide), hexLower_ge (by decide),
        hexLower_lt (by decide)]
      decide
    rw [e] at this
    exact this
  have h4 := readIpv4_displayIpv4 ip [] (stops_nil 10)
  rw [List.append_nil] at h4
  simp [readIpv6, readGroups, readGroupsFrom, readSeparator, h1, h2, h3, h4, readHex16_colon,
    readGivenChar_cons_self]

/-! ## the round trip on eight groups -/

theorem readIpv6_displayGroups (gs : List Nat) (hlen : gs.length = 8) (hb : ∀ g ∈ gs, g < 65536) :
    readIpv6 (displayGroups gs) = some (gs, []) := by
  unfold displayGroups
  split
  · rename_i x y
    have hx : x < 65536 := hb x (by simp)
    have hy : y < 65536 := hb y (by simp)
    rw [readIpv6_mapped]
    simp only [be16_be16Bytes x hx, be16_be16Bytes y hy]
  · obtain ⟨hz1, hz2⟩ := longestZeroSpan_spec gs
    simp only
    split
    · rename_i hz
      have hsplit := zeroRun_split gs _ hz2 hz1
      have := readIpv6_compressed (gs.take (longestZeroSpan gs).start)
        (gs.drop ((longestZeroSpan gs).start + (longestZeroSpan gs).len)) (longestZeroSpan gs).len
        (by omega) (by simp; omega)
        (fun g hg => hb g (List.mem_of_mem_take hg)) (fun g hg => hb g (List.mem_of_mem_drop hg))
      rw [this, ← hsplit]
    · exact readIpv6_uncompressed gs hlen hb

/-! ## octets and groups -/

theorem list16 {α : Type} (l : List α) (h : l.length = 16) :
    ∃ b0 b1 b2 b3 b4 b5 b6 b7 b8 b9 b10 b11 b12 b13 b14 b15,
      l = [b0, b1, b2, b3, b4, b5, b6, b7, b8, b9, b10, b11, b12, b13, b14, b15] := by
  match l, h with
  | [b0, b1, b2, b3, b4, b5, b6, b7, b8, b9, b10, b11, b12, b13, b14, b15], _ =>
    exact ⟨b0, b1, b2, b3, b4, b5, b6, b7, b8, b9, b10, b11, b12, b13, b14, b15, rfl⟩

theorem segments_spec (a : Ip6) :
    (segments a).length = 8 ∧ (∀ g ∈ segments a, g < 65536) ∧
      FixB.ofList 16 (groupsToOctets (segments a)) = a := by
  obtain ⟨l, hl⟩ := a
  obtain ⟨b0, b1, b2, b3, b4, b5, b6, b7, b8, b9, b10, b11, b12, b13, b14, b15, rfl⟩ := list16 l hl
  refine ⟨rfl, ?_, ?_⟩
  · intro g hg
    simp only [segments, List.mem_cons, List.not_mem_nil, or_false] at hg
    rcases hg with rfl | rfl | rfl | rfl | rfl | rfl | rfl | rfl <;> exact be16_lt _ _
  · apply Subtype.ext
    rw [FixB.ofList_val]
    · simp [segments, groupsToOctets, be16Bytes_be16]
    · simp [segments, groupsToOctets]

/-- **Round trip**: the text an IPv6 address formats to parses back to the same address. -/
theorem parseIpv6_displayIpv6 (a : Ip6) : parseIpv6 (displayIpv6 a) = some a := by
  obtain ⟨h8, hb, hoct⟩ := segments_spec a
  simp only [parseIpv6, displayIpv6, readIpv6_displayGroups (segments a) h8 hb, hoct]

/-! ## character set of the output -/

/-- The bytes `Display for Ipv6Addr` can produce. -/
def IsAddrChar (c : UInt8) : Prop := IsHexLower c ∨ c = 0x3A ∨ c = 0x2E

theorem isAddrChar_ne (c : UInt8) (h : IsAddrChar c) : c ≠ 0x20 ∧ c ≠ 0x0D := by
  revert h c
  apply forall_uint8
  unfold IsAddrChar IsHexLower
  decide +kernel

theorem colonGroups_chars (gs : List Nat) : ∀ c ∈ colonGroups gs, IsAddrChar c := by
  induction gs with
  | nil => simp
  | cons g gs ih =>
    intro c hc
    rw [colonGroups_cons] at hc
    simp only [List.mem_cons, List.mem_append] at hc
    rcases hc with rfl | hc | hc
    · exact Or.inr (Or.inl rfl)
    · exact Or.inl (hexLower_chars g c hc)
    · exact ih c hc

theorem fmtGroups_chars (gs : List Nat) : ∀ c ∈ fmtGroups gs, IsAddrChar c := by
  cases gs with
  | nil => simp [fmtGroups]
  | cons g gs =>
    intro c hc
    rw [fmtGroups_cons] at hc
    simp only [List.mem_append] at hc
    rcases hc with hc | hc
    · exact Or.inl (hexLower_chars g c hc)
    · exact colonGroups_chars gs c hc

theorem dec_addrChars (n : Nat) : ∀ c ∈ StdInt.dec n, IsAddrChar c :=
  fun c hc => Or.inl (Or.inl (dec_chars n c hc))

theorem displayIpv4_chars (ip : Ip4) : ∀ c ∈ displayIpv4 ip, IsAddrChar c := by
  intro c hc
  simp only [displayIpv4, List.mem_append, List.mem_singleton] at hc
  rcases hc with (((((hc | rfl) | hc) | rfl) | hc) | rfl) | hc
  all_goals first
    | exact dec_addrChars _ c hc
    | exact Or.inr (Or.inr rfl)

theorem displayGroups_chars (gs : List Nat) : ∀ c ∈ displayGroups gs, IsAddrChar c := by
  unfold displayGroups
  split
  · intro c hc
    simp only [List.mem_append, List.mem_cons, List.not_mem_nil, or_false] at hc
    rcases hc with (rfl | rfl | rfl | rfl | rfl | rfl | rfl) | hc
    all_goals first
      | exact displayIpv4_chars _ c hc
      | exact Or.inr (Or.inl rfl)
      | exact Or.inl (by decide)
  · simp only
    split
    · intro c hc
      simp only [List.mem_append, List.mem_cons, List.not_mem_nil, or_false] at hc
      rcases hc with (hc | rfl | rfl) | hc
      · exact fmtGroups_chars _ c hc
      · exact Or.inr (Or.inl rfl)
      · exact Or.inr (Or.inl rfl)
      · exact fmtGroups_chars _ c hc
    · exact fmtGroups_chars gs

/-- Every output byte is a lower-case hexadecimal digit, `:` or `.`. -/
theorem displayIpv6_addrChars (a : Ip6) : ∀ c ∈ displayIpv6 a, IsAddrChar c :=
  displayGroups_chars (segments a)

/-- **No space, no CR** in the text form of an IPv6 address. -/
theorem displayIpv6_charset (a : Ip6) : ∀ c ∈ displayIpv6 a, c ≠ 0x20 ∧ c ≠ 0x0D :=
  fun c hc => isAddrChar_ne c (displayIpv6_addrChars a c hc)

/-! ## length of the output -/

theorem colonGroups_length_le (gs : List Nat) (hb : ∀ g ∈ gs, g < 65536) :
    (colonGroups gs).length ≤ 5 * gs.length := by
  induction gs with
  | nil => simp
  | cons g gs ih =>
    have h1 := hexLower_length_le4 g (hb g (by simp))
    have h2 := ih (fun g' hg' => hb g' (List.mem_cons_of_mem _ hg'))
    rw [colonGroups_cons]
    simp only [List.length_cons, List.length_append]
    omega

theorem fmtGroups_length_le (gs : List Nat) (hb : ∀ g ∈ gs, g < 65536) :
    (fmtGroups gs).length ≤ 5 * gs.length - 1 := by
  cases gs with
  | nil => simp [fmtGroups]
  | cons g gs =>
    have h1 := hexLower_length_le4 g (hb g (by simp))
    have h2 := colonGroups_length_le gs (fun g' hg' => hb g' (List.mem_cons_of_mem _ hg'))
    rw [fmtGroups_cons]
    simp only [List.length_cons, List.length_append]
    omega

theorem displayIpv4_length_le (ip : Ip4) : (displayIpv4 ip).length ≤ 15 := by
  have ha := dec_length_le3 _ ip.a.toNat_lt
  have hb := dec_length_le3 _ ip.b.toNat_lt
  have hc := dec_length_le3 _ ip.c.toNat_lt
  have hd := dec_length_le3 _ ip.d.toNat_lt
  simp only [displayIpv4, List.length_append, List.length_singleton]
  omega

theorem displayGroups_length_le (gs : List Nat) (hlen : gs.length = 8) (hb : ∀ g ∈ gs, g < 65536) :
    (displayGroups gs).length ≤ 39 := by
  unfold displayGroups
  split
  · rename_i x y
    have := displayIpv4_length_le
      ⟨UInt8.ofNat (x / 256), UInt8.ofNat (x % 256), UInt8.ofNat (y / 256), UInt8.ofNat (y % 256)⟩
    simp only [List.length_append, List.length_cons, List.length_nil]
    omega
  · obtain ⟨hz1, _⟩ := longestZeroSpan_spec gs
    simp only
    split
    · have h1 := fmtGroups_length_le (gs.take (longestZeroSpan gs).start)
        (fun g hg => hb g (List.mem_of_mem_take hg))
      have h2 := fmtGroups_length_le (gs.drop ((longestZeroSpan gs).start + (longestZeroSpan gs).len))
        (fun g hg => hb g (List.mem_of_mem_drop hg))
      simp only [List.length_take, List.length_drop] at h1 h2
      simp only [List.length_append, List.length_cons, List.length_nil]
      omega
    · have := fmtGroups_length_le gs hb
      omega

/-- **At most 39 bytes** (`xxxx:xxxx:xxxx:xxxx:xxxx:xxxx:xxxx:xxxx`). -/
theorem displayIpv6_length (a : Ip6) : (displayIpv6 a).length ≤ 39 := by
  obtain ⟨h8, hb, _⟩ := segments_spec a
  exact displayGroups_length_le (segments a) h8 hb

end StdNet
