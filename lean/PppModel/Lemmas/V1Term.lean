import PppModel.Lemmas.V1Split
import PppModel.Auto

/-!
# A terminated header never yields an incomplete result
-/

namespace V1

/-- The result is not flagged incomplete. -/
def NotInc (r : Except ParseError Header) : Prop := Auto.isIncompleteV1Str r = false

theorem notInc_ok (h : Header) : NotInc (.ok h) := rfl

theorem notInc_error {e : ParseError} (he : e.isIncomplete = false) : NotInc (.error e) := by
  simp [NotInc, Auto.isIncompleteV1Str, he]

theorem takeFields_term (parts : List B) : ∃ r, takeFields parts true = .ok r := by
  have key : ∀ o : Option B, ∃ v, o.or (some []) = some v := by intro o; cases o <;> simp
  simp only [takeFields, if_true]
  obtain ⟨v1, h1⟩ := key parts.head?
  obtain ⟨v2, h2⟩ := key parts.tail.head?
  obtain ⟨v3, h3⟩ := key parts.tail.tail.head?
  obtain ⟨v4, h4⟩ := key (parts.tail.tail.tail.head?.filter
    (fun p => !p.isEmpty || !parts.tail.tail.tail.tail.isEmpty))
  simp only [h1, h2, h3, h4]
  exact ⟨_, rfl⟩

theorem parseAddresses_term_error {α : Type} (f : B → Option α) (parts : List B) (e : ParseError)
    (h : parseAddresses f parts true = .error e) : e.isIncomplete = false := by
  obtain ⟨⟨sa, da, sp, dp, rest⟩, hr⟩ := takeFields_term parts
  simp only [parseAddresses, hr] at h
  split at h
  · cases h; rfl
  · split at h
    · cases h; rfl
    · split at h
      · cases h; rfl
      · split at h
        · cases h; rfl
        · cases h

theorem finish_term_notInc (header : B) (a : Addresses) (rest : List B) (ht : terminated header = true) :
    NotInc (finish header a rest) := by
  unfold finish
  split
  · simp [ht]; exact notInc_error rfl
  · split
    · exact notInc_error rfl
    · exact notInc_ok _

theorem append_two_inj {p a : B} {c b : UInt8} (h : p ++ [c] = a ++ [CR, b]) : p = a ++ [CR] ∧ c = b := by
  have h' : p ++ [c] = (a ++ [CR]) ++ [b] := by simpa using h
  have := List.append_inj' h' rfl
  exact ⟨this.1, by simpa using this.2⟩

/-- **Core of C18.** On a window whose first CR is followed by a byte, `parse_header`
returns a success or a terminal error. -/
theorem parseHeader_terminated (a : B) (b : UInt8) (ha : crFree a) :
    NotInc (parseHeader (a ++ [CR, b])) := by
  have ht : terminated (a ++ [CR, b]) = true := terminated_window ha
  generalize hw : a ++ [CR, b] = w at *
  have hne : w.isEmpty = false := by subst hw; cases a <;> simp
  unfold parseHeader
  simp only [hne, Bool.false_eq_true, if_false]
  split
  · exact notInc_error rfl
  · rcases splitN_cases 5 w with ⟨hsf, -⟩ | ⟨p0, c, r, hp0, hc, hwr, hsplit⟩
    · -- the window contains a CR
      exfalso
      have : isSep CR = false := hsf CR (by subst hw; simp)
      exact absurd this (by decide)
    · have hsplit' : splitN PARTS w = p0 :: splitN 6 r := hsplit
      rw [hsplit']
      simp only
      have hneq : (w == p0) = false := by
        have : w ≠ p0 := by
          intro h
          have := congrArg List.length h
          rw [hwr] at this; simp at this
        simpa using this
      simp only [hneq, Bool.and_false, Bool.false_eq_true, if_false]
      split
      · exact notInc_error rfl
      · rcases hrest : splitN 6 r with _ | ⟨proto, rest⟩
        · exact absurd hrest (splitN_ne_nil 5 r)
        · simp only
          split
          · -- TCP4
            split
            · rename_i e he; exact notInc_error (parseAddresses_term_error _ _ _ (ht ▸ he))
            · exact finish_term_notInc _ _ _ ht
          · split
            · split
              · rename_i e he; exact notInc_error (parseAddresses_term_error _ _ _ (ht ▸ he))
              · exact finish_term_notInc _ _ _ ht
            · split
              · -- UNKNOWN
                split
                · exact notInc_ok _
                · exact notInc_error rfl
              · split
                · -- empty protocol with nothing after it: impossible on a terminated window
                  rename_i hemp
                  exfalso
                  simp only [Bool.and_eq_true, List.isEmpty_iff] at hemp
                  obtain ⟨hp, hr⟩ := hemp
                  subst hp hr
                  rcases splitN_cases 4 r with ⟨hsf, hs⟩ | ⟨p1, c1, r1, -, -, -, hs⟩
                  · rw [hs] at hrest
                    simp only [List.cons.injEq, and_true] at hrest
                    subst hrest
                    rw [← hw] at hwr
                    obtain ⟨h1, -⟩ := append_two_inj hwr.symm
                    have : isSep CR = false := hp0 CR (by rw [h1]; simp)
                    exact absurd this (by decide)
                  · rw [hs] at hrest
                    simp only [List.cons.injEq] at hrest
                    exact absurd hrest.2 (splitN_ne_nil 4 r1)
                · simp only [ht, Bool.not_true, Bool.and_false, Bool.false_and, Bool.false_eq_true, if_false]
                  exact notInc_error rfl

end V1
