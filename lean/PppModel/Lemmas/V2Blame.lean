import PppModel.Lemmas.V2Stream

/-!
# A single malformed element is rejected terminally and blamed on the right field

`blame_*`: which error the parser reports when the signature, one of the four
nibbles, or the declared length is wrong (everything before it being fine).
`set_*`: the same facts phrased as "overwrite exactly one element of a
well-formed header" with `List.set`.
-/

namespace V2

/-! ## Stage by stage -/

/-- B1: at least twelve bytes that are not the signature. -/
theorem blame_signature (x : B) (h12 : 12 ≤ x.length) (hs : x.take 12 ≠ sig) :
    parse x = .error .badPrefix :=
  parse_of_gate_error ((gate_badPrefix_iff x).mpr (.inr ⟨h12, hs⟩))

/-- B1, short case: fewer than twelve bytes that cannot be continued to the signature. -/
theorem blame_signature_short (x : B) (h12 : x.length < 12) (hs : ¬ x <+: sig) :
    parse x = .error .badPrefix :=
  parse_of_gate_error ((gate_badPrefix_iff x).mpr (.inl ⟨h12, hs⟩))

theorem decodeVersion_good {b : UInt8} (h : b &&& 0xF0 = 0x20) : decodeVersion b = .ok .two :=
  if_pos h

theorem decodeVersion_bad {b : UInt8} (h : b &&& 0xF0 ≠ 0x20) :
    decodeVersion b = .error (.version (b &&& 0xF0)) :=
  if_neg h

theorem decodeCommand_good {b : UInt8} (h : b &&& 0x0F = 0 ∨ b &&& 0x0F = 1) :
    ∃ c, decodeCommand b = .ok c := by
  unfold decodeCommand
  rcases h with h | h
  · exact ⟨_, if_pos h⟩
  · by_cases h0 : b &&& 0x0F = 0
    · exact ⟨_, if_pos h0⟩
    · rw [if_neg h0, if_pos h]; exact ⟨_, rfl⟩

theorem decodeCommand_bad {b : UInt8} (h0 : b &&& 0x0F ≠ 0) (h1 : b &&& 0x0F ≠ 1) :
    decodeCommand b = .error (.command (b &&& 0x0F)) := by
  unfold decodeCommand
  rw [if_neg h0, if_neg h1]

theorem decodeFamily_good {b : UInt8}
    (h : b &&& 0xF0 = 0x00 ∨ b &&& 0xF0 = 0x10 ∨ b &&& 0xF0 = 0x20 ∨ b &&& 0xF0 = 0x30) :
    ∃ f, decodeFamily b = .ok f := by
  unfold decodeFamily
  by_cases h0 : b &&& 0xF0 = 0x00
  · exact ⟨_, if_pos h0⟩
  · rw [if_neg h0]
    by_cases h1 : b &&& 0xF0 = 0x10
    · exact ⟨_, if_pos h1⟩
    · rw [if_neg h1]
      by_cases h2 : b &&& 0xF0 = 0x20
      · exact ⟨_, if_pos h2⟩
      · rw [if_neg h2]
        by_cases h3 : b &&& 0xF0 = 0x30
        · exact ⟨_, if_pos h3⟩
        · rcases h with h | h | h | h
          · exact absurd h h0
          · exact absurd h h1
          · exact absurd h h2
          · exact absurd h h3

theorem decodeFamily_bad {b : UInt8} (h0 : b &&& 0xF0 ≠ 0x00) (h1 : b &&& 0xF0 ≠ 0x10)
    (h2 : b &&& 0xF0 ≠ 0x20) (h3 : b &&& 0xF0 ≠ 0x30) :
    decodeFamily b = .error (.addressFamily (b &&& 0xF0)) := by
  unfold decodeFamily
  rw [if_neg h0, if_neg h1, if_neg h2, if_neg h3]

theorem decodeTransport_bad {b : UInt8} (h0 : b &&& 0x0F ≠ 0) (h1 : b &&& 0x0F ≠ 1)
    (h2 : b &&& 0x0F ≠ 2) :
    decodeTransport b = .error (.protocol (b &&& 0x0F)) := by
  unfold decodeTransport
  rw [if_neg h0, if_neg h1, if_neg h2]

/-- The four nibble decoders behind an accepted pair of control bytes. -/
theorem control_ok_decode {vc afp : UInt8} {v c f t} (h : control vc afp = .ok (v, c, f, t)) :
    decodeVersion vc = .ok v ∧ decodeCommand vc = .ok c ∧
    decodeFamily afp = .ok f ∧ decodeTransport afp = .ok t := by
  unfold control at h
  cases hv : decodeVersion vc with
  | error e => rw [hv] at h; cases h
  | ok v' =>
    rw [hv] at h
    cases hc : decodeCommand vc with
    | error e => rw [hc] at h; cases h
    | ok c' =>
      rw [hc] at h
      cases hf : decodeFamily afp with
      | error e => rw [hf] at h; cases h
      | ok f' =>
        rw [hf] at h
        cases ht : decodeTransport afp with
        | error e => rw [ht] at h; cases h
        | ok t' => rw [ht] at h; cases h; exact ⟨rfl, rfl, rfl, rfl⟩

theorem control_of_version_error {vc afp : UInt8} {e} (hv : decodeVersion vc = .error e) :
    control vc afp = .error e := by
  simp only [control, hv]

theorem control_of_command_error {vc afp : UInt8} {v e} (hv : decodeVersion vc = .ok v)
    (hc : decodeCommand vc = .error e) : control vc afp = .error e := by
  simp only [control, hv, hc]

theorem control_of_family_error {vc afp : UInt8} {v c e} (hv : decodeVersion vc = .ok v)
    (hc : decodeCommand vc = .ok c) (hf : decodeFamily afp = .error e) :
    control vc afp = .error e := by
  simp only [control, hv, hc, hf]

theorem control_of_transport_error {vc afp : UInt8} {v c f e} (hv : decodeVersion vc = .ok v)
    (hc : decodeCommand vc = .ok c) (hf : decodeFamily afp = .ok f)
    (ht : decodeTransport afp = .error e) : control vc afp = .error e := by
  simp only [control, hv, hc, hf, ht]

/-- B2: wrong version nibble. -/
theorem blame_version (x : B) (hg : gate x = .ok ()) (hv : byteAt x 12 &&& 0xF0 ≠ 0x20) :
    parse x = .error (.version (byteAt x 12 &&& 0xF0)) :=
  parse_of_control_error hg (control_of_version_error (decodeVersion_bad hv))

/-- B3: version fine, wrong command nibble. -/
theorem blame_command (x : B) (hg : gate x = .ok ()) (hv : byteAt x 12 &&& 0xF0 = 0x20)
    (hc : byteAt x 12 &&& 0x0F ≠ 0 ∧ byteAt x 12 &&& 0x0F ≠ 1) :
    parse x = .error (.command (byteAt x 12 &&& 0x0F)) :=
  parse_of_control_error hg
    (control_of_command_error (decodeVersion_good hv) (decodeCommand_bad hc.1 hc.2))

/-- B4: version and command fine, wrong address-family nibble. -/
theorem blame_family (x : B) (hg : gate x = .ok ()) (hv : byteAt x 12 &&& 0xF0 = 0x20)
    (hc : byteAt x 12 &&& 0x0F = 0 ∨ byteAt x 12 &&& 0x0F = 1)
    (hf : byteAt x 13 &&& 0xF0 ≠ 0x00 ∧ byteAt x 13 &&& 0xF0 ≠ 0x10 ∧
          byteAt x 13 &&& 0xF0 ≠ 0x20 ∧ byteAt x 13 &&& 0xF0 ≠ 0x30) :
    parse x = .error (.addressFamily (byteAt x 13 &&& 0xF0)) := by
  obtain ⟨c, hc'⟩ := decodeCommand_good hc
  exact parse_of_control_error hg
    (control_of_family_error (decodeVersion_good hv) hc'
      (decodeFamily_bad hf.1 hf.2.1 hf.2.2.1 hf.2.2.2))

/-- B5: version, command and family fine, wrong transport nibble. -/
theorem blame_transport (x : B) (hg : gate x = .ok ()) (hv : byteAt x 12 &&& 0xF0 = 0x20)
    (hc : byteAt x 12 &&& 0x0F = 0 ∨ byteAt x 12 &&& 0x0F = 1)
    (hf : byteAt x 13 &&& 0xF0 = 0x00 ∨ byteAt x 13 &&& 0xF0 = 0x10 ∨
          byteAt x 13 &&& 0xF0 = 0x20 ∨ byteAt x 13 &&& 0xF0 = 0x30)
    (ht : byteAt x 13 &&& 0x0F ≠ 0 ∧ byteAt x 13 &&& 0x0F ≠ 1 ∧ byteAt x 13 &&& 0x0F ≠ 2) :
    parse x = .error (.protocol (byteAt x 13 &&& 0x0F)) := by
  obtain ⟨c, hc'⟩ := decodeCommand_good hc
  obtain ⟨f, hf'⟩ := decodeFamily_good hf
  exact parse_of_control_error hg
    (control_of_transport_error (decodeVersion_good hv) hc' hf'
      (decodeTransport_bad ht.1 ht.2.1 ht.2.2))

/-- B6: control bytes fine, declared length smaller than the address block of the family. -/
theorem blame_length (x : B) (hg : gate x = .ok ()) {v c f t}
    (hc : control (byteAt x 12) (byteAt x 13) = .ok (v, c, f, t))
    (hl : be16 (byteAt x 14) (byteAt x 15) < f.size) :
    parse x = .error (.invalidAddresses (be16 (byteAt x 14) (byteAt x 15)) f.size) := by
  rw [parse_eq_body hg hc]
  simp only [body]
  rw [if_pos hl]

/-- B7: every error named above is terminal (not "incomplete"). -/
theorem blame_terminal :
    ParseError.badPrefix.isIncomplete = false ∧
    (∀ v, (ParseError.version v).isIncomplete = false) ∧
    (∀ c, (ParseError.command c).isIncomplete = false) ∧
    (∀ a, (ParseError.addressFamily a).isIncomplete = false) ∧
    (∀ p, (ParseError.protocol p).isIncomplete = false) ∧
    (∀ l s, (ParseError.invalidAddresses l s).isIncomplete = false) :=
  ⟨rfl, fun _ => rfl, fun _ => rfl, fun _ => rfl, fun _ => rfl, fun _ _ => rfl⟩

/-! ## Exactly one element of a well-formed header overwritten -/

theorem byteAt_set_eq {l : B} {i : Nat} {v : UInt8} (h : i < l.length) :
    byteAt (l.set i v) i = v := by
  simp [byteAt, h]

theorem byteAt_set_ne {l : B} {i j : Nat} {v : UInt8} (h : i ≠ j) :
    byteAt (l.set i v) j = byteAt l j := by
  simp [byteAt, List.getElem?_set_ne h]

/-- Overwriting a byte at position 12 or later does not disturb the gate. -/
theorem gate_set {x : B} {i : Nat} (v : UInt8) (hi : 12 ≤ i) (hg : gate x = .ok ()) :
    gate (x.set i v) = .ok () := by
  rw [gate_ok_iff] at hg ⊢
  rw [List.length_set, List.take_set_of_le hi]
  exact hg

/-- The fixed part of a well-formed header followed by anything. -/
theorem encode_fixed (cmd : Command) (tr : Transport) (addr : Addresses) (rest trail : B) :
    gate (Spec.V2.encode cmd tr addr rest ++ trail) = .ok () ∧
    16 ≤ (Spec.V2.encode cmd tr addr rest ++ trail).length ∧
    (Spec.V2.encode cmd tr addr rest ++ trail).take 12 = Spec.V2.signature ∧
    byteAt (Spec.V2.encode cmd tr addr rest ++ trail) 12 = Spec.V2.versionCommand cmd ∧
    byteAt (Spec.V2.encode cmd tr addr rest ++ trail) 13 =
      Spec.V2.familyTransport addr.family tr := by
  have hl : 16 ≤ (Spec.V2.encode cmd tr addr rest ++ trail).length := by
    simp [Spec.V2.encode, Spec.V2.signature, Spec.V2.u16be]
  have ht : (Spec.V2.encode cmd tr addr rest ++ trail).take 12 = Spec.V2.signature := by
    simp [Spec.V2.encode, Spec.V2.signature]
  refine ⟨(gate_ok_iff _).mpr ⟨ht, hl⟩, hl, ht, ?_, ?_⟩
  · simp [Spec.V2.encode, Spec.V2.signature, byteAt]
  · simp [Spec.V2.encode, Spec.V2.signature, byteAt]

theorem control_encode (cmd : Command) (f : Family) (tr : Transport) :
    control (Spec.V2.versionCommand cmd) (Spec.V2.familyTransport f tr) = .ok (.two, cmd, f, tr) :=
  (control_ok_iff _ _ _ _ _ _).mpr ⟨rfl, rfl⟩

/-- B8, signature: one signature byte changed. -/
theorem set_signature (cmd : Command) (tr : Transport) (addr : Addresses) (rest trail : B)
    (i : Nat) (v : UInt8) (hi : i < 12) (hv : v ≠ byteAt Spec.V2.signature i) :
    parse ((Spec.V2.encode cmd tr addr rest ++ trail).set i v) = .error .badPrefix := by
  obtain ⟨-, hl, -, -, -⟩ := encode_fixed cmd tr addr rest trail
  apply blame_signature
  · rw [List.length_set]; omega
  · intro h
    apply hv
    rw [← sig_eq_spec, ← h, byteAt_take hi, byteAt_set_eq (by omega)]

/-- B8, byte 12 with a wrong version nibble. -/
theorem set_version (cmd : Command) (tr : Transport) (addr : Addresses) (rest trail : B)
    (b : UInt8) (hv : b &&& 0xF0 ≠ 0x20) :
    parse ((Spec.V2.encode cmd tr addr rest ++ trail).set 12 b) =
      .error (.version (b &&& 0xF0)) := by
  obtain ⟨hg, hl, -, -, -⟩ := encode_fixed cmd tr addr rest trail
  have h12 : byteAt ((Spec.V2.encode cmd tr addr rest ++ trail).set 12 b) 12 = b :=
    byteAt_set_eq (by omega)
  have := blame_version _ (gate_set b (Nat.le_refl 12) hg) (by rw [h12]; exact hv)
  rw [h12] at this
  exact this

/-- B8, byte 12 with the right version nibble and a wrong command nibble. -/
theorem set_command (cmd : Command) (tr : Transport) (addr : Addresses) (rest trail : B)
    (b : UInt8) (hv : b &&& 0xF0 = 0x20) (hc : b &&& 0x0F ≠ 0 ∧ b &&& 0x0F ≠ 1) :
    parse ((Spec.V2.encode cmd tr addr rest ++ trail).set 12 b) =
      .error (.command (b &&& 0x0F)) := by
  obtain ⟨hg, hl, -, -, -⟩ := encode_fixed cmd tr addr rest trail
  have h12 : byteAt ((Spec.V2.encode cmd tr addr rest ++ trail).set 12 b) 12 = b :=
    byteAt_set_eq (by omega)
  have := blame_command _ (gate_set b (Nat.le_refl 12) hg) (by rw [h12]; exact hv)
    (by rw [h12]; exact hc)
  rw [h12] at this
  exact this

theorem versionCommand_nibbles (cmd : Command) :
    Spec.V2.versionCommand cmd &&& 0xF0 = 0x20 ∧
    (Spec.V2.versionCommand cmd &&& 0x0F = 0 ∨ Spec.V2.versionCommand cmd &&& 0x0F = 1) := by
  cases cmd <;> decide

/-- B8, byte 13 with a wrong address-family nibble. -/
theorem set_family (cmd : Command) (tr : Transport) (addr : Addresses) (rest trail : B)
    (b : UInt8)
    (hf : b &&& 0xF0 ≠ 0x00 ∧ b &&& 0xF0 ≠ 0x10 ∧ b &&& 0xF0 ≠ 0x20 ∧ b &&& 0xF0 ≠ 0x30) :
    parse ((Spec.V2.encode cmd tr addr rest ++ trail).set 13 b) =
      .error (.addressFamily (b &&& 0xF0)) := by
  obtain ⟨hg, hl, -, e12, -⟩ := encode_fixed cmd tr addr rest trail
  have h13 : byteAt ((Spec.V2.encode cmd tr addr rest ++ trail).set 13 b) 13 = b :=
    byteAt_set_eq (by omega)
  have h12 : byteAt ((Spec.V2.encode cmd tr addr rest ++ trail).set 13 b) 12 =
      Spec.V2.versionCommand cmd := by
    rw [byteAt_set_ne (by omega), e12]
  obtain ⟨n1, n2⟩ := versionCommand_nibbles cmd
  have := blame_family _ (gate_set b (by omega : 12 ≤ 13) hg) (by rw [h12]; exact n1)
    (by rw [h12]; exact n2) (by rw [h13]; exact hf)
  rw [h13] at this
  exact this

/-- B8, byte 13 with a right address-family nibble and a wrong transport nibble. -/
theorem set_transport (cmd : Command) (tr : Transport) (addr : Addresses) (rest trail : B)
    (b : UInt8)
    (hf : b &&& 0xF0 = 0x00 ∨ b &&& 0xF0 = 0x10 ∨ b &&& 0xF0 = 0x20 ∨ b &&& 0xF0 = 0x30)
    (ht : b &&& 0x0F ≠ 0 ∧ b &&& 0x0F ≠ 1 ∧ b &&& 0x0F ≠ 2) :
    parse ((Spec.V2.encode cmd tr addr rest ++ trail).set 13 b) =
      .error (.protocol (b &&& 0x0F)) := by
  obtain ⟨hg, hl, -, e12, -⟩ := encode_fixed cmd tr addr rest trail
  have h13 : byteAt ((Spec.V2.encode cmd tr addr rest ++ trail).set 13 b) 13 = b :=
    byteAt_set_eq (by omega)
  have h12 : byteAt ((Spec.V2.encode cmd tr addr rest ++ trail).set 13 b) 12 =
      Spec.V2.versionCommand cmd := by
    rw [byteAt_set_ne (by omega), e12]
  obtain ⟨n1, n2⟩ := versionCommand_nibbles cmd
  have := blame_transport _ (gate_set b (by omega : 12 ≤ 13) hg) (by rw [h12]; exact n1)
    (by rw [h12]; exact n2) (by rw [h13]; exact hf) (by rw [h13]; exact ht)
  rw [h13] at this
  exact this

/-- B8, bytes 14 and 15 replaced by a declared length smaller than the address
block of the header's family. -/
theorem set_length (cmd : Command) (tr : Transport) (addr : Addresses) (rest trail : B)
    (l : Nat) (hl16 : l < 65536) (hl : l < Spec.V2.familySize addr.family) :
    parse (((Spec.V2.encode cmd tr addr rest ++ trail).set 14 (UInt8.ofNat (l / 256))).set 15
        (UInt8.ofNat (l % 256))) =
      .error (.invalidAddresses l (Spec.V2.familySize addr.family)) := by
  obtain ⟨hg, hlen, -, e12, e13⟩ := encode_fixed cmd tr addr rest trail
  generalize Spec.V2.encode cmd tr addr rest ++ trail = y at *
  generalize hz : (y.set 14 (UInt8.ofNat (l / 256))).set 15 (UInt8.ofNat (l % 256)) = z
  have hgz : gate z = .ok () := by
    rw [← hz]
    exact gate_set _ (by omega) (gate_set _ (by omega) hg)
  have h12 : byteAt z 12 = Spec.V2.versionCommand cmd := by
    rw [← hz, byteAt_set_ne (by omega), byteAt_set_ne (by omega), e12]
  have h13 : byteAt z 13 = Spec.V2.familyTransport addr.family tr := by
    rw [← hz, byteAt_set_ne (by omega), byteAt_set_ne (by omega), e13]
  have h14 : byteAt z 14 = UInt8.ofNat (l / 256) := by
    rw [← hz, byteAt_set_ne (by omega), byteAt_set_eq (by omega)]
  have h15 : byteAt z 15 = UInt8.ofNat (l % 256) := by
    rw [← hz, byteAt_set_eq (by rw [List.length_set]; omega)]
  have hL : be16 (byteAt z 14) (byteAt z 15) = l := by
    rw [h14, h15]; exact be16_be16Bytes l hl16
  have hc : control (byteAt z 12) (byteAt z 13) = .ok (.two, cmd, addr.family, tr) := by
    rw [h12, h13]; exact control_encode _ _ _
  have := blame_length z hgz hc (by rw [hL, size_eq_spec]; exact hl)
  rw [hL, size_eq_spec] at this
  exact this

end V2
