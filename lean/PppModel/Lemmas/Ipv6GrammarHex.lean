import PppModel.Spec.V1
import PppModel.Lemmas.Ipv4Port
import PppModel.Lemmas.Ipv6Aux

/-!
# Hexadecimal groups and decimal text: the parser's digit loops against the grammar's
`HexGroup` / `Decimal` (`Spec.V1`)
-/

namespace StdNet

/-! ## `Decimal` is `StdInt.dec` -/

theorem decValue_eq_valAcc (s : B) : Spec.V1.decValue s = valAcc 0 s := by
  have : ∀ (s : B) (acc : Nat),
      s.foldl (fun acc c => acc * 10 + (c.toNat - 0x30)) acc = valAcc acc s := by
    intro s
    induction s with
    | nil => intro acc; rfl
    | cons c cs ih => intro acc; rw [List.foldl_cons, valAcc_cons]; exact ih _
  exact this s 0

theorem decimal_iff_dec (s : B) (n : Nat) : Spec.V1.Decimal s n ↔ s = StdInt.dec n := by
  unfold Spec.V1.Decimal
  rw [decValue_eq_valAcc]
  constructor
  · rintro ⟨h1, h2, h3, h4⟩
    have hc : Canon s := ⟨h1, h2, h3⟩
    rw [← h4, StdInt.dec_valAcc_of_canon hc]
  · intro h
    subst h
    rcases StdInt.dec_canon n with ⟨h1, h2, h3⟩
    exact ⟨h1, h2, h3, StdInt.valAcc_dec n⟩

theorem ipv4Text_iff_display (s : B) (a : Ip4) : Spec.V1.Ipv4Text s a ↔ s = displayIpv4 a := by
  unfold Spec.V1.Ipv4Text
  simp only [decimal_iff_dec]
  constructor
  · rintro ⟨A, B, C, D, rfl, rfl, rfl, rfl, h⟩
    rw [h]; rfl
  · intro h
    exact ⟨_, _, _, _, rfl, rfl, rfl, rfl, h⟩

/-- The grammar's dotted quad is exactly what `Ipv4Addr::from_str` accepts. -/
theorem ipv4Text_iff_parse (s : B) (a : Ip4) : Spec.V1.Ipv4Text s a ↔ parseIpv4 s = some a := by
  rw [ipv4Text_iff_display, parseIpv4_iff]

/-! ## hexadecimal digits -/

theorem digitVal16_eq (c : UInt8) : digitVal 16 c = Spec.V1.hexDigitValue c := by
  unfold digitVal Spec.V1.hexDigitValue
  simp only [Bool.and_eq_true, decide_eq_true_eq, BEq.rfl, if_true]

/-- Hexadecimal digit, either case. -/
def IsHex (c : UInt8) : Prop := digitVal 16 c ≠ none

/-- Value of a hexadecimal digit (0 for other bytes). -/
def hexD (c : UInt8) : Nat := (digitVal 16 c).getD 0

theorem digitVal16_of_isHex {c : UInt8} (h : IsHex c) : digitVal 16 c = some (hexD c) := by
  unfold IsHex at h
  unfold hexD
  cases hd : digitVal 16 c with
  | none => exact absurd hd h
  | some d => rfl

theorem digitVal16_of_not_isHex {c : UInt8} (h : ¬ IsHex c) : digitVal 16 c = none := by
  unfold IsHex at h
  exact Decidable.not_not.mp h

theorem hexD_lt (c : UInt8) : hexD c < 16 := by
  revert c
  apply forall_uint8
  decide +kernel

theorem isHex_of_isDig {c : UInt8} (h : IsDig c) : IsHex c := by
  unfold IsHex digitVal
  rw [if_pos (by simpa [IsDig] using h)]
  simp

theorem not_isHex_colon : ¬ IsHex 0x3A := by unfold IsHex; decide
theorem not_isHex_dot : ¬ IsHex 0x2E := by unfold IsHex; decide
theorem not_isDig_colon : ¬ IsDig 0x3A := by decide

theorem isHex_ne {c : UInt8} (h : IsHex c) : c ≠ 0x20 ∧ c ≠ 0x0D := by
  constructor
  · intro e; subst e; revert h; unfold IsHex; decide
  · intro e; subst e; revert h; unfold IsHex; decide

/-- Left-to-right hexadecimal value with an accumulator. -/
def hexL : B → Nat → Nat
  | [], acc => acc
  | c :: cs, acc => hexL cs (acc * 16 + hexD c)

theorem hexL_lt (ds : B) (acc : Nat) : hexL ds acc < (acc + 1) * 16 ^ ds.length := by
  induction ds generalizing acc with
  | nil => simp [hexL]
  | cons c cs ih =>
    have h1 := ih (acc * 16 + hexD c)
    have h2 := hexD_lt c
    simp only [hexL, List.length_cons, Nat.pow_succ]
    have h3 : (acc * 16 + hexD c + 1) * 16 ^ cs.length ≤ ((acc + 1) * 16) * 16 ^ cs.length :=
      Nat.mul_le_mul_right _ (by omega)
    rw [Nat.mul_comm (16 ^ cs.length) 16, ← Nat.mul_assoc]
    omega

theorem stops16_iff (s : B) : Stops 16 s ↔ s = [] ∨ ∃ c r, s = c :: r ∧ ¬ IsHex c := by
  cases s with
  | nil => simp [Stops]
  | cons c r => simp [Stops, IsHex]

theorem readDigits16_append {m : Nat} {ds : B} (hds : ∀ c ∈ ds, IsHex c) {rest : B}
    (hrest : Stops 16 rest) {acc cnt : Nat} (hcnt : cnt + ds.length ≤ m) :
    readDigits 16 m (ds ++ rest) acc cnt = some (hexL ds acc, cnt + ds.length, rest) := by
  induction ds generalizing acc cnt with
  | nil => simpa [hexL] using readDigits_stops hrest acc cnt
  | cons c cs ih =>
    have hc : IsHex c := hds c (List.mem_cons_self ..)
    simp only [List.length_cons] at hcnt
    simp only [List.cons_append, readDigits, digitVal16_of_isHex hc]
    rw [if_neg (by omega), ih (fun x hx => hds x (List.mem_cons_of_mem _ hx)) (by omega)]
    simp only [hexL, List.length_cons]
    congr 3; omega

theorem readDigits16_some {m : Nat} {s : B} {acc cnt v cnt' : Nat} {rest : B}
    (h : readDigits 16 m s acc cnt = some (v, cnt', rest)) (hcnt : cnt ≤ m) :
    ∃ ds, s = ds ++ rest ∧ (∀ c ∈ ds, IsHex c) ∧ cnt' = cnt + ds.length ∧ cnt' ≤ m ∧
      v = hexL ds acc ∧ Stops 16 rest := by
  induction s generalizing acc cnt with
  | nil =>
    simp only [readDigits, Option.some.injEq, Prod.mk.injEq] at h
    rcases h with ⟨rfl, rfl, rfl⟩
    exact ⟨[], rfl, by simp, rfl, hcnt, rfl, stops_nil _⟩
  | cons c cs ih =>
    by_cases hc : IsHex c
    · simp only [readDigits, digitVal16_of_isHex hc] at h
      split at h
      · cases h
      · rename_i hle
        rcases ih h (by omega) with ⟨ds, h1, h2, h3, h4, h5, h6⟩
        refine ⟨c :: ds, by rw [h1]; rfl, ?_, ?_, h4, ?_, h6⟩
        · intro x hx
          rcases List.mem_cons.mp hx with rfl | hx
          · exact hc
          · exact h2 x hx
        · simp only [List.length_cons]; omega
        · simp only [hexL]; exact h5
    · simp only [readDigits, digitVal16_of_not_isHex hc, Option.some.injEq, Prod.mk.injEq] at h
      rcases h with ⟨rfl, rfl, rfl⟩
      exact ⟨[], rfl, by simp, rfl, hcnt, rfl, stops_cons (digitVal16_of_not_isHex hc)⟩

/-! ## `HexGroup` -/

theorem foldl_hex_map (ds : B) (acc : Nat) :
    (ds.map hexD).foldl (fun acc d => acc * 16 + d) acc = hexL ds acc := by
  induction ds generalizing acc with
  | nil => rfl
  | cons c cs ih => simp only [List.map_cons, List.foldl_cons, hexL]; exact ih _

/-- The grammar's hex group in terms of the digit predicate and value used here. -/
theorem hexGroup_iff (s : B) (g : Nat) :
    Spec.V1.HexGroup s g ↔ 1 ≤ s.length ∧ s.length ≤ 4 ∧ (∀ c ∈ s, IsHex c) ∧ hexL s 0 = g := by
  unfold Spec.V1.HexGroup
  constructor
  · rintro ⟨h1, h2, ds, hmap, hval⟩
    have key : ∀ (s : B) (ds : List Nat), s.map Spec.V1.hexDigitValue = ds.map some →
        (∀ c ∈ s, IsHex c) ∧ ds = s.map hexD := by
      intro s
      induction s with
      | nil =>
        intro ds h
        cases ds with
        | nil => simp
        | cons d ds => simp at h
      | cons c cs ih =>
        intro ds h
        cases ds with
        | nil => simp at h
        | cons d ds =>
          simp only [List.map_cons, List.cons.injEq] at h
          rcases ih ds h.2 with ⟨i1, i2⟩
          have hc : digitVal 16 c = some d := by rw [digitVal16_eq]; exact h.1
          have hx : IsHex c := by unfold IsHex; rw [hc]; simp
          refine ⟨?_, ?_⟩
          · intro x hx'
            rcases List.mem_cons.mp hx' with rfl | hx'
            · exact hx
            · exact i1 x hx'
          · have : hexD c = d := by unfold hexD; rw [hc]; rfl
            rw [List.map_cons, this, i2]
    rcases key s ds hmap with ⟨k1, k2⟩
    refine ⟨h1, h2, k1, ?_⟩
    rw [← hval, k2, foldl_hex_map]
  · rintro ⟨h1, h2, h3, h4⟩
    refine ⟨h1, h2, s.map hexD, ?_, ?_⟩
    · rw [List.map_map]
      apply List.map_congr_left
      intro c hc
      rw [← digitVal16_eq, digitVal16_of_isHex (h3 c hc)]; rfl
    · rw [foldl_hex_map, h4]

theorem hexGroup_lt {s : B} {g : Nat} (h : Spec.V1.HexGroup s g) : g < 65536 := by
  rcases (hexGroup_iff s g).mp h with ⟨_, h2, _, h4⟩
  have := hexL_lt s 0
  have h16 : 16 ^ s.length ≤ 16 ^ 4 := Nat.pow_le_pow_right (by decide) h2
  rw [h4] at this
  omega

theorem hexGroup_isHex {s : B} {g : Nat} (h : Spec.V1.HexGroup s g) : ∀ c ∈ s, IsHex c :=
  ((hexGroup_iff s g).mp h).2.2.1

theorem hexGroup_ne_nil {s : B} {g : Nat} (h : Spec.V1.HexGroup s g) : s ≠ [] := by
  intro e; subst e
  have := ((hexGroup_iff _ g).mp h).1
  simp at this

/-- `readHex16` accepts exactly a hex group followed by the end or a non-hex byte. -/
theorem readHex16_iff (s : B) (g : Nat) (rest : B) :
    readHex16 s = some (g, rest) ↔ ∃ ds, s = ds ++ rest ∧ Spec.V1.HexGroup ds g ∧ Stops 16 rest := by
  constructor
  · intro h
    unfold readHex16 readNumber at h
    simp only at h
    split at h
    · cases h
    · rename_i v cnt rest' hrd
      rcases readDigits16_some hrd (by omega) with ⟨ds, h1, h2, h3, h4, h5, h6⟩
      split at h
      · cases h
      · rename_i hcnt
        split at h
        · rename_i hh; simp at hh
        · split at h
          · simp only [Option.some.injEq, Prod.mk.injEq] at h
            rcases h with ⟨rfl, rfl⟩
            refine ⟨ds, h1, ?_, h6⟩
            rw [hexGroup_iff]
            have : cnt ≠ 0 := by simpa using hcnt
            exact ⟨by omega, by omega, h2, h5.symm⟩
          · cases h
  · rintro ⟨ds, rfl, hg, hst⟩
    have hlt := hexGroup_lt hg
    rcases (hexGroup_iff ds g).mp hg with ⟨h1, h2, h3, h4⟩
    unfold readHex16 readNumber
    simp only
    rw [readDigits16_append h3 hst (by omega), h4]
    have hne : (ds.length == 0) = false := by rw [beq_eq_false_iff_ne]; omega
    simp [hne, hlt]

end StdNet
