import PppModel.Spec.V2
import PppModel.V2.Parse
import PppModel.V2.Tlv
import PppModel.Lemmas.Bytes

/-!
# Stage characterisations of the v2 parser and address-block round trips
-/

namespace V2

theorem sig_eq_spec : sig = Spec.V2.signature := rfl

theorem size_eq_spec (f : Family) : f.size = Spec.V2.familySize f := by
  cases f <;> rfl

/-! ## gate -/

theorem gate_ok_iff (x : B) : gate x = .ok () ↔ x.take 12 = sig ∧ 16 ≤ x.length := by
  unfold gate
  have hs : sig.length = 12 := rfl
  simp only [hs, minLen]
  by_cases h1 : x.length < 12
  · simp only [h1, if_true]
    constructor
    · intro h; split at h <;> cases h
    · rintro ⟨_, h⟩; omega
  · simp only [h1, if_false]
    by_cases h2 : x.take 12 = sig
    · simp only [h2, ne_eq, not_true_eq_false, if_false]
      by_cases h3 : x.length < 16
      · simp [h3]
      · simp [h3]; omega
    · simp [h2]

theorem gate_error_cases (x : B) (e : ParseError) (h : gate x = .error e) :
    (e = .incomplete x.length ∧ x.length < 16 ∧ x.take 12 <+: sig ∧ (12 ≤ x.length → x.take 12 = sig)) ∨
    (e = .badPrefix) := by
  unfold gate at h
  have hs : sig.length = 12 := rfl
  simp only [hs, minLen] at h
  split at h
  · rename_i h1
    split at h
    · rename_i hp
      left
      cases h
      refine ⟨rfl, by omega, ?_, by omega⟩
      rw [List.take_of_length_le (by omega)]
      simpa using hp
    · right; cases h; rfl
  · split at h
    · right; cases h; rfl
    · rename_i h1 h2
      by_cases h3 : x.length < 16
      · left
        simp only [h3, if_true] at h
        cases h
        have h2' : x.take 12 = sig := by simpa using h2
        refine ⟨rfl, by omega, ?_, fun _ => h2'⟩
        rw [h2']; exact List.prefix_refl _
      · simp [h3] at h

/-! ## control: nibble tables, closed over all 256 byte values -/

theorem version_command_table : ∀ b : UInt8, ∀ c : Command,
    (decodeVersion b = .ok .two ∧ decodeCommand b = .ok c) ↔ b = Spec.V2.versionCommand c := by
  intro b c
  revert b
  cases c <;> (apply forall_uint8; decide +kernel)

theorem family_transport_table : ∀ b : UInt8, ∀ f : Family, ∀ t : Transport,
    (decodeFamily b = .ok f ∧ decodeTransport b = .ok t) ↔ b = Spec.V2.familyTransport f t := by
  intro b f t
  revert b
  cases f <;> cases t <;> (apply forall_uint8; decide +kernel)

theorem control_ok_iff (vc afp : UInt8) (v : Version) (c : Command) (f : Family) (t : Transport) :
    control vc afp = .ok (v, c, f, t) ↔
      vc = Spec.V2.versionCommand c ∧ afp = Spec.V2.familyTransport f t := by
  cases v
  rw [← version_command_table, ← family_transport_table]
  unfold control
  cases hv : decodeVersion vc with
  | error e => simp
  | ok v' =>
    cases v'
    cases hc : decodeCommand vc with
    | error e => simp
    | ok c' =>
      cases hf : decodeFamily afp with
      | error e => simp
      | ok f' =>
        cases ht : decodeTransport afp with
        | error e => simp
        | ok t' => simp

theorem decodeVersion_error {b : UInt8} {e} (h : decodeVersion b = .error e) : e = .version (b &&& 0xF0) := by
  unfold decodeVersion at h; split at h <;> cases h; rfl
theorem decodeCommand_error {b : UInt8} {e} (h : decodeCommand b = .error e) : e = .command (b &&& 0x0F) := by
  unfold decodeCommand at h; repeat' split at h
  all_goals cases h
  rfl
theorem decodeFamily_error {b : UInt8} {e} (h : decodeFamily b = .error e) : e = .addressFamily (b &&& 0xF0) := by
  unfold decodeFamily at h; repeat' split at h
  all_goals cases h
  rfl
theorem decodeTransport_error {b : UInt8} {e} (h : decodeTransport b = .error e) : e = .protocol (b &&& 0x0F) := by
  unfold decodeTransport at h; repeat' split at h
  all_goals cases h
  rfl

theorem control_error (vc afp : UInt8) (e : ParseError) (h : control vc afp = .error e) :
    (∃ v, e = .version v) ∨ (∃ c, e = .command c) ∨ (∃ a, e = .addressFamily a) ∨ (∃ p, e = .protocol p) := by
  unfold control at h
  cases hv : decodeVersion vc with
  | error e' => rw [hv] at h; cases h; exact .inl ⟨_, decodeVersion_error hv⟩
  | ok v =>
    rw [hv] at h
    cases hc : decodeCommand vc with
    | error e' => rw [hc] at h; cases h; exact .inr (.inl ⟨_, decodeCommand_error hc⟩)
    | ok c =>
      rw [hc] at h
      cases hf : decodeFamily afp with
      | error e' => rw [hf] at h; cases h; exact .inr (.inr (.inl ⟨_, decodeFamily_error hf⟩))
      | ok f =>
        rw [hf] at h
        cases ht : decodeTransport afp with
        | error e' => rw [ht] at h; cases h; exact .inr (.inr (.inr ⟨_, decodeTransport_error ht⟩))
        | ok t => rw [ht] at h; cases h

/-! ## address blocks -/

theorem block2 (n : Nat) (s d r : B) (hs : s.length = n) (hd : d.length = n) :
    (s ++ (d ++ r)).take n = s ∧ ((s ++ (d ++ r)).take (n + n)).drop n = d ∧
    (s ++ (d ++ r)).drop n = d ++ r ∧
    ∀ i, byteAt (s ++ (d ++ r)) (n + n + i) = byteAt r i := by
  refine ⟨?_, ?_, ?_, ?_⟩
  · simp [hs]
  · simp [List.take_append, hs, hd]
  · simp [hs]
  · intro i
    rw [byteAt_append_right (by omega), byteAt_append_right (by omega)]
    congr 1; omega

theorem addrBytes_length (a : Addresses) :
    (Spec.V2.addrBytes a).length = Spec.V2.familySize a.family := by
  cases a with
  | unspec => rfl
  | ipv4 a => simp [Spec.V2.addrBytes, Spec.V2.u16be, Addresses.family, Spec.V2.familySize]
  | ipv6 a =>
    simp [Spec.V2.addrBytes, Spec.V2.u16be, Addresses.family, Spec.V2.familySize,
      a.srcAddr.property, a.dstAddr.property]
  | unix a =>
    simp [Spec.V2.addrBytes, Addresses.family, Spec.V2.familySize, a.source.property,
      a.destination.property]

/-- Decoding the encoding of an address value gives the value back. -/
theorem parseAddresses_addrBytes (a : Addresses) :
    parseAddresses a.family (Spec.V2.addrBytes a) = a := by
  cases a with
  | unspec => rfl
  | ipv4 a =>
    obtain ⟨⟨a0, a1, a2, a3⟩, sp, ⟨b0, b1, b2, b3⟩, dp⟩ := a
    simp [Spec.V2.addrBytes, Spec.V2.u16be, Addresses.family, parseAddresses, portOf_portBytes]
  | ipv6 a =>
    obtain ⟨sa, sp, da, dp⟩ := a
    simp only [Spec.V2.addrBytes, Spec.V2.u16be, Addresses.family, parseAddresses, List.append_assoc]
    obtain ⟨h1, h2, -, h4⟩ := block2 16 sa.val da.val
      ([UInt8.ofNat (sp.toNat / 256), UInt8.ofNat (sp.toNat % 256)] ++
        [UInt8.ofNat (dp.toNat / 256), UInt8.ofNat (dp.toNat % 256)]) sa.property da.property
    rw [h1, h2, h4 0, h4 1, h4 2, h4 3]
    simp [FixB.ofList_of_val, portOf_portBytes]
  | unix a =>
    obtain ⟨s, d⟩ := a
    simp only [Spec.V2.addrBytes, Addresses.family, parseAddresses]
    obtain ⟨h1, -, h3, -⟩ := block2 108 s.val d.val [] s.property d.property
    simp only [List.append_nil] at h1 h3
    rw [h1, h3]
    simp [FixB.ofList_of_val]

theorem parseAddresses_family (f : Family) (bs : B) : (parseAddresses f bs).family = f := by
  cases f <;> rfl

theorem u16be_portOf (hi lo : UInt8) : Spec.V2.u16be (portOf hi lo).toNat = [hi, lo] :=
  portBytes_portOf hi lo

/-- Encoding the decoding of an address block of the right size gives the block back. -/
theorem addrBytes_parseAddresses (f : Family) (bs : B) (h : bs.length = Spec.V2.familySize f) :
    Spec.V2.addrBytes (parseAddresses f bs) = bs := by
  cases f with
  | unspec =>
    simp only [Spec.V2.familySize] at h
    simp [parseAddresses, Spec.V2.addrBytes, List.length_eq_zero_iff.mp h]
  | ipv4 =>
    simp only [Spec.V2.familySize] at h
    match bs, h with
    | [b0, b1, b2, b3, b4, b5, b6, b7, b8, b9, b10, b11], _ =>
      simp [parseAddresses, Spec.V2.addrBytes, u16be_portOf]
  | ipv6 =>
    simp only [Spec.V2.familySize] at h
    simp only [parseAddresses, Spec.V2.addrBytes, u16be_portOf]
    rw [FixB.ofList_val (by simp; omega), FixB.ofList_val (by simp; omega)]
    have e : bs = bs.take 32 ++ [byteAt bs 32, byteAt bs 33, byteAt bs 34, byteAt bs 35] ++ bs.drop 36 :=
      split4 (by omega)
    have e2 : bs.drop 36 = [] := List.drop_of_length_le (by omega)
    have e3 : bs.take 16 ++ (bs.take 32).drop 16 = bs.take 32 := by
      have : bs.take 16 = (bs.take 32).take 16 := by simp [List.take_take]
      rw [this, List.take_append_drop]
    rw [e3]
    conv => rhs; rw [e, e2]
    simp
  | unix =>
    simp only [Spec.V2.familySize] at h
    simp only [parseAddresses, Spec.V2.addrBytes]
    rw [FixB.ofList_val (by simp; omega), FixB.ofList_val (by simp; omega)]
    simp

end V2

namespace V2

/-! ## the parser on inputs whose fixed part is complete -/

theorem gate_ok_append {x : B} (ys : B) (h : gate x = .ok ()) : gate (x ++ ys) = .ok () := by
  rw [gate_ok_iff] at h ⊢
  obtain ⟨h1, h2⟩ := h
  refine ⟨?_, by simp; omega⟩
  rw [List.take_append_of_le_length (by omega)]; exact h1

theorem byteAt_append_of_lt {x : B} (ys : B) {i : Nat} (h : i < x.length) :
    byteAt (x ++ ys) i = byteAt x i := byteAt_append_left h

/-- What `parse` does once the gate and the control bytes are fine. -/
theorem parse_eq_body {x : B} {v c f t} (hg : gate x = .ok ())
    (hc : control (byteAt x 12) (byteAt x 13) = .ok (v, c, f, t)) :
    parse x = body x v c f t := by
  simp [parse, hg, hc]

/-- The only source of `Partial` is stage 3. -/
theorem parse_partial {x : B} {a b : Nat} (h : parse x = .error (.partialHdr a b)) :
    gate x = .ok () ∧ ∃ v c f t, control (byteAt x 12) (byteAt x 13) = .ok (v, c, f, t) ∧
      f.size ≤ be16 (byteAt x 14) (byteAt x 15) ∧
      x.length < 16 + be16 (byteAt x 14) (byteAt x 15) ∧
      a = x.length - 16 ∧ b = be16 (byteAt x 14) (byteAt x 15) := by
  unfold parse at h
  cases hg : gate x with
  | error e =>
    rw [hg] at h
    rcases gate_error_cases x e hg with ⟨rfl, -⟩ | rfl <;> cases h
  | ok u =>
    cases u
    rw [hg] at h
    refine ⟨rfl, ?_⟩
    cases hc : control (byteAt x 12) (byteAt x 13) with
    | error e =>
      rw [hc] at h
      simp only at h
      cases h
      rcases control_error _ _ _ hc with ⟨v, h⟩ | ⟨v, h⟩ | ⟨v, h⟩ | ⟨v, h⟩ <;> cases h
    | ok r =>
      obtain ⟨v, c, f, t⟩ := r
      rw [hc] at h
      simp only [body, minLen] at h
      refine ⟨v, c, f, t, rfl, ?_⟩
      by_cases h1 : be16 (byteAt x 14) (byteAt x 15) < f.size
      · simp [h1] at h
      · by_cases h2 : x.length < 16 + be16 (byteAt x 14) (byteAt x 15)
        · simp only [h1, h2, if_true, if_false, Except.error.injEq, ParseError.partialHdr.injEq] at h
          exact ⟨by omega, h2, h.1.symm, h.2.symm⟩
        · simp [h1, h2] at h

/-- The header value whose bytes are the wire encoding of its own fields. -/
def encHeader (cmd : Command) (tr : Transport) (addr : Addresses) (rest : B) : Header :=
  { header := Spec.V2.encode cmd tr addr rest, version := .two, command := cmd,
    protocol := tr, addresses := addr }

/-- Views of a header that is the wire encoding of its own fields. -/
theorem views_of_encode (cmd : Command) (tr : Transport) (addr : Addresses) (rest : B) :
    (encHeader cmd tr addr rest).length = (Spec.V2.addrBytes addr).length + rest.length ∧
    (encHeader cmd tr addr rest).header.drop 16 = Spec.V2.addrBytes addr ++ rest ∧
    (encHeader cmd tr addr rest).addressBytes = (if addr.family = .unspec then rest else Spec.V2.addrBytes addr) ∧
    (encHeader cmd tr addr rest).tlvBytes = (if addr.family = .unspec then [] else rest) := by
  generalize hh : encHeader cmd tr addr rest = h
  have haddr : h.addresses = addr := by rw [← hh]; rfl
  have hpre : (Spec.V2.signature ++ [Spec.V2.versionCommand cmd, Spec.V2.familyTransport addr.family tr] ++
      Spec.V2.u16be ((Spec.V2.addrBytes addr).length + rest.length)).length = 16 := by
    simp [Spec.V2.signature, Spec.V2.u16be]
  have henc : h.header = (Spec.V2.signature ++ [Spec.V2.versionCommand cmd, Spec.V2.familyTransport addr.family tr] ++
      Spec.V2.u16be ((Spec.V2.addrBytes addr).length + rest.length)) ++ (Spec.V2.addrBytes addr ++ rest) := by
    rw [← hh]; simp [encHeader, Spec.V2.encode]
  have hdrop : h.header.drop 16 = Spec.V2.addrBytes addr ++ rest := by
    rw [henc, drop_len_append hpre]
  have hlen : h.length = (Spec.V2.addrBytes addr).length + rest.length := by
    simp [Header.length, minLen, hdrop]
  have hal := addrBytes_length addr
  refine ⟨hlen, hdrop, ?_, ?_⟩
  · simp only [Header.addressBytes, Header.addressBytesEnd, hlen, minLen, Header.addressFamily, haddr]
    cases addr with
    | unspec =>
      simp only [Addresses.family, Family.byteLength, Option.getD_none, Nat.min_self, if_true]
      rw [henc, take_len_add_append hpre, drop_len_append hpre]
      simp [Spec.V2.addrBytes]
    | ipv4 a =>
      simp only [Addresses.family, Family.byteLength, Option.getD_some, reduceCtorEq, if_false] at hal ⊢
      simp only [Spec.V2.familySize] at hal
      rw [Nat.min_eq_left (by omega), henc, ← hal, take_len_add_append hpre, drop_len_append hpre]
      simp
    | ipv6 a =>
      simp only [Addresses.family, Family.byteLength, Option.getD_some, reduceCtorEq, if_false] at hal ⊢
      simp only [Spec.V2.familySize] at hal
      rw [Nat.min_eq_left (by omega), henc, ← hal, take_len_add_append hpre, drop_len_append hpre]
      simp
    | unix a =>
      simp only [Addresses.family, Family.byteLength, Option.getD_some, reduceCtorEq, if_false] at hal ⊢
      simp only [Spec.V2.familySize] at hal
      rw [Nat.min_eq_left (by omega), henc, ← hal, take_len_add_append hpre, drop_len_append hpre]
      simp
  · simp only [Header.tlvBytes, Header.addressBytesEnd, hlen, minLen, Header.addressFamily, haddr]
    cases addr with
    | unspec =>
      simp only [Addresses.family, Family.byteLength, Option.getD_none, Nat.min_self, if_true]
      rw [← List.drop_drop, hdrop]
      simp [Spec.V2.addrBytes]
    | ipv4 a =>
      simp only [Addresses.family, Family.byteLength, Option.getD_some, reduceCtorEq, if_false] at hal ⊢
      simp only [Spec.V2.familySize] at hal
      rw [Nat.min_eq_left (by omega), ← List.drop_drop, hdrop, ← hal]
      simp
    | ipv6 a =>
      simp only [Addresses.family, Family.byteLength, Option.getD_some, reduceCtorEq, if_false] at hal ⊢
      simp only [Spec.V2.familySize] at hal
      rw [Nat.min_eq_left (by omega), ← List.drop_drop, hdrop, ← hal]
      simp
    | unix a =>
      simp only [Addresses.family, Family.byteLength, Option.getD_some, reduceCtorEq, if_false] at hal ⊢
      simp only [Spec.V2.familySize] at hal
      rw [Nat.min_eq_left (by omega), ← List.drop_drop, hdrop, ← hal]
      simp

end V2
