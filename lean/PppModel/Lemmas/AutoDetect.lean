import PppModel.Lemmas.V1Accept
import PppModel.Lemmas.V2Blame

/-!
# First-byte facts behind version auto-detection

* the window that `parseBytes` hands to `parse_header` is a window (`V1.window_is_window`),
  hence an accepted v1 input is a well-formed line (`V1.parseBytes_ok_line`) and
  starts with `PROXY␠` (`V1.parseBytes_ok_take6`);
* an input whose first byte is not CR is rejected terminally by the v2 parser
  (`V2.parse_badPrefix_of_head`).
-/

namespace V1.AutoDetect

/-- A CR found in a prefix is the first CR of the whole input. -/
theorem firstCR_of_take {x : B} {n i : Nat} (h : firstCR (x.take n) = some i) :
    firstCR x = some i := by
  have := firstCR_append_of_some (x.drop n) h
  rwa [List.take_append_drop] at this

/-- The slice `parseBytes` / `parseStr` hand to `parse_header` is a window. -/
theorem window_is_window {x : B} {n : Nat} (h : windowLength x = some n) : IsWindow (x.take n) := by
  intro i hi
  have hx := firstCR_of_take hi
  simp only [windowLength, hx, CRLF, List.length_cons, List.length_nil, Option.some.injEq] at h
  simp only [List.length_take]
  omega

/-- What `parseBytes` does on a success. -/
theorem parseBytes_ok_inv {x : B} {h : Header} (hp : parseBytes x = .ok h) :
    ∃ n, windowLength x = some n ∧ Utf8.valid (x.take n) = true ∧ parseHeader (x.take n) = .ok h := by
  unfold parseBytes at hp
  cases hw : windowLength x with
  | none => rw [hw] at hp; cases hp
  | some n =>
    rw [hw] at hp
    simp only at hp
    cases hv : Utf8.valid (x.take n) with
    | false => rw [hv] at hp; cases hp
    | true =>
      rw [hv] at hp
      cases hr : parseHeader (x.take n) with
      | error e => rw [hr] at hp; cases hp
      | ok h' =>
        rw [hr] at hp
        cases hp
        exact ⟨n, rfl, hv, hr⟩

/-- An input accepted through the bytes entry point: its window is a well-formed
line of at most 107 bytes, and the header reported is that window. -/
theorem parseBytes_ok_line {x : B} {h : Header} (hp : parseBytes x = .ok h) :
    ∃ n, windowLength x = some n ∧ h.header = x.take n ∧ (x.take n).length ≤ 107 ∧
      Spec.V1.Line ip6Model (x.take n) h.addresses := by
  obtain ⟨n, hw, -, hr⟩ := parseBytes_ok_inv hp
  obtain ⟨h1, h2, h3⟩ := line_of_parseHeader_ok (window_is_window hw) hr
  exact ⟨n, hw, h1, h2, h3⟩

/-- Every well-formed line starts with `PROXY` and a space. -/
theorem line_starts {ip6 : B → Ip6 → Prop} {w : B} {addr : Addresses}
    (hl : Spec.V1.Line ip6 w addr) : ∃ r, w = (PROXY ++ [SP]) ++ r := by
  cases hl with
  | unknown tail h1 h2 => exact ⟨_, by simp only [List.append_assoc]; rfl⟩
  | tcp4 sa da sp dp a b p q hsa hda hsp hdp => exact ⟨_, by simp only [List.append_assoc]; rfl⟩
  | tcp6 sa da sp dp a b p q hsa hda hsp hdp => exact ⟨_, by simp only [List.append_assoc]; rfl⟩

/-- An input accepted by the v1 bytes entry point starts with `PROXY␠`. -/
theorem parseBytes_ok_take6 {x : B} {h : Header} (hp : parseBytes x = .ok h) :
    x.take 6 = PROXY ++ [SP] := by
  obtain ⟨n, -, -, -, hl⟩ := parseBytes_ok_line hp
  obtain ⟨r, hr⟩ := line_starts hl
  have h6 : (x.take n).take 6 = PROXY ++ [SP] := by
    rw [hr]; exact List.take_left' rfl
  have hn : 6 ≤ n := by
    have := congrArg List.length hr
    simp only [List.length_take, List.length_append, PROXY, List.length_cons, List.length_nil] at this
    omega
  rwa [List.take_take, Nat.min_eq_left hn] at h6

end V1.AutoDetect

namespace V2

/-- A non-empty input whose first byte is not the first signature byte is
rejected terminally, whatever its length. -/
theorem parse_badPrefix_of_head {y : B} {c : UInt8} (hh : y.head? = some c) (hc : c ≠ 0x0D) :
    parse y = .error .badPrefix := by
  cases y with
  | nil => cases hh
  | cons d t =>
    simp only [List.head?_cons, Option.some.injEq] at hh
    subst hh
    by_cases h12 : (d :: t).length < 12
    · apply blame_signature_short _ h12
      intro hp
      exact hc (List.cons_prefix_cons.mp hp).1
    · apply blame_signature _ (by omega)
      intro hs
      rw [List.take_succ_cons] at hs
      exact hc (List.cons.inj hs).1

/-- The contrapositive: an input that v2 accepts, or on which v2 asks for more
bytes, is empty or starts with CR. -/
theorem head_of_not_badPrefix {x : B} (h : parse x ≠ .error .badPrefix) :
    x = [] ∨ x.head? = some 0x0D := by
  cases x with
  | nil => exact .inl rfl
  | cons c t =>
    right
    by_cases hc : c = 0x0D
    · rw [hc]; rfl
    · exact absurd (parse_badPrefix_of_head (y := c :: t) rfl hc) h

end V2
