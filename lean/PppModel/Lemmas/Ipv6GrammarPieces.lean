import PppModel.Lemmas.Ipv6GrammarHex

/-!
# The text a `read_groups` call consumes, as an inductive relation, and its relation to
the grammar's `Groups` / `TailPieces` / `HeadPieces` (`Spec.V1`)
-/

namespace StdNet

open Spec.V1 (HexGroup Groups TailPieces HeadPieces Ipv4Text v4Groups COLON)

/-- The separator `read_separator` expects: a colon except in the first slot. -/
def sepB (c : Bool) : B := if c then [0x3A] else []

@[simp] theorem sepB_true : sepB true = [0x3A] := rfl
@[simp] theorem sepB_false : sepB false = [] := rfl

/-- `PiecesAt c t gs b`: `t` is a run of hex groups, each but the first preceded by a colon,
the first preceded by a colon iff `c`; the run may end in a dotted quad (then `b`). `gs` are the
16-bit pieces denoted. -/
inductive PiecesAt : Bool → B → List Nat → Bool → Prop
  | nil (c : Bool) : PiecesAt c [] [] false
  | v4 (c : Bool) (t : B) (a : Ip4) : Ipv4Text t a → PiecesAt c (sepB c ++ t) (v4Groups a) true
  | cons (c : Bool) (s : B) (g : Nat) (t : B) (gs : List Nat) (b : Bool) :
      HexGroup s g → PiecesAt true t gs b → PiecesAt c (sepB c ++ (s ++ t)) (g :: gs) b

theorem piecesAt_nil_text {c : Bool} {t : B} {b : Bool} (h : PiecesAt c t [] b) : t = [] := by
  generalize hgs : ([] : List Nat) = gs at h
  cases h with
  | nil => rfl
  | v4 t a ht => simp [v4Groups] at hgs
  | cons s g t gs b hg ht => simp at hgs

/-- A continuation run is empty or starts with a colon. -/
theorem piecesAt_true_head {t : B} {gs : List Nat} {b : Bool} (h : PiecesAt true t gs b) :
    t = [] ∨ ∃ r, t = 0x3A :: r := by
  generalize hc : true = c at h
  cases h with
  | nil => exact Or.inl rfl
  | v4 t a ht => subst hc; exact Or.inr ⟨_, rfl⟩
  | cons s g t gs b hg ht => subst hc; exact Or.inr ⟨_, rfl⟩

/-! ## from the grammar to `PiecesAt` -/

theorem piecesAt_of_groups {u : B} {gs : List Nat} (h : Groups u gs) :
    ∀ c, PiecesAt c (sepB c ++ u) gs false := by
  induction h with
  | one s g hg =>
    intro c
    have := PiecesAt.cons c s g [] [] false hg (PiecesAt.nil true)
    rwa [List.append_nil] at this
  | cons s g rest gs hg _ ih =>
    intro c
    have := PiecesAt.cons c s g _ gs false hg (ih true)
    simpa [COLON, List.append_assoc] using this

theorem piecesAt_of_groupsV4 {u : B} {gs : List Nat} (h : Groups u gs) {t : B} {a : Ip4}
    (ht : Ipv4Text t a) : ∀ c, PiecesAt c (sepB c ++ (u ++ [COLON] ++ t)) (gs ++ v4Groups a) true := by
  induction h with
  | one s g hg =>
    intro c
    have := PiecesAt.cons c s g _ _ true hg (PiecesAt.v4 true t a ht)
    simpa [COLON, List.append_assoc] using this
  | cons s g rest gs hg _ ih =>
    intro c
    have := PiecesAt.cons c s g _ _ true hg (ih true)
    simpa [COLON, List.append_assoc] using this

theorem piecesAt_of_tail {s : B} {gs : List Nat} (h : TailPieces s gs) : ∃ b, PiecesAt false s gs b := by
  cases h with
  | empty => exact ⟨false, PiecesAt.nil false⟩
  | groups _ _ hg => exact ⟨false, by simpa using piecesAt_of_groups hg false⟩
  | v4 _ a ht => exact ⟨true, by simpa using PiecesAt.v4 false s a ht⟩
  | groupsV4 u gs' t a hg ht => exact ⟨true, by simpa using piecesAt_of_groupsV4 hg ht false⟩

theorem piecesAt_of_head {s : B} {gs : List Nat} (h : HeadPieces s gs) : PiecesAt false s gs false := by
  cases h with
  | empty => exact PiecesAt.nil false
  | groups _ _ hg => simpa using piecesAt_of_groups hg false

/-! ## from `PiecesAt` to the grammar -/

theorem groups_of_piecesAt {c : Bool} {u : B} {gs : List Nat} {b : Bool} (h : PiecesAt c u gs b)
    (hb : b = false) (hne : gs ≠ []) : ∃ u', u = sepB c ++ u' ∧ Groups u' gs := by
  induction h with
  | nil c => exact absurd rfl hne
  | v4 c t a ht => cases hb
  | cons c s g t gs b hg ht ih =>
    by_cases hgs : gs = []
    · subst hgs
      have := piecesAt_nil_text ht
      subst this
      exact ⟨s, by simp, Groups.one s g hg⟩
    · rcases ih hb hgs with ⟨t', rfl, hG⟩
      refine ⟨s ++ [COLON] ++ t', ?_, Groups.cons s g t' gs hg hG⟩
      simp [COLON, List.append_assoc]

theorem tail_of_piecesAt_v4 {c : Bool} {u : B} {gs : List Nat} {b : Bool} (h : PiecesAt c u gs b)
    (hb : b = true) : ∃ u', u = sepB c ++ u' ∧ TailPieces u' gs ∧ 2 ≤ gs.length := by
  induction h with
  | nil c => cases hb
  | v4 c t a ht => exact ⟨t, rfl, TailPieces.v4 t a ht, by simp [v4Groups]⟩
  | cons c s g t gs b hg ht ih =>
    rcases ih hb with ⟨t', rfl, hT, hlen⟩
    refine ⟨s ++ [COLON] ++ t', by simp [COLON, List.append_assoc], ?_, by simp; omega⟩
    cases hT with
    | empty => simp at hlen
    | groups _ _ hG =>
      -- impossible shape is still fine: a plain run of groups
      exact TailPieces.groups _ _ (Groups.cons s g t' gs hg hG)
    | v4 _ a ha =>
      have := TailPieces.groupsV4 s [g] t' a (Groups.one s g hg) ha
      simpa using this
    | groupsV4 s' gs' t'' a hG ha =>
      have := TailPieces.groupsV4 _ _ t'' a (Groups.cons s g s' gs' hg hG) ha
      simpa [List.append_assoc] using this

theorem tail_of_piecesAt {u : B} {gs : List Nat} {b : Bool} (h : PiecesAt false u gs b) :
    TailPieces u gs := by
  cases b with
  | true =>
    rcases tail_of_piecesAt_v4 h rfl with ⟨u', rfl, hT, _⟩
    simpa using hT
  | false =>
    by_cases hgs : gs = []
    · subst hgs
      rw [piecesAt_nil_text h]; exact TailPieces.empty
    · rcases groups_of_piecesAt h rfl hgs with ⟨u', rfl, hG⟩
      exact TailPieces.groups _ _ (by simpa using hG)

theorem head_of_piecesAt {u : B} {gs : List Nat} (h : PiecesAt false u gs false) :
    HeadPieces u gs := by
  by_cases hgs : gs = []
  · subst hgs
    rw [piecesAt_nil_text h]; exact HeadPieces.empty
  · rcases groups_of_piecesAt h rfl hgs with ⟨u', rfl, hG⟩
    exact HeadPieces.groups _ _ (by simpa using hG)

/-! ## the bytes of an address text -/

/-- Bytes that can occur in an IPv6 address text. -/
def AddrByte (c : UInt8) : Prop := IsHex c ∨ c = 0x3A ∨ c = 0x2E

theorem addrByte_ne {c : UInt8} (h : AddrByte c) : c ≠ 0x20 ∧ c ≠ 0x0D := by
  rcases h with h | rfl | rfl
  · exact isHex_ne h
  · decide
  · decide

theorem ipv4Text_bytes {t : B} {a : Ip4} (h : Ipv4Text t a) : ∀ c ∈ t, AddrByte c := by
  rw [ipv4Text_iff_display] at h
  subst h
  intro c hc
  rcases displayIpv4_charset a c hc with hd | hd
  · exact Or.inl (isHex_of_isDig hd)
  · exact Or.inr (Or.inr hd)

theorem piecesAt_bytes {c : Bool} {u : B} {gs : List Nat} {b : Bool} (h : PiecesAt c u gs b) :
    ∀ x ∈ u, AddrByte x := by
  have hsep : ∀ c : Bool, ∀ x ∈ sepB c, AddrByte x := by
    intro c x hx
    cases c with
    | true => simp at hx; exact Or.inr (Or.inl hx)
    | false => simp at hx
  induction h with
  | nil c => intro x hx; simp at hx
  | v4 c t a ht =>
    intro x hx
    rcases List.mem_append.mp hx with hx | hx
    · exact hsep c x hx
    · exact ipv4Text_bytes ht x hx
  | cons c s g t gs b hg ht ih =>
    intro x hx
    rcases List.mem_append.mp hx with hx | hx
    · exact hsep c x hx
    · rcases List.mem_append.mp hx with hx | hx
      · exact Or.inl (hexGroup_isHex hg x hx)
      · exact ih x hx

/-- Every piece is a 16-bit value. -/
theorem piecesAt_lt {c : Bool} {u : B} {gs : List Nat} {b : Bool} (h : PiecesAt c u gs b) :
    ∀ g ∈ gs, g < 65536 := by
  induction h with
  | nil c => intro g hg; simp at hg
  | v4 c t a ht =>
    intro g hg
    have := a.a.toNat_lt; have := a.b.toNat_lt; have := a.c.toNat_lt; have := a.d.toNat_lt
    simp only [v4Groups, List.mem_cons, List.not_mem_nil, or_false] at hg
    rcases hg with rfl | rfl <;> omega
  | cons c s g t gs b hg ht ih =>
    intro x hx
    rcases List.mem_cons.mp hx with rfl | hx
    · exact hexGroup_lt hg
    · exact ih x hx

end StdNet
