import PppModel.Lemmas.V1Split

/-!
# Blame: one corrupted element of a complete v1 line gives the terminal error naming it

A complete TCP line is `kw SP proto SP sa SP da SP sp SP dp CR LF`.  If exactly
one of the elements is wrong (and the corruption does not introduce a separator),
`parse_header` — and with it both entry points — fails with a *terminal* error
whose kind names that element (G1–G7); over-long and non-UTF-8 windows are
reported as such (G8, G9); all these errors are terminal (G10); G11 lifts
G1–G7 to `parseBytes` / `parseStr` on `line ++ rest`.
-/

namespace V1.Blame

open V1

/-- The fields of a TCP line without its line ending. -/
def tcpBody (kw proto sa da sp dp : B) : B :=
  kw ++ [SP] ++ proto ++ [SP] ++ sa ++ [SP] ++ da ++ [SP] ++ sp ++ [SP] ++ dp

/-- A v1 line of six space separated fields and an ending. -/
def tcpLine (kw proto sa da sp dp : B) (ending : B) : B :=
  kw ++ [SP] ++ proto ++ [SP] ++ sa ++ [SP] ++ da ++ [SP] ++ sp ++ [SP] ++ dp ++ ending

theorem tcpLine_eq_body (kw proto sa da sp dp ending : B) :
    tcpLine kw proto sa da sp dp ending = tcpBody kw proto sa da sp dp ++ ending := rfl

theorem tcpLine_eq (kw proto sa da sp dp ending : B) :
    tcpLine kw proto sa da sp dp ending =
      kw ++ SP :: (proto ++ SP :: (sa ++ SP :: (da ++ SP :: (sp ++ SP :: (dp ++ ending))))) := by
  simp [tcpLine]

/-! ## CR-freeness of the body, termination -/

theorem crFree_app_sp {a b : B} (ha : crFree a) (hb : sepFree b) : crFree (a ++ [SP] ++ b) := by
  intro c hc
  simp only [List.mem_append, List.mem_singleton] at hc
  rcases hc with (hc | hc) | hc
  · exact ha c hc
  · subst hc; decide
  · exact hb.crFree c hc

theorem crFree_tcpBody {kw proto sa da sp dp : B} (hkw : sepFree kw) (hproto : sepFree proto)
    (hsa : sepFree sa) (hda : sepFree da) (hsp : sepFree sp) (hdp : sepFree dp) :
    crFree (tcpBody kw proto sa da sp dp) :=
  crFree_app_sp (crFree_app_sp (crFree_app_sp (crFree_app_sp (crFree_app_sp hkw.crFree hproto) hsa) hda) hsp) hdp

theorem terminated_tcpLine {kw proto sa da sp dp : B} (c : UInt8) (hkw : sepFree kw) (hproto : sepFree proto)
    (hsa : sepFree sa) (hda : sepFree da) (hsp : sepFree sp) (hdp : sepFree dp) :
    terminated (tcpLine kw proto sa da sp dp [CR, c]) = true := by
  rw [tcpLine_eq_body]
  exact terminated_window (crFree_tcpBody hkw hproto hsa hda hsp hdp)

/-! ## Splitting -/

theorem splitN_tcpLine {kw proto sa da sp dp : B} (c : UInt8) (hkw : sepFree kw) (hproto : sepFree proto)
    (hsa : sepFree sa) (hda : sepFree da) (hsp : sepFree sp) (hdp : sepFree dp) :
    splitN 7 (tcpLine kw proto sa da sp dp [CR, c]) = [kw, proto, sa, da, sp, dp, [c]] := by
  rw [tcpLine_eq]
  rw [(splitN_append 5 hkw isSep_SP : splitN 7 _ = _ :: splitN 6 _)]
  rw [(splitN_append 4 hproto isSep_SP : splitN 6 _ = _ :: splitN 5 _)]
  rw [(splitN_append 3 hsa isSep_SP : splitN 5 _ = _ :: splitN 4 _)]
  rw [(splitN_append 2 hda isSep_SP : splitN 4 _ = _ :: splitN 3 _)]
  rw [(splitN_append 1 hsp isSep_SP : splitN 3 _ = _ :: splitN 2 _)]
  rw [(splitN_append 0 hdp isSep_CR : splitN 2 (dp ++ CR :: [c]) = _ :: splitN 1 _)]
  rfl

/-! ## Walking through `parseHeader` -/

theorem ne_of_length_lt {w p : B} (h : p.length < w.length) : (w == p) = false := by
  have : w ≠ p := by intro e; subst e; omega
  simpa using this

/-- G1, general form: a first field other than `PROXY`, followed by a space. -/
theorem parseHeader_bad_keyword {kw r : B} (hkw : sepFree kw) (hne : kw ≠ PROXY)
    (hlen : (kw ++ SP :: r).length ≤ 107) :
    parseHeader (kw ++ SP :: r) = .error .invalidPrefix := by
  have hs : splitN PARTS (kw ++ SP :: r) = kw :: splitN 6 r := splitN_append 5 hkw isSep_SP
  have hemp : (kw ++ SP :: r).isEmpty = false := by simp
  have hl : ¬ (kw ++ SP :: r).length > MAX_LENGTH := by simp only [MAX_LENGTH]; omega
  have hneq : (kw ++ SP :: r == kw) = false := ne_of_length_lt (by simp)
  unfold parseHeader
  rw [hs]
  simp only [hemp, hl, hneq, hne, Bool.and_false, Bool.false_eq_true, if_false, ne_eq,
    not_false_eq_true, if_true]

/-- Side conditions shared by the walks below: the window is non-empty, at most 107
bytes, and longer than its first field `PROXY`. -/
structure Window (w : B) (proto : B) (rest : List B) : Prop where
  split : splitN PARTS w = PROXY :: proto :: rest
  len : w.length ≤ 107
  long : PROXY.length < w.length

theorem Window.isEmpty {w proto rest} (h : Window w proto rest) : w.isEmpty = false := by
  have := h.long
  cases w with
  | nil => simp at this
  | cons _ _ => rfl

/-- G2, general form. -/
theorem parseHeader_bad_protocol {w proto : B} {rest : List B} (h : Window w proto rest)
    (ht : terminated w = true) (hrest : rest ≠ [])
    (h4 : proto ≠ TCP4) (h6 : proto ≠ TCP6) (hu : proto ≠ UNKNOWN) :
    parseHeader w = .error .invalidProtocol := by
  have hl : ¬ w.length > MAX_LENGTH := by have := h.len; simp only [MAX_LENGTH]; omega
  have hneq : (w == PROXY) = false := ne_of_length_lt h.long
  have hre : rest.isEmpty = false := by cases rest with
    | nil => exact absurd rfl hrest
    | cons _ _ => rfl
  unfold parseHeader
  rw [h.split]
  simp only [h.isEmpty, hl, hneq, ht, hre, h4, h6, hu, Bool.and_false, Bool.false_and, Bool.not_true,
    Bool.false_eq_true, if_false, ne_eq, not_true_eq_false]

/-- The TCP4 branch on a terminated window. -/
theorem parseHeader_tcp4 {w : B} {rest : List B} (h : Window w TCP4 rest) (ht : terminated w = true) :
    parseHeader w =
      match parseAddresses StdNet.parseIpv4 rest true with
      | .error e => .error e
      | .ok (sa, da, sp, dp, rest') =>
        finish w (.tcp4 { srcAddr := sa, srcPort := sp, dstAddr := da, dstPort := dp }) rest' := by
  have hl : ¬ w.length > MAX_LENGTH := by have := h.len; simp only [MAX_LENGTH]; omega
  have hneq : (w == PROXY) = false := ne_of_length_lt h.long
  unfold parseHeader
  rw [h.split]
  simp only [h.isEmpty, hl, hneq, ht, Bool.and_false, Bool.false_eq_true, if_false, ne_eq,
    not_true_eq_false, if_true]
  rfl

/-- The TCP6 branch on a terminated window. -/
theorem parseHeader_tcp6 {w : B} {rest : List B} (h : Window w TCP6 rest) (ht : terminated w = true) :
    parseHeader w =
      match parseAddresses StdNet.parseIpv6 rest true with
      | .error e => .error e
      | .ok (sa, da, sp, dp, rest') =>
        finish w (.tcp6 { srcAddr := sa, srcPort := sp, dstAddr := da, dstPort := dp }) rest' := by
  have hl : ¬ w.length > MAX_LENGTH := by have := h.len; simp only [MAX_LENGTH]; omega
  have hneq : (w == PROXY) = false := ne_of_length_lt h.long
  have h64 : TCP6 ≠ TCP4 := by decide
  unfold parseHeader
  rw [h.split]
  simp only [h.isEmpty, hl, hneq, ht, h64, Bool.and_false, Bool.false_eq_true, if_false, ne_eq,
    not_true_eq_false, if_true]
  rfl

/-- The UNKNOWN branch on a terminated window that does not end in CRLF. -/
theorem parseHeader_unknown_suffix {w : B} {rest : List B} (h : Window w UNKNOWN rest)
    (ht : terminated w = true) (hsuf : CRLF.isSuffixOf w = false) :
    parseHeader w = .error .invalidSuffix := by
  have hl : ¬ w.length > MAX_LENGTH := by have := h.len; simp only [MAX_LENGTH]; omega
  have hneq : (w == PROXY) = false := ne_of_length_lt h.long
  have hu4 : UNKNOWN ≠ TCP4 := by decide
  have hu6 : UNKNOWN ≠ TCP6 := by decide
  unfold parseHeader
  rw [h.split]
  simp only [h.isEmpty, hl, hneq, ht, hsuf, hu4, hu6, Bool.and_false, Bool.false_eq_true, if_false, ne_eq,
    not_true_eq_false, if_true]

/-! ## The four fields -/

theorem takeFields_full (sa da sp dp : B) (c : UInt8) :
    takeFields [sa, da, sp, dp, [c]] true = .ok (sa, da, sp, dp, [[c]]) := by
  simp [takeFields, Option.filter]

section fields
variable {α : Type} (pa : B → Option α) (sa da sp dp : B) (c : UInt8)

/-- G3 at the level of `parse_addresses`. -/
theorem parseAddresses_bad_src (h : pa sa = none) :
    parseAddresses pa [sa, da, sp, dp, [c]] true = .error .invalidSourceAddress := by
  simp only [parseAddresses, takeFields_full, h]

/-- G4 at the level of `parse_addresses`. -/
theorem parseAddresses_bad_dst {a : α} (hs : pa sa = some a) (h : pa da = none) :
    parseAddresses pa [sa, da, sp, dp, [c]] true = .error .invalidDestinationAddress := by
  simp only [parseAddresses, takeFields_full, hs, h]

/-- G5 at the level of `parse_addresses`. -/
theorem parseAddresses_bad_sport {a b : α} {k} (hs : pa sa = some a) (hd : pa da = some b)
    (h : parsePort sp = .error k) :
    parseAddresses pa [sa, da, sp, dp, [c]] true = .error (.invalidSourcePort k) := by
  simp only [parseAddresses, takeFields_full, hs, hd, h]

/-- G6 at the level of `parse_addresses`. -/
theorem parseAddresses_bad_dport {a b : α} {p : UInt16} {k} (hs : pa sa = some a) (hd : pa da = some b)
    (hp : parsePort sp = .ok p) (h : parsePort dp = .error k) :
    parseAddresses pa [sa, da, sp, dp, [c]] true = .error (.invalidDestinationPort k) := by
  simp only [parseAddresses, takeFields_full, hs, hd, hp, h]

theorem parseAddresses_good {a b : α} {p q : UInt16} (hs : pa sa = some a) (hd : pa da = some b)
    (hp : parsePort sp = .ok p) (hq : parsePort dp = .ok q) :
    parseAddresses pa [sa, da, sp, dp, [c]] true = .ok (a, b, p, q, [[c]]) := by
  simp only [parseAddresses, takeFields_full, hs, hd, hp, hq]

end fields

/-- G7 at the level of the final newline check. -/
theorem finish_bad_newline (w : B) (a : Addresses) {c : UInt8} (hc : c ≠ LF) :
    finish w a [[c]] = .error .invalidSuffix := by
  simp [finish, Option.filter, hc]

/-! ## G1–G7 on `parseHeader` -/

theorem not_crlf_suffix (a : B) {c : UInt8} (hc : c ≠ LF) : CRLF.isSuffixOf (a ++ [CR, c]) = false := by
  apply Bool.eq_false_iff.mpr
  intro h
  rw [List.isSuffixOf_iff_suffix] at h
  obtain ⟨t, ht⟩ := h
  have := (List.append_inj' ht rfl).2
  simp only [CRLF, List.cons.injEq, and_true] at this
  exact hc this.2.symm

theorem sepFree_PROXY : sepFree PROXY := by unfold sepFree; decide
theorem sepFree_UNKNOWN : sepFree UNKNOWN := by unfold sepFree; decide
theorem sepFree_TCP4 : sepFree TCP4 := by unfold sepFree; decide
theorem sepFree_TCP6 : sepFree TCP6 := by unfold sepFree; decide

section tcp
variable {kw proto sa da sp dp : B} {c : UInt8}
  (hkw : sepFree kw) (hproto : sepFree proto)
  (hsa : sepFree sa) (hda : sepFree da) (hsp : sepFree sp) (hdp : sepFree dp)

include hkw in
/-- **G1 (keyword).** A TCP line whose first field is not `PROXY`. (Only the keyword needs to be
separator free; the byte after the CR is arbitrary, in particular LF.) -/
theorem G1_keyword (hne : kw ≠ PROXY) (hlen : (tcpLine kw proto sa da sp dp [CR, c]).length ≤ 107) :
    parseHeader (tcpLine kw proto sa da sp dp [CR, c]) = .error .invalidPrefix := by
  rw [tcpLine_eq] at hlen ⊢
  exact parseHeader_bad_keyword hkw hne hlen

include hproto hsa hda hsp hdp

theorem window_tcpLine (hlen : (tcpLine PROXY proto sa da sp dp [CR, c]).length ≤ 107) :
    Window (tcpLine PROXY proto sa da sp dp [CR, c]) proto [sa, da, sp, dp, [c]] where
  split := splitN_tcpLine c sepFree_PROXY hproto hsa hda hsp hdp
  len := hlen
  long := by simp only [tcpLine, List.length_append, List.length_cons, List.length_nil]; omega

theorem terminated_tcpLine' :
    terminated (tcpLine PROXY proto sa da sp dp [CR, c]) = true :=
  terminated_tcpLine c sepFree_PROXY hproto hsa hda hsp hdp

/-- **G2 (protocol).** The second field is none of `TCP4`, `TCP6`, `UNKNOWN` (it may be empty). -/
theorem G2_protocol (h4 : proto ≠ TCP4) (h6 : proto ≠ TCP6) (hu : proto ≠ UNKNOWN)
    (hlen : (tcpLine PROXY proto sa da sp dp [CR, c]).length ≤ 107) :
    parseHeader (tcpLine PROXY proto sa da sp dp [CR, c]) = .error .invalidProtocol :=
  parseHeader_bad_protocol (window_tcpLine hproto hsa hda hsp hdp hlen)
    (terminated_tcpLine' hproto hsa hda hsp hdp) (by simp) h4 h6 hu

end tcp

section family
variable {sa da sp dp : B} {c : UInt8}
  (hsa : sepFree sa) (hda : sepFree da) (hsp : sepFree sp) (hdp : sepFree dp)
include hsa hda hsp hdp

/-! ### TCP4 -/

theorem parseHeader_tcp4_line (hlen : (tcpLine PROXY TCP4 sa da sp dp [CR, c]).length ≤ 107) :
    parseHeader (tcpLine PROXY TCP4 sa da sp dp [CR, c]) =
      match parseAddresses StdNet.parseIpv4 [sa, da, sp, dp, [c]] true with
      | .error e => .error e
      | .ok (a, b, p, q, rest') =>
        finish (tcpLine PROXY TCP4 sa da sp dp [CR, c])
          (.tcp4 { srcAddr := a, srcPort := p, dstAddr := b, dstPort := q }) rest' :=
  parseHeader_tcp4 (window_tcpLine sepFree_TCP4 hsa hda hsp hdp hlen)
    (terminated_tcpLine' sepFree_TCP4 hsa hda hsp hdp)

/-- **G3 (source address), TCP4.** Whatever the later fields are. -/
theorem G3_source_tcp4 (h : StdNet.parseIpv4 sa = none)
    (hlen : (tcpLine PROXY TCP4 sa da sp dp [CR, c]).length ≤ 107) :
    parseHeader (tcpLine PROXY TCP4 sa da sp dp [CR, c]) = .error .invalidSourceAddress := by
  rw [parseHeader_tcp4_line hsa hda hsp hdp hlen, parseAddresses_bad_src _ _ _ _ _ _ h]

/-- **G4 (destination address), TCP4.** -/
theorem G4_destination_tcp4 {a : Ip4} (hs : StdNet.parseIpv4 sa = some a) (h : StdNet.parseIpv4 da = none)
    (hlen : (tcpLine PROXY TCP4 sa da sp dp [CR, c]).length ≤ 107) :
    parseHeader (tcpLine PROXY TCP4 sa da sp dp [CR, c]) = .error .invalidDestinationAddress := by
  rw [parseHeader_tcp4_line hsa hda hsp hdp hlen, parseAddresses_bad_dst _ _ _ _ _ _ hs h]

/-- **G5 (source port), TCP4.** -/
theorem G5_source_port_tcp4 {a b : Ip4} {k : Option StdInt.IntErrorKind}
    (hs : StdNet.parseIpv4 sa = some a) (hd : StdNet.parseIpv4 da = some b)
    (h : parsePort sp = .error k)
    (hlen : (tcpLine PROXY TCP4 sa da sp dp [CR, c]).length ≤ 107) :
    parseHeader (tcpLine PROXY TCP4 sa da sp dp [CR, c]) = .error (.invalidSourcePort k) := by
  rw [parseHeader_tcp4_line hsa hda hsp hdp hlen, parseAddresses_bad_sport _ _ _ _ _ _ hs hd h]

/-- **G6 (destination port), TCP4.** -/
theorem G6_destination_port_tcp4 {a b : Ip4} {p : UInt16} {k : Option StdInt.IntErrorKind}
    (hs : StdNet.parseIpv4 sa = some a) (hd : StdNet.parseIpv4 da = some b)
    (hp : parsePort sp = .ok p) (h : parsePort dp = .error k)
    (hlen : (tcpLine PROXY TCP4 sa da sp dp [CR, c]).length ≤ 107) :
    parseHeader (tcpLine PROXY TCP4 sa da sp dp [CR, c]) = .error (.invalidDestinationPort k) := by
  rw [parseHeader_tcp4_line hsa hda hsp hdp hlen, parseAddresses_bad_dport _ _ _ _ _ _ hs hd hp h]

/-- **G7 (the byte after the CR), TCP4.** All six elements are fine, the byte after the CR is
not LF (it may be any other byte, including SP and CR). -/
theorem G7_suffix_tcp4 {a b : Ip4} {p q : UInt16}
    (hs : StdNet.parseIpv4 sa = some a) (hd : StdNet.parseIpv4 da = some b)
    (hp : parsePort sp = .ok p) (hq : parsePort dp = .ok q) (hc : c ≠ LF)
    (hlen : (tcpLine PROXY TCP4 sa da sp dp [CR, c]).length ≤ 107) :
    parseHeader (tcpLine PROXY TCP4 sa da sp dp [CR, c]) = .error .invalidSuffix := by
  rw [parseHeader_tcp4_line hsa hda hsp hdp hlen, parseAddresses_good _ _ _ _ _ _ hs hd hp hq]
  exact finish_bad_newline _ _ hc

/-! ### TCP6 -/

theorem parseHeader_tcp6_line (hlen : (tcpLine PROXY TCP6 sa da sp dp [CR, c]).length ≤ 107) :
    parseHeader (tcpLine PROXY TCP6 sa da sp dp [CR, c]) =
      match parseAddresses StdNet.parseIpv6 [sa, da, sp, dp, [c]] true with
      | .error e => .error e
      | .ok (a, b, p, q, rest') =>
        finish (tcpLine PROXY TCP6 sa da sp dp [CR, c])
          (.tcp6 { srcAddr := a, srcPort := p, dstAddr := b, dstPort := q }) rest' :=
  parseHeader_tcp6 (window_tcpLine sepFree_TCP6 hsa hda hsp hdp hlen)
    (terminated_tcpLine' sepFree_TCP6 hsa hda hsp hdp)

/-- **G3 (source address), TCP6.** Whatever the later fields are. -/
theorem G3_source_tcp6 (h : StdNet.parseIpv6 sa = none)
    (hlen : (tcpLine PROXY TCP6 sa da sp dp [CR, c]).length ≤ 107) :
    parseHeader (tcpLine PROXY TCP6 sa da sp dp [CR, c]) = .error .invalidSourceAddress := by
  rw [parseHeader_tcp6_line hsa hda hsp hdp hlen, parseAddresses_bad_src _ _ _ _ _ _ h]

/-- **G4 (destination address), TCP6.** -/
theorem G4_destination_tcp6 {a : Ip6} (hs : StdNet.parseIpv6 sa = some a) (h : StdNet.parseIpv6 da = none)
    (hlen : (tcpLine PROXY TCP6 sa da sp dp [CR, c]).length ≤ 107) :
    parseHeader (tcpLine PROXY TCP6 sa da sp dp [CR, c]) = .error .invalidDestinationAddress := by
  rw [parseHeader_tcp6_line hsa hda hsp hdp hlen, parseAddresses_bad_dst _ _ _ _ _ _ hs h]

/-- **G5 (source port), TCP6.** -/
theorem G5_source_port_tcp6 {a b : Ip6} {k : Option StdInt.IntErrorKind}
    (hs : StdNet.parseIpv6 sa = some a) (hd : StdNet.parseIpv6 da = some b)
    (h : parsePort sp = .error k)
    (hlen : (tcpLine PROXY TCP6 sa da sp dp [CR, c]).length ≤ 107) :
    parseHeader (tcpLine PROXY TCP6 sa da sp dp [CR, c]) = .error (.invalidSourcePort k) := by
  rw [parseHeader_tcp6_line hsa hda hsp hdp hlen, parseAddresses_bad_sport _ _ _ _ _ _ hs hd h]

/-- **G6 (destination port), TCP6.** -/
theorem G6_destination_port_tcp6 {a b : Ip6} {p : UInt16} {k : Option StdInt.IntErrorKind}
    (hs : StdNet.parseIpv6 sa = some a) (hd : StdNet.parseIpv6 da = some b)
    (hp : parsePort sp = .ok p) (h : parsePort dp = .error k)
    (hlen : (tcpLine PROXY TCP6 sa da sp dp [CR, c]).length ≤ 107) :
    parseHeader (tcpLine PROXY TCP6 sa da sp dp [CR, c]) = .error (.invalidDestinationPort k) := by
  rw [parseHeader_tcp6_line hsa hda hsp hdp hlen, parseAddresses_bad_dport _ _ _ _ _ _ hs hd hp h]

/-- **G7 (the byte after the CR), TCP6.** All six elements are fine, the byte after the CR is
not LF (it may be any other byte, including SP and CR). -/
theorem G7_suffix_tcp6 {a b : Ip6} {p q : UInt16}
    (hs : StdNet.parseIpv6 sa = some a) (hd : StdNet.parseIpv6 da = some b)
    (hp : parsePort sp = .ok p) (hq : parsePort dp = .ok q) (hc : c ≠ LF)
    (hlen : (tcpLine PROXY TCP6 sa da sp dp [CR, c]).length ≤ 107) :
    parseHeader (tcpLine PROXY TCP6 sa da sp dp [CR, c]) = .error .invalidSuffix := by
  rw [parseHeader_tcp6_line hsa hda hsp hdp hlen, parseAddresses_good _ _ _ _ _ _ hs hd hp hq]
  exact finish_bad_newline _ _ hc

end family

/-! ### UNKNOWN lines -/

/-- **G1 (keyword), UNKNOWN line.** -/
theorem G1_keyword_unknown {kw tail : B} (hkw : sepFree kw) (hne : kw ≠ PROXY)
    (hlen : (kw ++ [SP] ++ UNKNOWN ++ tail ++ [CR, LF]).length ≤ 107) :
    parseHeader (kw ++ [SP] ++ UNKNOWN ++ tail ++ [CR, LF]) = .error .invalidPrefix := by
  have e : kw ++ [SP] ++ UNKNOWN ++ tail ++ [CR, LF] = kw ++ SP :: (UNKNOWN ++ tail ++ [CR, LF]) := by simp
  rw [e] at hlen ⊢
  exact parseHeader_bad_keyword hkw hne hlen

/-- What follows `UNKNOWN` starts with a separator. -/
theorem unknown_tail_sep {tail : B} (c : UInt8) (htail : tail = [] ∨ tail.head? = some SP) :
    ∃ s r, isSep s = true ∧ tail ++ [CR, c] = s :: r := by
  rcases htail with rfl | h
  · exact ⟨CR, [c], isSep_CR, rfl⟩
  · cases tail with
    | nil => simp at h
    | cons t ts =>
      simp only [List.head?_cons, Option.some.injEq] at h
      subst h
      exact ⟨SP, ts ++ [CR, c], isSep_SP, rfl⟩

theorem crFree_unknown_body {tail : B} (htail : crFree tail) : crFree (PROXY ++ [SP] ++ UNKNOWN ++ tail) := by
  intro x hx
  simp only [List.mem_append] at hx
  rcases hx with hx | hx
  · have h : crFree (PROXY ++ [SP] ++ UNKNOWN) := crFree_app_sp sepFree_PROXY.crFree sepFree_UNKNOWN
    exact h x (by simpa only [List.mem_append] using hx)
  · exact htail x hx

/-- **G7 (the byte after the CR), UNKNOWN line.** -/
theorem G7_suffix_unknown {tail : B} {c : UInt8} (htail : tail = [] ∨ tail.head? = some SP)
    (hcr : crFree tail) (hc : c ≠ LF)
    (hlen : (PROXY ++ [SP] ++ UNKNOWN ++ tail ++ [CR, c]).length ≤ 107) :
    parseHeader (PROXY ++ [SP] ++ UNKNOWN ++ tail ++ [CR, c]) = .error .invalidSuffix := by
  obtain ⟨s, r, hs, hsr⟩ := unknown_tail_sep c htail
  have e : PROXY ++ [SP] ++ UNKNOWN ++ tail ++ [CR, c] = PROXY ++ SP :: (UNKNOWN ++ s :: r) := by
    rw [← hsr]; simp
  have hw : Window (PROXY ++ [SP] ++ UNKNOWN ++ tail ++ [CR, c]) UNKNOWN (splitN 5 r) := {
    split := by
      rw [e]
      have h1 : splitN PARTS (PROXY ++ SP :: (UNKNOWN ++ s :: r)) = PROXY :: splitN 6 (UNKNOWN ++ s :: r) :=
        splitN_append 5 sepFree_PROXY isSep_SP
      have h2 : splitN 6 (UNKNOWN ++ s :: r) = UNKNOWN :: splitN 5 r := splitN_append 4 sepFree_UNKNOWN hs
      rw [h1, h2]
    len := hlen
    long := by simp only [List.length_append, List.length_cons, List.length_nil]; omega }
  exact parseHeader_unknown_suffix hw (terminated_window (crFree_unknown_body hcr)) (not_crlf_suffix _ hc)

/-! ## G8: the 107 byte limit; G9: invalid UTF-8 -/

/-- **G8.** A non-empty window of more than 107 bytes. -/
theorem G8_parseHeader_too_long {w : B} (hne : w ≠ []) (hlen : 107 < w.length) :
    parseHeader w = .error .headerTooLong := by
  have hemp : w.isEmpty = false := by cases w with
    | nil => exact absurd rfl hne
    | cons _ _ => rfl
  have hl : w.length > MAX_LENGTH := hlen
  unfold parseHeader
  simp only [hemp, hl, Bool.false_eq_true, if_false, if_true]

/-- **G8.** No CR within the first 107 bytes: both entry points report `HeaderTooLong`. -/
theorem G8_window_none {x : B} (h : windowLength x = none) :
    parseBytes x = .error (.parse .headerTooLong) ∧ parseStr x = .error .headerTooLong := by
  simp only [parseBytes, parseStr, h, and_self]

/-- **G8.** A window of more than 107 bytes (valid UTF-8) at the bytes entry point. -/
theorem G8_parseBytes_too_long {x : B} {n : Nat} (h : windowLength x = some n) (hn : 107 < n)
    (hx : n ≤ x.length) (hv : Utf8.valid (x.take n) = true) :
    parseBytes x = .error (.parse .headerTooLong) := by
  have hlen : (x.take n).length = n := by simp [hx]
  have hne : x.take n ≠ [] := by intro e; rw [e] at hlen; simp at hlen; omega
  simp only [parseBytes, h, hv, Bool.not_true, Bool.false_eq_true, if_false,
    G8_parseHeader_too_long hne (by omega : 107 < (x.take n).length)]

/-- **G9.** A window that is not valid UTF-8 (bytes entry point). -/
theorem G9_invalid_utf8 {x : B} {n : Nat} (h : windowLength x = some n)
    (hv : Utf8.valid (x.take n) = false) : parseBytes x = .error .invalidUtf8 := by
  simp only [parseBytes, h, hv, Bool.not_false, if_true]

/-! ## G10: all these errors are terminal -/

/-- **G10.** -/
theorem G10_terminal (k : Option StdInt.IntErrorKind) :
    ParseError.isIncomplete .invalidPrefix = false ∧
    ParseError.isIncomplete .invalidProtocol = false ∧
    ParseError.isIncomplete .invalidSourceAddress = false ∧
    ParseError.isIncomplete .invalidDestinationAddress = false ∧
    ParseError.isIncomplete (.invalidSourcePort k) = false ∧
    ParseError.isIncomplete (.invalidDestinationPort k) = false ∧
    ParseError.isIncomplete .invalidSuffix = false ∧
    ParseError.isIncomplete .headerTooLong = false ∧
    BinaryParseError.isIncomplete .invalidUtf8 = false ∧
    (∀ e : ParseError, BinaryParseError.isIncomplete (.parse e) = e.isIncomplete) :=
  ⟨rfl, rfl, rfl, rfl, rfl, rfl, rfl, rfl, rfl, fun _ => rfl⟩

/-! ## G11: the entry points -/

/-- The window of `line ++ rest` is `line` when `line` is a CR-free body, a CR and one more byte. -/
theorem window_line {body : B} (c : UInt8) (rest : B) (h : crFree body) :
    windowLength (body ++ [CR, c] ++ rest) = some (body ++ [CR, c]).length ∧
      (body ++ [CR, c] ++ rest).take (body ++ [CR, c]).length = body ++ [CR, c] := by
  have hf : firstCR (body ++ [CR, c]) = some body.length := firstCR_append_cr [c] h
  have hl : (body ++ [CR, c]).length = body.length + 2 := by simp
  obtain ⟨h1, h2⟩ := window_append_frozen rest hf (by omega)
  rw [hl]
  refine ⟨h1, ?_⟩
  rw [h2]
  exact List.take_of_length_le (by omega)

/-- The bytes entry point on `line ++ rest`. -/
theorem parseBytes_line {body : B} {c : UInt8} (rest : B) {e : ParseError} (h : crFree body)
    (he : parseHeader (body ++ [CR, c]) = .error e) (hv : Utf8.valid (body ++ [CR, c]) = true) :
    parseBytes (body ++ [CR, c] ++ rest) = .error (.parse e) := by
  obtain ⟨h1, h2⟩ := window_line c rest h
  simp only [parseBytes, h1, h2, hv, he, Bool.not_true, Bool.false_eq_true, if_false]

/-- The text entry point on `line ++ rest`. -/
theorem parseStr_line {body : B} {c : UInt8} (rest : B) {e : ParseError} (h : crFree body)
    (he : parseHeader (body ++ [CR, c]) = .error e)
    (hb : Utf8.isCharBoundary (body ++ [CR, c] ++ rest) (body ++ [CR, c]).length = true) :
    parseStr (body ++ [CR, c] ++ rest) = .error e := by
  obtain ⟨h1, h2⟩ := window_line c rest h
  simp only [parseStr, h1, h2, hb, he, Bool.not_true, Bool.false_eq_true, if_false]

/-- `line` fails with the terminal error `e`, in `parse_header` and — followed by any further
input `rest` — at both entry points (`hv`: the line is valid UTF-8, for the bytes entry point;
`hb`: the end of the line is a character boundary of the input, for the text entry point). -/
structure Blamed (line : B) (e : ParseError) : Prop where
  header : parseHeader line = .error e
  terminal : e.isIncomplete = false
  terminalBytes : (BinaryParseError.parse e).isIncomplete = false
  bytes : ∀ rest : B, Utf8.valid line = true → parseBytes (line ++ rest) = .error (.parse e)
  str : ∀ rest : B, Utf8.isCharBoundary (line ++ rest) line.length = true →
    parseStr (line ++ rest) = .error e

theorem Blamed.of_line {body : B} {c : UInt8} {e : ParseError} (h : crFree body)
    (he : parseHeader (body ++ [CR, c]) = .error e) (ht : e.isIncomplete = false) :
    Blamed (body ++ [CR, c]) e where
  header := he
  terminal := ht
  terminalBytes := ht
  bytes := fun rest hv => parseBytes_line rest h he hv
  str := fun rest hb => parseStr_line rest h he hb

/-! ### G1–G7 at the entry points -/

section entry
variable {kw proto sa da sp dp : B} {c : UInt8}
  (hkw : sepFree kw) (hproto : sepFree proto)
  (hsa : sepFree sa) (hda : sepFree da) (hsp : sepFree sp) (hdp : sepFree dp)
include hkw hproto hsa hda hsp hdp

theorem blamed_tcpLine {e : ParseError} (he : parseHeader (tcpLine kw proto sa da sp dp [CR, c]) = .error e)
    (ht : e.isIncomplete = false) : Blamed (tcpLine kw proto sa da sp dp [CR, c]) e :=
  Blamed.of_line (crFree_tcpBody hkw hproto hsa hda hsp hdp) he ht

/-- **G11 for G1.** -/
theorem G1_keyword_entry (hne : kw ≠ PROXY) (hlen : (tcpLine kw proto sa da sp dp [CR, c]).length ≤ 107) :
    Blamed (tcpLine kw proto sa da sp dp [CR, c]) .invalidPrefix :=
  blamed_tcpLine hkw hproto hsa hda hsp hdp (G1_keyword hkw hne hlen) rfl

omit hkw in
/-- **G11 for G2.** -/
theorem G2_protocol_entry (h4 : proto ≠ TCP4) (h6 : proto ≠ TCP6) (hu : proto ≠ UNKNOWN)
    (hlen : (tcpLine PROXY proto sa da sp dp [CR, c]).length ≤ 107) :
    Blamed (tcpLine PROXY proto sa da sp dp [CR, c]) .invalidProtocol :=
  blamed_tcpLine sepFree_PROXY hproto hsa hda hsp hdp (G2_protocol hproto hsa hda hsp hdp h4 h6 hu hlen) rfl

omit hkw hproto

/-- **G11 for G3, TCP4.** -/
theorem G3_source_tcp4_entry (h : StdNet.parseIpv4 sa = none) (hlen : (tcpLine PROXY TCP4 sa da sp dp [CR, c]).length ≤ 107) :
    Blamed (tcpLine PROXY TCP4 sa da sp dp [CR, c]) .invalidSourceAddress :=
  blamed_tcpLine sepFree_PROXY sepFree_TCP4 hsa hda hsp hdp (G3_source_tcp4 hsa hda hsp hdp h hlen) rfl

/-- **G11 for G4, TCP4.** -/
theorem G4_destination_tcp4_entry {a : Ip4} (hs : StdNet.parseIpv4 sa = some a)
    (h : StdNet.parseIpv4 da = none) (hlen : (tcpLine PROXY TCP4 sa da sp dp [CR, c]).length ≤ 107) :
    Blamed (tcpLine PROXY TCP4 sa da sp dp [CR, c]) .invalidDestinationAddress :=
  blamed_tcpLine sepFree_PROXY sepFree_TCP4 hsa hda hsp hdp (G4_destination_tcp4 hsa hda hsp hdp hs h hlen) rfl

/-- **G11 for G5, TCP4.** -/
theorem G5_source_port_tcp4_entry {a b : Ip4} {k : Option StdInt.IntErrorKind}
    (hs : StdNet.parseIpv4 sa = some a) (hd : StdNet.parseIpv4 da = some b)
    (h : parsePort sp = .error k) (hlen : (tcpLine PROXY TCP4 sa da sp dp [CR, c]).length ≤ 107) :
    Blamed (tcpLine PROXY TCP4 sa da sp dp [CR, c]) (.invalidSourcePort k) :=
  blamed_tcpLine sepFree_PROXY sepFree_TCP4 hsa hda hsp hdp
    (G5_source_port_tcp4 hsa hda hsp hdp hs hd h hlen) rfl

/-- **G11 for G6, TCP4.** -/
theorem G6_destination_port_tcp4_entry {a b : Ip4} {p : UInt16} {k : Option StdInt.IntErrorKind}
    (hs : StdNet.parseIpv4 sa = some a) (hd : StdNet.parseIpv4 da = some b)
    (hp : parsePort sp = .ok p) (h : parsePort dp = .error k) (hlen : (tcpLine PROXY TCP4 sa da sp dp [CR, c]).length ≤ 107) :
    Blamed (tcpLine PROXY TCP4 sa da sp dp [CR, c]) (.invalidDestinationPort k) :=
  blamed_tcpLine sepFree_PROXY sepFree_TCP4 hsa hda hsp hdp
    (G6_destination_port_tcp4 hsa hda hsp hdp hs hd hp h hlen) rfl

/-- **G11 for G7, TCP4.** -/
theorem G7_suffix_tcp4_entry {a b : Ip4} {p q : UInt16}
    (hs : StdNet.parseIpv4 sa = some a) (hd : StdNet.parseIpv4 da = some b)
    (hp : parsePort sp = .ok p) (hq : parsePort dp = .ok q) (hc : c ≠ LF) (hlen : (tcpLine PROXY TCP4 sa da sp dp [CR, c]).length ≤ 107) :
    Blamed (tcpLine PROXY TCP4 sa da sp dp [CR, c]) .invalidSuffix :=
  blamed_tcpLine sepFree_PROXY sepFree_TCP4 hsa hda hsp hdp
    (G7_suffix_tcp4 hsa hda hsp hdp hs hd hp hq hc hlen) rfl

/-- **G11 for G3, TCP6.** -/
theorem G3_source_tcp6_entry (h : StdNet.parseIpv6 sa = none) (hlen : (tcpLine PROXY TCP6 sa da sp dp [CR, c]).length ≤ 107) :
    Blamed (tcpLine PROXY TCP6 sa da sp dp [CR, c]) .invalidSourceAddress :=
  blamed_tcpLine sepFree_PROXY sepFree_TCP6 hsa hda hsp hdp (G3_source_tcp6 hsa hda hsp hdp h hlen) rfl

/-- **G11 for G4, TCP6.** -/
theorem G4_destination_tcp6_entry {a : Ip6} (hs : StdNet.parseIpv6 sa = some a)
    (h : StdNet.parseIpv6 da = none) (hlen : (tcpLine PROXY TCP6 sa da sp dp [CR, c]).length ≤ 107) :
    Blamed (tcpLine PROXY TCP6 sa da sp dp [CR, c]) .invalidDestinationAddress :=
  blamed_tcpLine sepFree_PROXY sepFree_TCP6 hsa hda hsp hdp (G4_destination_tcp6 hsa hda hsp hdp hs h hlen) rfl

/-- **G11 for G5, TCP6.** -/
theorem G5_source_port_tcp6_entry {a b : Ip6} {k : Option StdInt.IntErrorKind}
    (hs : StdNet.parseIpv6 sa = some a) (hd : StdNet.parseIpv6 da = some b)
    (h : parsePort sp = .error k) (hlen : (tcpLine PROXY TCP6 sa da sp dp [CR, c]).length ≤ 107) :
    Blamed (tcpLine PROXY TCP6 sa da sp dp [CR, c]) (.invalidSourcePort k) :=
  blamed_tcpLine sepFree_PROXY sepFree_TCP6 hsa hda hsp hdp
    (G5_source_port_tcp6 hsa hda hsp hdp hs hd h hlen) rfl

/-- **G11 for G6, TCP6.** -/
theorem G6_destination_port_tcp6_entry {a b : Ip6} {p : UInt16} {k : Option StdInt.IntErrorKind}
    (hs : StdNet.parseIpv6 sa = some a) (hd : StdNet.parseIpv6 da = some b)
    (hp : parsePort sp = .ok p) (h : parsePort dp = .error k) (hlen : (tcpLine PROXY TCP6 sa da sp dp [CR, c]).length ≤ 107) :
    Blamed (tcpLine PROXY TCP6 sa da sp dp [CR, c]) (.invalidDestinationPort k) :=
  blamed_tcpLine sepFree_PROXY sepFree_TCP6 hsa hda hsp hdp
    (G6_destination_port_tcp6 hsa hda hsp hdp hs hd hp h hlen) rfl

/-- **G11 for G7, TCP6.** -/
theorem G7_suffix_tcp6_entry {a b : Ip6} {p q : UInt16}
    (hs : StdNet.parseIpv6 sa = some a) (hd : StdNet.parseIpv6 da = some b)
    (hp : parsePort sp = .ok p) (hq : parsePort dp = .ok q) (hc : c ≠ LF) (hlen : (tcpLine PROXY TCP6 sa da sp dp [CR, c]).length ≤ 107) :
    Blamed (tcpLine PROXY TCP6 sa da sp dp [CR, c]) .invalidSuffix :=
  blamed_tcpLine sepFree_PROXY sepFree_TCP6 hsa hda hsp hdp
    (G7_suffix_tcp6 hsa hda hsp hdp hs hd hp hq hc hlen) rfl

end entry

theorem crFree_append {a b : B} (ha : crFree a) (hb : crFree b) : crFree (a ++ b) := by
  intro x hx
  rcases List.mem_append.mp hx with hx | hx
  · exact ha x hx
  · exact hb x hx

/-- **G11 for G1, UNKNOWN line** (here the tail has to be CR-free, so that the line ends at
its first CR). -/
theorem G1_keyword_unknown_entry {kw tail : B} (hkw : sepFree kw) (hne : kw ≠ PROXY) (hcr : crFree tail)
    (hlen : (kw ++ [SP] ++ UNKNOWN ++ tail ++ [CR, LF]).length ≤ 107) :
    Blamed (kw ++ [SP] ++ UNKNOWN ++ tail ++ [CR, LF]) .invalidPrefix :=
  Blamed.of_line (crFree_append (crFree_app_sp hkw.crFree sepFree_UNKNOWN) hcr)
    (G1_keyword_unknown hkw hne hlen) rfl

/-- **G11 for G7, UNKNOWN line.** -/
theorem G7_suffix_unknown_entry {tail : B} {c : UInt8} (htail : tail = [] ∨ tail.head? = some SP)
    (hcr : crFree tail) (hc : c ≠ LF)
    (hlen : (PROXY ++ [SP] ++ UNKNOWN ++ tail ++ [CR, c]).length ≤ 107) :
    Blamed (PROXY ++ [SP] ++ UNKNOWN ++ tail ++ [CR, c]) .invalidSuffix :=
  Blamed.of_line (crFree_unknown_body hcr) (G7_suffix_unknown htail hcr hc hlen) rfl

end V1.Blame
