import PppModel.V1.Parse
import PppModel.V2.Parse

/-!
# `src/lib.rs`: `PartialResult` and `HeaderResult::parse`
-/

namespace Auto

/-- `impl PartialResult for Result<T, E>` instantiated at the three result types. -/
def isIncompleteV1 (r : Except V1.BinaryParseError V1.Header) : Bool :=
  match r with
  | .ok _ => false
  | .error e => e.isIncomplete

def isIncompleteV1Str (r : Except V1.ParseError V1.Header) : Bool :=
  match r with
  | .ok _ => false
  | .error e => e.isIncomplete

def isIncompleteV2 (r : Except V2.ParseError V2.Header) : Bool :=
  match r with
  | .ok _ => false
  | .error e => e.isIncomplete

/-- `PartialResult::is_complete` (default method). -/
def isCompleteV1 (r : Except V1.BinaryParseError V1.Header) : Bool := !isIncompleteV1 r
def isCompleteV2 (r : Except V2.ParseError V2.Header) : Bool := !isIncompleteV2 r

inductive HeaderResult where
  | v1 (r : Except V1.BinaryParseError V1.Header)
  | v2 (r : Except V2.ParseError V2.Header)
  deriving DecidableEq

def HeaderResult.isIncomplete : HeaderResult → Bool
  | .v1 r => isIncompleteV1 r
  | .v2 r => isIncompleteV2 r

def HeaderResult.isComplete (r : HeaderResult) : Bool := !r.isIncomplete

def isErr {ε α} : Except ε α → Bool
  | .ok _ => false
  | .error _ => true

/-- `HeaderResult::parse` -/
def parse (x : B) : HeaderResult :=
  let header := V2.parse x
  if isCompleteV2 header && isErr header then .v1 (V1.parseBytes x) else .v2 header

/-- The three verdict classes of a result. -/
inductive Cls where
  | ok | inc | term
  deriving DecidableEq, Repr

def clsV1 (r : Except V1.BinaryParseError V1.Header) : Cls :=
  match r with
  | .ok _ => .ok
  | .error e => if e.isIncomplete then .inc else .term

def clsV2 (r : Except V2.ParseError V2.Header) : Cls :=
  match r with
  | .ok _ => .ok
  | .error e => if e.isIncomplete then .inc else .term

def HeaderResult.cls : HeaderResult → Cls
  | .v1 r => clsV1 r
  | .v2 r => clsV2 r

def HeaderResult.isV2 : HeaderResult → Bool
  | .v1 _ => false
  | .v2 _ => true

/-- What `HeaderResult::parse` does, as a function of the verdicts of the two dedicated
parsers alone (version-2 verdict first): the tag (`true` = V2) and the class of the result.
The correspondence run evaluates this on the *implementation's* dedicated verdicts and compares
with the implementation's auto-detected result (op `autoc`). -/
def verdict (c2 c1 : Cls) : Bool × Cls :=
  if c2 = .term then (false, c1) else (true, c2)

/-- Panic-aware variant. -/
def parseP (x : B) : Outcome HeaderResult := do
  let header ← V2.parseP x
  if isCompleteV2 header && isErr header then
    let r ← V1.parseBytesP x
    pure (.v1 r)
  else pure (.v2 header)

end Auto
