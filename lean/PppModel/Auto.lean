import PppModel.V1.Parse
import PppModel.V2.Parse

/-!
# `src/lib.rs`: `PartialResult` and `HeaderResult::parse`
-/

namespace Auto

/-- `impl PartialResult for Result<T, E>` instantiated at the three result types. -/
def isIncompleteV1 (r : Except V1.BinaryParseError V1.Header) : Bool :=
  match r with
  | .ok _ => false
  | .error e => e.isIncomplete

def isIncompleteV1Str (r : Except V1.ParseError V1.Header) : Bool :=
  match r with
  | .ok _ => false
  | .error e => e.isIncomplete

def isIncompleteV2 (r : Except V2.ParseError V2.Header) : Bool :=
  match r with
  | .ok _ => false
  | .error e => e.isIncomplete

/-- `PartialResult::is_complete` (default method). -/
def isCompleteV1 (r : Except V1.BinaryParseError V1.Header) : Bool := !isIncompleteV1 r
def isCompleteV2 (r : Except V2.ParseError V2.Header) : Bool := !isIncompleteV2 r

inductive HeaderResult where
  | v1 (r : Except V1.BinaryParseError V1.Header)
  | v2 (r : Except V2.ParseError V2.Header)
  deriving DecidableEq

def HeaderResult.isIncomplete : HeaderResult → Bool
  | .v1 r => isIncompleteV1 r
  | .v2 r => isIncompleteV2 r

def HeaderResult.isComplete (r : HeaderResult) : Bool := !r.isIncomplete

def isErr {ε α} : Except ε α → Bool
  | .ok _ => false
  | .error _ => true

/-- `HeaderResult::parse` -/
def parse (x : B) : HeaderResult :=
  let header := V2.parse x
  if isCompleteV2 header && isErr header then .v1 (V1.parseBytes x) else .v2 header

/-- Panic-aware variant. -/
def parseP (x : B) : Outcome HeaderResult := do
  let header ← V2.parseP x
  if isCompleteV2 header && isErr header then
    let r ← V1.parseBytesP x
    pure (.v1 r)
  else pure (.v2 header)

end Auto
