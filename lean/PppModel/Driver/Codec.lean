import PppModel.Basic
import PppModel.V2.Model
import PppModel.V2.Tlv
import PppModel.V2.Builder

/-!
# Text codec of the line protocol (mirror of `harness/src/fmt.rs`)
-/

namespace Driver

def hexChar (n : Nat) : Char :=
  if n < 10 then Char.ofNat (48 + n) else Char.ofNat (87 + n)

def hexOf (bs : B) : String :=
  if bs.isEmpty then "-" else
  String.ofList (bs.foldr (fun b acc => hexChar (b.toNat / 16) :: hexChar (b.toNat % 16) :: acc) [])

def nib? (c : Char) : Option Nat :=
  if '0' ≤ c ∧ c ≤ '9' then some (c.toNat - 48)
  else if 'a' ≤ c ∧ c ≤ 'f' then some (c.toNat - 87)
  else none

def unhexList? : List Char → Option B
  | [] => some []
  | [_] => none
  | a :: b :: rest =>
    match nib? a, nib? b, unhexList? rest with
    | some x, some y, some r => some (UInt8.ofNat (x * 16 + y) :: r)
    | _, _, _ => none

/-- tail-recursive variant for long inputs -/
def unhexLoop (cs : List Char) (acc : Array UInt8) : Option (Array UInt8) :=
  match cs with
  | [] => some acc
  | [_] => none
  | a :: b :: rest =>
    match nib? a, nib? b with
    | some x, some y => unhexLoop rest (acc.push (UInt8.ofNat (x * 16 + y)))
    | _, _ => none

def unhex? (s : String) : Option B :=
  if s == "-" then some [] else (unhexLoop s.toList #[]).map Array.toList

def bytesPiece? (piece : String) : Option B :=
  if piece.startsWith "r" then
    match (piece.drop 1).toString.splitOn "x" with
    | [n, b] =>
      match n.toNat?, unhex? b with
      | some n, some [v] => some (List.replicate n v)
      | _, _ => none
    | _ => none
  else unhex? piece

def bytesSpec? (s : String) : Option B :=
  let pieces := s.splitOn "."
  pieces.foldr (fun p acc => match bytesPiece? p, acc with
    | some a, some b => some (a ++ b)
    | _, _ => none) (some [])

def b01 (b : Bool) : String := if b then "1" else "0"

def ip4Hex (a : Ip4) : String := hexOf a.octets
def ip6Hex (a : Ip6) : String := hexOf a.val

def ip4? (s : String) : Option Ip4 :=
  match bytesSpec? s with
  | some [a, b, c, d] => some ⟨a, b, c, d⟩
  | _ => none

def fix? (n : Nat) (s : String) : Option (FixB n) :=
  match bytesSpec? s with
  | some bs => if h : bs.length = n then some ⟨bs, h⟩ else none
  | none => none

def port? (s : String) : Option UInt16 :=
  match s.toNat? with
  | some n => if n < 65536 then some (UInt16.ofNat n) else none
  | none => none

def v2Addr : V2.Addresses → String
  | .unspec => "unspec"
  | .ipv4 a => s!"ipv4/{ip4Hex a.srcAddr}/{ip4Hex a.dstAddr}/{a.srcPort.toNat}/{a.dstPort.toNat}"
  | .ipv6 a => s!"ipv6/{ip6Hex a.srcAddr}/{ip6Hex a.dstAddr}/{a.srcPort.toNat}/{a.dstPort.toNat}"
  | .unix a => s!"unix/{hexOf a.source.val}/{hexOf a.destination.val}"

def v2Addr? (s : String) : Option V2.Addresses :=
  match s.splitOn "/" with
  | ["unspec"] => some .unspec
  | ["ipv4", sa, da, sp, dp] =>
    match ip4? sa, ip4? da, port? sp, port? dp with
    | some sa, some da, some sp, some dp =>
      some (.ipv4 { srcAddr := sa, dstAddr := da, srcPort := sp, dstPort := dp })
    | _, _, _, _ => none
  | ["ipv6", sa, da, sp, dp] =>
    match fix? 16 sa, fix? 16 da, port? sp, port? dp with
    | some sa, some da, some sp, some dp =>
      some (.ipv6 { srcAddr := sa, dstAddr := da, srcPort := sp, dstPort := dp })
    | _, _, _, _ => none
  | ["unix", s, d] =>
    match fix? 108 s, fix? 108 d with
    | some s, some d => some (.unix { source := s, destination := d })
    | _, _ => none
  | _ => none

def tlvTypeName : V2.TlvType → String
  | .alpn => "alpn" | .authority => "authority" | .crc32c => "crc32c" | .noOp => "noop"
  | .uniqueId => "uniqueid" | .ssl => "ssl" | .sslVersion => "sslversion"
  | .sslCommonName => "sslcommonname" | .sslCipher => "sslcipher"
  | .sslSignatureAlgorithm => "sslsignaturealgorithm" | .sslKeyAlgorithm => "sslkeyalgorithm"
  | .networkNamespace => "networknamespace"

def tlvType? (s : String) : Option V2.TlvType :=
  V2.TlvType.all.find? (fun t => tlvTypeName t == s)

def transportName : V2.Transport → String
  | .unspec => "unspec" | .stream => "stream" | .dgram => "dgram"

def transport? (s : String) : Option V2.Transport :=
  [V2.Transport.unspec, .stream, .dgram].find? (fun t => transportName t == s)

def familyName : V2.Family → String
  | .unspec => "unspec" | .ipv4 => "ipv4" | .ipv6 => "ipv6" | .unix => "unix"

def commandName : V2.Command → String
  | .loc => "local" | .proxy => "proxy"

def u8? (s : String) : Option UInt8 :=
  match s.toNat? with
  | some n => if n < 256 then some (UInt8.ofNat n) else none
  | none => none

end Driver
