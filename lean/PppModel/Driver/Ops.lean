import PppModel.Driver.Codec
import PppModel.V2.Parse

/-!
# Operations of the line protocol, evaluated on the model (mirror of `harness/src/ops.rs`)
-/

namespace Driver
open V2

def outcomeStr (o : Outcome String) : String :=
  match o with
  | .val s => s
  | .panic => "panic"

def optStr (o : Option String) : String := o.getD "bad-op"

-- ---------------------------------------------------------------- v2

def v2Err : ParseError → String
  | .incomplete n => s!"Incomplete a={n} b=-"
  | .badPrefix => "Prefix a=- b=-"
  | .version v => s!"Version a={v.toNat} b=-"
  | .command v => s!"Command a={v.toNat} b=-"
  | .addressFamily v => s!"AddressFamily a={v.toNat} b=-"
  | .protocol v => s!"Protocol a={v.toNat} b=-"
  | .partialHdr a b => s!"Partial a={a} b={b}"
  | .invalidAddresses a b => s!"InvalidAddresses a={a} b={b}"
  | .invalidTLV a b => s!"InvalidTLV a={a.toNat} b={b}"
  | .leftovers a => s!"Leftovers a={a} b=-"

def itemStr : Item → String
  | .ok t => s!"{t.kind.toNat}:{hexOf t.value}"
  | .error (.leftovers n) => s!"!leftovers:{n}"
  | .error (.invalidTLV t l) => s!"!invalidtlv:{t.toNat}:{l}"
  | .error e => s!"!other:{(v2Err e).replace " " "_"}"

/-- Runs the panic-aware iterator under the same step cap as the harness. -/
def tlvLoop : Nat → Iter → Array String → Nat → Outcome (Array String × Nat × Bool × Iter)
  | 0, it, acc, steps => .val (acc, steps, false, it)
  | fuel + 1, it, acc, steps =>
    match it.nextP with
    | .panic => .panic
    | .val none => .val (acc, steps, true, it)
    | .val (some (item, it')) => tlvLoop fuel it' (acc.push (itemStr item)) (steps + 1)

def tlvItems (bs : B) : Outcome String :=
  let cap := bs.length / 3 + 3
  match tlvLoop cap (Iter.ofBytes bs) #[] 0 with
  | .panic => .panic
  | .val (parts, steps, ended, it) =>
    match it.nextP with
    | .panic => .panic
    | .val after1 =>
      -- polled twice more after the end, through the state-returning `step` (the state is left
      -- unchanged on `None`, C11.step_none_stable): both polls must be `None`
      let (p1, it1) := it.step
      let (p2, _) := it1.step
      let fused := ended && after1.isNone && p1.isNone && p2.isNone
      .val s!"[{",".intercalate parts.toList}] steps={steps} ended={b01 ended} fused={b01 fused} towned=1 sbytes=1 adapt=1"

def v2Ok (h : Header) : Outcome String := do
  let length ← h.lengthP
  let ab ← h.addressBytesP
  let tb ← h.tlvBytesP
  let items ← tlvItems tb
  let disp ← h.displayP
  let ver := match h.version with | .two => "two"
  pure (s!"ok hdr={hexOf h.header} ver={ver} cmd={commandName h.command} tr={transportName h.protocol} " ++
    s!"fam={familyName h.addressFamily} addr={v2Addr h.addresses} alen={h.addresses.len} " ++
    s!"aempty={b01 h.addresses.isEmpty} len={h.len} length={length} empty={b01 h.isEmpty} " ++
    s!"ab={hexOf ab} tb={hexOf tb} asb=1 tlvs={items} sec=1 disp={hexOf disp} owned=1")

def isIncV2 (r : Except ParseError Header) : Bool :=
  match r with
  | .ok _ => false
  | .error e => e.isIncomplete

def v2Result (r : Except ParseError Header) : Outcome String :=
  match r with
  | .ok h => do
    let s ← v2Ok h
    pure s!"{s} inc=0 comp=1"
  | .error e =>
    .val s!"err {v2Err e} inc={b01 e.isIncomplete} comp={b01 (!e.isIncomplete)} einc={b01 e.isIncomplete}"

def opV2 (x : B) : Outcome String := do
  let r ← parseP x
  let s ← v2Result r
  let clob := match r with | .ok _ => "1" | .error _ => "-"
  pure s!"{s} clob={clob}"

def opTlv (x : B) : Outcome String := do
  let items ← tlvItems x
  let it := Iter.ofBytes x
  pure s!"tlvs={items} slen={it.len} sempty={b01 it.isEmpty}"

-- ---------------------------------------------------------------- builder / writer

/-- Integer payloads go through the model's own type table (`IntTy`, `Payload.ofInt`: natural
width, two's complement), about which `C20.int_signed` / `width_table` are proved. -/
def intTy? : String → Option IntTy
  | "u8" => some .u8 | "u16" => some .u16 | "u32" => some .u32 | "u64" => some .u64
  | "u128" => some .u128 | "usize" => some .usize
  | "i8" => some .i8 | "i16" => some .i16 | "i32" => some .i32 | "i64" => some .i64
  | "i128" => some .i128 | "isize" => some .isize
  | _ => none

def intPayload? (kind : String) (v : String) : Option Payload :=
  match intTy? kind, v.toInt? with
  | some t, some i => if t.inRange i then some (Payload.ofInt t i) else none
  | _, _ => none

def splitOnce (s : String) (sep : String) : Option (String × String) :=
  match s.splitOn sep with
  | [] => none
  | [_] => none
  | a :: rest => some (a, sep.intercalate rest)

def payload? (s : String) : Option Payload :=
  match splitOnce s ":" with
  | none => none
  | some (k, v) =>
    match k with
    | "sl" => (bytesSpec? v).map .slice
    | "ad" => (v2Addr? v).map .addresses
    | "tv" =>
      match splitOnce v ":" with
      | some (t, b) => match u8? t, bytesSpec? b with
        | some t, some b => some (.tlv t b)
        | _, _ => none
      | none => none
    | "pr" =>
      match splitOnce v ":" with
      | some (t, b) => match u8? t, bytesSpec? b with
        | some t, some b => some (.pair t b)
        | _, _ => none
      | none => none
    | "prt" =>
      match splitOnce v ":" with
      | some (t, b) => match tlvType? t, bytesSpec? b with
        | some t, some b => some (.pair t.code b)
        | _, _ => none
      | none => none
    | "sec" => (bytesSpec? v).map .tlvSection
    | "seca" =>
      -- a section whose iterator has been advanced: `as_bytes` is the whole section
      match splitOnce v ":" with
      | some (_, b) => (bytesSpec? b).map .tlvSection
      | none => none
    | "ty" => (tlvType? v).map .type
    | _ => intPayload? k v

def op? (t : String) : Option Op :=
  match splitOnce t ":" with
  | none => none
  | some (k, v) =>
    match k with
    | "res" => v.toNat?.map .reserve
    | "len" =>
      if v == "none" then some (.setLength none)
      else match v.toNat? with
        | some n => if n < 65536 then some (.setLength (some n)) else none
        | none => none
    | "lenv" =>
      match v.toNat? with
      | some n => if n < 65536 then some (.setLength (some n)) else none
      | none => none
    | "wp" => (payload? v).map .writePayload
    | "wpr" => (payload? v).map .writePayload
    | "wps" | "wpl" | "wpf" | "wpc" =>
      -- one batch, whatever iterator type carries it (exact hint, lazy filter, from_fn, chain)
      if v.isEmpty then some (.writePayloads [])
      else
        let ps := (v.splitOn "+").map payload?
        if ps.all Option.isSome then some (.writePayloads (ps.filterMap id)) else none
    | "tlv" =>
      match splitOnce v ":" with
      | some (t, b) =>
        match bytesSpec? b with
        | none => none
        | some b =>
          match tlvType? t with
          | some ty => some (.writeTlv ty.code b)
          | none => (u8? t).map (fun k => .writeTlv k b)
      | none => none
    | _ => none

def ctor? (s : String) : Option Builder :=
  match s.splitOn ":" with
  | ["new", vc, afp] =>
    match u8? vc, u8? afp with
    | some vc, some afp => some (Builder.new vc afp)
    | _, _ => none
  | ["with", vc, tr, addr] =>
    match u8? vc, transport? tr, v2Addr? addr with
    | some vc, some tr, some a => some (Builder.withAddresses vc tr a)
    | _, _, _ => none
  | ["with4", vc, tr, addr] =>
    match u8? vc, transport? tr, v2Addr? addr with
    | some vc, some tr, some a => some (Builder.withAddresses vc tr a)
    | _, _, _ => none
  | _ => none

def runOps (b : Builder) : List Op → Nat → Except Nat Builder
  | [], _ => .ok b
  | op :: ops, i =>
    match b.step op with
    | none => .error i
    | some b' => runOps b' ops (i + 1)

def opBld (rest : String) : Option String :=
  match rest.splitOn ";" with
  | [] => none
  | c :: toks =>
    match ctor? c with
    | none => none
    | some b =>
      let toks := toks.filter (fun t => !t.isEmpty)
      let ops := toks.map op?
      if !ops.all Option.isSome then none else
      let ops := ops.filterMap id
      match runOps b ops 0 with
      | .error i => some s!"err@{i}"
      | .ok b' =>
        match b'.buildP with
        | .panic => some "panic"
        | .val (some bytes) => some s!"ok {hexOf bytes}"
        | .val none => some s!"err@{ops.length}"

def opWr (rest : String) : Option String :=
  match splitOnce rest " " with
  | none => none
  | some (pre, pl) =>
    match bytesSpec? pre, payload? pl with
    | some pre, some p =>
      let r := p.writeTo pre
      let (ret, out) := match r with
        | .ok (n, w) => (s!"ok:{n}", w)
        | .error w => ("err", w)
      let prefixOk := pre.isPrefixOf out
      let app := if prefixOk then hexOf (out.drop pre.length) else "?"
      let tb := match p.toBytes with
        | some b => hexOf b
        | none => "err"
      let after := match (Payload.int 1 7).writeTo out with
        | .ok (1, w2) => if w2 = out ++ [7] then "ok" else "odd"
        | .ok _ => "odd"
        | .error w2 => if w2 = out then "err" else "odd"
      some s!"ret={ret} pre={b01 prefixOk} app={app} tb={tb} ref=1 after={after}"
    | _, _ => none

/-- C13: parse, then rebuild from the parts through the model's views and builder. -/
def opRb (x : B) : Outcome String := do
  let r ← parseP x
  match r with
  | .error _ => pure "nohdr"
  | .ok h =>
    let ab ← h.addressBytesP
    let tb ← h.tlvBytesP
    let show_ (o : Option B) : String := match o with
      | some b => if b = h.header then "eq" else hexOf b
      | none => "err"
    let vc := byteAt h.header 12
    let afp := byteAt h.header 13
    let raw := (Builder.new vc afp).run [.writePayload (.slice ab), .writePayload (.slice tb)]
    let sec := (Builder.new vc afp).run [.writePayload (.slice ab), .writePayload (.tlvSection tb)]
    let items := tlvCollect tb
    let allOk := items.all (fun i => match i with | .ok _ => true | .error _ => false)
    let it := if allOk then
        show_ ((Builder.new vc afp).run [.writePayload (.slice ab),
          .writePayloads (items.filterMap (fun i => match i with
            | .ok t => some (.tlv t.kind t.value) | .error _ => none))])
      else "na"
    let addr := if h.addressFamily ≠ .unspec then
        show_ ((Builder.withAddresses (vcByte h.version h.command) h.protocol h.addresses).run
          [.writePayload (.tlvSection tb)])
      else "na"
    let braw := (Builder.new vc afp).run [.writePayloads [.slice ab, .slice tb]]
    let baddr := if h.addressFamily ≠ .unspec then
        (if allOk then
          show_ ((Builder.withAddresses (vcByte h.version h.command) h.protocol h.addresses).run
            [.writePayloads (items.filterMap (fun i => match i with
              | .ok t => some (.tlv t.kind t.value) | .error _ => none))])
        else "na")
      else "na"
    let okItems : List Tlv := items.filterMap (fun i => match i with | .ok t => some t | .error _ => none)
    let extra : Tlv := ⟨TlvType.noOp.code, [0xAA, 0xBB]⟩
    let aug : String ← (if h.addressFamily ≠ .unspec && allOk then
        (match (Builder.withAddresses (vcByte h.version h.command) h.protocol h.addresses).run
            ((okItems ++ [extra]).map (fun t => .writeTlv t.kind t.value)) with
          | none => (pure "big" : Outcome String)
          | some out => do
            let r2 ← parseP out
            match r2 with
            | .error _ => pure s!"noparse:{hexOf out}"
            | .ok h2 =>
              let tb2 ← h2.tlvBytesP
              if h2.command == h.command && h2.protocol == h.protocol && h2.addresses == h.addresses
                  && h2.header == out && tlvCollect tb2 == (okItems ++ [extra]).map .ok
              then pure "eq" else pure s!"diff:{hexOf out}")
      else (pure "na" : Outcome String))
    pure s!"hdr={hexOf h.header} raw={show_ raw} sec={show_ sec} items={it} addr={addr} braw={show_ braw} baddr={baddr} aug={aug}"

-- ---------------------------------------------------------------- tables

def opTbl (pre : List String) (mid : List String) : String :=
  let e : List String := [
    s!"v2.prefix={hexOf sig}",
    s!"ver.two={Version.two.code.toNat}" ]
  let cmds := [Command.loc, .proxy].flatMap fun c =>
    [s!"cmd.{commandName c}={c.code.toNat}",
     s!"vc.{commandName c}={(vcByte .two c).toNat}/{(vcByte .two c).toNat}"]
  let fams := [Family.unspec, .ipv4, .ipv6, .unix].flatMap fun f =>
    let bl := match f.byteLength with | some n => toString n | none => "none"
    s!"fam.{familyName f}={f.code.toNat}/{bl}/{f.toU16}" ::
      [Transport.unspec, .stream, .dgram].map fun p =>
        s!"afp.{familyName f}.{transportName p}={(afpByte f p).toNat}/{(afpByte f p).toNat}"
  let trs := [Transport.unspec, .stream, .dgram].map fun p =>
    s!"tr.{transportName p}={p.code.toNat}"
  let types := TlvType.all.map fun t =>
    s!"type.{tlvTypeName t}={t.code.toNat}/{t.code.toNat}"
  let v2errs : List (String × ParseError) := [
    ("Incomplete", .incomplete 3), ("Prefix", .badPrefix), ("Version", .version 1),
    ("Command", .command 2), ("AddressFamily", .addressFamily 0x40), ("Protocol", .protocol 3),
    ("Partial", .partialHdr 1 2), ("InvalidAddresses", .invalidAddresses 1 12),
    ("InvalidTLV", .invalidTLV 1 2), ("Leftovers", .leftovers 2)]
  let inc2 := v2errs.map fun (n, er) => s!"inc2.{n}={b01 er.isIncomplete}{b01 (!er.isIncomplete)}"
  ";".intercalate (pre ++ e ++ cmds ++ fams ++ trs ++ types ++ mid ++ inc2)

end Driver
