import PppModel.Driver.OpsV1

open Driver

def evalLine (line : String) : String :=
  let (op, rest) := match splitOnce line " " with
    | some (a, b) => (a, b)
    | none => (line, "")
  match op with
  | "v2" => match bytesSpec? rest with
    | some x => outcomeStr (opV2 x)
    | none => "bad-op"
  | "tlv" => match bytesSpec? rest with
    | some x => outcomeStr (opTlv x)
    | none => "bad-op"
  | "rb" => match bytesSpec? rest with
    | some x => outcomeStr (opRb x)
    | none => "bad-op"
  | "bld" => optStr (opBld rest)
  | "wr" => optStr (opWr rest)
  | "tbl" => opTbl tblV1 tblInc1
  | "v1b" => match unhex? rest with
    | some x => outcomeStr (opV1b x)
    | none => "bad-op"
  | "v1s" => match unhex? rest with
    | some x => opV1s x
    | none => "bad-op"
  | "auto" => match bytesSpec? rest with
    | some x => outcomeStr (opAuto x)
    | none => "bad-op"
  | "autoc" =>
    let cls? : String → Option Auto.Cls := fun t =>
      match t with | "ok" => some .ok | "inc" => some .inc | "term" => some .term | _ => none
    match rest.splitOn " " with
    | [a, b] => match cls? a, cls? b with
      | some c2, some c1 =>
        let (isV2, c) := Auto.verdict c2 c1
        let cn := match c with | .ok => "ok" | .inc => "inc" | .term => "term"
        s!"tag={if isV2 then "v2" else "v1"} cls={cn}"
      | _, _ => "bad-op"
    | _ => "bad-op"
  | "fmt1" => optStr (opFmt1 rest)
  | "rt1" => optStr (opRt1 rest)
  | "ctor" => optStr (opCtor rest)
  | "ip4p" => match unhex? rest with
    | some x => opIp4p x
    | none => "bad-op"
  | "ip6p" => match unhex? rest with
    | some x => opIp6p x
    | none => "bad-op"
  | "u16p" => match unhex? rest with
    | some x => opU16p x
    | none => "bad-op"
  | "utf8" => match unhex? rest with
    | some x => b01 (Utf8.valid x)
    | none => "bad-op"
  | "ip4d" => match ip4? rest with
    | some a => hexOf (StdNet.displayIpv4 a)
    | none => "bad-op"
  | "ip6d" => match fix? 16 rest with
    | some a => hexOf (StdNet.displayIpv6 a)
    | none => "bad-op"
  | "u16d" => match port? rest with
    | some p => hexOf (StdInt.dec p.toNat)
    | none => "bad-op"
  | _ => "unsupported"

partial def loop (h : IO.FS.Stream) (out : IO.FS.Stream) : IO Unit := do
  let line ← h.getLine
  if line.isEmpty then return ()
  let l := line.trimAsciiEnd.toString
  if !l.isEmpty then
    out.putStrLn (evalLine l)
  loop h out

def main : IO Unit := do
  let out ← IO.getStdout
  loop (← IO.getStdin) out
  out.flush
