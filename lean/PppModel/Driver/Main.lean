import PppModel.Driver.Ops

open Driver

def evalLine (line : String) : String :=
  let (op, rest) := match splitOnce line " " with
    | some (a, b) => (a, b)
    | none => (line, "")
  match op with
  | "v2" => match bytesSpec? rest with
    | some x => outcomeStr (opV2 x)
    | none => "bad-op"
  | "tlv" => match bytesSpec? rest with
    | some x => outcomeStr (opTlv x)
    | none => "bad-op"
  | "rb" => match bytesSpec? rest with
    | some x => outcomeStr (opRb x)
    | none => "bad-op"
  | "bld" => optStr (opBld rest)
  | "wr" => optStr (opWr rest)
  | "tbl" => opTbl
  | _ => "unsupported"

partial def loop (h : IO.FS.Stream) (out : IO.FS.Stream) : IO Unit := do
  let line ← h.getLine
  if line.isEmpty then return ()
  let l := line.trimAsciiEnd.toString
  if !l.isEmpty then
    out.putStrLn (evalLine l)
  loop h out

def main : IO Unit := do
  let out ← IO.getStdout
  loop (← IO.getStdin) out
  out.flush
