import PppModel.Driver.Ops
import PppModel.Auto
import PppModel.V1.Ctor

/-!
# v1 / auto / std / constructor operations of the line protocol
-/

namespace Driver
open V1

def v1Addr : V1.Addresses → String
  | .unknown => "unknown"
  | .tcp4 a => s!"tcp4/{ip4Hex a.srcAddr}/{ip4Hex a.dstAddr}/{a.srcPort.toNat}/{a.dstPort.toNat}"
  | .tcp6 a => s!"tcp6/{ip6Hex a.srcAddr}/{ip6Hex a.dstAddr}/{a.srcPort.toNat}/{a.dstPort.toNat}"

def v1Addr? (s : String) : Option V1.Addresses :=
  match s.splitOn "/" with
  | ["unknown"] => some .unknown
  | ["tcp4", sa, da, sp, dp] =>
    match ip4? sa, ip4? da, port? sp, port? dp with
    | some sa, some da, some sp, some dp =>
      some (.tcp4 { srcAddr := sa, dstAddr := da, srcPort := sp, dstPort := dp })
    | _, _, _, _ => none
  | ["tcp6", sa, da, sp, dp] =>
    match fix? 16 sa, fix? 16 da, port? sp, port? dp with
    | some sa, some da, some sp, some dp =>
      some (.tcp6 { srcAddr := sa, dstAddr := da, srcPort := sp, dstPort := dp })
    | _, _, _, _ => none
  | _ => none

def intKind : StdInt.IntErrorKind → String
  | .empty => "Empty"
  | .invalidDigit => "InvalidDigit"
  | .posOverflow => "PosOverflow"

def portErr (name : String) (k : Option StdInt.IntErrorKind) : String :=
  match k with
  | none => s!"{name}/None"
  | some k => s!"{name}/{intKind k}"

def v1Err : V1.ParseError → String
  | .invalidPrefix => "InvalidPrefix"
  | .partialHdr => "Partial"
  | .missingPrefix => "MissingPrefix"
  | .missingNewLine => "MissingNewLine"
  | .missingProtocol => "MissingProtocol"
  | .missingSourceAddress => "MissingSourceAddress"
  | .missingDestinationAddress => "MissingDestinationAddress"
  | .missingSourcePort => "MissingSourcePort"
  | .missingDestinationPort => "MissingDestinationPort"
  | .headerTooLong => "HeaderTooLong"
  | .invalidProtocol => "InvalidProtocol"
  | .invalidSuffix => "InvalidSuffix"
  | .invalidSourceAddress => "InvalidSourceAddress"
  | .invalidDestinationAddress => "InvalidDestinationAddress"
  | .invalidSourcePort k => portErr "InvalidSourcePort" k
  | .invalidDestinationPort k => portErr "InvalidDestinationPort" k

def v1Ok (h : V1.Header) : Outcome String := do
  let astr ← h.addressesStrP
  pure (s!"ok hdr={hexOf h.header} addr={v1Addr h.addresses} proto={hexOf h.protocol} " ++
    s!"astr={hexOf astr} disp={hexOf h.display} owned=1")

def v1StrResult (r : Except V1.ParseError V1.Header) : Outcome String :=
  match r with
  | .ok h => do
    let s ← v1Ok h
    pure s!"{s} inc=0 comp=1"
  | .error e =>
    .val s!"err {v1Err e} inc={b01 e.isIncomplete} comp={b01 (!e.isIncomplete)} einc={b01 e.isIncomplete}"

def v1BinResult (r : Except V1.BinaryParseError V1.Header) : Outcome String :=
  match r with
  | .ok h => do
    let s ← v1Ok h
    pure s!"{s} inc=0 comp=1"
  | .error e =>
    let name := match e with
      | .parse p => v1Err p
      | .invalidUtf8 => "InvalidUtf8"
    .val s!"err {name} inc={b01 e.isIncomplete} comp={b01 (!e.isIncomplete)} einc={b01 e.isIncomplete}"

def opV1b (x : B) : Outcome String := do
  let r ← V1.parseBytesP x
  let s ← v1BinResult r
  let clob := match r with | .ok _ => "1" | .error _ => "-"
  pure s!"{s} clob={clob}"

def opV1s (x : B) : String :=
  if !Utf8.valid x then "notutf8" else
  let a := outcomeStr (do let r ← V1.parseStrP x; v1StrResult r)
  -- `FromStr` through the panic-aware twins (`C03.fromStrHeader_no_panic`, `fromStrAddresses_no_panic`)
  let b := outcomeStr (do
    let r ← V1.fromStrHeaderP x
    v1StrResult r)
  let c := outcomeStr (do
    let r ← V1.fromStrAddressesP x
    pure (match r with
      | .ok a => s!"ok addr={v1Addr a}"
      | .error e => s!"err {v1Err e}"))
  s!"{a} | {b} | {c}"

def opAuto (x : B) : Outcome String := do
  let r ← Auto.parseP x
  let inner ← match r with
    | .v1 r1 => do let s ← v1BinResult r1; pure s!"v1 {s}"
    | .v2 r2 => do let s ← v2Result r2; pure s!"v2 {s}"
  pure s!"{inner} ainc={b01 r.isIncomplete} acomp={b01 r.isComplete} from=1"

def opFmt1 (rest : String) : Option String :=
  (v1Addr? rest).map (fun a => hexOf a.format)

/-- C08: format, then parse back through every text entry point. -/
def opRt1 (rest : String) : Option String :=
  match v1Addr? rest with
  | none => none
  | some a =>
    let text := a.format
    let showE (r : Except String V1.Addresses) : String := match r with
      | .ok x => v1Addr x
      | .error e => s!"err:{e}"
    let b := showE (match V1.parseBytes text with
      | .ok h => .ok h.addresses
      | .error (.parse p) => .error (v1Err p)
      | .error .invalidUtf8 => .error "InvalidUtf8")
    let s := showE (match V1.parseStr text with | .ok h => .ok h.addresses | .error e => .error (v1Err e))
    let fh := showE (match V1.fromStrHeader text with | .ok h => .ok h.addresses | .error e => .error (v1Err e))
    let fa := showE (match V1.fromStrAddresses text with | .ok x => .ok x | .error e => .error (v1Err e))
    let same := match V1.parseStr text with
      | .ok h => h.header == text && h.display == text
      | .error _ => false
    some s!"text={hexOf text} len={text.length} b={b} s={s} fh={fh} fa={fa} same={b01 same} spec=1"

-- ---------------------------------------------------------------- std

def opIp4p (x : B) : String :=
  if !Utf8.valid x then "notutf8" else
  match StdNet.parseIpv4 x with
  | some a => s!"ok {ip4Hex a}"
  | none => "err"

def opIp6p (x : B) : String :=
  if !Utf8.valid x then "notutf8" else
  match StdNet.parseIpv6 x with
  | some a => s!"ok {ip6Hex a}"
  | none => "err"

def opU16p (x : B) : String :=
  if !Utf8.valid x then "notutf8" else
  match StdInt.parseU16 x with
  | .ok n => s!"ok {n}"
  | .error k => s!"err {intKind k}"

-- ---------------------------------------------------------------- constructors

def ipv4Fields (a : IPv4) : String :=
  s!"sa={ip4Hex a.srcAddr} sp={a.srcPort.toNat} da={ip4Hex a.dstAddr} dp={a.dstPort.toNat}"

def ipv6Fields (a : IPv6) : String :=
  s!"sa={ip6Hex a.srcAddr} sp={a.srcPort.toNat} da={ip6Hex a.dstAddr} dp={a.dstPort.toNat}"

def sock? (s : String) : Option SocketAddr :=
  match s.splitOn "/" with
  | ["v4", ip, port] =>
    match ip4? ip, port? port with
    | some ip, some p => some (.v4 ip p)
    | _, _ => none
  | ["v6", ip, port, flow, scope] =>
    match fix? 16 ip, port? port, flow.toNat?, scope.toNat? with
    | some ip, some p, some f, some sc => some (.v6 ip p f sc)
    | _, _, _, _ => none
  | _ => none

def opCtor (rest : String) : Option String :=
  match rest.splitOn " " with
  | ["ip4", sa, da, sp, dp] =>
    match ip4? sa, ip4? da, port? sp, port? dp with
    | some sa, some da, some sp, some dp =>
      let a := IPv4.new sa da sp dp
      some (s!"{ipv4Fields a} arr=1 tcp4={v1Addr (V1.Addresses.newTcp4 sa da sp dp)} " ++
        s!"from1={v1Addr (V1.Addresses.fromIPv4 a)} from2={v2Addr (V2.Addresses.fromIPv4 a)}")
    | _, _, _, _ => none
  | ["ip6", sa, da, sp, dp] =>
    match fix? 16 sa, fix? 16 da, port? sp, port? dp with
    | some sa, some da, some sp, some dp =>
      let a := IPv6.new sa da sp dp
      some (s!"{ipv6Fields a} arr=1 tcp6={v1Addr (V1.Addresses.newTcp6 sa da sp dp)} " ++
        s!"from1={v1Addr (V1.Addresses.fromIPv6 a)} from2={v2Addr (V2.Addresses.fromIPv6 a)}")
    | _, _, _, _ => none
  | ["unix", s, d] =>
    match fix? 108 s, fix? 108 d with
    | some s, some d =>
      let u := V2.Unix.new s d
      some s!"src={hexOf u.source.val} dst={hexOf u.destination.val} from2={v2Addr (V2.Addresses.fromUnix u)}"
    | _, _ => none
  | ["sock", s, d] =>
    match sock? s, sock? d with
    | some s, some d =>
      let b := V2.Addresses.fromSockets s d
      some s!"v1={v1Addr (V1.Addresses.fromSockets s d)} v2={v2Addr b} fam={familyName b.family} def={v1Addr V1.Addresses.default}"
    | _, _ => none
  | ["hdr1", text, addr] =>
    match unhex? text, v1Addr? addr with
    | some t, some a => if Utf8.valid t then some s!"hdr={hexOf t} addr={v1Addr a}" else none
    | _, _ => none
  | ["tlvnew", kind, value] =>
    match u8? kind, bytesSpec? value with
    | some k, some v =>
      let t : V2.Tlv := { kind := k, value := v }
      some s!"kind={t.kind.toNat} value={hexOf t.value} len={t.len} empty={b01 t.isEmpty} same=1"
    | _, _ => none
  | _ => none

/-- v1 part of the table op. -/
def tblV1 : List String :=
  [ s!"v1.prefix={hexOf PROXY}", s!"v1.suffix={hexOf CRLF}", s!"v1.tcp4={hexOf TCP4}",
    s!"v1.tcp6={hexOf TCP6}", s!"v1.unknown={hexOf UNKNOWN}", s!"v1.sep={SP.toNat}" ]

def tblInc1 : List String :=
  let errs : List V1.ParseError := [
    .invalidPrefix, .partialHdr, .missingPrefix, .missingNewLine, .missingProtocol,
    .missingSourceAddress, .missingDestinationAddress, .missingSourcePort, .missingDestinationPort,
    .headerTooLong, .invalidProtocol, .invalidSuffix, .invalidSourceAddress, .invalidDestinationAddress,
    .invalidSourcePort none, .invalidSourcePort (some .invalidDigit),
    .invalidDestinationPort none, .invalidDestinationPort (some .invalidDigit)]
  let l := errs.map fun e =>
    let i := e.isIncomplete
    let w := (V1.BinaryParseError.parse e).isIncomplete
    s!"inc1.{v1Err e}={b01 i}{b01 (!i)}{b01 w}{b01 (!w)}"
  let u := V1.BinaryParseError.invalidUtf8.isIncomplete
  l ++ [s!"inc1.InvalidUtf8={b01 u}{b01 (!u)}"]

end Driver
