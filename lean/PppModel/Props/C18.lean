import PppModel.Lemmas.V1Term

/-!
# C18 — the v1 verdict is final once the first line break or 107 bytes have been seen
-/

namespace C18
open V1

/-- On a CR-frozen input the window is `a ++ [CR, b]` and every entry point runs
`parse_header` on exactly that. -/
theorem parseBytes_frozen_cr {x : B} {c : Nat} (h : firstCR x = some c) (hc : c + 1 < x.length) :
    ∃ a b, crFree a ∧ x.take (c + 2) = a ++ [CR, b] ∧
      parseBytes x = (if !Utf8.valid (a ++ [CR, b]) then .error .invalidUtf8
        else match parseHeader (a ++ [CR, b]) with
          | .error e => .error (.parse e)
          | .ok hd => .ok hd) := by
  obtain ⟨a, b, ha, -, hw⟩ := window_shape h hc
  refine ⟨a, b, ha, hw, ?_⟩
  simp only [parseBytes, windowLength_frozen_cr h hc, hw]
  rfl

/-- **C18 (bytes).** Once the input contains its first CR followed by at least one
more byte, or 107 bytes without any CR, the result is a success or a terminal
error. -/
theorem frozen_complete_bytes (x : B) (h : frozen x) : Auto.isIncompleteV1 (parseBytes x) = false := by
  rcases h with ⟨c, h1, h2⟩ | ⟨h1, h2⟩
  · obtain ⟨a, b, ha, -, hp⟩ := parseBytes_frozen_cr h1 h2
    rw [hp]
    split
    · rfl
    · have := parseHeader_terminated a b ha
      cases hr : parseHeader (a ++ [CR, b]) with
      | ok hd => rfl
      | error e =>
        rw [hr] at this
        simpa [NotInc, Auto.isIncompleteV1Str, Auto.isIncompleteV1, BinaryParseError.isIncomplete] using this
  · have : windowLength x = none := windowLength_long h1 h2
    simp [parseBytes, this, Auto.isIncompleteV1, BinaryParseError.isIncomplete, ParseError.isIncomplete]

/-- **C18 (text).** The same through `TryFrom<&str>` (and hence both `FromStr`). -/
theorem frozen_complete_str (x : B) (h : frozen x) : Auto.isIncompleteV1Str (parseStr x) = false := by
  rcases h with ⟨c, h1, h2⟩ | ⟨h1, h2⟩
  · obtain ⟨a, b, ha, -, hw⟩ := window_shape h1 h2
    simp only [parseStr, windowLength_frozen_cr h1 h2, hw]
    split
    · rfl
    · exact parseHeader_terminated a b ha
  · have : windowLength x = none := windowLength_long h1 h2
    simp [parseStr, this, Auto.isIncompleteV1Str, ParseError.isIncomplete]

/-- **C18 (no later byte changes it).** After the first CR and one more byte the
result is the same whatever follows. -/
theorem frozen_stable_bytes (x t : B) (c : Nat) (h : firstCR x = some c) (hc : c + 1 < x.length) :
    parseBytes (x ++ t) = parseBytes x := by
  obtain ⟨h1, h2⟩ := window_append_frozen t h hc
  simp only [parseBytes, h1, h2, windowLength_frozen_cr h hc]

/-- After 107 bytes without CR every continuation is a terminal error as well
(`HeaderTooLong`, or `InvalidUtf8` if the over-long line is not text). -/
theorem frozen_long_bytes (x t : B) (h : firstCR x = none) (hl : 107 ≤ x.length) :
    ∃ e, parseBytes (x ++ t) = .error e ∧ e.isIncomplete = false := by
  simp only [parseBytes]
  cases hw : windowLength (x ++ t) with
  | none => exact ⟨_, rfl, rfl⟩
  | some n =>
    have hn : 107 < n := by
      cases hcr : firstCR (x ++ t) with
      | none =>
        rw [windowLength_long hcr (by simp; omega)] at hw; cases hw
      | some i =>
        simp only [windowLength, hcr, Option.some.injEq, CRLF, List.length_cons, List.length_nil,
          List.length_append] at hw
        obtain ⟨a, r, hxt, ha, rfl⟩ := firstCR_some hcr
        -- the first CR of x ++ t lies in t
        have : x.length ≤ a.length := by
          rcases Nat.lt_or_ge a.length x.length with hlt | hge
          · exfalso
            have hx : byteAt (x ++ t) a.length = CR := by
              rw [hxt, byteAt_append_right (Nat.le_refl _)]; simp
            rw [byteAt_append_left hlt] at hx
            have hmem : byteAt x a.length ∈ x := by
              simp only [byteAt, List.getElem?_eq_getElem hlt, Option.getD_some]
              exact List.getElem_mem _
            exact (firstCR_none_iff x).mp h _ hmem hx
          · exact hge
        have hlen : (x ++ t).length = a.length + 1 + r.length := by rw [hxt]; simp; omega
        simp only [List.length_append] at hlen
        omega
    have hnle : n ≤ (x ++ t).length := by
      cases hcr : firstCR (x ++ t) with
      | none =>
        rw [windowLength_long hcr (by simp; omega)] at hw; cases hw
      | some i =>
        simp only [windowLength, hcr, Option.some.injEq] at hw
        omega
    simp only
    split
    · exact ⟨_, rfl, rfl⟩
    · have hlen : ((x ++ t).take n).length > MAX_LENGTH := by
        simp only [List.length_take, MAX_LENGTH]; omega
      have hne : ((x ++ t).take n).isEmpty = false := by
        cases hq : (x ++ t).take n with
        | nil => rw [hq] at hlen; simp [MAX_LENGTH] at hlen
        | cons _ _ => rfl
      simp only [parseHeader, hne, Bool.false_eq_true, if_false, hlen, if_true]
      exact ⟨_, rfl, rfl⟩

/-- Non-vacuity: three frozen inputs of the kinds the property names. -/
example : Auto.isIncompleteV1 (parseBytes [0x50, 0x0D, 0x50]) = false := by decide
example : parseBytes [0x50, 0x0D, 0x50] = .error (.parse .invalidPrefix) := by decide

end C18
