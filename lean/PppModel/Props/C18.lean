import PppModel.Auto

/-! # C18 (theorems under construction) -/

namespace C18
end C18
