import PppModel.Lemmas.V1Term
import PppModel.Lemmas.V1Window

/-!
# C18 — the v1 verdict is final once the first line break or 107 bytes have been seen
-/

namespace C18
open V1

/-- On a CR-frozen input the window is `a ++ [CR, b]` and every entry point runs
`parse_header` on exactly that. -/
theorem parseBytes_frozen_cr {x : B} {c : Nat} (h : firstCR x = some c) (hc : c + 1 < x.length) :
    ∃ a b, crFree a ∧ x.take (c + 2) = a ++ [CR, b] ∧
      parseBytes x = (if !Utf8.valid (a ++ [CR, b]) then .error .invalidUtf8
        else match parseHeader (a ++ [CR, b]) with
          | .error e => .error (.parse e)
          | .ok hd => .ok hd) := by
  obtain ⟨a, b, ha, -, hw⟩ := window_shape h hc
  refine ⟨a, b, ha, hw, ?_⟩
  simp only [parseBytes, windowLength_frozen_cr h hc, hw]
  rfl

/-- **C18 (bytes).** Once the input contains its first CR followed by at least one
more byte, or 107 bytes without any CR, the result is a success or a terminal
error. -/
theorem frozen_complete_bytes (x : B) (h : frozen x) : Auto.isIncompleteV1 (parseBytes x) = false := by
  rcases h with ⟨c, h1, h2⟩ | ⟨h1, h2⟩
  · obtain ⟨a, b, ha, -, hp⟩ := parseBytes_frozen_cr h1 h2
    rw [hp]
    split
    · rfl
    · have := parseHeader_terminated a b ha
      cases hr : parseHeader (a ++ [CR, b]) with
      | ok hd => rfl
      | error e =>
        rw [hr] at this
        simpa [NotInc, Auto.isIncompleteV1Str, Auto.isIncompleteV1, BinaryParseError.isIncomplete] using this
  · have : windowLength x = none := windowLength_long h1 h2
    simp [parseBytes, this, Auto.isIncompleteV1, BinaryParseError.isIncomplete, ParseError.isIncomplete]

/-- **C18 (text).** The same through `TryFrom<&str>` (and hence both `FromStr`). -/
theorem frozen_complete_str (x : B) (h : frozen x) : Auto.isIncompleteV1Str (parseStr x) = false := by
  rcases h with ⟨c, h1, h2⟩ | ⟨h1, h2⟩
  · obtain ⟨a, b, ha, -, hw⟩ := window_shape h1 h2
    simp only [parseStr, windowLength_frozen_cr h1 h2, hw]
    split
    · rfl
    · exact parseHeader_terminated a b ha
  · have : windowLength x = none := windowLength_long h1 h2
    simp [parseStr, this, Auto.isIncompleteV1Str, ParseError.isIncomplete]

/-- **C18 (no later byte changes it).** After the first CR and one more byte the
result is the same whatever follows. -/
theorem frozen_stable_bytes (x t : B) (c : Nat) (h : firstCR x = some c) (hc : c + 1 < x.length) :
    parseBytes (x ++ t) = parseBytes x := by
  obtain ⟨h1, h2⟩ := window_append_frozen t h hc
  simp only [parseBytes, h1, h2, windowLength_frozen_cr h hc]

/-- After 107 bytes without CR every continuation is a terminal error as well
(`HeaderTooLong`, or `InvalidUtf8` if the over-long line is not text). -/
theorem frozen_long_bytes (x t : B) (h : firstCR x = none) (hl : 107 ≤ x.length) :
    ∃ e, parseBytes (x ++ t) = .error e ∧ e.isIncomplete = false := by
  simp only [parseBytes]
  cases hw : windowLength (x ++ t) with
  | none => exact ⟨_, rfl, rfl⟩
  | some n =>
    have hn : 107 < n := by
      cases hcr : firstCR (x ++ t) with
      | none =>
        rw [windowLength_long hcr (by simp; omega)] at hw; cases hw
      | some i =>
        simp only [windowLength, hcr, Option.some.injEq, CRLF, List.length_cons, List.length_nil,
          List.length_append] at hw
        obtain ⟨a, r, hxt, ha, rfl⟩ := firstCR_some hcr
        -- the first CR of x ++ t lies in t
        have : x.length ≤ a.length := by
          rcases Nat.lt_or_ge a.length x.length with hlt | hge
          · exfalso
            have hx : byteAt (x ++ t) a.length = CR := by
              rw [hxt, byteAt_append_right (Nat.le_refl _)]; simp
            rw [byteAt_append_left hlt] at hx
            have hmem : byteAt x a.length ∈ x := by
              simp only [byteAt, List.getElem?_eq_getElem hlt, Option.getD_some]
              exact List.getElem_mem _
            exact (firstCR_none_iff x).mp h _ hmem hx
          · exact hge
        have hlen : (x ++ t).length = a.length + 1 + r.length := by rw [hxt]; simp; omega
        simp only [List.length_append] at hlen
        omega
    have hnle : n ≤ (x ++ t).length := by
      cases hcr : firstCR (x ++ t) with
      | none =>
        rw [windowLength_long hcr (by simp; omega)] at hw; cases hw
      | some i =>
        simp only [windowLength, hcr, Option.some.injEq] at hw
        omega
    simp only
    split
    · exact ⟨_, rfl, rfl⟩
    · have hlen : ((x ++ t).take n).length > MAX_LENGTH := by
        simp only [List.length_take, MAX_LENGTH]; omega
      have hne : ((x ++ t).take n).isEmpty = false := by
        cases hq : (x ++ t).take n with
        | nil => rw [hq] at hlen; simp [MAX_LENGTH] at hlen
        | cons _ _ => rfl
      simp only [parseHeader, hne, Bool.false_eq_true, if_false, hlen, if_true]
      exact ⟨_, rfl, rfl⟩

/-- Non-vacuity: three frozen inputs of the kinds the property names. -/
example : Auto.isIncompleteV1 (parseBytes [0x50, 0x0D, 0x50]) = false := by decide
example : parseBytes [0x50, 0x0D, 0x50] = .error (.parse .invalidPrefix) := by decide

/-! ## The buffer bound: 108 bytes, not 107

The property text says "a receiver never has to buffer more than 107 bytes".  The exact bound is
**108**: every input of at least 108 bytes has a final verdict (`complete_at_108*`), and there are
107-byte inputs that are still reported incomplete (`w107`); they are exactly (some of) the inputs
whose first CR is their last byte (`incomplete_107_bytes`), and every extension of such an input
is terminal (`w107_extension_bytes`). -/

/-- **C18 (buffer bound, bytes).** Clause "a receiver never has to buffer more than N bytes":
with N = 108 every input has a final verdict through `TryFrom<&[u8]>`. -/
theorem complete_at_108 (x : B) (h : 108 ≤ x.length) : Auto.isIncompleteV1 (parseBytes x) = false := by
  cases hcr : firstCR x with
  | none => exact frozen_complete_bytes x (Or.inr ⟨hcr, by omega⟩)
  | some c =>
    by_cases hc : c + 1 < x.length
    · exact frozen_complete_bytes x (Or.inl ⟨c, hcr, hc⟩)
    · rcases parseBytes_window_long (windowLength_cr_last hcr hc) (by omega) with h | h <;> rw [h] <;> rfl

/-- **C18 (buffer bound, text).** The same through `TryFrom<&str>` (no validity hypothesis is needed). -/
theorem complete_at_108_str (x : B) (h : 108 ≤ x.length) : Auto.isIncompleteV1Str (parseStr x) = false := by
  cases hcr : firstCR x with
  | none => exact frozen_complete_str x (Or.inr ⟨hcr, by omega⟩)
  | some c =>
    by_cases hc : c + 1 < x.length
    · exact frozen_complete_str x (Or.inl ⟨c, hcr, hc⟩)
    · rcases parseStr_window_long (windowLength_cr_last hcr hc) (by omega) with h | h <;> rw [h] <;> rfl

/-- **C18 (buffer bound, auto-detecting parser).** On at least 108 bytes `HeaderResult::parse` is
incomplete exactly when the version-2 parser is: version 1 never contributes an incomplete verdict. -/
theorem complete_at_108_auto (x : B) (h : 108 ≤ x.length) :
    (Auto.parse x).isIncomplete = Auto.isIncompleteV2 (V2.parse x) := by
  simp only [Auto.parse]
  split
  · rename_i hc
    simp only [Auto.isCompleteV2, Bool.and_eq_true, Bool.not_eq_true'] at hc
    simp only [Auto.HeaderResult.isIncomplete, complete_at_108 x h, hc.1]
  · rfl

/-- When the version-2 parser gives a terminal error on at least 108 bytes, the auto-detecting
parser returns the version-1 result and that result is final. -/
theorem complete_at_108_auto_v1 (x : B) (h : 108 ≤ x.length)
    (h2 : Auto.isCompleteV2 (V2.parse x) = true) (he : Auto.isErr (V2.parse x) = true) :
    Auto.parse x = .v1 (parseBytes x) ∧ (Auto.parse x).isIncomplete = false := by
  have : Auto.parse x = .v1 (parseBytes x) := by simp [Auto.parse, h2, he]
  exact ⟨this, by rw [this]; exact complete_at_108 x h⟩

/-- An incomplete auto-detected verdict on at least 108 bytes is the version-2 parser's. -/
theorem auto_incomplete_at_108 (x : B) (h : 108 ≤ x.length) (hi : (Auto.parse x).isIncomplete = true) :
    Auto.parse x = .v2 (V2.parse x) ∧ Auto.isIncompleteV2 (V2.parse x) = true := by
  have h2 : Auto.isIncompleteV2 (V2.parse x) = true := by rw [← complete_at_108_auto x h]; exact hi
  exact ⟨by simp [Auto.parse, Auto.isCompleteV2, h2], h2⟩

/-- `PROXY UNKNOWN ` (14 bytes). -/
def proxyUnknownSp : B :=
  [0x50, 0x52, 0x4F, 0x58, 0x59, 0x20, 0x55, 0x4E, 0x4B, 0x4E, 0x4F, 0x57, 0x4E, 0x20]

/-- The 107-byte sharpness witness `"PROXY UNKNOWN " ++ 92 × 'a' ++ "\r"`: its first CR is its
last byte. -/
def w107 : B := proxyUnknownSp ++ List.replicate 92 0x61 ++ [CR]

theorem w107_length : w107.length = 107 := by decide +kernel
theorem w107_firstCR : firstCR w107 = some 106 := by decide +kernel
theorem w107_valid : Utf8.valid w107 = true := by decide +kernel

/-- The witness is outside the property's premise: neither disjunct of `frozen` holds. -/
theorem w107_not_frozen : ¬ frozen w107 := by
  rintro (⟨c, h1, h2⟩ | ⟨h1, -⟩)
  · rw [w107_firstCR] at h1; cases h1; rw [w107_length] at h2; omega
  · rw [w107_firstCR] at h1; cases h1

/-- **Sharpness (bytes).** On the 107-byte witness `TryFrom<&[u8]>` answers `MissingNewLine`,
which is flagged incomplete. -/
theorem w107_bytes : parseBytes w107 = .error (.parse .missingNewLine) := by decide +kernel

/-- **Sharpness (text).** The same through `TryFrom<&str>`. -/
theorem w107_str : parseStr w107 = .error .missingNewLine := by decide +kernel

/-- **Sharpness of 108 (bytes).** 107 bytes do not always suffice: the clause "never more than
107 bytes" of the property text is off by one. -/
theorem sharp_107_bytes : ∃ x : B, x.length = 107 ∧ Auto.isIncompleteV1 (parseBytes x) = true :=
  ⟨w107, w107_length, by rw [w107_bytes]; rfl⟩

/-- **Sharpness of 108 (text).** -/
theorem sharp_107_str :
    ∃ x : B, x.length = 107 ∧ Utf8.valid x = true ∧ Auto.isIncompleteV1Str (parseStr x) = true :=
  ⟨w107, w107_length, w107_valid, by rw [w107_str]; rfl⟩

/-- The auto-detecting parser is incomplete on the 107-byte witness as well, through version 1. -/
theorem w107_auto : Auto.parse w107 = .v1 (.error (.parse .missingNewLine)) := by decide +kernel

/-- Non-vacuity of `complete_at_108*`: the witness followed by LF (108 bytes) is final through every
entry point, and the hypotheses of `complete_at_108_auto_v1` hold of it. -/
example : Auto.isIncompleteV1 (parseBytes (w107 ++ [LF])) = false :=
  complete_at_108 _ (by decide +kernel)
example : 108 ≤ (w107 ++ [LF]).length ∧ Auto.isCompleteV2 (V2.parse (w107 ++ [LF])) = true ∧
    Auto.isErr (V2.parse (w107 ++ [LF])) = true := by decide +kernel
/-- Non-vacuity of `auto_incomplete_at_108`: a 108-byte version-2 prefix that declares 65535 more bytes. -/
example : 108 ≤ (([0x0D, 0x0A, 0x0D, 0x0A, 0x00, 0x0D, 0x0A, 0x51, 0x55, 0x49, 0x54, 0x0A, 0x21, 0x11, 0xFF, 0xFF] : B) ++
      List.replicate 92 0).length ∧
    (Auto.parse ([0x0D, 0x0A, 0x0D, 0x0A, 0x00, 0x0D, 0x0A, 0x51, 0x55, 0x49, 0x54, 0x0A, 0x21, 0x11, 0xFF, 0xFF] ++
      List.replicate 92 0)).isIncomplete = true := by decide +kernel

/-- **The witness is doomed (bytes).** Every proper extension of the 107-byte witness is a terminal
error, `HeaderTooLong` or `InvalidUtf8`: the "incomplete" verdict on `w107` can never turn into a
success. -/
theorem w107_extension_bytes (t : B) (ht : t ≠ []) :
    (parseBytes (w107 ++ t) = .error (.parse .headerTooLong) ∨ parseBytes (w107 ++ t) = .error .invalidUtf8) ∧
      Auto.isIncompleteV1 (parseBytes (w107 ++ t)) = false := by
  have hl : 106 + 1 < (w107 ++ t).length := by
    cases t with
    | nil => exact absurd rfl ht
    | cons b t' => simp only [List.length_append, w107_length, List.length_cons]; omega
  have := parseBytes_cr_late (firstCR_append_of_some t w107_firstCR) (Nat.le_refl _) hl
  refine ⟨this, ?_⟩
  rcases this with h | h <;> rw [h] <;> rfl

/-- **The witness is doomed (text).** Every proper extension is `HeaderTooLong` or `InvalidSuffix`. -/
theorem w107_extension_str (t : B) (ht : t ≠ []) :
    (parseStr (w107 ++ t) = .error .headerTooLong ∨ parseStr (w107 ++ t) = .error .invalidSuffix) ∧
      Auto.isIncompleteV1Str (parseStr (w107 ++ t)) = false := by
  have hl : 106 + 1 < (w107 ++ t).length := by
    cases t with
    | nil => exact absurd rfl ht
    | cons b t' => simp only [List.length_append, w107_length, List.length_cons]; omega
  have := parseStr_cr_late (firstCR_append_of_some t w107_firstCR) (Nat.le_refl _) hl
  refine ⟨this, ?_⟩
  rcases this with h | h <;> rw [h] <;> rfl

/-- Both outcomes of `w107_extension_bytes` occur. -/
example : parseBytes (w107 ++ [LF]) = .error (.parse .headerTooLong) := by decide +kernel
example : parseBytes (w107 ++ [0xFF]) = .error .invalidUtf8 := by decide +kernel
example : parseStr (w107 ++ [LF]) = .error .headerTooLong := by decide +kernel

/-- **Which inputs of 107 bytes or more are still incomplete (bytes).** Only inputs of exactly
107 bytes whose first CR is the last byte. -/
theorem incomplete_ge_107_bytes (x : B) (hl : 107 ≤ x.length)
    (hi : Auto.isIncompleteV1 (parseBytes x) = true) : x.length = 107 ∧ firstCR x = some 106 := by
  have hnf : ¬ frozen x := fun hf => by rw [frozen_complete_bytes x hf] at hi; cases hi
  have h108 : ¬ 108 ≤ x.length := fun h => by rw [complete_at_108 x h] at hi; cases hi
  have hlen : x.length = 107 := by omega
  refine ⟨hlen, ?_⟩
  cases hcr : firstCR x with
  | none => exact absurd (Or.inr ⟨hcr, hl⟩) hnf
  | some c =>
    have h1 := firstCR_lt hcr
    have h2 : ¬ c + 1 < x.length := fun h => hnf (Or.inl ⟨c, hcr, h⟩)
    congr 1; omega

/-- **C18 (the corner "107 bytes, first CR last", bytes).** A 107-byte input on which
`TryFrom<&[u8]>` is still incomplete has its first CR as its last byte. -/
theorem incomplete_107_bytes (x : B) (hl : x.length = 107)
    (hi : Auto.isIncompleteV1 (parseBytes x) = true) : firstCR x = some 106 :=
  (incomplete_ge_107_bytes x (by omega) hi).2

/-- **Which inputs of 107 bytes or more are still incomplete (text).** -/
theorem incomplete_ge_107_str (x : B) (hl : 107 ≤ x.length)
    (hi : Auto.isIncompleteV1Str (parseStr x) = true) : x.length = 107 ∧ firstCR x = some 106 := by
  have hnf : ¬ frozen x := fun hf => by rw [frozen_complete_str x hf] at hi; cases hi
  have h108 : ¬ 108 ≤ x.length := fun h => by rw [complete_at_108_str x h] at hi; cases hi
  have hlen : x.length = 107 := by omega
  refine ⟨hlen, ?_⟩
  cases hcr : firstCR x with
  | none => exact absurd (Or.inr ⟨hcr, hl⟩) hnf
  | some c =>
    have h1 := firstCR_lt hcr
    have h2 : ¬ c + 1 < x.length := fun h => hnf (Or.inl ⟨c, hcr, h⟩)
    congr 1; omega

/-- **C18 (the corner "107 bytes, first CR last", text).** -/
theorem incomplete_107_str (x : B) (hl : x.length = 107)
    (hi : Auto.isIncompleteV1Str (parseStr x) = true) : firstCR x = some 106 :=
  (incomplete_ge_107_str x (by omega) hi).2

/-- Non-vacuity of `incomplete_107_bytes` / `incomplete_107_str`. -/
example : w107.length = 107 ∧ Auto.isIncompleteV1 (parseBytes w107) = true ∧
    Auto.isIncompleteV1Str (parseStr w107) = true := by decide +kernel

/-! ## Stability through the text entry point, and the outcomes without CR -/

/-- **C18 ("no later byte can change it", text).** After the first CR and one more byte the
result of `TryFrom<&str>` is the same whatever follows (both the input and its extension being
strings). -/
theorem frozen_stable_str (x t : B) (c : Nat) (h : firstCR x = some c) (hc : c + 1 < x.length)
    (hv : Utf8.valid (x ++ t) = true) (hx : Utf8.valid x = true) : parseStr (x ++ t) = parseStr x := by
  obtain ⟨h1, h2⟩ := window_append_frozen t h hc
  have hb : Utf8.isCharBoundary (x ++ t) (c + 2) = Utf8.isCharBoundary x (c + 2) := by
    by_cases hlt : c + 2 < x.length
    · exact Utf8.isCharBoundary_append_lt x t _ hlt
    · have he : c + 2 = x.length := by omega
      rw [he, Utf8.isCharBoundary_length,
        ← Utf8.valid_take_iff_boundary (x ++ t) hv x.length (by simp), List.take_left' rfl, hx]
  simp only [parseStr, h1, h2, windowLength_frozen_cr h hc, hb]

/-- Non-vacuity of `frozen_stable_str`: `"PROXY UNKNOWN\r\n"` followed by `"é"`. -/
example : parseStr ([0x50, 0x52, 0x4F, 0x58, 0x59, 0x20, 0x55, 0x4E, 0x4B, 0x4E, 0x4F, 0x57, 0x4E, 0x0D, 0x0A] ++ [0xC3, 0xA9]) =
    parseStr [0x50, 0x52, 0x4F, 0x58, 0x59, 0x20, 0x55, 0x4E, 0x4B, 0x4E, 0x4F, 0x57, 0x4E, 0x0D, 0x0A] :=
  frozen_stable_str _ _ 13 (by decide +kernel) (by decide +kernel) (by decide +kernel) (by decide +kernel)

/-- Without `hx` the statement fails: `x = "P\r" ++ [0xC3]` (frozen, not a string), `t = [0xA9]`. -/
example : parseStr ([0x50, 0x0D, 0xC3] ++ [0xA9]) ≠ parseStr [0x50, 0x0D, 0xC3] := by decide +kernel

/-- **C18 (107 bytes without CR, bytes): the exact set of outcomes.** Every continuation is
`HeaderTooLong` or `InvalidUtf8`; only the *class* (terminal) is stable, the error itself may
flip between the two (examples below). -/
theorem frozen_long_bytes_cases (x t : B) (h : firstCR x = none) (hl : 107 ≤ x.length) :
    parseBytes (x ++ t) = .error (.parse .headerTooLong) ∨ parseBytes (x ++ t) = .error .invalidUtf8 := by
  rcases windowLength_append_long (t := t) h hl with hw | ⟨n, hw, hn⟩
  · left; simp only [parseBytes, hw]
  · exact parseBytes_window_long hw hn

/-- **C18 (107 bytes without CR, text).** Every continuation is `HeaderTooLong` or `InvalidSuffix`. -/
theorem frozen_long_str (x t : B) (h : firstCR x = none) (hl : 107 ≤ x.length) :
    parseStr (x ++ t) = .error .headerTooLong ∨ parseStr (x ++ t) = .error .invalidSuffix := by
  rcases windowLength_append_long (t := t) h hl with hw | ⟨n, hw, hn⟩
  · left; simp only [parseStr, hw]
  · exact parseStr_window_long hw hn

/-- The error is not stable in the CR-free case: 107 × `0xFF` is `HeaderTooLong`, followed by CR LF it
is `InvalidUtf8`; 107 × 'a' is `HeaderTooLong`, followed by CR and `"€"` it is `InvalidUtf8` from
bytes and `InvalidSuffix` from text (the window cuts the `€`). -/
example : parseBytes (List.replicate 107 0xFF) = .error (.parse .headerTooLong) := by decide +kernel
example : parseBytes (List.replicate 107 0xFF ++ [CR, LF]) = .error .invalidUtf8 := by decide +kernel
example : parseStr (List.replicate 107 0x61) = .error .headerTooLong := by decide +kernel
example : Utf8.valid (List.replicate 107 0x61 ++ [CR, 0xE2, 0x82, 0xAC]) = true ∧
    parseBytes (List.replicate 107 0x61 ++ [CR, 0xE2, 0x82, 0xAC]) = .error .invalidUtf8 ∧
    parseStr (List.replicate 107 0x61 ++ [CR, 0xE2, 0x82, 0xAC]) = .error .invalidSuffix := by decide +kernel
example : firstCR (List.replicate 107 (0x61 : UInt8)) = none ∧ 107 ≤ (List.replicate 107 (0x61 : UInt8)).length := by
  decide +kernel

/-! ## The three shapes named in the property's quantifier -/

/-- Shape 1: a CRLF-terminated TCP4 line with too few fields, `"PROXY TCP4 1.2.3.4\r\n"`: frozen,
and a terminal error (the absent fields count as empty). -/
example : parseBytes [0x50, 0x52, 0x4F, 0x58, 0x59, 0x20, 0x54, 0x43, 0x50, 0x34, 0x20,
    0x31, 0x2E, 0x32, 0x2E, 0x33, 0x2E, 0x34, 0x0D, 0x0A] = .error (.parse .invalidDestinationAddress) := by
  decide +kernel
example : parseStr [0x50, 0x52, 0x4F, 0x58, 0x59, 0x20, 0x54, 0x43, 0x50, 0x34, 0x20,
    0x31, 0x2E, 0x32, 0x2E, 0x33, 0x2E, 0x34, 0x0D, 0x0A] = .error .invalidDestinationAddress := by
  decide +kernel
example : frozen [0x50, 0x52, 0x4F, 0x58, 0x59, 0x20, 0x54, 0x43, 0x50, 0x34, 0x20,
    0x31, 0x2E, 0x32, 0x2E, 0x33, 0x2E, 0x34, 0x0D, 0x0A] := Or.inl ⟨18, by decide +kernel, by decide⟩
/-- `"PROXY TCP4\r\n"` and `"PROXY TCP6 ::1 ::1 1\r\n"`: terminal as well. -/
example : parseBytes [0x50, 0x52, 0x4F, 0x58, 0x59, 0x20, 0x54, 0x43, 0x50, 0x34, 0x0D, 0x0A] =
    .error (.parse .invalidSourceAddress) := by decide +kernel
example : parseBytes [0x50, 0x52, 0x4F, 0x58, 0x59, 0x20, 0x54, 0x43, 0x50, 0x36, 0x20, 0x3A, 0x3A, 0x31, 0x20,
    0x3A, 0x3A, 0x31, 0x20, 0x31, 0x0D, 0x0A] = .error (.parse (.invalidDestinationPort (some .invalidDigit))) := by
  decide +kernel
/-- The same line without its terminator is (rightly) incomplete: `"PROXY TCP4 1.2.3.4"`. -/
example : parseBytes [0x50, 0x52, 0x4F, 0x58, 0x59, 0x20, 0x54, 0x43, 0x50, 0x34, 0x20,
    0x31, 0x2E, 0x32, 0x2E, 0x33, 0x2E, 0x34] = .error (.parse .missingDestinationAddress) := by decide +kernel

/-- Shape 2: `UNKNOWN` with a CR followed by a byte other than LF, `"PROXY UNKNOWN\rX"`: frozen,
terminal `InvalidSuffix`. -/
example : parseBytes [0x50, 0x52, 0x4F, 0x58, 0x59, 0x20, 0x55, 0x4E, 0x4B, 0x4E, 0x4F, 0x57, 0x4E, 0x0D, 0x58] =
    .error (.parse .invalidSuffix) := by decide +kernel
example : parseStr [0x50, 0x52, 0x4F, 0x58, 0x59, 0x20, 0x55, 0x4E, 0x4B, 0x4E, 0x4F, 0x57, 0x4E, 0x0D, 0x58] =
    .error .invalidSuffix := by decide +kernel
example : frozen [0x50, 0x52, 0x4F, 0x58, 0x59, 0x20, 0x55, 0x4E, 0x4B, 0x4E, 0x4F, 0x57, 0x4E, 0x0D, 0x58] :=
  Or.inl ⟨13, by decide +kernel, by decide⟩
/-- With only the CR (`"PROXY UNKNOWN\r"`) the input is not frozen and is incomplete. -/
example : parseBytes [0x50, 0x52, 0x4F, 0x58, 0x59, 0x20, 0x55, 0x4E, 0x4B, 0x4E, 0x4F, 0x57, 0x4E, 0x0D] =
    .error (.parse .missingNewLine) := by decide +kernel

/-- Shape 3: CR-free inputs `"PROXY UNKNOWN " ++ k × 'a'` of 106 / 107 / 108 bytes.
106 bytes: **not** frozen, and incomplete (`MissingNewLine`). -/
example : (proxyUnknownSp ++ List.replicate 92 0x61).length = 106 ∧
    firstCR (proxyUnknownSp ++ List.replicate 92 0x61) = none ∧
    parseBytes (proxyUnknownSp ++ List.replicate 92 0x61) = .error (.parse .missingNewLine) ∧
    parseStr (proxyUnknownSp ++ List.replicate 92 0x61) = .error .missingNewLine := by decide +kernel
example : ¬ frozen (proxyUnknownSp ++ List.replicate 92 0x61) := by
  rintro (⟨c, h1, -⟩ | ⟨-, h2⟩)
  · have : firstCR (proxyUnknownSp ++ List.replicate 92 0x61) = none := by decide +kernel
    rw [this] at h1; cases h1
  · have : (proxyUnknownSp ++ List.replicate 92 0x61).length = 106 := by decide +kernel
    omega
/-- 107 bytes without CR: frozen, terminal `HeaderTooLong`. -/
example : (proxyUnknownSp ++ List.replicate 93 0x61).length = 107 ∧
    firstCR (proxyUnknownSp ++ List.replicate 93 0x61) = none ∧
    parseBytes (proxyUnknownSp ++ List.replicate 93 0x61) = .error (.parse .headerTooLong) ∧
    parseStr (proxyUnknownSp ++ List.replicate 93 0x61) = .error .headerTooLong := by decide +kernel
example : frozen (proxyUnknownSp ++ List.replicate 93 0x61) := Or.inr (by decide +kernel)
/-- 108 bytes without CR: frozen, terminal `HeaderTooLong`. -/
example : (proxyUnknownSp ++ List.replicate 94 0x61).length = 108 ∧
    firstCR (proxyUnknownSp ++ List.replicate 94 0x61) = none ∧
    parseBytes (proxyUnknownSp ++ List.replicate 94 0x61) = .error (.parse .headerTooLong) ∧
    parseStr (proxyUnknownSp ++ List.replicate 94 0x61) = .error .headerTooLong := by decide +kernel
example : frozen (proxyUnknownSp ++ List.replicate 94 0x61) := Or.inr (by decide +kernel)

end C18
