import PppModel.Lemmas.V2Blame
import PppModel.Lemmas.V1Blame
import PppModel.Lemmas.AutoDetect
import PppModel.Props.C06
import PppModel.Lemmas.Utf8Spec

/-!
# C12 — a single malformed element is rejected terminally and blamed on the right field

The general statements live in `Lemmas/V2Blame.lean` (`V2.blame_*`: any input
whose element is bad, whatever the rest looks like) and `Lemmas/V1Blame.lean`
(`V1.Blame.G1 … G11`). This file states the property in its "exactly one element
of a well-formed header" form.
-/

namespace C12
open V2

/-! ## version 2: `Spec.V2.encode cmd tr addr rest ++ trail` with one element replaced -/

/-- Any altered signature byte: `Prefix`. -/
theorem v2_signature (cmd : Command) (tr : Transport) (addr : Addresses) (rest trail : B)
    (i : Nat) (v : UInt8) (hi : i < 12) (hv : v ≠ byteAt Spec.V2.signature i) :
    V2.parse ((Spec.V2.encode cmd tr addr rest ++ trail).set i v) = .error .badPrefix :=
  set_signature cmd tr addr rest trail i v hi hv

/-- Every invalid version nibble: `Version`, carrying the offending nibble in place. -/
theorem v2_version (cmd : Command) (tr : Transport) (addr : Addresses) (rest trail : B)
    (b : UInt8) (hv : b &&& 0xF0 ≠ 0x20) :
    V2.parse ((Spec.V2.encode cmd tr addr rest ++ trail).set 12 b) = .error (.version (b &&& 0xF0)) :=
  set_version cmd tr addr rest trail b hv

/-- Every invalid command nibble: `Command`. -/
theorem v2_command (cmd : Command) (tr : Transport) (addr : Addresses) (rest trail : B)
    (b : UInt8) (hv : b &&& 0xF0 = 0x20) (hc : b &&& 0x0F ≠ 0 ∧ b &&& 0x0F ≠ 1) :
    V2.parse ((Spec.V2.encode cmd tr addr rest ++ trail).set 12 b) = .error (.command (b &&& 0x0F)) :=
  set_command cmd tr addr rest trail b hv hc

/-- Every invalid address-family nibble: `AddressFamily`. -/
theorem v2_family (cmd : Command) (tr : Transport) (addr : Addresses) (rest trail : B) (b : UInt8)
    (hf : b &&& 0xF0 ≠ 0x00 ∧ b &&& 0xF0 ≠ 0x10 ∧ b &&& 0xF0 ≠ 0x20 ∧ b &&& 0xF0 ≠ 0x30) :
    V2.parse ((Spec.V2.encode cmd tr addr rest ++ trail).set 13 b) = .error (.addressFamily (b &&& 0xF0)) :=
  set_family cmd tr addr rest trail b hf

/-- Every invalid transport nibble: `Protocol`. -/
theorem v2_transport (cmd : Command) (tr : Transport) (addr : Addresses) (rest trail : B) (b : UInt8)
    (hf : b &&& 0xF0 = 0x00 ∨ b &&& 0xF0 = 0x10 ∨ b &&& 0xF0 = 0x20 ∨ b &&& 0xF0 = 0x30)
    (ht : b &&& 0x0F ≠ 0 ∧ b &&& 0x0F ≠ 1 ∧ b &&& 0x0F ≠ 2) :
    V2.parse ((Spec.V2.encode cmd tr addr rest ++ trail).set 13 b) = .error (.protocol (b &&& 0x0F)) :=
  set_transport cmd tr addr rest trail b hf ht

/-- Every declared length too small for the family: `InvalidAddresses`, carrying the
length and the required size. -/
theorem v2_length (cmd : Command) (tr : Transport) (addr : Addresses) (rest trail : B)
    (l : Nat) (hl16 : l < 65536) (hl : l < Spec.V2.familySize addr.family) :
    V2.parse (((Spec.V2.encode cmd tr addr rest ++ trail).set 14 (UInt8.ofNat (l / 256))).set 15
        (UInt8.ofNat (l % 256))) = .error (.invalidAddresses l (Spec.V2.familySize addr.family)) :=
  set_length cmd tr addr rest trail l hl16 hl

/-- All of these are terminal. -/
theorem v2_terminal :
    ParseError.badPrefix.isIncomplete = false ∧
    (∀ v, (ParseError.version v).isIncomplete = false) ∧
    (∀ c, (ParseError.command c).isIncomplete = false) ∧
    (∀ a, (ParseError.addressFamily a).isIncomplete = false) ∧
    (∀ p, (ParseError.protocol p).isIncomplete = false) ∧
    (∀ l s, (ParseError.invalidAddresses l s).isIncomplete = false) := blame_terminal

/-- A terminal v2 error never makes the auto-detecting parser wait: it is handed to
the text parser, whose verdict on a binary header (first byte CR followed by LF
CR …, i.e. `\r\n\r` — the byte after the first CR is present) is terminal too. -/
theorem v2_auto_terminal (x : B) (e : ParseError) (h : V2.parse x = .error e) (he : e.isIncomplete = false) :
    Auto.parse x = .v1 (V1.parseBytes x) := by
  rw [C06.auto_def, h]; simp [he]

/-! ## version 1: `PROXY <proto> <src> <dst> <sport> <dport> CR LF` with one element replaced

`V1.Blame.tcpLine kw proto sa da sp dp ending` is the line with its six elements
and its ending; `V1.Blame.Blamed line e` packages: `parse_header line = e`, `e` is
terminal, and both entry points return `e` on `line ++ rest`. -/

open V1 V1.Blame in
/-- The keyword. -/
theorem v1_keyword {kw proto sa da sp dp : B} {c : UInt8} (hkw : sepFree kw) (hproto : sepFree proto)
    (hsa : sepFree sa) (hda : sepFree da) (hsp : sepFree sp) (hdp : sepFree dp)
    (hne : kw ≠ PROXY) (hlen : (tcpLine kw proto sa da sp dp [CR, c]).length ≤ 107) :
    Blamed (tcpLine kw proto sa da sp dp [CR, c]) .invalidPrefix :=
  G1_keyword_entry hkw hproto hsa hda hsp hdp hne hlen

open V1 V1.Blame in
/-- The protocol (anything but the three keywords, including truncated / extended / wrong-case ones). -/
theorem v1_protocol {proto sa da sp dp : B} {c : UInt8} (hproto : sepFree proto)
    (hsa : sepFree sa) (hda : sepFree da) (hsp : sepFree sp) (hdp : sepFree dp)
    (h4 : proto ≠ TCP4) (h6 : proto ≠ TCP6) (hu : proto ≠ UNKNOWN)
    (hlen : (tcpLine PROXY proto sa da sp dp [CR, c]).length ≤ 107) :
    Blamed (tcpLine PROXY proto sa da sp dp [CR, c]) .invalidProtocol :=
  G2_protocol_entry hproto hsa hda hsp hdp h4 h6 hu hlen

open V1 V1.Blame in
/-- The source address (TCP4; `G3_source_tcp6_entry` for TCP6) — in particular an
address of the other family. -/
theorem v1_source_address {sa da sp dp : B} {c : UInt8}
    (hsa : sepFree sa) (hda : sepFree da) (hsp : sepFree sp) (hdp : sepFree dp)
    (h : StdNet.parseIpv4 sa = none) (hlen : (tcpLine PROXY TCP4 sa da sp dp [CR, c]).length ≤ 107) :
    Blamed (tcpLine PROXY TCP4 sa da sp dp [CR, c]) .invalidSourceAddress :=
  G3_source_tcp4_entry hsa hda hsp hdp h hlen

open V1 V1.Blame in
/-- The destination address. -/
theorem v1_destination_address {sa da sp dp : B} {c : UInt8} {a : Ip4}
    (hsa : sepFree sa) (hda : sepFree da) (hsp : sepFree sp) (hdp : sepFree dp)
    (hs : StdNet.parseIpv4 sa = some a) (h : StdNet.parseIpv4 da = none)
    (hlen : (tcpLine PROXY TCP4 sa da sp dp [CR, c]).length ≤ 107) :
    Blamed (tcpLine PROXY TCP4 sa da sp dp [CR, c]) .invalidDestinationAddress :=
  G4_destination_tcp4_entry hsa hda hsp hdp hs h hlen

open V1 V1.Blame in
/-- The source port (out of range, signed, zero-padded, empty, non-numeric: whatever
`parsePort` refuses — by `V1.parsePort_iff` that is everything but plain decimal 0–65535). -/
theorem v1_source_port {sa da sp dp : B} {c : UInt8} {a b : Ip4} {k : Option StdInt.IntErrorKind}
    (hsa : sepFree sa) (hda : sepFree da) (hsp : sepFree sp) (hdp : sepFree dp)
    (hs : StdNet.parseIpv4 sa = some a) (hd : StdNet.parseIpv4 da = some b) (h : parsePort sp = .error k)
    (hlen : (tcpLine PROXY TCP4 sa da sp dp [CR, c]).length ≤ 107) :
    Blamed (tcpLine PROXY TCP4 sa da sp dp [CR, c]) (.invalidSourcePort k) :=
  G5_source_port_tcp4_entry hsa hda hsp hdp hs hd h hlen

open V1 V1.Blame in
/-- The destination port. -/
theorem v1_destination_port {sa da sp dp : B} {c : UInt8} {a b : Ip4} {p : UInt16}
    {k : Option StdInt.IntErrorKind}
    (hsa : sepFree sa) (hda : sepFree da) (hsp : sepFree sp) (hdp : sepFree dp)
    (hs : StdNet.parseIpv4 sa = some a) (hd : StdNet.parseIpv4 da = some b) (hp : parsePort sp = .ok p)
    (h : parsePort dp = .error k) (hlen : (tcpLine PROXY TCP4 sa da sp dp [CR, c]).length ≤ 107) :
    Blamed (tcpLine PROXY TCP4 sa da sp dp [CR, c]) (.invalidDestinationPort k) :=
  G6_destination_port_tcp4_entry hsa hda hsp hdp hs hd hp h hlen

open V1 V1.Blame in
/-- The byte that follows the CR. -/
theorem v1_suffix {sa da sp dp : B} {c : UInt8} {a b : Ip4} {p q : UInt16}
    (hsa : sepFree sa) (hda : sepFree da) (hsp : sepFree sp) (hdp : sepFree dp)
    (hs : StdNet.parseIpv4 sa = some a) (hd : StdNet.parseIpv4 da = some b) (hp : parsePort sp = .ok p)
    (hq : parsePort dp = .ok q) (hc : c ≠ LF) (hlen : (tcpLine PROXY TCP4 sa da sp dp [CR, c]).length ≤ 107) :
    Blamed (tcpLine PROXY TCP4 sa da sp dp [CR, c]) .invalidSuffix :=
  G7_suffix_tcp4_entry hsa hda hsp hdp hs hd hp hq hc hlen

open V1 V1.Blame in
/-- The 107-byte limit and invalid UTF-8 (entry-point level). -/
theorem v1_limit_and_utf8 (x : B) :
    (windowLength x = none → parseBytes x = .error (.parse .headerTooLong) ∧ parseStr x = .error .headerTooLong) ∧
    (∀ n, windowLength x = some n → 107 < n → n ≤ x.length → Utf8.valid (x.take n) = true →
      parseBytes x = .error (.parse .headerTooLong)) ∧
    (∀ n, windowLength x = some n → Utf8.valid (x.take n) = false → parseBytes x = .error .invalidUtf8) :=
  ⟨G8_window_none, fun _ h hn hl hv => G8_parseBytes_too_long h hn hl hv, fun _ h hv => G9_invalid_utf8 h hv⟩

/-- The model's `Utf8.valid` (a transcription of the byte-range table that `core::str::from_utf8`
implements) is UTF-8 as RFC 3629 defines it: the concatenation of the shortest-form encodings of
Unicode scalar values (`Spec/Utf8.lean`, pure arithmetic). -/
theorem utf8_valid_iff_wellFormed (x : B) : Utf8.valid x = true ↔ Spec.Utf8.WellFormed x :=
  Utf8.valid_iff_wellFormed x

open V1 V1.Blame in
/-- "Invalid UTF-8" stated against that definition: a line window that is not the encoding of
any sequence of scalar values is rejected with `InvalidUtf8`. -/
theorem v1_ill_formed_utf8 (x : B) (n : Nat) (hw : windowLength x = some n)
    (hill : ¬ Spec.Utf8.WellFormed (x.take n)) : parseBytes x = .error .invalidUtf8 := by
  apply G9_invalid_utf8 hw
  cases hv : Utf8.valid (x.take n) with
  | false => rfl
  | true => exact absurd ((Utf8.valid_iff_wellFormed _).mp hv) hill

/-! ### the same for TCP6 lines and for UNKNOWN lines -/

open V1 V1.Blame in
theorem v1_tcp6 {sa da sp dp : B} {c : UInt8}
    (hsa : sepFree sa) (hda : sepFree da) (hsp : sepFree sp) (hdp : sepFree dp)
    (hlen : (tcpLine PROXY TCP6 sa da sp dp [CR, c]).length ≤ 107) :
    (StdNet.parseIpv6 sa = none → Blamed (tcpLine PROXY TCP6 sa da sp dp [CR, c]) .invalidSourceAddress) ∧
    (∀ a, StdNet.parseIpv6 sa = some a → StdNet.parseIpv6 da = none →
      Blamed (tcpLine PROXY TCP6 sa da sp dp [CR, c]) .invalidDestinationAddress) ∧
    (∀ a b k, StdNet.parseIpv6 sa = some a → StdNet.parseIpv6 da = some b → parsePort sp = .error k →
      Blamed (tcpLine PROXY TCP6 sa da sp dp [CR, c]) (.invalidSourcePort k)) ∧
    (∀ a b p k, StdNet.parseIpv6 sa = some a → StdNet.parseIpv6 da = some b → parsePort sp = .ok p →
      parsePort dp = .error k → Blamed (tcpLine PROXY TCP6 sa da sp dp [CR, c]) (.invalidDestinationPort k)) ∧
    (∀ a b p q, StdNet.parseIpv6 sa = some a → StdNet.parseIpv6 da = some b → parsePort sp = .ok p →
      parsePort dp = .ok q → c ≠ LF → Blamed (tcpLine PROXY TCP6 sa da sp dp [CR, c]) .invalidSuffix) :=
  ⟨fun h => G3_source_tcp6_entry hsa hda hsp hdp h hlen,
   fun _ hs h => G4_destination_tcp6_entry hsa hda hsp hdp hs h hlen,
   fun _ _ _ hs hd h => G5_source_port_tcp6_entry hsa hda hsp hdp hs hd h hlen,
   fun _ _ _ _ hs hd hp h => G6_destination_port_tcp6_entry hsa hda hsp hdp hs hd hp h hlen,
   fun _ _ _ _ hs hd hp hq hc => G7_suffix_tcp6_entry hsa hda hsp hdp hs hd hp hq hc hlen⟩

open V1 V1.Blame in
theorem v1_unknown {kw tail : B} {c : UInt8} (hcr : crFree tail) :
    (sepFree kw → kw ≠ PROXY → (kw ++ [SP] ++ UNKNOWN ++ tail ++ [CR, LF]).length ≤ 107 →
      Blamed (kw ++ [SP] ++ UNKNOWN ++ tail ++ [CR, LF]) .invalidPrefix) ∧
    ((tail = [] ∨ tail.head? = some SP) → c ≠ LF → (PROXY ++ [SP] ++ UNKNOWN ++ tail ++ [CR, c]).length ≤ 107 →
      Blamed (PROXY ++ [SP] ++ UNKNOWN ++ tail ++ [CR, c]) .invalidSuffix) :=
  ⟨fun hkw hne hlen => G1_keyword_unknown_entry hkw hne hcr hlen,
   fun ht hc hlen => G7_suffix_unknown_entry ht hcr hc hlen⟩

/-- A blamed text line is terminal through the auto-detecting parser as well
(a text line does not start with the CR of the v2 signature). -/
theorem v1_auto_terminal {line : B} {e : V1.ParseError} (hb : V1.Blame.Blamed line e) (rest : B)
    (hv : Utf8.valid line = true) {c : UInt8} (hh : line.head? = some c) (hc : c ≠ 0x0D) :
    Auto.parse (line ++ rest) = .v1 (.error (.parse e)) ∧ (Auto.parse (line ++ rest)).isIncomplete = false := by
  have h2 : V2.parse (line ++ rest) = .error .badPrefix := by
    apply V2.parse_badPrefix_of_head (c := c) _ hc
    cases line with
    | nil => simp at hh
    | cons d ds => simpa using hh
  have h1 := hb.bytes rest hv
  have : Auto.parse (line ++ rest) = .v1 (.error (.parse e)) := by
    rw [C06.auto_def, h2, h1]; rfl
  refine ⟨this, ?_⟩
  rw [this]
  simpa [Auto.HeaderResult.isIncomplete, Auto.isIncompleteV1] using hb.terminalBytes

/-- Non-vacuity (evaluated): one corrupted element each. -/
example : V2.parse ((Spec.V2.encode .proxy .stream (.ipv4 ⟨⟨1,2,3,4⟩, 80, ⟨5,6,7,8⟩, 443⟩) []).set 12 0x31) =
    .error (.version 0x30) := by decide
example : V1.parseBytes [0x50,0x52,0x4F,0x58,0x59,0x20,0x54,0x43,0x50,0x0D,0x0A] =
    .error (.parse .invalidProtocol) := by decide

end C12
