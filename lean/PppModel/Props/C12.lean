import PppModel.Auto

/-! # C12 (theorems under construction) -/

namespace C12
end C12
