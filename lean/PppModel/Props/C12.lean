import PppModel.Lemmas.V2Blame
import PppModel.Lemmas.V1Blame
import PppModel.Lemmas.AutoDetect
import PppModel.Props.C06
import PppModel.Lemmas.Utf8Spec
import PppModel.Lemmas.C12Aux
import PppModel.Props.C18

/-!
# C12 — a single malformed element is rejected terminally and blamed on the right field

The general statements live in `Lemmas/V2Blame.lean` (`V2.blame_*`: any input
whose element is bad, whatever the rest looks like) and `Lemmas/V1Blame.lean`
(`V1.Blame.G1 … G11`). This file states the property in its "exactly one element
of a well-formed header" form.
-/

namespace C12
open V2

/-! ## version 2: `Spec.V2.encode cmd tr addr rest ++ trail` with one element replaced -/

/-- Any altered signature byte: `Prefix`. -/
theorem v2_signature (cmd : Command) (tr : Transport) (addr : Addresses) (rest trail : B)
    (i : Nat) (v : UInt8) (hi : i < 12) (hv : v ≠ byteAt Spec.V2.signature i) :
    V2.parse ((Spec.V2.encode cmd tr addr rest ++ trail).set i v) = .error .badPrefix :=
  set_signature cmd tr addr rest trail i v hi hv

/-- Every invalid version nibble: `Version`, carrying the offending nibble in place. -/
theorem v2_version (cmd : Command) (tr : Transport) (addr : Addresses) (rest trail : B)
    (b : UInt8) (hv : b &&& 0xF0 ≠ 0x20) :
    V2.parse ((Spec.V2.encode cmd tr addr rest ++ trail).set 12 b) = .error (.version (b &&& 0xF0)) :=
  set_version cmd tr addr rest trail b hv

/-- Every invalid command nibble: `Command`. -/
theorem v2_command (cmd : Command) (tr : Transport) (addr : Addresses) (rest trail : B)
    (b : UInt8) (hv : b &&& 0xF0 = 0x20) (hc : b &&& 0x0F ≠ 0 ∧ b &&& 0x0F ≠ 1) :
    V2.parse ((Spec.V2.encode cmd tr addr rest ++ trail).set 12 b) = .error (.command (b &&& 0x0F)) :=
  set_command cmd tr addr rest trail b hv hc

/-- Every invalid address-family nibble: `AddressFamily`. -/
theorem v2_family (cmd : Command) (tr : Transport) (addr : Addresses) (rest trail : B) (b : UInt8)
    (hf : b &&& 0xF0 ≠ 0x00 ∧ b &&& 0xF0 ≠ 0x10 ∧ b &&& 0xF0 ≠ 0x20 ∧ b &&& 0xF0 ≠ 0x30) :
    V2.parse ((Spec.V2.encode cmd tr addr rest ++ trail).set 13 b) = .error (.addressFamily (b &&& 0xF0)) :=
  set_family cmd tr addr rest trail b hf

/-- Every invalid transport nibble: `Protocol`. -/
theorem v2_transport (cmd : Command) (tr : Transport) (addr : Addresses) (rest trail : B) (b : UInt8)
    (hf : b &&& 0xF0 = 0x00 ∨ b &&& 0xF0 = 0x10 ∨ b &&& 0xF0 = 0x20 ∨ b &&& 0xF0 = 0x30)
    (ht : b &&& 0x0F ≠ 0 ∧ b &&& 0x0F ≠ 1 ∧ b &&& 0x0F ≠ 2) :
    V2.parse ((Spec.V2.encode cmd tr addr rest ++ trail).set 13 b) = .error (.protocol (b &&& 0x0F)) :=
  set_transport cmd tr addr rest trail b hf ht

/-- Every declared length too small for the family: `InvalidAddresses`, carrying the
length and the required size. -/
theorem v2_length (cmd : Command) (tr : Transport) (addr : Addresses) (rest trail : B)
    (l : Nat) (hl16 : l < 65536) (hl : l < Spec.V2.familySize addr.family) :
    V2.parse (((Spec.V2.encode cmd tr addr rest ++ trail).set 14 (UInt8.ofNat (l / 256))).set 15
        (UInt8.ofNat (l % 256))) = .error (.invalidAddresses l (Spec.V2.familySize addr.family)) :=
  set_length cmd tr addr rest trail l hl16 hl

/-- All of these are terminal. -/
theorem v2_terminal :
    ParseError.badPrefix.isIncomplete = false ∧
    (∀ v, (ParseError.version v).isIncomplete = false) ∧
    (∀ c, (ParseError.command c).isIncomplete = false) ∧
    (∀ a, (ParseError.addressFamily a).isIncomplete = false) ∧
    (∀ p, (ParseError.protocol p).isIncomplete = false) ∧
    (∀ l s, (ParseError.invalidAddresses l s).isIncomplete = false) := blame_terminal

/-- A terminal v2 error never makes the auto-detecting parser wait: it is handed to
the text parser, whose verdict on a binary header (first byte CR followed by LF
CR …, i.e. `\r\n\r` — the byte after the first CR is present) is terminal too. -/
theorem v2_auto_terminal (x : B) (e : ParseError) (h : V2.parse x = .error e) (he : e.isIncomplete = false) :
    Auto.parse x = .v1 (V1.parseBytes x) := by
  rw [C06.auto_def, h]; simp [he]

/-! ## version 1: `PROXY <proto> <src> <dst> <sport> <dport> CR LF` with one element replaced

`V1.Blame.tcpLine kw proto sa da sp dp ending` is the line with its six elements
and its ending; `V1.Blame.Blamed line e` packages: `parse_header line = e`, `e` is
terminal, and both entry points return `e` on `line ++ rest`. -/

open V1 V1.Blame in
/-- The keyword. -/
theorem v1_keyword {kw proto sa da sp dp : B} {c : UInt8} (hkw : sepFree kw) (hproto : sepFree proto)
    (hsa : sepFree sa) (hda : sepFree da) (hsp : sepFree sp) (hdp : sepFree dp)
    (hne : kw ≠ PROXY) (hlen : (tcpLine kw proto sa da sp dp [CR, c]).length ≤ 107) :
    Blamed (tcpLine kw proto sa da sp dp [CR, c]) .invalidPrefix :=
  G1_keyword_entry hkw hproto hsa hda hsp hdp hne hlen

open V1 V1.Blame in
/-- The protocol (anything but the three keywords, including truncated / extended / wrong-case ones). -/
theorem v1_protocol {proto sa da sp dp : B} {c : UInt8} (hproto : sepFree proto)
    (hsa : sepFree sa) (hda : sepFree da) (hsp : sepFree sp) (hdp : sepFree dp)
    (h4 : proto ≠ TCP4) (h6 : proto ≠ TCP6) (hu : proto ≠ UNKNOWN)
    (hlen : (tcpLine PROXY proto sa da sp dp [CR, c]).length ≤ 107) :
    Blamed (tcpLine PROXY proto sa da sp dp [CR, c]) .invalidProtocol :=
  G2_protocol_entry hproto hsa hda hsp hdp h4 h6 hu hlen

open V1 V1.Blame in
/-- The source address (TCP4; `G3_source_tcp6_entry` for TCP6) — in particular an
address of the other family. -/
theorem v1_source_address {sa da sp dp : B} {c : UInt8}
    (hsa : sepFree sa) (hda : sepFree da) (hsp : sepFree sp) (hdp : sepFree dp)
    (h : StdNet.parseIpv4 sa = none) (hlen : (tcpLine PROXY TCP4 sa da sp dp [CR, c]).length ≤ 107) :
    Blamed (tcpLine PROXY TCP4 sa da sp dp [CR, c]) .invalidSourceAddress :=
  G3_source_tcp4_entry hsa hda hsp hdp h hlen

open V1 V1.Blame in
/-- The destination address. -/
theorem v1_destination_address {sa da sp dp : B} {c : UInt8} {a : Ip4}
    (hsa : sepFree sa) (hda : sepFree da) (hsp : sepFree sp) (hdp : sepFree dp)
    (hs : StdNet.parseIpv4 sa = some a) (h : StdNet.parseIpv4 da = none)
    (hlen : (tcpLine PROXY TCP4 sa da sp dp [CR, c]).length ≤ 107) :
    Blamed (tcpLine PROXY TCP4 sa da sp dp [CR, c]) .invalidDestinationAddress :=
  G4_destination_tcp4_entry hsa hda hsp hdp hs h hlen

open V1 V1.Blame in
/-- The source port (out of range, signed, zero-padded, empty, non-numeric: whatever
`parsePort` refuses — by `V1.parsePort_iff` that is everything but plain decimal 0–65535). -/
theorem v1_source_port {sa da sp dp : B} {c : UInt8} {a b : Ip4} {k : Option StdInt.IntErrorKind}
    (hsa : sepFree sa) (hda : sepFree da) (hsp : sepFree sp) (hdp : sepFree dp)
    (hs : StdNet.parseIpv4 sa = some a) (hd : StdNet.parseIpv4 da = some b) (h : parsePort sp = .error k)
    (hlen : (tcpLine PROXY TCP4 sa da sp dp [CR, c]).length ≤ 107) :
    Blamed (tcpLine PROXY TCP4 sa da sp dp [CR, c]) (.invalidSourcePort k) :=
  G5_source_port_tcp4_entry hsa hda hsp hdp hs hd h hlen

open V1 V1.Blame in
/-- The destination port. -/
theorem v1_destination_port {sa da sp dp : B} {c : UInt8} {a b : Ip4} {p : UInt16}
    {k : Option StdInt.IntErrorKind}
    (hsa : sepFree sa) (hda : sepFree da) (hsp : sepFree sp) (hdp : sepFree dp)
    (hs : StdNet.parseIpv4 sa = some a) (hd : StdNet.parseIpv4 da = some b) (hp : parsePort sp = .ok p)
    (h : parsePort dp = .error k) (hlen : (tcpLine PROXY TCP4 sa da sp dp [CR, c]).length ≤ 107) :
    Blamed (tcpLine PROXY TCP4 sa da sp dp [CR, c]) (.invalidDestinationPort k) :=
  G6_destination_port_tcp4_entry hsa hda hsp hdp hs hd hp h hlen

open V1 V1.Blame in
/-- The byte that follows the CR. -/
theorem v1_suffix {sa da sp dp : B} {c : UInt8} {a b : Ip4} {p q : UInt16}
    (hsa : sepFree sa) (hda : sepFree da) (hsp : sepFree sp) (hdp : sepFree dp)
    (hs : StdNet.parseIpv4 sa = some a) (hd : StdNet.parseIpv4 da = some b) (hp : parsePort sp = .ok p)
    (hq : parsePort dp = .ok q) (hc : c ≠ LF) (hlen : (tcpLine PROXY TCP4 sa da sp dp [CR, c]).length ≤ 107) :
    Blamed (tcpLine PROXY TCP4 sa da sp dp [CR, c]) .invalidSuffix :=
  G7_suffix_tcp4_entry hsa hda hsp hdp hs hd hp hq hc hlen

open V1 V1.Blame in
/-- The 107-byte limit and invalid UTF-8 (entry-point level). -/
theorem v1_limit_and_utf8 (x : B) :
    (windowLength x = none → parseBytes x = .error (.parse .headerTooLong) ∧ parseStr x = .error .headerTooLong) ∧
    (∀ n, windowLength x = some n → 107 < n → n ≤ x.length → Utf8.valid (x.take n) = true →
      parseBytes x = .error (.parse .headerTooLong)) ∧
    (∀ n, windowLength x = some n → Utf8.valid (x.take n) = false → parseBytes x = .error .invalidUtf8) :=
  ⟨G8_window_none, fun _ h hn hl hv => G8_parseBytes_too_long h hn hl hv, fun _ h hv => G9_invalid_utf8 h hv⟩

/-- The model's `Utf8.valid` (a transcription of the byte-range table that `core::str::from_utf8`
implements) is UTF-8 as RFC 3629 defines it: the concatenation of the shortest-form encodings of
Unicode scalar values (`Spec/Utf8.lean`, pure arithmetic). -/
theorem utf8_valid_iff_wellFormed (x : B) : Utf8.valid x = true ↔ Spec.Utf8.WellFormed x :=
  Utf8.valid_iff_wellFormed x

open V1 V1.Blame in
/-- "Invalid UTF-8" stated against that definition: a line window that is not the encoding of
any sequence of scalar values is rejected with `InvalidUtf8`. -/
theorem v1_ill_formed_utf8 (x : B) (n : Nat) (hw : windowLength x = some n)
    (hill : ¬ Spec.Utf8.WellFormed (x.take n)) : parseBytes x = .error .invalidUtf8 := by
  apply G9_invalid_utf8 hw
  cases hv : Utf8.valid (x.take n) with
  | false => rfl
  | true => exact absurd ((Utf8.valid_iff_wellFormed _).mp hv) hill

/-! ### the same for TCP6 lines and for UNKNOWN lines -/

open V1 V1.Blame in
theorem v1_tcp6 {sa da sp dp : B} {c : UInt8}
    (hsa : sepFree sa) (hda : sepFree da) (hsp : sepFree sp) (hdp : sepFree dp)
    (hlen : (tcpLine PROXY TCP6 sa da sp dp [CR, c]).length ≤ 107) :
    (StdNet.parseIpv6 sa = none → Blamed (tcpLine PROXY TCP6 sa da sp dp [CR, c]) .invalidSourceAddress) ∧
    (∀ a, StdNet.parseIpv6 sa = some a → StdNet.parseIpv6 da = none →
      Blamed (tcpLine PROXY TCP6 sa da sp dp [CR, c]) .invalidDestinationAddress) ∧
    (∀ a b k, StdNet.parseIpv6 sa = some a → StdNet.parseIpv6 da = some b → parsePort sp = .error k →
      Blamed (tcpLine PROXY TCP6 sa da sp dp [CR, c]) (.invalidSourcePort k)) ∧
    (∀ a b p k, StdNet.parseIpv6 sa = some a → StdNet.parseIpv6 da = some b → parsePort sp = .ok p →
      parsePort dp = .error k → Blamed (tcpLine PROXY TCP6 sa da sp dp [CR, c]) (.invalidDestinationPort k)) ∧
    (∀ a b p q, StdNet.parseIpv6 sa = some a → StdNet.parseIpv6 da = some b → parsePort sp = .ok p →
      parsePort dp = .ok q → c ≠ LF → Blamed (tcpLine PROXY TCP6 sa da sp dp [CR, c]) .invalidSuffix) :=
  ⟨fun h => G3_source_tcp6_entry hsa hda hsp hdp h hlen,
   fun _ hs h => G4_destination_tcp6_entry hsa hda hsp hdp hs h hlen,
   fun _ _ _ hs hd h => G5_source_port_tcp6_entry hsa hda hsp hdp hs hd h hlen,
   fun _ _ _ _ hs hd hp h => G6_destination_port_tcp6_entry hsa hda hsp hdp hs hd hp h hlen,
   fun _ _ _ _ hs hd hp hq hc => G7_suffix_tcp6_entry hsa hda hsp hdp hs hd hp hq hc hlen⟩

open V1 V1.Blame in
theorem v1_unknown {kw tail : B} {c : UInt8} (hcr : crFree tail) :
    (sepFree kw → kw ≠ PROXY → (kw ++ [SP] ++ UNKNOWN ++ tail ++ [CR, LF]).length ≤ 107 →
      Blamed (kw ++ [SP] ++ UNKNOWN ++ tail ++ [CR, LF]) .invalidPrefix) ∧
    ((tail = [] ∨ tail.head? = some SP) → c ≠ LF → (PROXY ++ [SP] ++ UNKNOWN ++ tail ++ [CR, c]).length ≤ 107 →
      Blamed (PROXY ++ [SP] ++ UNKNOWN ++ tail ++ [CR, c]) .invalidSuffix) :=
  ⟨fun hkw hne hlen => G1_keyword_unknown_entry hkw hne hcr hlen,
   fun ht hc hlen => G7_suffix_unknown_entry ht hcr hc hlen⟩

/-- A blamed text line is terminal through the auto-detecting parser as well
(a text line does not start with the CR of the v2 signature). -/
theorem v1_auto_terminal {line : B} {e : V1.ParseError} (hb : V1.Blame.Blamed line e) (rest : B)
    (hv : Utf8.valid line = true) {c : UInt8} (hh : line.head? = some c) (hc : c ≠ 0x0D) :
    Auto.parse (line ++ rest) = .v1 (.error (.parse e)) ∧ (Auto.parse (line ++ rest)).isIncomplete = false := by
  have h2 : V2.parse (line ++ rest) = .error .badPrefix := by
    apply V2.parse_badPrefix_of_head (c := c) _ hc
    cases line with
    | nil => simp at hh
    | cons d ds => simpa using hh
  have h1 := hb.bytes rest hv
  have : Auto.parse (line ++ rest) = .v1 (.error (.parse e)) := by
    rw [C06.auto_def, h2, h1]; rfl
  refine ⟨this, ?_⟩
  rw [this]
  simpa [Auto.HeaderResult.isIncomplete, Auto.isIncompleteV1] using hb.terminalBytes

/-- Non-vacuity (evaluated): one corrupted element each. -/
example : V2.parse ((Spec.V2.encode .proxy .stream (.ipv4 ⟨⟨1,2,3,4⟩, 80, ⟨5,6,7,8⟩, 443⟩) []).set 12 0x31) =
    .error (.version 0x30) := by decide
example : V1.parseBytes [0x50,0x52,0x4F,0x58,0x59,0x20,0x54,0x43,0x50,0x0D,0x0A] =
    .error (.parse .invalidProtocol) := by decide

/-! ## Additions: the auto-detecting entry point for version 2, short lines, grammar-level
hypotheses, the other address family, the 107-byte limit at the text entry point, port payloads -/

/-! ### version 2 through `HeaderResult::parse`

Through auto-detection a corrupted binary header is handed to the text parser, whose verdict is
terminal — but its *kind* no longer names the element: it is `InvalidPrefix` (the text window of
an input that starts with `CR LF` has an empty first field), or `InvalidUtf8` when one of the
first two signature bytes was replaced by a byte ≥ 0x80. -/

/-- C12, "observe_at the three entry points", version 2 through `HeaderResult::parse`: an input
that passes the signature gate and on which the binary parser reports a terminal error (version,
command, family, transport, length) gives `V1(Err(Parse(InvalidPrefix)))`, which is terminal.
The kind of the binary error is lost. -/
theorem v2_blamed_auto {x : B} {e : V2.ParseError} (hg : V2.gate x = .ok ())
    (h : V2.parse x = .error e) (he : e.isIncomplete = false) :
    Auto.parse x = .v1 (.error (.parse .invalidPrefix)) ∧ (Auto.parse x).isIncomplete = false := by
  have : Auto.parse x = .v1 (.error (.parse .invalidPrefix)) := by
    rw [C06.auto_of_terminal h he, V1.Blame.parseBytes_of_gate_ok hg]
  exact ⟨this, by rw [this]; rfl⟩

/-- Non-vacuity (evaluated): a wrong version nibble through the auto-detecting parser. -/
example : Auto.parse ((Spec.V2.encode .proxy .stream (.ipv4 ⟨⟨1,2,3,4⟩, 80, ⟨5,6,7,8⟩, 443⟩) []).set 12 0x31) =
    .v1 (.error (.parse .invalidPrefix)) := by decide
example : V2.gate ((Spec.V2.encode .proxy .stream (.ipv4 ⟨⟨1,2,3,4⟩, 80, ⟨5,6,7,8⟩, 443⟩) []).set 12 0x31) =
    .ok () := by decide

/-- C12, version 2 through `HeaderResult::parse`, the signature: what the auto-detecting parser
answers when one signature byte is replaced — the text parser's `InvalidUtf8` if one of the
first two bytes was replaced by a byte ≥ 0x80, its `InvalidPrefix` otherwise. -/
theorem v2_signature_auto_kind (cmd : Command) (tr : Transport) (addr : Addresses) (rest trail : B)
    (i : Nat) (v : UInt8) (hi : i < 12) (hv : v ≠ byteAt Spec.V2.signature i) :
    Auto.parse ((Spec.V2.encode cmd tr addr rest ++ trail).set i v) =
      .v1 (if i < 2 ∧ 0x80 ≤ v then .error .invalidUtf8 else .error (.parse .invalidPrefix)) := by
  rw [C06.auto_of_terminal (v2_signature cmd tr addr rest trail i v hi hv) rfl,
    V1.Blame.parseBytes_set_signature cmd tr addr rest trail i v hv]

/-- C12, version 2 through `HeaderResult::parse`, the signature: terminal. (A CR of the signature
that survives is followed by a byte, so the text parser's verdict is final, `C18`.) -/
theorem v2_signature_auto (cmd : Command) (tr : Transport) (addr : Addresses) (rest trail : B)
    (i : Nat) (v : UInt8) (hi : i < 12) (hv : v ≠ byteAt Spec.V2.signature i) :
    (Auto.parse ((Spec.V2.encode cmd tr addr rest ++ trail).set i v)).isIncomplete = false := by
  rw [C06.auto_of_terminal (v2_signature cmd tr addr rest trail i v hi hv) rfl]
  exact C18.frozen_complete_bytes _ (V1.Blame.set_signature_text cmd tr addr rest trail i v hv).1

/-- Non-vacuity (evaluated): first signature byte replaced by `P`, by `0xC3`. -/
example : Auto.parse ((Spec.V2.encode .proxy .stream (.ipv4 ⟨⟨1,2,3,4⟩, 80, ⟨5,6,7,8⟩, 443⟩) []).set 0 0x50) =
    .v1 (.error (.parse .invalidPrefix)) := by decide
example : Auto.parse ((Spec.V2.encode .proxy .stream (.ipv4 ⟨⟨1,2,3,4⟩, 80, ⟨5,6,7,8⟩, 443⟩) []).set 0 0xC3) =
    .v1 (.error .invalidUtf8) := by decide

/-- The auto-detecting parser's result on `y` is complete and is not a success (of either
version). -/
def AutoRejected (y : B) : Prop :=
  (Auto.parse y).isIncomplete = false ∧
  (∀ h : V2.Header, Auto.parse y ≠ .v2 (.ok h)) ∧ (∀ h : V1.Header, Auto.parse y ≠ .v1 (.ok h))

theorem autoRejected_of_eq {y : B} {e : V1.BinaryParseError} (h : Auto.parse y = .v1 (.error e))
    (he : e.isIncomplete = false) : AutoRejected y := by
  refine ⟨by rw [h]; exact he, fun _ hh => ?_, fun _ hh => ?_⟩
  · rw [h] at hh; cases hh
  · rw [h] at hh; cases hh

/-- Any input that passes the signature gate and fails terminally in the binary parser is
rejected, finally, by the auto-detecting parser, with `InvalidPrefix`. -/
theorem v2_gate_auto {x : B} {e : V2.ParseError} (hg : V2.gate x = .ok ())
    (h : V2.parse x = .error e) (he : e.isIncomplete = false) :
    Auto.parse x = .v1 (.error (.parse .invalidPrefix)) ∧ AutoRejected x :=
  ⟨(v2_blamed_auto hg h he).1, autoRejected_of_eq (v2_blamed_auto hg h he).1 rfl⟩

/-- C12, "terminal at the auto-detecting entry point", for each of the six version-2 corruptions
above (`v2_signature`, `v2_version`, `v2_command`, `v2_family`, `v2_transport`, `v2_length`,
same hypotheses): `HeaderResult::parse` of the corrupted input is complete and is not a success;
for the five corruptions behind the signature it is exactly `V1(Err(Parse(InvalidPrefix)))`. -/
theorem v2_corruptions_auto (cmd : Command) (tr : Transport) (addr : Addresses) (rest trail : B) :
    (∀ (i : Nat) (v : UInt8), i < 12 → v ≠ byteAt Spec.V2.signature i →
      AutoRejected ((Spec.V2.encode cmd tr addr rest ++ trail).set i v)) ∧
    (∀ b : UInt8, b &&& 0xF0 ≠ 0x20 →
      Auto.parse ((Spec.V2.encode cmd tr addr rest ++ trail).set 12 b) = .v1 (.error (.parse .invalidPrefix)) ∧
      AutoRejected ((Spec.V2.encode cmd tr addr rest ++ trail).set 12 b)) ∧
    (∀ b : UInt8, b &&& 0xF0 = 0x20 → (b &&& 0x0F ≠ 0 ∧ b &&& 0x0F ≠ 1) →
      Auto.parse ((Spec.V2.encode cmd tr addr rest ++ trail).set 12 b) = .v1 (.error (.parse .invalidPrefix)) ∧
      AutoRejected ((Spec.V2.encode cmd tr addr rest ++ trail).set 12 b)) ∧
    (∀ b : UInt8, (b &&& 0xF0 ≠ 0x00 ∧ b &&& 0xF0 ≠ 0x10 ∧ b &&& 0xF0 ≠ 0x20 ∧ b &&& 0xF0 ≠ 0x30) →
      Auto.parse ((Spec.V2.encode cmd tr addr rest ++ trail).set 13 b) = .v1 (.error (.parse .invalidPrefix)) ∧
      AutoRejected ((Spec.V2.encode cmd tr addr rest ++ trail).set 13 b)) ∧
    (∀ b : UInt8, (b &&& 0xF0 = 0x00 ∨ b &&& 0xF0 = 0x10 ∨ b &&& 0xF0 = 0x20 ∨ b &&& 0xF0 = 0x30) →
      (b &&& 0x0F ≠ 0 ∧ b &&& 0x0F ≠ 1 ∧ b &&& 0x0F ≠ 2) →
      Auto.parse ((Spec.V2.encode cmd tr addr rest ++ trail).set 13 b) = .v1 (.error (.parse .invalidPrefix)) ∧
      AutoRejected ((Spec.V2.encode cmd tr addr rest ++ trail).set 13 b)) ∧
    (∀ l : Nat, l < 65536 → l < Spec.V2.familySize addr.family →
      Auto.parse (((Spec.V2.encode cmd tr addr rest ++ trail).set 14 (UInt8.ofNat (l / 256))).set 15
        (UInt8.ofNat (l % 256))) = .v1 (.error (.parse .invalidPrefix)) ∧
      AutoRejected (((Spec.V2.encode cmd tr addr rest ++ trail).set 14 (UInt8.ofNat (l / 256))).set 15
        (UInt8.ofNat (l % 256)))) := by
  have hg := (encode_fixed cmd tr addr rest trail).1
  refine ⟨fun i v hi hv => ?_, fun b hv => ?_, fun b hv hc => ?_, fun b hf => ?_, fun b hf ht => ?_,
    fun l hl16 hl => ?_⟩
  · have h1 := C06.auto_of_terminal (v2_signature cmd tr addr rest trail i v hi hv) rfl
    obtain ⟨hfz, hno⟩ := V1.Blame.set_signature_text cmd tr addr rest trail i v hv
    refine ⟨by rw [h1]; exact C18.frozen_complete_bytes _ hfz, fun _ hh => ?_, fun h hh => ?_⟩
    · rw [h1] at hh; cases hh
    · rw [h1] at hh; exact hno h (by injection hh)
  · exact v2_gate_auto (gate_set b (Nat.le_refl 12) hg) (v2_version cmd tr addr rest trail b hv) rfl
  · exact v2_gate_auto (gate_set b (Nat.le_refl 12) hg) (v2_command cmd tr addr rest trail b hv hc) rfl
  · exact v2_gate_auto (gate_set b (by omega : 12 ≤ 13) hg) (v2_family cmd tr addr rest trail b hf) rfl
  · exact v2_gate_auto (gate_set b (by omega : 12 ≤ 13) hg) (v2_transport cmd tr addr rest trail b hf ht) rfl
  · exact v2_gate_auto (gate_set _ (by omega : 12 ≤ 15) (gate_set _ (by omega : 12 ≤ 14) hg))
      (v2_length cmd tr addr rest trail l hl16 hl) rfl

/-- Non-vacuity (evaluated): a declared length of 11 for an IPv4 header, through auto-detection. -/
example : Auto.parse (((Spec.V2.encode .proxy .stream (.ipv4 ⟨⟨1,2,3,4⟩, 80, ⟨5,6,7,8⟩, 443⟩) []).set 14 0).set 15 11) =
    .v1 (.error (.parse .invalidPrefix)) := by decide

/-! ### version 1: the protocol of a line with any number of fields -/

open V1 V1.Blame in
/-- C12, the protocol element, for lines with any number of fields: `PROXY␠<proto>` followed by
nothing or by a space and arbitrary CR-free text (subsumes `v1_protocol`; covers a well-formed
`PROXY UNKNOWN\r\n` whose protocol is replaced, truncated or emptied: `PROXY UNKNOWM\r\n`,
`PROXY UNK\r\n`, `PROXY \r\n`). -/
theorem v1_protocol_short {proto tail : B} {c : UInt8} (hproto : sepFree proto)
    (hcr : crFree tail) (ht : tail = [] ∨ tail.head? = some SP)
    (h4 : proto ≠ TCP4) (h6 : proto ≠ TCP6) (hu : proto ≠ UNKNOWN)
    (hlen : (PROXY ++ [SP] ++ proto ++ tail ++ [CR, c]).length ≤ 107) :
    Blamed (PROXY ++ [SP] ++ proto ++ tail ++ [CR, c]) .invalidProtocol :=
  G2_protocol_short_entry hproto hcr ht h4 h6 hu hlen

open V1 V1.Blame in
/-- Non-vacuity: `PROXY UNKNOWM\r\n`, `PROXY UNK\r\n` and `PROXY \r\n` are instances. -/
example : Blamed (PROXY ++ [SP] ++ [0x55, 0x4E, 0x4B, 0x4E, 0x4F, 0x57, 0x4D] ++ [] ++ [CR, LF]) .invalidProtocol :=
  v1_protocol_short (by unfold sepFree; decide) (by unfold crFree; decide) (.inl rfl)
    (by decide) (by decide) (by decide) (by decide)
open V1 V1.Blame in
example : Blamed (PROXY ++ [SP] ++ [0x55, 0x4E, 0x4B] ++ [] ++ [CR, LF]) .invalidProtocol :=
  v1_protocol_short (by unfold sepFree; decide) (by unfold crFree; decide) (.inl rfl)
    (by decide) (by decide) (by decide) (by decide)
open V1 V1.Blame in
example : Blamed (PROXY ++ [SP] ++ [] ++ [] ++ [CR, LF]) .invalidProtocol :=
  v1_protocol_short (by unfold sepFree; decide) (by unfold crFree; decide) (.inl rfl)
    (by decide) (by decide) (by decide) (by decide)
example : V1.parseBytes [0x50,0x52,0x4F,0x58,0x59,0x20,0x55,0x4E,0x4B,0x4E,0x4F,0x57,0x4D,0x0D,0x0A] =
    .error (.parse .invalidProtocol) := by decide

open V1 V1.Blame in
/-- `v1_protocol` is the instance of `v1_protocol_short` whose tail is the four remaining fields. -/
example {proto sa da sp dp : B} {c : UInt8} (hproto : sepFree proto)
    (hsa : sepFree sa) (hda : sepFree da) (hsp : sepFree sp) (hdp : sepFree dp)
    (h4 : proto ≠ TCP4) (h6 : proto ≠ TCP6) (hu : proto ≠ UNKNOWN)
    (hlen : (tcpLine PROXY proto sa da sp dp [CR, c]).length ≤ 107) :
    Blamed (tcpLine PROXY proto sa da sp dp [CR, c]) .invalidProtocol := by
  have e : tcpLine PROXY proto sa da sp dp [CR, c] =
      PROXY ++ [SP] ++ proto ++ ([SP] ++ sa ++ [SP] ++ da ++ [SP] ++ sp ++ [SP] ++ dp) ++ [CR, c] := by
    simp [tcpLine]
  rw [e] at hlen ⊢
  have h0 : crFree ([] ++ [SP] ++ sa) := crFree_app_sp (fun _ h => by cases h) hsa
  exact v1_protocol_short hproto (crFree_app_sp (crFree_app_sp (crFree_app_sp h0 hda) hsp) hdp)
    (.inr rfl) h4 h6 hu hlen

/-! ### version 1: address and port hypotheses stated with the grammar of `Spec/V1.lean`

"Invalid for that element" means: not a dotted quad without leading zeros (`Spec.V1.Ipv4Text`,
TCP4), not an RFC 4291 section 2.2 text form (`Spec.V1.Ipv6Text`, TCP6), not plain decimal
0–65535 (`Spec.V1.PortText`). The fields before the corrupted one are well-formed in the same
sense (hence separator free); the corrupted field and those after it must not contain a space
or a CR (otherwise the number of elements changes). For the ports the payload is whatever
`parsePort` reports; `port_payload_table` below lists it. -/

section spec
open V1 V1.Blame
variable {sa da sp dp : B} {c : UInt8}

/-- C12, source address of a TCP4 line, grammar-level: anything that is not a dotted quad
(in particular every IPv6 text, `other_family₁`). -/
theorem v1_source_address_spec
    (hsa : sepFree sa) (hda : sepFree da) (hsp : sepFree sp) (hdp : sepFree dp)
    (h : ∀ a, ¬ Spec.V1.Ipv4Text sa a) (hlen : (tcpLine PROXY TCP4 sa da sp dp [CR, c]).length ≤ 107) :
    Blamed (tcpLine PROXY TCP4 sa da sp dp [CR, c]) .invalidSourceAddress :=
  v1_source_address hsa hda hsp hdp (parseIpv4_none_of_spec h) hlen

/-- C12, destination address of a TCP4 line, grammar-level. -/
theorem v1_destination_address_spec {a : Ip4}
    (hda : sepFree da) (hsp : sepFree sp) (hdp : sepFree dp)
    (hs : Spec.V1.Ipv4Text sa a) (h : ∀ b, ¬ Spec.V1.Ipv4Text da b)
    (hlen : (tcpLine PROXY TCP4 sa da sp dp [CR, c]).length ≤ 107) :
    Blamed (tcpLine PROXY TCP4 sa da sp dp [CR, c]) .invalidDestinationAddress :=
  v1_destination_address (ipv4Text_sepFree hs) hda hsp hdp ((ipv4Text_iff sa a).mp hs)
    (parseIpv4_none_of_spec h) hlen

/-- C12, source port of a TCP4 line, grammar-level. -/
theorem v1_source_port_spec {a b : Ip4}
    (hsp : sepFree sp) (hdp : sepFree dp)
    (hs : Spec.V1.Ipv4Text sa a) (hd : Spec.V1.Ipv4Text da b) (h : ∀ p, ¬ Spec.V1.PortText sp p)
    (hlen : (tcpLine PROXY TCP4 sa da sp dp [CR, c]).length ≤ 107) :
    ∃ k, parsePort sp = .error k ∧ Blamed (tcpLine PROXY TCP4 sa da sp dp [CR, c]) (.invalidSourcePort k) := by
  obtain ⟨k, hk⟩ := parsePort_error_of_spec h
  exact ⟨k, hk, v1_source_port (ipv4Text_sepFree hs) (ipv4Text_sepFree hd) hsp hdp
    ((ipv4Text_iff sa a).mp hs) ((ipv4Text_iff da b).mp hd) hk hlen⟩

/-- C12, destination port of a TCP4 line, grammar-level. -/
theorem v1_destination_port_spec {a b : Ip4} {p : UInt16}
    (hdp : sepFree dp)
    (hs : Spec.V1.Ipv4Text sa a) (hd : Spec.V1.Ipv4Text da b) (hp : Spec.V1.PortText sp p)
    (h : ∀ q, ¬ Spec.V1.PortText dp q)
    (hlen : (tcpLine PROXY TCP4 sa da sp dp [CR, c]).length ≤ 107) :
    ∃ k, parsePort dp = .error k ∧
      Blamed (tcpLine PROXY TCP4 sa da sp dp [CR, c]) (.invalidDestinationPort k) := by
  obtain ⟨k, hk⟩ := parsePort_error_of_spec h
  exact ⟨k, hk, v1_destination_port (ipv4Text_sepFree hs) (ipv4Text_sepFree hd) (portText_sepFree hp) hdp
    ((ipv4Text_iff sa a).mp hs) ((ipv4Text_iff da b).mp hd) ((portText_iff sp p).mp hp) hk hlen⟩

/-- C12, source address of a TCP6 line, grammar-level: anything that is not an RFC 4291 text
form (in particular every dotted quad, `other_family₂`). -/
theorem v1_tcp6_source_address_spec
    (hsa : sepFree sa) (hda : sepFree da) (hsp : sepFree sp) (hdp : sepFree dp)
    (h : ∀ a, ¬ Spec.V1.Ipv6Text sa a) (hlen : (tcpLine PROXY TCP6 sa da sp dp [CR, c]).length ≤ 107) :
    Blamed (tcpLine PROXY TCP6 sa da sp dp [CR, c]) .invalidSourceAddress :=
  (v1_tcp6 hsa hda hsp hdp hlen).1 (parseIpv6_none_of_spec h)

/-- C12, destination address of a TCP6 line, grammar-level. -/
theorem v1_tcp6_destination_address_spec {a : Ip6}
    (hda : sepFree da) (hsp : sepFree sp) (hdp : sepFree dp)
    (hs : Spec.V1.Ipv6Text sa a) (h : ∀ b, ¬ Spec.V1.Ipv6Text da b)
    (hlen : (tcpLine PROXY TCP6 sa da sp dp [CR, c]).length ≤ 107) :
    Blamed (tcpLine PROXY TCP6 sa da sp dp [CR, c]) .invalidDestinationAddress :=
  (v1_tcp6 (ipv6Text_sepFree hs) hda hsp hdp hlen).2.1 a ((StdNet.parseIpv6_iff_text sa a).mpr hs)
    (parseIpv6_none_of_spec h)

/-- C12, source port of a TCP6 line, grammar-level. -/
theorem v1_tcp6_source_port_spec {a b : Ip6}
    (hsp : sepFree sp) (hdp : sepFree dp)
    (hs : Spec.V1.Ipv6Text sa a) (hd : Spec.V1.Ipv6Text da b) (h : ∀ p, ¬ Spec.V1.PortText sp p)
    (hlen : (tcpLine PROXY TCP6 sa da sp dp [CR, c]).length ≤ 107) :
    ∃ k, parsePort sp = .error k ∧ Blamed (tcpLine PROXY TCP6 sa da sp dp [CR, c]) (.invalidSourcePort k) := by
  obtain ⟨k, hk⟩ := parsePort_error_of_spec h
  exact ⟨k, hk, (v1_tcp6 (ipv6Text_sepFree hs) (ipv6Text_sepFree hd) hsp hdp hlen).2.2.1 a b k
    ((StdNet.parseIpv6_iff_text sa a).mpr hs) ((StdNet.parseIpv6_iff_text da b).mpr hd) hk⟩

/-- C12, destination port of a TCP6 line, grammar-level. -/
theorem v1_tcp6_destination_port_spec {a b : Ip6} {p : UInt16}
    (hdp : sepFree dp)
    (hs : Spec.V1.Ipv6Text sa a) (hd : Spec.V1.Ipv6Text da b) (hp : Spec.V1.PortText sp p)
    (h : ∀ q, ¬ Spec.V1.PortText dp q)
    (hlen : (tcpLine PROXY TCP6 sa da sp dp [CR, c]).length ≤ 107) :
    ∃ k, parsePort dp = .error k ∧
      Blamed (tcpLine PROXY TCP6 sa da sp dp [CR, c]) (.invalidDestinationPort k) := by
  obtain ⟨k, hk⟩ := parsePort_error_of_spec h
  exact ⟨k, hk, (v1_tcp6 (ipv6Text_sepFree hs) (ipv6Text_sepFree hd) (portText_sepFree hp) hdp hlen).2.2.2.1
    a b p k ((StdNet.parseIpv6_iff_text sa a).mpr hs) ((StdNet.parseIpv6_iff_text da b).mpr hd)
    ((portText_iff sp p).mp hp) hk⟩

/-- `1.2.3.4`, `5.6.7.8`, `1.2.3.256`, `::1`, `::2`, `80`, `443`, `65536` -/
private def t1234 : B := [0x31,0x2E,0x32,0x2E,0x33,0x2E,0x34]
private def t5678 : B := [0x35,0x2E,0x36,0x2E,0x37,0x2E,0x38]
private def t123256 : B := [0x31,0x2E,0x32,0x2E,0x33,0x2E,0x32,0x35,0x36]
private def tcc1 : B := [0x3A,0x3A,0x31]
private def tcc2 : B := [0x3A,0x3A,0x32]
private def t80 : B := [0x38,0x30]
private def t443 : B := [0x34,0x34,0x33]
private def t65536 : B := [0x36,0x35,0x35,0x33,0x36]

private theorem h1234 : Spec.V1.Ipv4Text t1234 ⟨1,2,3,4⟩ := (ipv4Text_iff _ _).mpr (by decide)
private theorem h5678 : Spec.V1.Ipv4Text t5678 ⟨5,6,7,8⟩ := (ipv4Text_iff _ _).mpr (by decide)
private theorem hcc1 : Spec.V1.Ipv6Text tcc1 ⟨[0,0,0,0,0,0,0,0,0,0,0,0,0,0,0,1], rfl⟩ :=
  (StdNet.parseIpv6_iff_text _ _).mp (by decide)
private theorem hcc2 : Spec.V1.Ipv6Text tcc2 ⟨[0,0,0,0,0,0,0,0,0,0,0,0,0,0,0,2], rfl⟩ :=
  (StdNet.parseIpv6_iff_text _ _).mp (by decide)
private theorem h80 : Spec.V1.PortText t80 80 := (portText_iff _ _).mpr (by decide)

/-! Non-vacuity of the eight grammar-level statements: one corrupted element each (an address of
the other family, an octet of 256, a port of 65536, an empty port, a signed port). -/

example : Blamed (tcpLine PROXY TCP4 tcc1 t5678 t80 t443 [CR, LF]) .invalidSourceAddress :=
  v1_source_address_spec (by unfold sepFree; decide) (by unfold sepFree; decide) (by unfold sepFree; decide)
    (by unfold sepFree; decide) (not_ipv4Text_of_none (by decide)) (by decide)
example : Blamed (tcpLine PROXY TCP4 t1234 t123256 t80 t443 [CR, LF]) .invalidDestinationAddress :=
  v1_destination_address_spec (by unfold sepFree; decide) (by unfold sepFree; decide)
    (by unfold sepFree; decide) h1234 (not_ipv4Text_of_none (by decide)) (by decide)
example : ∃ k, parsePort t65536 = .error k ∧
    Blamed (tcpLine PROXY TCP4 t1234 t5678 t65536 t443 [CR, LF]) (.invalidSourcePort k) :=
  v1_source_port_spec (by unfold sepFree; decide) (by unfold sepFree; decide) h1234 h5678
    (not_portText_of_error (k := some .posOverflow) (by decide)) (by decide)
example : ∃ k, parsePort [] = .error k ∧
    Blamed (tcpLine PROXY TCP4 t1234 t5678 t80 [] [CR, LF]) (.invalidDestinationPort k) :=
  v1_destination_port_spec (by unfold sepFree; decide) h1234 h5678 h80
    (not_portText_of_error (k := some .empty) (by decide)) (by decide)
example : Blamed (tcpLine PROXY TCP6 t1234 tcc2 t80 t443 [CR, LF]) .invalidSourceAddress :=
  v1_tcp6_source_address_spec (by unfold sepFree; decide) (by unfold sepFree; decide) (by unfold sepFree; decide)
    (by unfold sepFree; decide) (not_ipv6Text_of_none (by decide)) (by decide)
example : Blamed (tcpLine PROXY TCP6 tcc1 t5678 t80 t443 [CR, LF]) .invalidDestinationAddress :=
  v1_tcp6_destination_address_spec (by unfold sepFree; decide) (by unfold sepFree; decide)
    (by unfold sepFree; decide) hcc1 (not_ipv6Text_of_none (by decide)) (by decide)
example : ∃ k, parsePort t65536 = .error k ∧
    Blamed (tcpLine PROXY TCP6 tcc1 tcc2 t65536 t443 [CR, LF]) (.invalidSourcePort k) :=
  v1_tcp6_source_port_spec (by unfold sepFree; decide) (by unfold sepFree; decide) hcc1 hcc2
    (not_portText_of_error (k := some .posOverflow) (by decide)) (by decide)
example : ∃ k, parsePort [0x2B, 0x32] = .error k ∧
    Blamed (tcpLine PROXY TCP6 tcc1 tcc2 t80 [0x2B, 0x32] [CR, LF]) (.invalidDestinationPort k) :=
  v1_tcp6_destination_port_spec (by unfold sepFree; decide) hcc1 hcc2 h80
    (not_portText_of_error (k := none) (by decide)) (by decide)

end spec

/-! ### addresses of the other family -/

/-- C12, "addresses of the other family": a text that `Ipv6Addr::from_str` accepts is refused
by `Ipv4Addr::from_str` (every RFC 4291 text form contains a colon, no dotted quad does) … -/
theorem other_family₁ {s : B} {a : Ip6} (h : StdNet.parseIpv6 s = some a) : StdNet.parseIpv4 s = none := by
  cases h4 : StdNet.parseIpv4 s with
  | none => rfl
  | some b => exact (StdNet.not_both_families h4 h).elim

/-- … and conversely. -/
theorem other_family₂ {s : B} {a : Ip4} (h : StdNet.parseIpv4 s = some a) : StdNet.parseIpv6 s = none := by
  cases h6 : StdNet.parseIpv6 s with
  | none => rfl
  | some b => exact (StdNet.not_both_families h h6).elim

/-- The same at the level of the grammar: no text is both a dotted quad and an RFC 4291 form. -/
theorem other_family_spec {s : B} {a : Ip4} {b : Ip6} (h4 : Spec.V1.Ipv4Text s a) (h6 : Spec.V1.Ipv6Text s b) :
    False :=
  StdNet.not_both_families ((V1.ipv4Text_iff s a).mp h4) ((StdNet.parseIpv6_iff_text s b).mpr h6)

open V1 V1.Blame in
/-- C12, "addresses of the other family", as instances of the blame theorems: an IPv6 text as
the source of a TCP4 line, an IPv4 text as the source of a TCP6 line. -/
theorem v1_source_other_family {sa da sp dp : B} {c : UInt8}
    (hda : sepFree da) (hsp : sepFree sp) (hdp : sepFree dp) :
    (∀ a, Spec.V1.Ipv6Text sa a → (tcpLine PROXY TCP4 sa da sp dp [CR, c]).length ≤ 107 →
      Blamed (tcpLine PROXY TCP4 sa da sp dp [CR, c]) .invalidSourceAddress) ∧
    (∀ a, Spec.V1.Ipv4Text sa a → (tcpLine PROXY TCP6 sa da sp dp [CR, c]).length ≤ 107 →
      Blamed (tcpLine PROXY TCP6 sa da sp dp [CR, c]) .invalidSourceAddress) :=
  ⟨fun a h hlen => v1_source_address (ipv6Text_sepFree h) hda hsp hdp
      (other_family₁ ((StdNet.parseIpv6_iff_text sa a).mpr h)) hlen,
   fun a h hlen => (v1_tcp6 (ipv4Text_sepFree h) hda hsp hdp hlen).1
      (other_family₂ ((ipv4Text_iff sa a).mp h))⟩

/-- Non-vacuity (evaluated): `::1` and `1.2.3.4`. -/
example : StdNet.parseIpv6 [0x3A,0x3A,0x31] = some ⟨[0,0,0,0,0,0,0,0,0,0,0,0,0,0,0,1], rfl⟩ ∧
    StdNet.parseIpv4 [0x3A,0x3A,0x31] = none := by decide
example : StdNet.parseIpv4 [0x31,0x2E,0x32,0x2E,0x33,0x2E,0x34] = some ⟨1,2,3,4⟩ ∧
    StdNet.parseIpv6 [0x31,0x2E,0x32,0x2E,0x33,0x2E,0x34] = none := by decide

/-! ### the 107-byte limit at the text entry point -/

open V1 V1.Blame in
/-- C12, the 107-byte limit at the text entry point (`TryFrom<&str>`) when the first CR lies
beyond byte 105: `HeaderTooLong`, provided the window ends on a character boundary … -/
theorem v1_str_too_long {x : B} {n : Nat} (hw : windowLength x = some n) (hn : 107 < n)
    (hb : Utf8.isCharBoundary x n = true) : parseStr x = .error .headerTooLong :=
  G8_parseStr_too_long hw hn hb

open V1 V1.Blame in
/-- … and `InvalidSuffix` when it does not (the byte after the CR is the lead byte of a multi-byte
character) — whatever the length of the window. Both errors are terminal. -/
theorem v1_str_not_boundary {x : B} {n : Nat} (hw : windowLength x = some n)
    (hb : Utf8.isCharBoundary x n = false) : parseStr x = .error .invalidSuffix :=
  parseStr_not_boundary hw hb

/-- Both are terminal. -/
example : V1.ParseError.headerTooLong.isIncomplete = false ∧ V1.ParseError.invalidSuffix.isIncomplete = false :=
  ⟨rfl, rfl⟩

/-- Non-vacuity (evaluated): 106 letters, CR, LF (window of 108 bytes); three letters, CR and
the two bytes of `é` (the window would end inside the character). -/
example : V1.windowLength (List.replicate 106 0x41 ++ [0x0D, 0x0A]) = some 108 ∧
    Utf8.isCharBoundary (List.replicate 106 0x41 ++ [0x0D, 0x0A]) 108 = true ∧
    V1.parseStr (List.replicate 106 0x41 ++ [0x0D, 0x0A]) = .error .headerTooLong := by decide +kernel
example : V1.windowLength [0x41, 0x41, 0x41, 0x0D, 0xC3, 0xA9] = some 5 ∧
    Utf8.valid [0x41, 0x41, 0x41, 0x0D, 0xC3, 0xA9] = true ∧
    Utf8.isCharBoundary [0x41, 0x41, 0x41, 0x0D, 0xC3, 0xA9] 5 = false ∧
    V1.parseStr [0x41, 0x41, 0x41, 0x0D, 0xC3, 0xA9] = .error .invalidSuffix := by decide

/-! ### the payload of the port errors -/

open V1 in
/-- C12, the payload of `InvalidSourcePort` / `InvalidDestinationPort`
(`Option<IntErrorKind>`), row by row: empty text `Some(Empty)`; a leading `+` or a leading
zero (other than `0` itself) `None` — both are refused before `u16::from_str`; a first byte
that is neither a digit nor `+` (in particular `-`) `Some(InvalidDigit)`; plain decimal beyond
65535 `Some(PosOverflow)`, also when something follows (`99999x`: the overflow is met first);
plain decimal within range, other than `0`, followed by a non-digit (`6553x`)
`Some(InvalidDigit)` (`0x` falls under the leading-zero row). -/
theorem port_payload_table :
    parsePort [] = .error (some .empty) ∧
    (∀ s : B, parsePort (0x2B :: s) = .error none) ∧
    (∀ s : B, s ≠ [] → parsePort (0x30 :: s) = .error none) ∧
    (∀ s : B, parsePort (0x2D :: s) = .error (some .invalidDigit)) ∧
    (∀ (c : UInt8) (s : B), ¬ (0x30 ≤ c ∧ c ≤ 0x39) → c ≠ 0x2B →
      parsePort (c :: s) = .error (some .invalidDigit)) ∧
    (∀ (s : B) (n : Nat), Spec.V1.Decimal s n → 65535 < n → parsePort s = .error (some .posOverflow)) ∧
    (∀ (s : B) (n : Nat) (r : B), Spec.V1.Decimal s n → 65535 < n →
      parsePort (s ++ r) = .error (some .posOverflow)) ∧
    (∀ (s : B) (n : Nat) (c : UInt8) (r : B), Spec.V1.Decimal s n → n ≤ 65535 → n ≠ 0 →
      ¬ (0x30 ≤ c ∧ c ≤ 0x39) → parsePort (s ++ c :: r) = .error (some .invalidDigit)) :=
  ⟨parsePort_nil, parsePort_plus, fun _ hs => parsePort_leading_zero hs, parsePort_minus,
   fun _ s hc hp => parsePort_head_invalid hc hp s,
   fun _ _ hd hn => parsePort_overflow hd hn,
   fun _ _ r hd hn => parsePort_overflow_first hd hn r,
   fun _ _ _ r hd hn h0 hc => parsePort_digit_first hd hn h0 hc r⟩

/-- Non-vacuity: `65536` is plain decimal beyond 65535. -/
example : Spec.V1.Decimal [0x36,0x35,0x35,0x33,0x36] 65536 ∧ 65535 < 65536 :=
  ⟨(V1.decimal_iff_canon _ _).mpr ⟨by unfold Canon; decide, by decide⟩, by decide⟩

/-- The rows, evaluated: empty, `+2`, `01`, `-1`, `65536`, `99999x`, `6553x`. -/
example : V1.parsePort [] = .error (some .empty) ∧
    V1.parsePort [0x2B, 0x32] = .error none ∧
    V1.parsePort [0x30, 0x31] = .error none ∧
    V1.parsePort [0x2D, 0x31] = .error (some .invalidDigit) ∧
    V1.parsePort [0x36,0x35,0x35,0x33,0x36] = .error (some .posOverflow) ∧
    V1.parsePort [0x39,0x39,0x39,0x39,0x39,0x78] = .error (some .posOverflow) ∧
    V1.parsePort [0x36,0x35,0x35,0x33,0x78] = .error (some .invalidDigit) := by decide

end C12
