import PppModel.Lemmas.Builder
import PppModel.Lemmas.BuilderExact

/-!
# C09 — builder length field is never stale, truncated or silently wrong

The model includes the repair of defect D7 (`fix:` commit in /repo): `build`
writes the explicit length in force at that moment into the field.
-/

namespace C09
open V2 Spec.Builder

/-- `set_length` takes a `u16`. -/
def Op.wf : Op → Prop
  | .setLength (some l) => l < 65536
  | _ => True

theorem lengthFrom_lt (acc : Option Nat) (ops : List Op) (hacc : ∀ l, acc = some l → l < 65536)
    (hwf : ∀ op ∈ ops, Op.wf op) : ∀ l, lengthFrom acc ops = some l → l < 65536 := by
  induction ops generalizing acc with
  | nil => simpa [lengthFrom] using hacc
  | cons op ops ih =>
    rw [lengthFrom_cons]
    apply ih
    · intro l hl
      cases op with
      | setLength l' =>
        simp only [lenAfter] at hl; subst hl
        exact hwf (.setLength (some l)) (List.mem_cons_self ..)
      | reserve n => exact hacc l hl
      | writePayload p => exact hacc l hl
      | writePayloads ps => exact hacc l hl
      | writeTlv k v => exact hacc l hl
    · intro op' h'; exact hwf op' (List.mem_cons_of_mem _ h')

theorem length_field_shape {b : Builder} {vc afp : UInt8} {addr : Addresses}
    (h : Shape b vc afp addr none []) (ops : List Op) (hwf : ∀ op ∈ ops, Op.wf op) (out : B)
    (hr : b.run ops = some out) :
    16 ≤ out.length ∧
    be16 (byteAt out 14) (byteAt out 15) = (lengthInForce ops).getD (out.length - 16) := by
  obtain ⟨e, he, hb⟩ := run_some h ops out hr
  have hlt := lengthFrom_lt none ops (by simp) hwf
  unfold buildOf at hb
  cases hl : lengthInForce ops with
  | some l =>
    rw [hl] at hb
    simp only [Option.some.injEq] at hb; subst hb
    have := hlt l hl
    refine ⟨by rw [hdrOf_length]; omega, ?_⟩
    simp only [hdrOf, sig, be16Bytes, Option.getD_some]
    simp only [List.cons_append, List.nil_append, byteAt_cons_succ, byteAt_cons_zero]
    exact be16_be16Bytes l this
  | none =>
    rw [hl] at hb
    simp only at hb
    split at hb
    · rename_i hle
      simp only [Option.some.injEq] at hb; subst hb
      refine ⟨by rw [hdrOf_length]; omega, ?_⟩
      rw [hdrOf_length]
      simp only [hdrOf, sig, be16Bytes, Option.getD_none]
      simp only [List.cons_append, List.nil_append, byteAt_cons_succ, byteAt_cons_zero]
      rw [be16_be16Bytes _ (by omega)]
      omega
    · cases hb

/-- **C09.** If `build` succeeds the 16-bit length field equals the explicit
length in force at that moment, and otherwise the actual number of bytes
following the 16-byte fixed part. -/
theorem length_field (vc afp : UInt8) (ops : List Op) (hwf : ∀ op ∈ ops, Op.wf op) (out : B)
    (hr : (Builder.new vc afp).run ops = some out) :
    16 ≤ out.length ∧
    be16 (byteAt out 14) (byteAt out 15) = (lengthInForce ops).getD (out.length - 16) :=
  length_field_shape (shape_new vc afp) ops hwf out hr

theorem length_field_with (vc : UInt8) (t : Transport) (a : Addresses) (ops : List Op)
    (hwf : ∀ op ∈ ops, Op.wf op) (out : B) (hr : (Builder.withAddresses vc t a).run ops = some out) :
    16 ≤ out.length ∧
    be16 (byteAt out 14) (byteAt out 15) = (lengthInForce ops).getD (out.length - 16) :=
  length_field_shape (shape_withAddresses vc t a) ops hwf out hr

theorem overflow_fails_shape {b : Builder} {vc afp : UInt8} {addr : Addresses}
    (h : Shape b vc afp addr none []) (ops : List Op) (hno : lengthInForce ops = none) (out : B)
    (hr : b.run ops = some out) : out.length - 16 ≤ 65535 := by
  obtain ⟨e, he, hb⟩ := run_some h ops out hr
  unfold buildOf at hb
  rw [hno] at hb
  simp only at hb
  split at hb
  · simp only [Option.some.injEq] at hb; subst hb
    rw [hdrOf_length]; omega
  · cases hb

/-- With no explicit length in force, a payload of more than 65535 bytes makes
`build` fail instead of emitting a wrapped length. -/
theorem overflow_fails (vc afp : UInt8) (ops : List Op) (hno : lengthInForce ops = none) (out : B)
    (hr : (Builder.new vc afp).run ops = some out) : out.length - 16 ≤ 65535 :=
  overflow_fails_shape (shape_new vc afp) ops hno out hr

theorem overflow_fails_with (vc : UInt8) (t : Transport) (a : Addresses) (ops : List Op)
    (hno : lengthInForce ops = none) (out : B)
    (hr : (Builder.withAddresses vc t a).run ops = some out) : out.length - 16 ≤ 65535 :=
  overflow_fails_shape (shape_withAddresses vc t a) ops hno out hr

/-- The values that do not fit a 16-bit length. -/
def oversized : Payload → Prop
  | .slice bs => 65535 < bs.length
  | .tlv _ v => 65535 < v.length
  | .pair _ v => 65535 < v.length
  | _ => False

theorem enc_none_of_oversized (p : Payload) (h : oversized p) : enc p = none := by
  cases p <;> simp_all [oversized, enc] <;> omega

theorem oversized_value_fails_shape {b : Builder} {vc afp : UInt8} {addr : Addresses}
    (h : Shape b vc afp addr none []) (ops : List Op)
    (hbig : ∃ p ∈ ops.flatMap opPayloads, oversized p) : b.run ops = none := by
  cases hr : b.run ops with
  | none => rfl
  | some out =>
    obtain ⟨e, he, -⟩ := run_some h ops out hr
    obtain ⟨p, hp, hov⟩ := hbig
    obtain ⟨ep, hep⟩ := encAll_some_all he p hp
    rw [enc_none_of_oversized p hov] at hep; cases hep

/-- A single TLV value or byte-slice payload of more than 65535 bytes anywhere in
the history makes the history fail. -/
theorem oversized_value_fails (vc afp : UInt8) (ops : List Op)
    (hbig : ∃ p ∈ ops.flatMap opPayloads, oversized p) : (Builder.new vc afp).run ops = none :=
  oversized_value_fails_shape (shape_new vc afp) ops hbig

theorem oversized_value_fails_with (vc : UInt8) (t : Transport) (a : Addresses) (ops : List Op)
    (hbig : ∃ p ∈ ops.flatMap opPayloads, oversized p) : (Builder.withAddresses vc t a).run ops = none :=
  oversized_value_fails_shape (shape_withAddresses vc t a) ops hbig

/-- Non-vacuity, and the D7 witness: an explicit length set *after* the first
write is the one in the output. -/
example : (Builder.new 0x21 0x11).run [.writePayload (.int 1 7), .setLength (some 5)] =
    some [0x0D, 0x0A, 0x0D, 0x0A, 0x00, 0x0D, 0x0A, 0x51, 0x55, 0x49, 0x54, 0x0A, 0x21, 0x11, 0, 5, 7] := by
  decide

example : lengthInForce [.setLength (some 3), .writePayload (.int 1 7), .setLength none] = none := by decide

/-! ### Per-call failure (audit 3, X3 / C09 (a)): which call returns `Err`

`Builder.run` merges "a write returned `Err`" and "`build` returned `Err`". The
theorems below are about `Builder.step` (one call) and `Builder.build` separately,
on the state `b` reached by any accepted prefix `pre` of calls. -/

/-- `write_to` of an oversized value fails (on any writer). -/
theorem writeTo_oversized (p : Payload) (hbig : oversized p) (w : Writer) : p.writeTo w = .error w :=
  writeTo_refused p w (enc_none_of_oversized p hbig)

theorem writeMany_oversized (ps : List Payload) (p : Payload) (hp : p ∈ ps) (hbig : oversized p)
    (w : Writer) : writeMany w ps = none := by
  induction ps generalizing w with
  | nil => cases hp
  | cons q qs ih =>
    simp only [writeMany]
    rcases List.mem_cons.mp hp with rfl | hq
    · rw [writeTo_oversized p hbig w]
    · cases hw : q.writeTo w with
      | error e => rfl
      | ok r => exact ih hq r.2

/-- The offending call fails in *every* builder state (reachable or not): a
`write_payload` of an oversized value, a `write_payloads` batch containing one,
a `write_tlv` with an oversized value. -/
theorem oversized_step_fails (b : Builder) (p : Payload) (hbig : oversized p) :
    b.step (.writePayload p) = none ∧ (∀ ps, p ∈ ps → b.step (.writePayloads ps) = none) := by
  constructor
  · simp only [Builder.step]
    cases b.writeHeader with
    | none => rfl
    | some b' => simp only [Builder.writeInternal, writeTo_oversized p hbig]
  · intro ps hp
    simp only [Builder.step]
    cases b.writeHeader with
    | none => rfl
    | some b' => simp only [writeMany_oversized ps p hp hbig]

/-- **C09 (the operation fails).** After any accepted history `pre` from either
constructor, a `write_payload` of a TLV value / (type, bytes) pair / byte slice of
more than 65535 bytes *itself* returns `Err`, and so does a `write_payloads`
batch containing one. (Nothing is written: `C20.oversize_refused`.) -/
theorem oversized_call_fails {vc afp : UInt8} {t : Transport} {a : Addresses} {b0 b : Builder}
    (_h0 : b0 = Builder.new vc afp ∨ b0 = Builder.withAddresses vc t a)
    (pre : List Op) (_hr : Builder.runFrom b0 pre = some b) (p : Payload) (hbig : oversized p) :
    b.step (.writePayload p) = none ∧ (∀ ps, p ∈ ps → b.step (.writePayloads ps) = none) :=
  oversized_step_fails b p hbig

/-- The same for `write_tlv`. -/
theorem oversized_tlv_call_fails (b : Builder) (k : UInt8) (v : B) (hbig : 65535 < v.length) :
    b.step (.writeTlv k v) = none :=
  (oversized_step_fails b (.tlv k v) hbig).1

/-- **Exact per-call success condition** (re-export of `V2.step_isSome_iff` /
`V2.runFrom_isSome_iff`): on the state reached by an accepted prefix `pre`, a
call returns `Err` iff the arithmetic guard `opOk` fails at the current buffer
length (16 fixed bytes, the address block, the payload written by `pre`). -/
theorem call_fails_iff_shape {b0 b : Builder} {vc afp : UInt8} {addr : Addresses}
    (h : Shape b0 vc afp addr none []) (pre : List Op) (hr : Builder.runFrom b0 pre = some b) (op : Op) :
    b.step op = none ↔ ¬ opOk (16 + (Spec.V2.addrBytes addr).length + payloadLen pre) op := by
  obtain ⟨e, he, hsh⟩ := runFrom_shape h pre b hr
  have := step_isSome_iff hsh op
  simp only [List.nil_append, ← payloadLen_of_body he] at this
  rw [← this]
  cases b.step op <;> simp

theorem call_fails_iff (vc afp : UInt8) (pre : List Op) {b : Builder}
    (hr : Builder.runFrom (Builder.new vc afp) pre = some b) (op : Op) :
    b.step op = none ↔ ¬ opOk (16 + payloadLen pre) op := by
  simpa [Spec.V2.addrBytes] using call_fails_iff_shape (shape_new vc afp) pre hr op

theorem call_fails_iff_with (vc : UInt8) (t : Transport) (a : Addresses) (pre : List Op) {b : Builder}
    (hr : Builder.runFrom (Builder.withAddresses vc t a) pre = some b) (op : Op) :
    b.step op = none ↔ ¬ opOk (16 + (Spec.V2.addrBytes a).length + payloadLen pre) op :=
  call_fails_iff_shape (shape_withAddresses vc t a) pre hr op

theorem overflow_fails_direct_shape {b : Builder} {vc afp : UInt8} {addr : Addresses}
    (h : Shape b vc afp addr none []) (ops : List Op) (hno : lengthInForce ops = none)
    (e : B) (he : body ops = some e) (hbig : 65535 < (Spec.V2.addrBytes addr).length + e.length) :
    b.run ops = none := by
  rw [run_none_iff h ops, payloadLen_of_body he]
  exact .inr ⟨hno, hbig⟩

/-- **C09 (direct form).** With no explicit length in force, a history whose
payload bytes (the specified encodings of everything written) exceed 65535 fails
instead of emitting a wrapped length. -/
theorem overflow_fails_direct (vc afp : UInt8) (ops : List Op) (hno : lengthInForce ops = none)
    (e : B) (he : body ops = some e) (hbig : 65535 < e.length) : (Builder.new vc afp).run ops = none :=
  overflow_fails_direct_shape (shape_new vc afp) ops hno e he (by simpa [Spec.V2.addrBytes] using hbig)

theorem overflow_fails_direct_with (vc : UInt8) (t : Transport) (a : Addresses) (ops : List Op)
    (hno : lengthInForce ops = none) (e : B) (he : body ops = some e)
    (hbig : 65535 < (Spec.V2.addrBytes a).length + e.length) :
    (Builder.withAddresses vc t a).run ops = none :=
  overflow_fails_direct_shape (shape_withAddresses vc t a) ops hno e he hbig

theorem build_only_failure_shape {b0 b : Builder} {vc afp : UInt8} {addr : Addresses}
    (h : Shape b0 vc afp addr none []) (ops : List Op) (hr : Builder.runFrom b0 ops = some b) :
    (lengthInForce ops = none →
      (b.build = none ↔ 65535 < (Spec.V2.addrBytes addr).length + payloadLen ops)) ∧
    (∀ l, lengthInForce ops = some l → b.build ≠ none) := by
  obtain ⟨e, he, hsh⟩ := runFrom_shape h ops b hr
  rw [build_shape hsh, payloadLen_of_body he]
  simp only [List.nil_append]
  constructor
  · intro hno
    have hno' : lengthFrom none ops = none := hno
    simp only [buildOf, hno']
    split
    · simp only [reduceCtorEq, false_iff]; omega
    · simp only [true_iff]; omega
  · intro l hl
    have hl' : lengthFrom none ops = some l := hl
    simp only [buildOf, hl', ne_eq, reduceCtorEq, not_false_eq_true]

/-- **C09 (`build` is the call that fails).** When every call of a history was
accepted (state `b` reached) and no explicit length is in force, `build` itself
returns `Err` exactly when the payload bytes exceed 65535; with an explicit
length in force `build` never fails. -/
theorem build_only_failure (vc afp : UInt8) (ops : List Op) {b : Builder}
    (hr : Builder.runFrom (Builder.new vc afp) ops = some b) :
    (lengthInForce ops = none → (b.build = none ↔ 65535 < payloadLen ops)) ∧
    (∀ l, lengthInForce ops = some l → b.build ≠ none) := by
  simpa [Spec.V2.addrBytes] using build_only_failure_shape (shape_new vc afp) ops hr

theorem build_only_failure_with (vc : UInt8) (t : Transport) (a : Addresses) (ops : List Op) {b : Builder}
    (hr : Builder.runFrom (Builder.withAddresses vc t a) ops = some b) :
    (lengthInForce ops = none →
      (b.build = none ↔ 65535 < (Spec.V2.addrBytes a).length + payloadLen ops)) ∧
    (∀ l, lengthInForce ops = some l → b.build ≠ none) :=
  build_only_failure_shape (shape_withAddresses vc t a) ops hr

/-- Non-vacuity of `oversized_call_fails`: a 65536-byte slice is oversized, and an
accepted prefix exists. -/
example : oversized (.slice (List.replicate 65536 0)) := by
  simp only [oversized, List.length_replicate]; omega

example : ∃ b, Builder.runFrom (Builder.new 0x21 0x11) [.writePayload (.int 1 7)] = some b := ⟨_, rfl⟩

/-- Non-vacuity of `build_only_failure` / `overflow_fails_direct`: the two accepted
writes of `V2.crossing` (65535 bytes, then one more) reach a state, carry no
explicit length, and total 65536 payload bytes. -/
example : (∃ b, Builder.runFrom (Builder.new 0x21 0x11) (crossing.take 2) = some b) ∧
    lengthInForce (crossing.take 2) = none ∧ payloadLen (crossing.take 2) = 65536 := by
  refine ⟨(runFrom_isSome_iff (shape_new 0x21 0x11) _).mpr ?_, rfl, ?_⟩
  · simp only [crossing, List.take, opsOk, opOk, opLen, okAt_slice_iff, encLen_slice,
      List.length_replicate, List.length_cons, List.length_nil, Spec.V2.addrBytes]
    decide
  · simp only [crossing, List.take, payloadLen, List.map_cons, List.map_nil, opLen, encLen_slice,
      List.length_replicate, List.length_cons, List.length_nil, List.sum_cons, List.sum_nil]
    decide

example (bs : B) (h : bs.length = 65535) :
    body [.writePayload (.slice bs), .writePayload (.slice [0])] = some (bs ++ [0]) ∧
    65535 < (bs ++ [0]).length := by
  simp [Spec.Builder.body, opPayloads, encAll, enc, h]

end C09
