import PppModel.Lemmas.Builder

/-!
# C09 — builder length field is never stale, truncated or silently wrong

The model includes the repair of defect D7 (`fix:` commit in /repo): `build`
writes the explicit length in force at that moment into the field.
-/

namespace C09
open V2 Spec.Builder

/-- `set_length` takes a `u16`. -/
def Op.wf : Op → Prop
  | .setLength (some l) => l < 65536
  | _ => True

theorem lengthFrom_lt (acc : Option Nat) (ops : List Op) (hacc : ∀ l, acc = some l → l < 65536)
    (hwf : ∀ op ∈ ops, Op.wf op) : ∀ l, lengthFrom acc ops = some l → l < 65536 := by
  induction ops generalizing acc with
  | nil => simpa [lengthFrom] using hacc
  | cons op ops ih =>
    rw [lengthFrom_cons]
    apply ih
    · intro l hl
      cases op with
      | setLength l' =>
        simp only [lenAfter] at hl; subst hl
        exact hwf (.setLength (some l)) (List.mem_cons_self ..)
      | reserve n => exact hacc l hl
      | writePayload p => exact hacc l hl
      | writePayloads ps => exact hacc l hl
      | writeTlv k v => exact hacc l hl
    · intro op' h'; exact hwf op' (List.mem_cons_of_mem _ h')

theorem length_field_shape {b : Builder} {vc afp : UInt8} {addr : Addresses}
    (h : Shape b vc afp addr none []) (ops : List Op) (hwf : ∀ op ∈ ops, Op.wf op) (out : B)
    (hr : b.run ops = some out) :
    16 ≤ out.length ∧
    be16 (byteAt out 14) (byteAt out 15) = (lengthInForce ops).getD (out.length - 16) := by
  obtain ⟨e, he, hb⟩ := run_some h ops out hr
  have hlt := lengthFrom_lt none ops (by simp) hwf
  unfold buildOf at hb
  cases hl : lengthInForce ops with
  | some l =>
    rw [hl] at hb
    simp only [Option.some.injEq] at hb; subst hb
    have := hlt l hl
    refine ⟨by rw [hdrOf_length]; omega, ?_⟩
    simp only [hdrOf, sig, be16Bytes, Option.getD_some]
    simp only [List.cons_append, List.nil_append, byteAt_cons_succ, byteAt_cons_zero]
    exact be16_be16Bytes l this
  | none =>
    rw [hl] at hb
    simp only at hb
    split at hb
    · rename_i hle
      simp only [Option.some.injEq] at hb; subst hb
      refine ⟨by rw [hdrOf_length]; omega, ?_⟩
      rw [hdrOf_length]
      simp only [hdrOf, sig, be16Bytes, Option.getD_none]
      simp only [List.cons_append, List.nil_append, byteAt_cons_succ, byteAt_cons_zero]
      rw [be16_be16Bytes _ (by omega)]
      omega
    · cases hb

/-- **C09.** If `build` succeeds the 16-bit length field equals the explicit
length in force at that moment, and otherwise the actual number of bytes
following the 16-byte fixed part. -/
theorem length_field (vc afp : UInt8) (ops : List Op) (hwf : ∀ op ∈ ops, Op.wf op) (out : B)
    (hr : (Builder.new vc afp).run ops = some out) :
    16 ≤ out.length ∧
    be16 (byteAt out 14) (byteAt out 15) = (lengthInForce ops).getD (out.length - 16) :=
  length_field_shape (shape_new vc afp) ops hwf out hr

theorem length_field_with (vc : UInt8) (t : Transport) (a : Addresses) (ops : List Op)
    (hwf : ∀ op ∈ ops, Op.wf op) (out : B) (hr : (Builder.withAddresses vc t a).run ops = some out) :
    16 ≤ out.length ∧
    be16 (byteAt out 14) (byteAt out 15) = (lengthInForce ops).getD (out.length - 16) :=
  length_field_shape (shape_withAddresses vc t a) ops hwf out hr

theorem overflow_fails_shape {b : Builder} {vc afp : UInt8} {addr : Addresses}
    (h : Shape b vc afp addr none []) (ops : List Op) (hno : lengthInForce ops = none) (out : B)
    (hr : b.run ops = some out) : out.length - 16 ≤ 65535 := by
  obtain ⟨e, he, hb⟩ := run_some h ops out hr
  unfold buildOf at hb
  rw [hno] at hb
  simp only at hb
  split at hb
  · simp only [Option.some.injEq] at hb; subst hb
    rw [hdrOf_length]; omega
  · cases hb

/-- With no explicit length in force, a payload of more than 65535 bytes makes
`build` fail instead of emitting a wrapped length. -/
theorem overflow_fails (vc afp : UInt8) (ops : List Op) (hno : lengthInForce ops = none) (out : B)
    (hr : (Builder.new vc afp).run ops = some out) : out.length - 16 ≤ 65535 :=
  overflow_fails_shape (shape_new vc afp) ops hno out hr

theorem overflow_fails_with (vc : UInt8) (t : Transport) (a : Addresses) (ops : List Op)
    (hno : lengthInForce ops = none) (out : B)
    (hr : (Builder.withAddresses vc t a).run ops = some out) : out.length - 16 ≤ 65535 :=
  overflow_fails_shape (shape_withAddresses vc t a) ops hno out hr

/-- The values that do not fit a 16-bit length. -/
def oversized : Payload → Prop
  | .slice bs => 65535 < bs.length
  | .tlv _ v => 65535 < v.length
  | .pair _ v => 65535 < v.length
  | _ => False

theorem enc_none_of_oversized (p : Payload) (h : oversized p) : enc p = none := by
  cases p <;> simp_all [oversized, enc] <;> omega

theorem oversized_value_fails_shape {b : Builder} {vc afp : UInt8} {addr : Addresses}
    (h : Shape b vc afp addr none []) (ops : List Op)
    (hbig : ∃ p ∈ ops.flatMap opPayloads, oversized p) : b.run ops = none := by
  cases hr : b.run ops with
  | none => rfl
  | some out =>
    obtain ⟨e, he, -⟩ := run_some h ops out hr
    obtain ⟨p, hp, hov⟩ := hbig
    obtain ⟨ep, hep⟩ := encAll_some_all he p hp
    rw [enc_none_of_oversized p hov] at hep; cases hep

/-- A single TLV value or byte-slice payload of more than 65535 bytes anywhere in
the history makes the history fail. -/
theorem oversized_value_fails (vc afp : UInt8) (ops : List Op)
    (hbig : ∃ p ∈ ops.flatMap opPayloads, oversized p) : (Builder.new vc afp).run ops = none :=
  oversized_value_fails_shape (shape_new vc afp) ops hbig

theorem oversized_value_fails_with (vc : UInt8) (t : Transport) (a : Addresses) (ops : List Op)
    (hbig : ∃ p ∈ ops.flatMap opPayloads, oversized p) : (Builder.withAddresses vc t a).run ops = none :=
  oversized_value_fails_shape (shape_withAddresses vc t a) ops hbig

/-- Non-vacuity, and the D7 witness: an explicit length set *after* the first
write is the one in the output. -/
example : (Builder.new 0x21 0x11).run [.writePayload (.int 1 7), .setLength (some 5)] =
    some [0x0D, 0x0A, 0x0D, 0x0A, 0x00, 0x0D, 0x0A, 0x51, 0x55, 0x49, 0x54, 0x0A, 0x21, 0x11, 0, 5, 7] := by
  decide

example : lengthInForce [.setLength (some 3), .writePayload (.int 1 7), .setLength none] = none := by decide

end C09
