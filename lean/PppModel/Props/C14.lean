import PppModel.Props.C02

/-!
# C14 — v2 header views partition the header consistently
-/

namespace C14
open V2 Spec.V2

/-- Every accepted header is the encoding of its own fields (from C02). -/
theorem accepted_is_encoding {x : B} {h : Header} (hp : V2.parse x = .ok h) :
    ∃ rest, (addrBytes h.addresses).length + rest.length ≤ 65535 ∧
      h = encHeader h.command h.protocol h.addresses rest := by
  obtain ⟨cmd, tr, addr, rest, trail, hle, -, rfl⟩ := (C02.accept_iff x h).mp hp
  exact ⟨rest, hle, rfl⟩

/-- The address bytes followed by the TLV bytes are exactly the payload after
the 16-byte fixed part. -/
theorem views_partition {x : B} {h : Header} (hp : V2.parse x = .ok h) :
    h.addressBytes ++ h.tlvBytes = h.header.drop 16 := by
  obtain ⟨rest, -, he⟩ := accepted_is_encoding hp
  obtain ⟨-, h2, h3, h4⟩ := views_of_encode h.command h.protocol h.addresses rest
  rw [he, h2, h3, h4]
  cases hf : h.addresses <;> simp [Addresses.family, addrBytes]

/-- Sizes: the address view has the size of the family (the whole payload for the
unspecified family); payload length + 16 = total length = length of the raw
bytes; the payload length is the length field. -/
theorem lengths {x : B} {h : Header} (hp : V2.parse x = .ok h) :
    h.addressBytes.length = (if h.addressFamily = .unspec then h.length else familySize h.addressFamily) ∧
    h.length + 16 = h.len ∧ h.len = h.header.length ∧ h.asBytes = h.header ∧
    h.length = be16 (byteAt h.header 14) (byteAt h.header 15) ∧
    h.addresses.len = familySize h.addressFamily := by
  obtain ⟨rest, hle, he⟩ := accepted_is_encoding hp
  obtain ⟨h1, h2, h3, h4⟩ := views_of_encode h.command h.protocol h.addresses rest
  have hal := addrBytes_length h.addresses
  have hlen16 : h.header.length = 16 + ((addrBytes h.addresses).length + rest.length) := by
    rw [he]; simp [encHeader, encode, signature, u16be]; omega
  rw [← he] at h1 h2 h3 h4
  refine ⟨?_, ?_, rfl, rfl, ?_, ?_⟩
  · rw [h3, h1]
    simp only [Header.addressFamily]
    by_cases hf : h.addresses.family = .unspec
    · simp only [hf, if_true] at hal ⊢
      simp only [familySize] at hal
      omega
    · simp only [hf, if_false]; exact hal
  · simp only [Header.len]; rw [h1, hlen16]; omega
  · rw [h1]
    have b14 : byteAt h.header 14 = UInt8.ofNat (((addrBytes h.addresses).length + rest.length) / 256) := by
      rw [he]; simp [encHeader, encode, signature, byteAt, u16be]
    have b15 : byteAt h.header 15 = UInt8.ofNat (((addrBytes h.addresses).length + rest.length) % 256) := by
      rw [he]; simp [encHeader, encode, signature, byteAt, u16be]
    rw [b14, b15, be16_be16Bytes _ (by omega)]
  · simp [Addresses.len, Header.addressFamily, size_eq_spec]

/-- The reported family is the family nibble on the wire and the family of the
decoded address value. -/
theorem family {x : B} {h : Header} (hp : V2.parse x = .ok h) :
    byteAt h.header 13 = familyTransport h.addressFamily h.protocol ∧
    byteAt h.header 12 = versionCommand h.command ∧
    h.addressFamily = h.addresses.family ∧
    byteAt x 13 = byteAt h.header 13 := by
  obtain ⟨cmd, tr, addr, rest, trail, hle, rfl, rfl⟩ := (C02.accept_iff x h).mp hp
  refine ⟨?_, ?_, rfl, ?_⟩ <;> simp [encode, signature, byteAt, Header.addressFamily]

/-- The decoded address value is the big-endian decoding of the address view:
re-encoding it gives the view back, and decoding the view gives the value. -/
theorem addresses_decode {x : B} {h : Header} (hp : V2.parse x = .ok h) :
    (h.addressFamily ≠ .unspec → addrBytes h.addresses = h.addressBytes) ∧
    (h.addressFamily = .unspec → h.addresses = .unspec) ∧
    (h.addressFamily ≠ .unspec → parseAddresses h.addressFamily h.addressBytes = h.addresses) := by
  obtain ⟨rest, -, he⟩ := accepted_is_encoding hp
  obtain ⟨-, -, h3, -⟩ := views_of_encode h.command h.protocol h.addresses rest
  rw [← he] at h3
  refine ⟨?_, ?_, ?_⟩
  · intro hf
    have hf' : h.addresses.family ≠ .unspec := hf
    rw [h3, if_neg hf']
  · intro hf
    simp only [Header.addressFamily] at hf
    cases ha : h.addresses <;> simp [ha, Addresses.family] at hf ⊢
  · intro hf
    have hf' : h.addresses.family ≠ .unspec := hf
    rw [h3, if_neg hf']
    exact parseAddresses_addrBytes h.addresses

/-- Owned copies expose the same views (ownership is erased in the model). -/
theorem owned_same (h : Header) : h.toOwned = h := rfl

/-- Non-vacuity: an IPv4 header with a 4-byte TLV section is accepted and its views are as stated. -/
example :
    (V2.parse [0x0D, 0x0A, 0x0D, 0x0A, 0x00, 0x0D, 0x0A, 0x51, 0x55, 0x49, 0x54, 0x0A,
               0x21, 0x11, 0x00, 0x10, 127, 0, 0, 1, 192, 168, 1, 1, 0, 80, 1, 187,
               4, 0, 1, 42]).toOption.map (fun h => (h.addressBytes, h.tlvBytes, h.length)) =
      some ([127, 0, 0, 1, 192, 168, 1, 1, 0, 80, 1, 187], [4, 0, 1, 42], 16) := by decide

/-! ### Additions after audit 4: where the split is, the helper methods, the nibbles -/

/-- Where the partition splits (the non-degenerate content of "partition"; `views_partition`
alone holds for any split point): on an accepted header `address_bytes_end()` lies inside
the buffer and not below 16 (so the two Rust slices are in range), the address view is the
first `size` bytes of the payload and the TLV view is everything after them, where `size`
is the protocol's size of the header's family, or the whole payload for the unspecified
family. -/
theorem split_point {x : B} {h : Header} (hp : V2.parse x = .ok h) :
    16 ≤ h.addressBytesEnd ∧ h.addressBytesEnd ≤ h.header.length ∧
    h.addressBytes = (h.header.drop 16).take
      (if h.addressFamily = .unspec then h.length else familySize h.addressFamily) ∧
    h.tlvBytes = (h.header.drop 16).drop
      (if h.addressFamily = .unspec then h.length else familySize h.addressFamily) := by
  obtain ⟨rest, hle, he⟩ := accepted_is_encoding hp
  obtain ⟨h1, h2, h3, h4⟩ := views_of_encode h.command h.protocol h.addresses rest
  have hal := addrBytes_length h.addresses
  obtain ⟨-, hl2, hl3, -⟩ := lengths hp
  rw [← he] at h1 h2 h3 h4
  have hlen : h.length = (h.header.drop 16).length := by simp [Header.length, minLen]
  have hnil : h.addresses.family = .unspec → addrBytes h.addresses = [] := by
    intro hf
    rw [hf] at hal
    exact List.eq_nil_of_length_eq_zero hal
  refine ⟨?_, ?_, ?_, ?_⟩
  · simp only [Header.addressBytesEnd, minLen]; omega
  · simp only [Header.addressBytesEnd, Header.length, List.length_drop, minLen]; omega
  · rw [h3, h2]
    simp only [Header.addressFamily]
    by_cases hf : h.addresses.family = .unspec
    · simp only [hf, if_true]
      rw [hlen, h2, hnil hf]
      simp
    · simp only [hf, if_false]
      rw [← hal]; simp
  · rw [h4, h2]
    simp only [Header.addressFamily]
    by_cases hf : h.addresses.family = .unspec
    · simp only [hf, if_true]
      rw [hlen, h2, hnil hf]
      simp
    · simp only [hf, if_false]
      rw [← hal]; simp

/-- The helper methods named in the anchors: `Header::is_empty` is `false` on every
accepted header; `Addresses::is_empty` holds exactly for the unspecified family;
`u16::from(AddressFamily)` is the protocol's address-block size (no `as u16` wrap);
for the unspecified family the TLV view is empty. -/
theorem helpers {x : B} {h : Header} (hp : V2.parse x = .ok h) :
    h.isEmpty = false ∧ h.addresses.isEmpty = decide (h.addressFamily = .unspec) ∧
    h.addressFamily.toU16 = familySize h.addressFamily ∧
    (h.addressFamily = .unspec → h.tlvBytes = []) := by
  obtain ⟨-, hl2, hl3, -⟩ := lengths hp
  obtain ⟨-, -, -, ht⟩ := split_point hp
  refine ⟨?_, ?_, ?_, ?_⟩
  · cases hh : h.header with
    | nil => rw [hh] at hl3; simp at hl3; omega
    | cons a l => simp [Header.isEmpty, hh]
  · simp only [Header.addressFamily]
    have key : ∀ a : Addresses, a.isEmpty = decide (a.family = .unspec) := by
      intro a; cases a <;> simp [Addresses.isEmpty, Addresses.family, Family.byteLength]
    exact key _
  · cases h.addressFamily <;> rfl
  · intro hu
    rw [ht, if_pos hu]
    simp only [Header.length, minLen, List.drop_drop, List.drop_eq_nil_iff, List.length_drop]
    omega

/-- The nibbles on the wire, stated as nibbles: the high half of byte 13 is the family
code of the protocol document (0, 1, 2, 3), the low half the transport code (0, 1, 2), and
the high half of byte 12 is the version, 2. -/
theorem nibbles {x : B} {h : Header} (hp : V2.parse x = .ok h) :
    (byteAt h.header 13).toNat / 16 = familyNibble h.addressFamily ∧
    (byteAt h.header 13).toNat % 16 = transportNibble h.protocol ∧
    (byteAt h.header 12).toNat / 16 = 2 := by
  obtain ⟨h13, h12, -, -⟩ := family hp
  rw [h13, h12]
  refine ⟨?_, ?_, ?_⟩
  · cases h.addressFamily <;> cases h.protocol <;> decide
  · cases h.addressFamily <;> cases h.protocol <;> decide
  · cases h.command <;> decide

/-- Non-vacuity of `split_point` / `helpers` / `nibbles`: the IPv6 / DGRAM header with an
empty TLV section, and the IPv4 header above; the values are the ones the theorems give. -/
example :
    (V2.parse [0x0D, 0x0A, 0x0D, 0x0A, 0x00, 0x0D, 0x0A, 0x51, 0x55, 0x49, 0x54, 0x0A,
               0x21, 0x11, 0x00, 0x10, 127, 0, 0, 1, 192, 168, 1, 1, 0, 80, 1, 187,
               4, 0, 1, 42]).toOption.map
      (fun h => ([h.addressBytesEnd, h.addressFamily.toU16,
                  (byteAt h.header 13).toNat / 16, (byteAt h.header 13).toNat % 16,
                  (byteAt h.header 12).toNat / 16], h.isEmpty, h.addresses.isEmpty)) =
      some ([28, 12, 1, 1, 2], false, false) := by decide

example :
    (V2.parse [0x0D, 0x0A, 0x0D, 0x0A, 0x00, 0x0D, 0x0A, 0x51, 0x55, 0x49, 0x54, 0x0A,
               0x20, 0x02, 0x00, 0x03, 7, 8, 9]).toOption.map
      (fun h => ([h.addressBytesEnd, h.addressFamily.toU16, (byteAt h.header 13).toNat / 16,
                  (byteAt h.header 13).toNat % 16], h.addressBytes, h.tlvBytes,
                 h.addresses.isEmpty)) =
      some ([19, 0, 0, 2], [7, 8, 9], [], true) := by decide

end C14
