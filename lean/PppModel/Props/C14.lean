import PppModel.Props.C02

/-!
# C14 — v2 header views partition the header consistently
-/

namespace C14
open V2 Spec.V2

/-- Every accepted header is the encoding of its own fields (from C02). -/
theorem accepted_is_encoding {x : B} {h : Header} (hp : V2.parse x = .ok h) :
    ∃ rest, (addrBytes h.addresses).length + rest.length ≤ 65535 ∧
      h = encHeader h.command h.protocol h.addresses rest := by
  obtain ⟨cmd, tr, addr, rest, trail, hle, -, rfl⟩ := (C02.accept_iff x h).mp hp
  exact ⟨rest, hle, rfl⟩

/-- The address bytes followed by the TLV bytes are exactly the payload after
the 16-byte fixed part. -/
theorem views_partition {x : B} {h : Header} (hp : V2.parse x = .ok h) :
    h.addressBytes ++ h.tlvBytes = h.header.drop 16 := by
  obtain ⟨rest, -, he⟩ := accepted_is_encoding hp
  obtain ⟨-, h2, h3, h4⟩ := views_of_encode h.command h.protocol h.addresses rest
  rw [he, h2, h3, h4]
  cases hf : h.addresses <;> simp [Addresses.family, addrBytes]

/-- Sizes: the address view has the size of the family (the whole payload for the
unspecified family); payload length + 16 = total length = length of the raw
bytes; the payload length is the length field. -/
theorem lengths {x : B} {h : Header} (hp : V2.parse x = .ok h) :
    h.addressBytes.length = (if h.addressFamily = .unspec then h.length else familySize h.addressFamily) ∧
    h.length + 16 = h.len ∧ h.len = h.header.length ∧ h.asBytes = h.header ∧
    h.length = be16 (byteAt h.header 14) (byteAt h.header 15) ∧
    h.addresses.len = familySize h.addressFamily := by
  obtain ⟨rest, hle, he⟩ := accepted_is_encoding hp
  obtain ⟨h1, h2, h3, h4⟩ := views_of_encode h.command h.protocol h.addresses rest
  have hal := addrBytes_length h.addresses
  have hlen16 : h.header.length = 16 + ((addrBytes h.addresses).length + rest.length) := by
    rw [he]; simp [encHeader, encode, signature, u16be]; omega
  rw [← he] at h1 h2 h3 h4
  refine ⟨?_, ?_, rfl, rfl, ?_, ?_⟩
  · rw [h3, h1]
    simp only [Header.addressFamily]
    by_cases hf : h.addresses.family = .unspec
    · simp only [hf, if_true] at hal ⊢
      simp only [familySize] at hal
      omega
    · simp only [hf, if_false]; exact hal
  · simp only [Header.len]; rw [h1, hlen16]; omega
  · rw [h1]
    have b14 : byteAt h.header 14 = UInt8.ofNat (((addrBytes h.addresses).length + rest.length) / 256) := by
      rw [he]; simp [encHeader, encode, signature, byteAt, u16be]
    have b15 : byteAt h.header 15 = UInt8.ofNat (((addrBytes h.addresses).length + rest.length) % 256) := by
      rw [he]; simp [encHeader, encode, signature, byteAt, u16be]
    rw [b14, b15, be16_be16Bytes _ (by omega)]
  · simp [Addresses.len, Header.addressFamily, size_eq_spec]

/-- The reported family is the family nibble on the wire and the family of the
decoded address value. -/
theorem family {x : B} {h : Header} (hp : V2.parse x = .ok h) :
    byteAt h.header 13 = familyTransport h.addressFamily h.protocol ∧
    byteAt h.header 12 = versionCommand h.command ∧
    h.addressFamily = h.addresses.family ∧
    byteAt x 13 = byteAt h.header 13 := by
  obtain ⟨cmd, tr, addr, rest, trail, hle, rfl, rfl⟩ := (C02.accept_iff x h).mp hp
  refine ⟨?_, ?_, rfl, ?_⟩ <;> simp [encode, signature, byteAt, Header.addressFamily]

/-- The decoded address value is the big-endian decoding of the address view:
re-encoding it gives the view back, and decoding the view gives the value. -/
theorem addresses_decode {x : B} {h : Header} (hp : V2.parse x = .ok h) :
    (h.addressFamily ≠ .unspec → addrBytes h.addresses = h.addressBytes) ∧
    (h.addressFamily = .unspec → h.addresses = .unspec) ∧
    (h.addressFamily ≠ .unspec → parseAddresses h.addressFamily h.addressBytes = h.addresses) := by
  obtain ⟨rest, -, he⟩ := accepted_is_encoding hp
  obtain ⟨-, -, h3, -⟩ := views_of_encode h.command h.protocol h.addresses rest
  rw [← he] at h3
  refine ⟨?_, ?_, ?_⟩
  · intro hf
    have hf' : h.addresses.family ≠ .unspec := hf
    rw [h3, if_neg hf']
  · intro hf
    simp only [Header.addressFamily] at hf
    cases ha : h.addresses <;> simp [ha, Addresses.family] at hf ⊢
  · intro hf
    have hf' : h.addresses.family ≠ .unspec := hf
    rw [h3, if_neg hf']
    exact parseAddresses_addrBytes h.addresses

/-- Owned copies expose the same views (ownership is erased in the model). -/
theorem owned_same (h : Header) : h.toOwned = h := rfl

/-- Non-vacuity: an IPv4 header with a 4-byte TLV section is accepted and its views are as stated. -/
example :
    (V2.parse [0x0D, 0x0A, 0x0D, 0x0A, 0x00, 0x0D, 0x0A, 0x51, 0x55, 0x49, 0x54, 0x0A,
               0x21, 0x11, 0x00, 0x10, 127, 0, 0, 1, 192, 168, 1, 1, 0, 80, 1, 187,
               4, 0, 1, 42]).toOption.map (fun h => (h.addressBytes, h.tlvBytes, h.length)) =
      some ([127, 0, 0, 1, 192, 168, 1, 1, 0, 80, 1, 187], [4, 0, 1, 42], 16) := by decide

end C14
