import PppModel.Lemmas.Builder
import PppModel.Props.C02
import PppModel.Props.C11

/-!
# C07 — the v2 builder emits the specified wire format and its output parses back unchanged
-/

namespace C07
open V2 Spec.Builder

/-- The calls that write a list of TLVs. -/
def tlvOps (tlvs : List Tlv) : List Op := tlvs.map (fun t => .writeTlv t.kind t.value)

theorem encAll_tlvOps (tlvs : List Tlv) (h : ∀ t ∈ tlvs, t.value.length ≤ 65535) :
    encAll ((tlvOps tlvs).flatMap opPayloads) = some (tlvs.flatMap Spec.Tlv.enc) := by
  induction tlvs with
  | nil => rfl
  | cons t ts ih =>
    have ht := h t (List.mem_cons_self ..)
    have := ih (fun t' h' => h t' (List.mem_cons_of_mem _ h'))
    simp only [tlvOps, List.map_cons, List.flatMap_cons, opPayloads] at this ⊢
    simp only [List.cons_append, List.nil_append, encAll, enc, ht, if_true, this]

theorem lengthInForce_tlvOps (tlvs : List Tlv) : lengthInForce (tlvOps tlvs) = none := by
  suffices h : ∀ acc, lengthFrom acc (tlvOps tlvs) = acc from h none
  induction tlvs with
  | nil => intro acc; rfl
  | cons t ts ih => intro acc; simp only [tlvOps, List.map_cons, lengthFrom_cons, lenAfter]; exact ih acc


/-- **C07 (wire format).** For every command, transport, address value and TLV
list whose encoding fits in 65535 bytes, the header built from them is byte for
byte the PROXY v2 wire encoding. -/
theorem build_is_encoding (cmd : Command) (tr : Transport) (addr : Addresses) (tlvs : List Tlv)
    (hv : ∀ t ∈ tlvs, t.value.length ≤ 65535)
    (hfit : (Spec.V2.addrBytes addr).length + (tlvs.flatMap Spec.Tlv.enc).length ≤ 65535) :
    (Builder.withAddresses (vcByte .two cmd) tr addr).run (tlvOps tlvs) =
      some (Spec.V2.encode cmd tr addr (tlvs.flatMap Spec.Tlv.enc)) := by
  rw [run_succeeds (shape_withAddresses _ tr addr) (tlvOps tlvs) _ (encAll_tlvOps tlvs hv) hfit,
    lengthInForce_tlvOps]
  simp only [buildOf, hfit, if_true, hdrOf, Spec.V2.encode, sig_eq_spec, vc_eq_spec,
    afpByte_eq_spec, be16Bytes, Spec.V2.u16be]

/-- The same with the control byte written out, and through `write_payload` of a
TLV value or a (type, bytes) pair (they are the same call, C10.tlv_pair_same). -/
theorem build_is_encoding_vc (cmd : Command) (tr : Transport) (addr : Addresses) (tlvs : List Tlv)
    (hv : ∀ t ∈ tlvs, t.value.length ≤ 65535)
    (hfit : (Spec.V2.addrBytes addr).length + (tlvs.flatMap Spec.Tlv.enc).length ≤ 65535) :
    (Builder.withAddresses (Spec.V2.versionCommand cmd) tr addr).run (tlvOps tlvs) =
      some (Spec.V2.encode cmd tr addr (tlvs.flatMap Spec.Tlv.enc)) := by
  rw [← vc_eq_spec]; exact build_is_encoding cmd tr addr tlvs hv hfit

/-- **C07 (parses back).** Parsing the built header returns the same command,
transport, addresses and bytes. -/
theorem parses_back (cmd : Command) (tr : Transport) (addr : Addresses) (tlvs : List Tlv)
    (hfit : (Spec.V2.addrBytes addr).length + (tlvs.flatMap Spec.Tlv.enc).length ≤ 65535) (trail : B) :
    V2.parse (Spec.V2.encode cmd tr addr (tlvs.flatMap Spec.Tlv.enc) ++ trail) =
      .ok (encHeader cmd tr addr (tlvs.flatMap Spec.Tlv.enc)) :=
  (C02.accept_iff _ _).mpr ⟨cmd, tr, addr, _, trail, hfit, rfl, rfl⟩

theorem walk_encoded (total : Nat) (tlvs : List Tlv) (hv : ∀ t ∈ tlvs, t.value.length ≤ 65535) :
    Spec.Tlv.walkFrom total (tlvs.flatMap Spec.Tlv.enc) = tlvs.map .ok := by
  induction tlvs with
  | nil => simp [Spec.Tlv.walkFrom]
  | cons t ts ih =>
    have ht := hv t (List.mem_cons_self ..)
    have := ih (fun t' h' => hv t' (List.mem_cons_of_mem _ h'))
    simp only [List.flatMap_cons, Spec.Tlv.enc, List.cons_append, Spec.Tlv.walkFrom, List.map_cons]
    have h1 : (UInt8.ofNat (t.value.length / 256)).toNat * 256 + (UInt8.ofNat (t.value.length % 256)).toNat =
        t.value.length := by simp; omega
    rw [h1]
    have h2 : ¬ (t.value ++ List.flatMap Spec.Tlv.enc ts).length < t.value.length := by simp
    simp only [h2, if_false, List.take_left', List.drop_left', this]

/-- **C07 (TLVs back).** Whenever an address family is specified, iterating the
parsed header yields the same TLV sequence in the same order. -/
theorem tlvs_back (cmd : Command) (tr : Transport) (addr : Addresses) (tlvs : List Tlv)
    (hv : ∀ t ∈ tlvs, t.value.length ≤ 65535) (hfam : addr.family ≠ .unspec) :
    (encHeader cmd tr addr (tlvs.flatMap Spec.Tlv.enc)).tlvs = tlvs.map .ok := by
  obtain ⟨-, -, -, h4⟩ := views_of_encode cmd tr addr (tlvs.flatMap Spec.Tlv.enc)
  rw [C11.header_tlvs_eq_walk, h4, if_neg hfam]
  exact walk_encoded _ tlvs hv

/-- **C07 (codes).** The named TLV types carry their registered codes, and the
control nibbles are the protocol's. -/
theorem type_codes :
    (∀ t : TlvType, t.code = typeCode t) ∧
    (∀ c : Command, vcByte .two c = Spec.V2.versionCommand c) ∧
    (∀ (f : Family) (t : Transport), afpByte f t = Spec.V2.familyTransport f t) ∧
    (∀ f : Family, f.size = Spec.V2.familySize f) ∧ V2.sig = Spec.V2.signature :=
  ⟨typeCode_eq, vc_eq_spec, afpByte_eq_spec, size_eq_spec, rfl⟩

/-- Non-vacuity: two TLVs of different types behind an IPv4 block. -/
example :
    let a : Addresses := .ipv4 { srcAddr := ⟨1, 2, 3, 4⟩, srcPort := 1, dstAddr := ⟨5, 6, 7, 8⟩, dstPort := 2 }
    (Builder.withAddresses 0x21 .stream a).run (tlvOps [⟨1, [0x68, 0x32]⟩, ⟨0x30, []⟩]) =
      some (Spec.V2.encode .proxy .stream a [1, 0, 2, 0x68, 0x32, 0x30, 0, 0]) := by decide

end C07
