import PppModel.Lemmas.Builder
import PppModel.Props.C02
import PppModel.Props.C11

/-!
# C07 — the v2 builder emits the specified wire format and its output parses back unchanged
-/

namespace C07
open V2 Spec.Builder

/-- The calls that write a list of TLVs. -/
def tlvOps (tlvs : List Tlv) : List Op := tlvs.map (fun t => .writeTlv t.kind t.value)

theorem encAll_tlvOps (tlvs : List Tlv) (h : ∀ t ∈ tlvs, t.value.length ≤ 65535) :
    encAll ((tlvOps tlvs).flatMap opPayloads) = some (tlvs.flatMap Spec.Tlv.enc) := by
  induction tlvs with
  | nil => rfl
  | cons t ts ih =>
    have ht := h t (List.mem_cons_self ..)
    have := ih (fun t' h' => h t' (List.mem_cons_of_mem _ h'))
    simp only [tlvOps, List.map_cons, List.flatMap_cons, opPayloads] at this ⊢
    simp only [List.cons_append, List.nil_append, encAll, enc, ht, if_true, this]

theorem lengthInForce_tlvOps (tlvs : List Tlv) : lengthInForce (tlvOps tlvs) = none := by
  suffices h : ∀ acc, lengthFrom acc (tlvOps tlvs) = acc from h none
  induction tlvs with
  | nil => intro acc; rfl
  | cons t ts ih => intro acc; simp only [tlvOps, List.map_cons, lengthFrom_cons, lenAfter]; exact ih acc


/-- **C07 (wire format).** For every command, transport, address value and TLV
list whose encoding fits in 65535 bytes, the header built from them is byte for
byte the PROXY v2 wire encoding. -/
theorem build_is_encoding (cmd : Command) (tr : Transport) (addr : Addresses) (tlvs : List Tlv)
    (hv : ∀ t ∈ tlvs, t.value.length ≤ 65535)
    (hfit : (Spec.V2.addrBytes addr).length + (tlvs.flatMap Spec.Tlv.enc).length ≤ 65535) :
    (Builder.withAddresses (vcByte .two cmd) tr addr).run (tlvOps tlvs) =
      some (Spec.V2.encode cmd tr addr (tlvs.flatMap Spec.Tlv.enc)) := by
  rw [run_succeeds (shape_withAddresses _ tr addr) (tlvOps tlvs) _ (encAll_tlvOps tlvs hv) hfit,
    lengthInForce_tlvOps]
  simp only [buildOf, hfit, if_true, hdrOf, Spec.V2.encode, sig_eq_spec, vc_eq_spec,
    afpByte_eq_spec, be16Bytes, Spec.V2.u16be]

/-- The same with the control byte written out, and through `write_payload` of a
TLV value or a (type, bytes) pair (they are the same call, C10.tlv_pair_same). -/
theorem build_is_encoding_vc (cmd : Command) (tr : Transport) (addr : Addresses) (tlvs : List Tlv)
    (hv : ∀ t ∈ tlvs, t.value.length ≤ 65535)
    (hfit : (Spec.V2.addrBytes addr).length + (tlvs.flatMap Spec.Tlv.enc).length ≤ 65535) :
    (Builder.withAddresses (Spec.V2.versionCommand cmd) tr addr).run (tlvOps tlvs) =
      some (Spec.V2.encode cmd tr addr (tlvs.flatMap Spec.Tlv.enc)) := by
  rw [← vc_eq_spec]; exact build_is_encoding cmd tr addr tlvs hv hfit

/-- **C07 (parses back).** Parsing the built header returns the same command,
transport, addresses and bytes. -/
theorem parses_back (cmd : Command) (tr : Transport) (addr : Addresses) (tlvs : List Tlv)
    (hfit : (Spec.V2.addrBytes addr).length + (tlvs.flatMap Spec.Tlv.enc).length ≤ 65535) (trail : B) :
    V2.parse (Spec.V2.encode cmd tr addr (tlvs.flatMap Spec.Tlv.enc) ++ trail) =
      .ok (encHeader cmd tr addr (tlvs.flatMap Spec.Tlv.enc)) :=
  (C02.accept_iff _ _).mpr ⟨cmd, tr, addr, _, trail, hfit, rfl, rfl⟩

theorem walk_encoded (total : Nat) (tlvs : List Tlv) (hv : ∀ t ∈ tlvs, t.value.length ≤ 65535) :
    Spec.Tlv.walkFrom total (tlvs.flatMap Spec.Tlv.enc) = tlvs.map .ok := by
  induction tlvs with
  | nil => simp [Spec.Tlv.walkFrom]
  | cons t ts ih =>
    have ht := hv t (List.mem_cons_self ..)
    have := ih (fun t' h' => hv t' (List.mem_cons_of_mem _ h'))
    simp only [List.flatMap_cons, Spec.Tlv.enc, List.cons_append, Spec.Tlv.walkFrom, List.map_cons]
    have h1 : (UInt8.ofNat (t.value.length / 256)).toNat * 256 + (UInt8.ofNat (t.value.length % 256)).toNat =
        t.value.length := by simp; omega
    rw [h1]
    have h2 : ¬ (t.value ++ List.flatMap Spec.Tlv.enc ts).length < t.value.length := by simp
    simp only [h2, if_false, List.take_left', List.drop_left', this]

/-- **C07 (TLVs back).** Whenever an address family is specified, iterating the
parsed header yields the same TLV sequence in the same order. -/
theorem tlvs_back (cmd : Command) (tr : Transport) (addr : Addresses) (tlvs : List Tlv)
    (hv : ∀ t ∈ tlvs, t.value.length ≤ 65535) (hfam : addr.family ≠ .unspec) :
    (encHeader cmd tr addr (tlvs.flatMap Spec.Tlv.enc)).tlvs = tlvs.map .ok := by
  obtain ⟨-, -, -, h4⟩ := views_of_encode cmd tr addr (tlvs.flatMap Spec.Tlv.enc)
  rw [C11.header_tlvs_eq_walk, h4, if_neg hfam]
  exact walk_encoded _ tlvs hv

/-- **C07 (codes).** The named TLV types carry their registered codes, and the
control nibbles are the protocol's. -/
theorem type_codes :
    (∀ t : TlvType, t.code = typeCode t) ∧
    (∀ c : Command, vcByte .two c = Spec.V2.versionCommand c) ∧
    (∀ (f : Family) (t : Transport), afpByte f t = Spec.V2.familyTransport f t) ∧
    (∀ f : Family, f.size = Spec.V2.familySize f) ∧ V2.sig = Spec.V2.signature :=
  ⟨typeCode_eq, vc_eq_spec, afpByte_eq_spec, size_eq_spec, rfl⟩

/-- Non-vacuity: two TLVs of different types behind an IPv4 block. -/
example :
    let a : Addresses := .ipv4 { srcAddr := ⟨1, 2, 3, 4⟩, srcPort := 1, dstAddr := ⟨5, 6, 7, 8⟩, dstPort := 2 }
    (Builder.withAddresses 0x21 .stream a).run (tlvOps [⟨1, [0x68, 0x32]⟩, ⟨0x30, []⟩]) =
      some (Spec.V2.encode .proxy .stream a [1, 0, 2, 0x68, 0x32, 0x30, 0, 0]) := by decide

/-! ### End to end: the builder's own output parses back (audit 3, C07 (a)/(e)) -/

/-- A TLV section that fits in `n` bytes has no value longer than `n`: the
per-value hypothesis `hv` of `build_is_encoding` follows from `hfit`. -/
theorem values_le_of_fit (tlvs : List Tlv) (n : Nat) (hfit : (tlvs.flatMap Spec.Tlv.enc).length ≤ n) :
    ∀ t ∈ tlvs, t.value.length ≤ n := by
  induction tlvs with
  | nil => intro t ht; cases ht
  | cons t ts ih =>
    simp only [List.flatMap_cons, List.length_append, Spec.Tlv.enc, List.length_cons] at hfit
    intro t' ht'
    rcases List.mem_cons.mp ht' with rfl | h
    · omega
    · exact ih (by omega) t' h

/-- No `set_length` call in a history: no explicit length is in force. -/
theorem lengthInForce_none_of_no_setLength (ops : List Op) (h : ∀ op ∈ ops, ∀ l, op ≠ .setLength l) :
    lengthInForce ops = none := by
  suffices hs : ∀ acc, lengthFrom acc ops = acc from hs none
  induction ops with
  | nil => intro acc; rfl
  | cons op ops ih =>
    intro acc
    rw [lengthFrom_cons, ih (fun o ho => h o (List.mem_cons_of_mem _ ho))]
    cases op with
    | setLength l => exact absurd rfl (h _ (List.mem_cons_self ..) l)
    | reserve n => rfl
    | writePayload p => rfl
    | writePayloads ps => rfl
    | writeTlv k v => rfl

/-- Payloads that each encode as one TLV encode, in order, as the TLV section. -/
theorem encAll_map_tlv (f : Tlv → Payload)
    (hf : ∀ t, t.value.length ≤ 65535 → enc (f t) = some (Spec.Tlv.enc t))
    (tlvs : List Tlv) (hv : ∀ t ∈ tlvs, t.value.length ≤ 65535) :
    encAll (tlvs.map f) = some (tlvs.flatMap Spec.Tlv.enc) := by
  induction tlvs with
  | nil => rfl
  | cons t ts ih =>
    have ht := hf t (hv t (List.mem_cons_self ..))
    have := ih (fun t' h' => hv t' (List.mem_cons_of_mem _ h'))
    simp only [List.map_cons, List.flatMap_cons, encAll, ht, this]

/-- **C07 (wire format), any route.** Whatever calls are used, if the reference
body of the history (`Spec.Builder.body`: the specified encodings of the written
values, in call order) is `e`, no explicit length is in force and everything fits
in 65535 bytes, the built header is the PROXY v2 wire encoding with section `e`. -/
theorem build_is_encoding_of_body (cmd : Command) (tr : Transport) (addr : Addresses) (ops : List Op)
    (e : B) (he : body ops = some e) (hno : lengthInForce ops = none)
    (hfit : (Spec.V2.addrBytes addr).length + e.length ≤ 65535) :
    (Builder.withAddresses (vcByte .two cmd) tr addr).run ops = some (Spec.V2.encode cmd tr addr e) := by
  rw [run_succeeds (shape_withAddresses _ tr addr) ops e he hfit, hno]
  simp only [buildOf, hfit, if_true, hdrOf, Spec.V2.encode, sig_eq_spec, vc_eq_spec,
    afpByte_eq_spec, be16Bytes, Spec.V2.u16be]

/-- **C07 (round trip), any route.** The bytes the builder returns, followed by
any trailer, parse back to the command, transport and addresses the builder was
given; the parsed header is exactly the built bytes; and, when an address family
is specified, iterating it yields the written TLVs in order. -/
theorem roundtrip_of_body (cmd : Command) (tr : Transport) (addr : Addresses) (tlvs : List Tlv)
    (ops : List Op) (he : body ops = some (tlvs.flatMap Spec.Tlv.enc)) (hno : lengthInForce ops = none)
    (hfit : (Spec.V2.addrBytes addr).length + (tlvs.flatMap Spec.Tlv.enc).length ≤ 65535) (trail : B) :
    ∃ out h, (Builder.withAddresses (vcByte .two cmd) tr addr).run ops = some out ∧
      V2.parse (out ++ trail) = .ok h ∧ h.header = out ∧ h.version = .two ∧ h.command = cmd ∧
      h.protocol = tr ∧ h.addresses = addr ∧
      (addr.family ≠ .unspec → h.tlvs = tlvs.map .ok) :=
  ⟨_, _, build_is_encoding_of_body cmd tr addr ops _ he hno hfit,
    parses_back cmd tr addr tlvs hfit trail, rfl, rfl, rfl, rfl, rfl,
    tlvs_back cmd tr addr tlvs (values_le_of_fit tlvs _ (by omega))⟩

/-- **C07 (round trip).** The header built from a command, a transport, an address
value and a TLV list (`write_tlv` each) whose encoding fits in 65535 bytes parses
back — with any trailer — to the same command, transport, addresses and header
bytes, and (family specified) to the same TLVs in the same order. -/
theorem roundtrip (cmd : Command) (tr : Transport) (addr : Addresses) (tlvs : List Tlv)
    (hfit : (Spec.V2.addrBytes addr).length + (tlvs.flatMap Spec.Tlv.enc).length ≤ 65535) (trail : B) :
    ∃ out h, (Builder.withAddresses (vcByte .two cmd) tr addr).run (tlvOps tlvs) = some out ∧
      V2.parse (out ++ trail) = .ok h ∧ h.header = out ∧ h.version = .two ∧ h.command = cmd ∧
      h.protocol = tr ∧ h.addresses = addr ∧
      (addr.family ≠ .unspec → h.tlvs = tlvs.map .ok) :=
  roundtrip_of_body cmd tr addr tlvs _
    (encAll_tlvOps tlvs (values_le_of_fit tlvs _ (by omega))) (lengthInForce_tlvOps tlvs) hfit trail

/-- The calls that write a list of TLVs through `write_payload` of a value built by `f`. -/
def payloadOps (f : Tlv → Payload) (tlvs : List Tlv) : List Op := tlvs.map (fun t => .writePayload (f t))

theorem body_payloadOps (f : Tlv → Payload)
    (hf : ∀ t, t.value.length ≤ 65535 → enc (f t) = some (Spec.Tlv.enc t))
    (tlvs : List Tlv) (hv : ∀ t ∈ tlvs, t.value.length ≤ 65535) :
    body (payloadOps f tlvs) = some (tlvs.flatMap Spec.Tlv.enc) := by
  have : (payloadOps f tlvs).flatMap opPayloads = tlvs.map f := by
    induction tlvs with
    | nil => rfl
    | cons t ts ih =>
      have := ih (fun t' h' => hv t' (List.mem_cons_of_mem _ h'))
      simp only [payloadOps, List.map_cons, List.flatMap_cons, opPayloads] at this ⊢
      rw [this]; rfl
  rw [Spec.Builder.body, this]
  exact encAll_map_tlv f hf tlvs hv

theorem lengthInForce_payloadOps (f : Tlv → Payload) (tlvs : List Tlv) :
    lengthInForce (payloadOps f tlvs) = none := by
  apply lengthInForce_none_of_no_setLength
  intro op hop l hl
  obtain ⟨t, -, rfl⟩ := List.mem_map.mp hop
  cases hl

theorem enc_tlv_of_le (t : Tlv) (h : t.value.length ≤ 65535) :
    enc (.tlv t.kind t.value) = some (Spec.Tlv.enc t) := by simp only [enc, h, if_true]

theorem enc_pair_of_le (t : Tlv) (h : t.value.length ≤ 65535) :
    enc (.pair t.kind t.value) = some (Spec.Tlv.enc t) := by simp only [enc, h, if_true]

/-- **C07 (round trip), `write_payload` of a `(type, bytes)` pair each.** -/
theorem roundtrip_pairs (cmd : Command) (tr : Transport) (addr : Addresses) (tlvs : List Tlv)
    (hfit : (Spec.V2.addrBytes addr).length + (tlvs.flatMap Spec.Tlv.enc).length ≤ 65535) (trail : B) :
    ∃ out h, (Builder.withAddresses (vcByte .two cmd) tr addr).run
        (tlvs.map (fun t => Op.writePayload (.pair t.kind t.value))) = some out ∧
      V2.parse (out ++ trail) = .ok h ∧ h.header = out ∧ h.version = .two ∧ h.command = cmd ∧
      h.protocol = tr ∧ h.addresses = addr ∧
      (addr.family ≠ .unspec → h.tlvs = tlvs.map .ok) :=
  roundtrip_of_body cmd tr addr tlvs (payloadOps (fun t => .pair t.kind t.value) tlvs)
    (body_payloadOps _ enc_pair_of_le tlvs (values_le_of_fit tlvs _ (by omega)))
    (lengthInForce_payloadOps _ tlvs) hfit trail

/-- **C07 (round trip), `write_payload` of a `TypeLengthValue` each.** -/
theorem roundtrip_tlv_payloads (cmd : Command) (tr : Transport) (addr : Addresses) (tlvs : List Tlv)
    (hfit : (Spec.V2.addrBytes addr).length + (tlvs.flatMap Spec.Tlv.enc).length ≤ 65535) (trail : B) :
    ∃ out h, (Builder.withAddresses (vcByte .two cmd) tr addr).run
        (tlvs.map (fun t => Op.writePayload (.tlv t.kind t.value))) = some out ∧
      V2.parse (out ++ trail) = .ok h ∧ h.header = out ∧ h.version = .two ∧ h.command = cmd ∧
      h.protocol = tr ∧ h.addresses = addr ∧
      (addr.family ≠ .unspec → h.tlvs = tlvs.map .ok) :=
  roundtrip_of_body cmd tr addr tlvs (payloadOps (fun t => .tlv t.kind t.value) tlvs)
    (body_payloadOps _ enc_tlv_of_le tlvs (values_le_of_fit tlvs _ (by omega)))
    (lengthInForce_payloadOps _ tlvs) hfit trail

/-- **C07 (round trip), ONE `write_payloads` batch** of values each built by `f`
(a `TypeLengthValue` or a `(type, bytes)` pair; see the two corollaries). -/
theorem roundtrip_batch_of (f : Tlv → Payload)
    (hf : ∀ t, t.value.length ≤ 65535 → enc (f t) = some (Spec.Tlv.enc t))
    (cmd : Command) (tr : Transport) (addr : Addresses) (tlvs : List Tlv)
    (hfit : (Spec.V2.addrBytes addr).length + (tlvs.flatMap Spec.Tlv.enc).length ≤ 65535) (trail : B) :
    ∃ out h, (Builder.withAddresses (vcByte .two cmd) tr addr).run [.writePayloads (tlvs.map f)] = some out ∧
      V2.parse (out ++ trail) = .ok h ∧ h.header = out ∧ h.version = .two ∧ h.command = cmd ∧
      h.protocol = tr ∧ h.addresses = addr ∧
      (addr.family ≠ .unspec → h.tlvs = tlvs.map .ok) := by
  refine roundtrip_of_body cmd tr addr tlvs [.writePayloads (tlvs.map f)] ?_ rfl hfit trail
  simp only [Spec.Builder.body, List.flatMap_cons, List.flatMap_nil, opPayloads, List.append_nil]
  exact encAll_map_tlv f hf tlvs (values_le_of_fit tlvs _ (by omega))

/-- **C07 (round trip), one `write_payloads` batch of `TypeLengthValue`s.** -/
theorem roundtrip_batch (cmd : Command) (tr : Transport) (addr : Addresses) (tlvs : List Tlv)
    (hfit : (Spec.V2.addrBytes addr).length + (tlvs.flatMap Spec.Tlv.enc).length ≤ 65535) (trail : B) :
    ∃ out h, (Builder.withAddresses (vcByte .two cmd) tr addr).run
        [.writePayloads (tlvs.map (fun t => .tlv t.kind t.value))] = some out ∧
      V2.parse (out ++ trail) = .ok h ∧ h.header = out ∧ h.version = .two ∧ h.command = cmd ∧
      h.protocol = tr ∧ h.addresses = addr ∧
      (addr.family ≠ .unspec → h.tlvs = tlvs.map .ok) :=
  roundtrip_batch_of _ enc_tlv_of_le cmd tr addr tlvs hfit trail

/-- **C07 (round trip), one `write_payloads` batch of `(type, bytes)` pairs.** -/
theorem roundtrip_batch_pairs (cmd : Command) (tr : Transport) (addr : Addresses) (tlvs : List Tlv)
    (hfit : (Spec.V2.addrBytes addr).length + (tlvs.flatMap Spec.Tlv.enc).length ≤ 65535) (trail : B) :
    ∃ out h, (Builder.withAddresses (vcByte .two cmd) tr addr).run
        [.writePayloads (tlvs.map (fun t => .pair t.kind t.value))] = some out ∧
      V2.parse (out ++ trail) = .ok h ∧ h.header = out ∧ h.version = .two ∧ h.command = cmd ∧
      h.protocol = tr ∧ h.addresses = addr ∧
      (addr.family ≠ .unspec → h.tlvs = tlvs.map .ok) :=
  roundtrip_batch_of _ enc_pair_of_le cmd tr addr tlvs hfit trail

/-- Non-vacuity of the round trip: an IPv4 block, two TLVs written as one batch
of pairs, a two-byte trailer; parses back to the same parts. -/
example :
    let a : Addresses := .ipv4 { srcAddr := ⟨1, 2, 3, 4⟩, srcPort := 1, dstAddr := ⟨5, 6, 7, 8⟩, dstPort := 2 }
    ((Builder.withAddresses (vcByte .two .proxy) .stream a).run
        [.writePayloads [.pair 1 [0x68, 0x32], .pair 0x30 []]]).map (fun out =>
      (V2.parse (out ++ [7, 7])).toOption.map (fun h =>
        h.header == out && h.addresses == a && h.tlvs == [.ok ⟨1, [0x68, 0x32]⟩, .ok ⟨0x30, []⟩])) =
      some (some true) := by decide +kernel

/-- The hypotheses of `roundtrip_of_body` (hence of every variant) are satisfiable: the batch above
has the TLV section as its reference body, no explicit length, and fits. -/
example :
    let a : Addresses := .ipv4 { srcAddr := ⟨1, 2, 3, 4⟩, srcPort := 1, dstAddr := ⟨5, 6, 7, 8⟩, dstPort := 2 }
    let tlvs : List Tlv := [⟨1, [0x68, 0x32]⟩, ⟨0x30, []⟩]
    let ops : List Op := [.writePayloads [.pair 1 [0x68, 0x32], .pair 0x30 []]]
    Spec.Builder.body ops = some (tlvs.flatMap Spec.Tlv.enc) ∧ lengthInForce ops = none ∧
    (Spec.V2.addrBytes a).length + (tlvs.flatMap Spec.Tlv.enc).length ≤ 65535 := by decide

/-! ### Named TLV types on the built bytes (audit 3, C07 (a), third item) -/

/-- A TLV of a named type, with the registered code of the protocol text. -/
def namedTlv (p : TlvType × B) : Tlv := ⟨typeCode p.1, p.2⟩

/-- Byte offset of the `j`-th TLV inside a section. -/
def tlvOffset (tlvs : List Tlv) (j : Nat) : Nat := ((tlvs.take j).map (fun t => 3 + t.value.length)).sum

/-- The first byte of the `j`-th TLV of an encoded section is its type. -/
theorem byteAt_section_kind (tlvs : List Tlv) (j : Nat) (hj : j < tlvs.length) (post : B) :
    byteAt (tlvs.flatMap Spec.Tlv.enc ++ post) (tlvOffset tlvs j) = tlvs[j].kind := by
  induction tlvs generalizing j with
  | nil => cases hj
  | cons t ts ih =>
    cases j with
    | zero => simp [tlvOffset, Spec.Tlv.enc]
    | succ j =>
      have hlen : (Spec.Tlv.enc t).length = 3 + t.value.length := by
        simp only [Spec.Tlv.enc, List.length_cons]; omega
      have hoff : tlvOffset (t :: ts) (j + 1) = (Spec.Tlv.enc t).length + tlvOffset ts j := by
        simp only [tlvOffset, List.take_succ_cons, List.map_cons, List.sum_cons, hlen]
      rw [hoff, List.flatMap_cons, List.append_assoc, byteAt_append_right (by omega),
        Nat.add_sub_cancel_left]
      simpa using ih j (by simpa using hj)

/-- **C07 (codes, on the built bytes).** Writing TLVs of named types (`write_tlv(Type::X, value)`,
i.e. the model's discriminant `TlvType.code`) builds the wire encoding whose TLVs carry the
*registered* codes `Spec.Builder.typeCode`: the first byte of the `j`-th TLV in the built bytes —
at offset 16 + address block + the sizes of the TLVs before it — is the registered code of its type;
and parsing the built bytes back yields those registered codes. -/
theorem named_type_codes_on_bytes (cmd : Command) (tr : Transport) (addr : Addresses)
    (nts : List (TlvType × B))
    (hfit : (Spec.V2.addrBytes addr).length + ((nts.map namedTlv).flatMap Spec.Tlv.enc).length ≤ 65535)
    (trail : B) :
    ∃ out h, (Builder.withAddresses (vcByte .two cmd) tr addr).run
        (nts.map (fun p => Op.writeTlv p.1.code p.2)) = some out ∧
      out = Spec.V2.encode cmd tr addr ((nts.map namedTlv).flatMap Spec.Tlv.enc) ∧
      (∀ j (hj : j < nts.length),
        byteAt out (16 + (Spec.V2.addrBytes addr).length + tlvOffset (nts.map namedTlv) j) =
          typeCode nts[j].1) ∧
      V2.parse (out ++ trail) = .ok h ∧ h.header = out ∧
      (addr.family ≠ .unspec → h.tlvs = nts.map (fun p => .ok ⟨typeCode p.1, p.2⟩)) := by
  have hops : nts.map (fun p => Op.writeTlv p.1.code p.2) = tlvOps (nts.map namedTlv) := by
    simp only [tlvOps, List.map_map]
    apply List.map_congr_left
    intro p _
    simp only [Function.comp, namedTlv, typeCode_eq]
  obtain ⟨out, h, h1, h2, h3, -, -, -, -, h8⟩ := roundtrip cmd tr addr (nts.map namedTlv) hfit trail
  have hout : out = Spec.V2.encode cmd tr addr ((nts.map namedTlv).flatMap Spec.Tlv.enc) := by
    have := build_is_encoding cmd tr addr (nts.map namedTlv)
      (values_le_of_fit _ _ (by omega)) hfit
    rw [h1] at this; exact Option.some.inj this
  refine ⟨out, h, by rw [hops]; exact h1, hout, ?_, h2, h3, ?_⟩
  · intro j hj
    have hpre : (Spec.V2.signature ++ [Spec.V2.versionCommand cmd, Spec.V2.familyTransport addr.family tr] ++
        Spec.V2.u16be ((Spec.V2.addrBytes addr).length +
          ((nts.map namedTlv).flatMap Spec.Tlv.enc).length) ++ Spec.V2.addrBytes addr).length =
        16 + (Spec.V2.addrBytes addr).length := by
      simp [Spec.V2.signature, Spec.V2.u16be]; omega
    rw [hout, Spec.V2.encode, byteAt_append_right (by rw [hpre]; omega), hpre, Nat.add_sub_cancel_left]
    have := byteAt_section_kind (nts.map namedTlv) j (by simpa using hj) []
    simpa [namedTlv] using this
  · intro hfam
    rw [h8 hfam, List.map_map]; rfl

/-- Non-vacuity: an ALPN and a NETNS TLV behind an IPv4 block; bytes 28 and 33 of the built header
are the registered codes 0x01 and 0x30. -/
example :
    let a : Addresses := .ipv4 { srcAddr := ⟨1, 2, 3, 4⟩, srcPort := 1, dstAddr := ⟨5, 6, 7, 8⟩, dstPort := 2 }
    ((Builder.withAddresses (vcByte .two .proxy) .stream a).run
        [.writeTlv TlvType.alpn.code [0x68, 0x32], .writeTlv TlvType.networkNamespace.code [9]]).map
      (fun out => (byteAt out 28, byteAt out 33)) = some (0x01, 0x30) := by decide +kernel

end C07
