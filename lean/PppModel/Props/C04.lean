import PppModel.Auto

/-! # C04 (theorems under construction) -/

namespace C04
end C04
