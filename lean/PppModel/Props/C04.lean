import PppModel.Auto
import PppModel.Lemmas.V1Entry
import PppModel.Lemmas.V2Blame
import PppModel.Props.C01
import PppModel.Props.C06
import PppModel.Props.C18

/-!
# C04 — an accepted header never depends on or consumes the bytes that follow it

For each parser (`v2`, `v1` bytes, `v1` text and both `FromStr`, and the auto-detecting
`HeaderResult::parse`), if an input `x` is accepted with header `h` then

* `x ++ t` is accepted with the very same `h`, whatever `t` is (`*_trailing`, first part);
* `h.header` alone is accepted with the same `h` (second part), and `h.header` is a prefix
  of `x` — so the result is a function of the header bytes only, and the bytes after them
  are left to the caller;
* the number of bytes the caller must remove from its buffer is `h.header.length`, which is
  `16 + declared length` for v2 and `firstCR x + 2` (the line through its LF) for v1
  (`consumed_length`).
-/

namespace C04
open V1

/-! ## v2 -/

/-- **C04 (v2).** -/
theorem v2_trailing {x : B} {h : V2.Header} (hp : V2.parse x = .ok h) (t : B) :
    V2.parse (x ++ t) = .ok h ∧ V2.parse h.header = .ok h ∧ h.header <+: x ∧
      h.header.length = 16 + be16 (byteAt x 14) (byteAt x 15) := by
  obtain ⟨h1, h2, -, h4⟩ := V2.parse_header_self hp
  exact ⟨V2.parse_trailing hp t, h1, h2, h4⟩

/-! ## v1, byte entry point -/

/-- An accepted v1 input is CR-frozen: its first CR is at `h.header.length - 2` and the LF
after it is present; the same holds of the header on its own. -/
theorem v1_accepted_frozen {x : B} {h : V1.Header} (hp : V1.parseBytes x = .ok h) :
    ∃ c rest, x = h.header ++ rest ∧ h.header.length = c + 2 ∧
      V1.firstCR x = some c ∧ c + 1 < x.length ∧
      V1.firstCR h.header = some c ∧ c + 1 < h.header.length := by
  obtain ⟨rest, hx, -, -, hl⟩ := (C01.bytes_accept_iff_partial x h).mp hp
  obtain ⟨-, -, hcr, h15, -⟩ := C01.accepted_header_facts hp
  obtain ⟨-, hcr', -⟩ := line_window hl
  refine ⟨h.header.length - 2, rest, hx, by omega, hcr, ?_, hcr', by omega⟩
  have := congrArg List.length hx
  simp only [List.length_append] at this
  omega

/-- **C04 (v1 bytes).** -/
theorem v1_bytes_trailing {x : B} {h : V1.Header} (hp : V1.parseBytes x = .ok h) (t : B) :
    V1.parseBytes (x ++ t) = .ok h ∧ V1.parseBytes h.header = .ok h ∧ h.header <+: x ∧
      (∃ c, V1.firstCR x = some c ∧ h.header.length = c + 2) := by
  obtain ⟨c, rest, hx, hlen, h1, h2, h3, h4⟩ := v1_accepted_frozen hp
  refine ⟨?_, ?_, ⟨rest, hx.symm⟩, c, h1, hlen⟩
  · rw [C18.frozen_stable_bytes x t c h1 h2]; exact hp
  · rw [← C18.frozen_stable_bytes h.header rest c h3 h4, ← hx]; exact hp

/-! ## v1, text entry point and both `FromStr` -/

/-- The same facts from the text entry point. -/
theorem v1_accepted_frozen_str {x : B} {h : V1.Header} (hp : V1.parseStr x = .ok h) :
    ∃ c rest, x = h.header ++ rest ∧ h.header.length = c + 2 ∧
      V1.firstCR x = some c ∧ c + 1 < x.length ∧
      V1.firstCR h.header = some c ∧ c + 1 < h.header.length ∧
      V1.parseHeader h.header = .ok h := by
  obtain ⟨rest, hx, hlen, hl⟩ := C01.str_accept_line hp
  obtain ⟨-, -, hcr, h15, -⟩ := C01.accepted_header_facts_str hp
  obtain ⟨-, hcr', -⟩ := line_window hl
  refine ⟨h.header.length - 2, rest, hx, by omega, hcr, ?_, hcr', by omega, ?_⟩
  · have := congrArg List.length hx
    simp only [List.length_append] at this
    omega
  · exact parseHeader_ok_of_line hlen hl

/-- **C04 (v1 text).** `x` and `x ++ t` are both `&str`. -/
theorem v1_str_trailing {x : B} {h : V1.Header} (hp : V1.parseStr x = .ok h) (t : B)
    (hx : Utf8.valid x = true) (hxt : Utf8.valid (x ++ t) = true) :
    V1.parseStr (x ++ t) = .ok h ∧ V1.parseStr h.header = .ok h ∧ h.header <+: x := by
  obtain ⟨c, rest, hxe, hlen, h1, h2, h3, h4, hph⟩ := v1_accepted_frozen_str hp
  have htake : x.take (c + 2) = h.header := by
    rw [hxe, ← hlen]; exact List.take_left' rfl
  refine ⟨?_, ?_, ⟨rest, hxe.symm⟩⟩
  · obtain ⟨hw, ht⟩ := window_append_frozen t h1 h2
    rw [parseStr_ok_iff_window]
    refine ⟨c + 2, hw, ?_, by rw [ht, htake]; exact hph⟩
    -- the window is a valid string (it is a well-formed line cut out of `x` at a boundary),
    -- so it ends on a boundary of the valid string `x ++ t` too
    obtain ⟨n, hwx, hb, -⟩ := (parseStr_ok_iff_window x h).mp hp
    rw [windowLength_frozen_cr h1 h2] at hwx
    cases hwx
    have hv : Utf8.valid (x.take (c + 2)) = true := by
      rw [Utf8.valid_take_iff_boundary x hx (c + 2) (by omega)]; exact hb
    rw [← Utf8.valid_take_iff_boundary (x ++ t) hxt (c + 2) (by simp only [List.length_append]; omega),
      ht]
    exact hv
  · rw [parseStr_ok_iff_window]
    refine ⟨h.header.length, ?_, Utf8.isCharBoundary_length _, by rw [List.take_length]; exact hph⟩
    rw [windowLength_frozen_cr h3 h4, hlen]

/-- **C04 (`FromStr for Header`).** -/
theorem fromStrHeader_trailing {x : B} {h : V1.Header} (hp : V1.fromStrHeader x = .ok h) (t : B)
    (hx : Utf8.valid x = true) (hxt : Utf8.valid (x ++ t) = true) :
    V1.fromStrHeader (x ++ t) = .ok h ∧ V1.fromStrHeader h.header = .ok h ∧ h.header <+: x := by
  simp only [C01.fromStrHeader_eq] at hp ⊢
  exact v1_str_trailing hp t hx hxt

/-- **C04 (`FromStr for Addresses`).** -/
theorem fromStrAddresses_trailing {x : B} {a : V1.Addresses} (hp : V1.fromStrAddresses x = .ok a)
    (t : B) (hx : Utf8.valid x = true) (hxt : Utf8.valid (x ++ t) = true) :
    V1.fromStrAddresses (x ++ t) = .ok a := by
  unfold V1.fromStrAddresses at hp
  cases hs : V1.parseStr x with
  | error e => rw [hs] at hp; cases hp
  | ok h =>
    rw [hs] at hp
    simp only [Except.ok.injEq] at hp
    have := (v1_str_trailing hs t hx hxt).1
    simp [V1.fromStrAddresses, this, hp]

/-! ## Version auto-detection -/

/-- The v2 parser rejects terminally anything that starts with `P`. -/
theorem v2_rejects_P (r : B) : V2.parse (0x50 :: r) = .error .badPrefix := by
  by_cases h12 : (0x50 :: r).length < 12
  · apply V2.blame_signature_short _ h12
    intro hpre
    obtain ⟨s, hs⟩ := hpre
    have := congrArg List.head? hs
    simp [V2.sig] at this
  · apply V2.blame_signature _ (by omega)
    intro hs
    have := congrArg List.head? hs
    simp [V2.sig] at this

theorem auto_v2_ok_iff (x : B) (h : V2.Header) : Auto.parse x = .v2 (.ok h) ↔ V2.parse x = .ok h := by
  rw [C06.auto_def]
  cases hv : V2.parse x with
  | ok h' => simp
  | error e => cases he : e.isIncomplete <;> simp [he]

theorem auto_v1_iff (x : B) (r : Except V1.BinaryParseError V1.Header) :
    Auto.parse x = .v1 r ↔
      (∃ e, V2.parse x = .error e ∧ e.isIncomplete = false) ∧ V1.parseBytes x = r := by
  rw [C06.auto_def]
  cases hv : V2.parse x with
  | ok h' => simp
  | error e =>
    cases he : e.isIncomplete
    · simp only [Bool.false_eq_true, if_false, Auto.HeaderResult.v1.injEq, Except.error.injEq,
        exists_eq_left', he, true_and]
    · simp [he]

/-- **C04 (auto-detection).** -/
theorem auto_trailing {x : B} (t : B) :
    (∀ h, Auto.parse x = .v2 (.ok h) → Auto.parse (x ++ t) = .v2 (.ok h) ∧ Auto.parse h.header = .v2 (.ok h)) ∧
    (∀ h, Auto.parse x = .v1 (.ok h) → Auto.parse (x ++ t) = .v1 (.ok h) ∧ Auto.parse h.header = .v1 (.ok h)) := by
  constructor
  · intro h hp
    rw [auto_v2_ok_iff] at hp ⊢
    rw [auto_v2_ok_iff]
    exact ⟨V2.parse_trailing hp t, (V2.parse_header_self hp).1⟩
  · intro h hp
    rw [auto_v1_iff] at hp ⊢
    rw [auto_v1_iff]
    obtain ⟨⟨e, he1, he2⟩, hb⟩ := hp
    obtain ⟨k1, k2, -, -⟩ := v1_bytes_trailing hb t
    refine ⟨⟨⟨e, V2.terminal_stable he1 he2 t, he2⟩, k1⟩, ⟨?_, k2⟩⟩
    -- the header starts with `PROXY `
    obtain ⟨-, -, -, h15, h6⟩ := C01.accepted_header_facts hb
    refine ⟨.badPrefix, ?_, rfl⟩
    cases hh : h.header with
    | nil => rw [hh] at h15; simp at h15
    | cons b r =>
      rw [hh] at h6
      have : b = 0x50 := by
        have := congrArg List.head? h6
        simpa [V1.PROXY] using this
      subst this
      exact v2_rejects_P r

/-! ## How many bytes the caller must remove -/

/-- The accepted header is a prefix of the input and its length — the number of bytes to
remove from the buffer before handing the rest to the application — is `16 + declared
length` for v2 and `first CR + 2` for v1; the auto-detecting parser reports whichever
applies to the parser that accepted. -/
theorem consumed_length {x : B} :
    (∀ h, V2.parse x = .ok h → h.header = x.take h.header.length ∧
        h.header.length = 16 + be16 (byteAt x 14) (byteAt x 15)) ∧
    (∀ h, V1.parseBytes x = .ok h → h.header = x.take h.header.length ∧
        ∃ c, V1.firstCR x = some c ∧ h.header.length = c + 2) ∧
    (∀ h, V1.parseStr x = .ok h → h.header = x.take h.header.length ∧
        ∃ c, V1.firstCR x = some c ∧ h.header.length = c + 2) ∧
    (∀ h, Auto.parse x = .v2 (.ok h) → h.header = x.take h.header.length ∧
        h.header.length = 16 + be16 (byteAt x 14) (byteAt x 15)) ∧
    (∀ h, Auto.parse x = .v1 (.ok h) → h.header = x.take h.header.length ∧
        ∃ c, V1.firstCR x = some c ∧ h.header.length = c + 2) := by
  have v2 : ∀ h, V2.parse x = .ok h → h.header = x.take h.header.length ∧
      h.header.length = 16 + be16 (byteAt x 14) (byteAt x 15) := by
    intro h hp
    obtain ⟨-, -, h3, h4⟩ := V2.parse_header_self hp
    exact ⟨by rw [h4]; exact h3, h4⟩
  have v1 : ∀ h, V1.parseBytes x = .ok h → h.header = x.take h.header.length ∧
      ∃ c, V1.firstCR x = some c ∧ h.header.length = c + 2 := by
    intro h hp
    obtain ⟨c, rest, hx, hlen, h1, -⟩ := v1_accepted_frozen hp
    refine ⟨?_, c, h1, hlen⟩
    conv => rhs; rw [hx]
    exact (List.take_left' rfl).symm
  refine ⟨v2, v1, ?_, ?_, ?_⟩
  · intro h hp
    obtain ⟨c, rest, hx, hlen, h1, -⟩ := v1_accepted_frozen_str hp
    refine ⟨?_, c, h1, hlen⟩
    conv => rhs; rw [hx]
    exact (List.take_left' rfl).symm
  · intro h hp; exact v2 h ((auto_v2_ok_iff x h).mp hp)
  · intro h hp; exact v1 h ((auto_v1_iff x _).mp hp).2

/-! ## Non-vacuity -/

/-- `PROXY UNKNOWN\r\n` -/
private def unk : B := [0x50,0x52,0x4F,0x58,0x59,0x20,0x55,0x4E,0x4B,0x4E,0x4F,0x57,0x4E,0x0D,0x0A]

/-- A v2 LOCAL header without addresses. -/
private def loc : B := [0x0D,0x0A,0x0D,0x0A,0x00,0x0D,0x0A,0x51,0x55,0x49,0x54,0x0A,0x20,0x00,0x00,0x00]

example : V1.parseBytes unk = .ok ⟨unk, .unknown⟩ := by decide
example : V1.parseBytes (unk ++ [0x58]) = .ok ⟨unk, .unknown⟩ := by decide
example : V1.parseBytes (unk ++ [0x0D, 0x0A, 0xFF]) = .ok ⟨unk, .unknown⟩ := by decide
example : V1.parseStr (unk ++ [0xE2, 0x82, 0xAC]) = .ok ⟨unk, .unknown⟩ := by decide
example : Auto.parse (unk ++ [0x58]) = .v1 (.ok ⟨unk, .unknown⟩) := by decide
example : Auto.parse unk = .v1 (.ok ⟨unk, .unknown⟩) := by decide
private def locH : V2.Header :=
  { header := loc, version := .two, command := .loc, protocol := .unspec, addresses := .unspec }
example : V2.parse loc = .ok locH ∧ V2.parse (loc ++ [0x58, 0x59]) = .ok locH ∧
    Auto.parse (loc ++ [0x58, 0x59]) = .v2 (.ok locH) := by decide
example (t : B) : Auto.parse (loc ++ t) = .v2 (.ok locH) :=
  ((auto_trailing (x := loc) t).1 _ (by decide)).1
/-- Through the theorem: whatever follows `PROXY UNKNOWN\r\n`, the result is the same. -/
example (t : B) : V1.parseBytes (unk ++ t) = .ok ⟨unk, .unknown⟩ :=
  (v1_bytes_trailing (x := unk) (by decide) t).1
example (t : B) : Auto.parse (unk ++ t) = .v1 (.ok ⟨unk, .unknown⟩) :=
  ((auto_trailing (x := unk) t).2 _ (by decide)).1

/-! ## Audit additions: "the bytes after the header are never interpreted", literally -/

/-- **C04 (v1 text), header followed by anything.** The only thing the text entry point looks at
beyond the header is whether the header ends on a character boundary of the whole string (always
the case when the whole string is a `&str`, see `v1_str_header_append_valid`). No hypothesis on
`x` itself. -/
theorem v1_str_header_append {x : B} {h : V1.Header} (hp : V1.parseStr x = .ok h) (t : B)
    (hb : Utf8.isCharBoundary (h.header ++ t) h.header.length = true) :
    V1.parseStr (h.header ++ t) = .ok h := by
  obtain ⟨c, rest, -, hlen, -, -, h3, h4, hph⟩ := v1_accepted_frozen_str hp
  obtain ⟨hw, ht⟩ := window_append_frozen t h3 h4
  rw [parseStr_ok_iff_window]
  refine ⟨c + 2, hw, by rw [← hlen]; exact hb, ?_⟩
  rw [ht, ← hlen, List.take_length]
  exact hph

/-- **C04 (v1 text), header followed by anything that makes a `&str`.** -/
theorem v1_str_header_append_valid {x : B} {h : V1.Header} (hp : V1.parseStr x = .ok h) (t : B)
    (hv : Utf8.valid (h.header ++ t) = true) : V1.parseStr (h.header ++ t) = .ok h := by
  obtain ⟨-, -, -, hl⟩ := C01.str_accept_line hp
  exact v1_str_header_append hp t (C01.boundary_after_line hl hv)

/-- **C04, "bytes after the header are never interpreted"** (clause 1+2 combined, literal
reading): for the three byte parsers the result on `header ++ t` does not depend on `t` (and is
the accepted header). -/
theorem result_is_function_of_header {x : B} (t₁ t₂ : B) :
    (∀ h, V2.parse x = .ok h →
      V2.parse (h.header ++ t₁) = V2.parse (h.header ++ t₂) ∧ V2.parse (h.header ++ t₁) = .ok h) ∧
    (∀ h, V1.parseBytes x = .ok h →
      V1.parseBytes (h.header ++ t₁) = V1.parseBytes (h.header ++ t₂) ∧
      V1.parseBytes (h.header ++ t₁) = .ok h) ∧
    (∀ h, Auto.parse x = .v2 (.ok h) →
      Auto.parse (h.header ++ t₁) = Auto.parse (h.header ++ t₂) ∧
      Auto.parse (h.header ++ t₁) = .v2 (.ok h)) ∧
    (∀ h, Auto.parse x = .v1 (.ok h) →
      Auto.parse (h.header ++ t₁) = Auto.parse (h.header ++ t₂) ∧
      Auto.parse (h.header ++ t₁) = .v1 (.ok h)) := by
  refine ⟨?_, ?_, ?_, ?_⟩
  · intro h hp
    have hh := (v2_trailing hp []).2.1
    rw [(v2_trailing hh t₁).1, (v2_trailing hh t₂).1]
    exact ⟨rfl, rfl⟩
  · intro h hp
    have hh := (v1_bytes_trailing hp []).2.1
    rw [(v1_bytes_trailing hh t₁).1, (v1_bytes_trailing hh t₂).1]
    exact ⟨rfl, rfl⟩
  · intro h hp
    have hh := ((auto_trailing (x := x) []).1 h hp).2
    rw [((auto_trailing (x := h.header) t₁).1 h hh).1, ((auto_trailing (x := h.header) t₂).1 h hh).1]
    exact ⟨rfl, rfl⟩
  · intro h hp
    have hh := ((auto_trailing (x := x) []).2 h hp).2
    rw [((auto_trailing (x := h.header) t₁).2 h hh).1, ((auto_trailing (x := h.header) t₂).2 h hh).1]
    exact ⟨rfl, rfl⟩

/-- The same for the text entry point (and hence `FromStr for Header`), for continuations that
make `&str`s. -/
theorem result_is_function_of_header_str {x : B} {h : V1.Header} (hp : V1.parseStr x = .ok h)
    (t₁ t₂ : B) (h₁ : Utf8.valid (h.header ++ t₁) = true) (h₂ : Utf8.valid (h.header ++ t₂) = true) :
    V1.parseStr (h.header ++ t₁) = V1.parseStr (h.header ++ t₂) ∧
    V1.parseStr (h.header ++ t₁) = .ok h ∧
    V1.fromStrHeader (h.header ++ t₁) = V1.fromStrHeader (h.header ++ t₂) ∧
    V1.fromStrAddresses (h.header ++ t₁) = V1.fromStrAddresses (h.header ++ t₂) := by
  have e₁ := v1_str_header_append_valid hp t₁ h₁
  have e₂ := v1_str_header_append_valid hp t₂ h₂
  refine ⟨by rw [e₁, e₂], e₁, by rw [C01.fromStrHeader_eq, C01.fromStrHeader_eq, e₁, e₂], ?_⟩
  simp only [V1.fromStrAddresses, e₁, e₂]

/-- **C04, "for v1 the line through its CRLF"**: the accepted header is the input up to and
including the byte after its first CR, that byte *is* LF, and these are the header's last two
bytes — for the byte entry point, the text entry point and the auto-detecting parser. -/
theorem v1_line_through_lf {x : B} :
    (∀ h, V1.parseBytes x = .ok h → ∃ c, V1.firstCR x = some c ∧ c + 1 < x.length ∧
        byteAt x c = CR ∧ byteAt x (c + 1) = LF ∧ h.header = x.take (c + 2) ∧
        h.header = x.take c ++ [CR, LF]) ∧
    (∀ h, V1.parseStr x = .ok h → ∃ c, V1.firstCR x = some c ∧ c + 1 < x.length ∧
        byteAt x c = CR ∧ byteAt x (c + 1) = LF ∧ h.header = x.take (c + 2) ∧
        h.header = x.take c ++ [CR, LF]) ∧
    (∀ h, Auto.parse x = .v1 (.ok h) → ∃ c, V1.firstCR x = some c ∧ c + 1 < x.length ∧
        byteAt x c = CR ∧ byteAt x (c + 1) = LF ∧ h.header = x.take (c + 2) ∧
        h.header = x.take c ++ [CR, LF]) := by
  have key : ∀ (h : V1.Header) (c : Nat) (rest : B), x = h.header ++ rest → h.header.length = c + 2 →
      V1.firstCR x = some c → c + 1 < x.length → V1.CRLF.isSuffixOf h.header = true →
      ∃ c, V1.firstCR x = some c ∧ c + 1 < x.length ∧
        byteAt x c = CR ∧ byteAt x (c + 1) = LF ∧ h.header = x.take (c + 2) ∧
        h.header = x.take c ++ [CR, LF] := by
    intro h c rest hx hlen hcr hc hsuf
    obtain ⟨body, hbody⟩ := List.isSuffixOf_iff_suffix.mp hsuf
    have hbl : body.length = c := by
      have := congrArg List.length hbody
      simp only [List.length_append, V1.CRLF, List.length_cons, List.length_nil] at this
      omega
    have hx' : x = body ++ ([CR, LF] ++ rest) := by
      rw [hx, ← hbody]; simp [V1.CRLF, CR, LF]
    refine ⟨c, hcr, hc, ?_, ?_, ?_, ?_⟩
    · rw [hx', byteAt_append_right (by omega), hbl, Nat.sub_self]; rfl
    · rw [hx', byteAt_append_right (by omega), hbl, Nat.add_sub_cancel_left]; rfl
    · rw [hx, ← hlen]; exact (List.take_left' rfl).symm
    · rw [← hbody, hx', ← hbl, List.take_left' rfl]; rfl
  refine ⟨?_, ?_, ?_⟩
  · intro h hp
    obtain ⟨c, rest, hx, hlen, h1, h2, -, -⟩ := v1_accepted_frozen hp
    exact key h c rest hx hlen h1 h2 (C01.accepted_header_facts hp).2.1
  · intro h hp
    obtain ⟨c, rest, hx, hlen, h1, h2, -, -, -⟩ := v1_accepted_frozen_str hp
    exact key h c rest hx hlen h1 h2 (C01.accepted_header_facts_str hp).2.1
  · intro h hp
    have hp1 := ((auto_v1_iff x _).mp hp).2
    obtain ⟨c, rest, hx, hlen, h1, h2, -, -⟩ := v1_accepted_frozen hp1
    exact key h c rest hx hlen h1 h2 (C01.accepted_header_facts hp1).2.1

/-- **C04 (auto-detection), complete form**: `auto_trailing` together with "the header is a
prefix of the input" and the number of bytes to remove (cf. `consumed_length`). -/
theorem auto_trailing' {x : B} (t : B) :
    (∀ h, Auto.parse x = .v2 (.ok h) →
      Auto.parse (x ++ t) = .v2 (.ok h) ∧ Auto.parse h.header = .v2 (.ok h) ∧ h.header <+: x ∧
        h.header.length = 16 + be16 (byteAt x 14) (byteAt x 15)) ∧
    (∀ h, Auto.parse x = .v1 (.ok h) →
      Auto.parse (x ++ t) = .v1 (.ok h) ∧ Auto.parse h.header = .v1 (.ok h) ∧ h.header <+: x ∧
        (∃ c, V1.firstCR x = some c ∧ h.header.length = c + 2)) := by
  constructor
  · intro h hp
    obtain ⟨k1, k2⟩ := (auto_trailing (x := x) t).1 h hp
    obtain ⟨-, -, k3, k4⟩ := v2_trailing ((auto_v2_ok_iff x h).mp hp) t
    exact ⟨k1, k2, k3, k4⟩
  · intro h hp
    obtain ⟨k1, k2⟩ := (auto_trailing (x := x) t).2 h hp
    obtain ⟨-, -, k3, k4⟩ := v1_bytes_trailing ((auto_v1_iff x _).mp hp).2 t
    exact ⟨k1, k2, k3, k4⟩

/-! ### Non-vacuity of the additions -/

example (t₁ t₂ : B) : V1.parseBytes (unk ++ t₁) = V1.parseBytes (unk ++ t₂) :=
  ((result_is_function_of_header (x := unk ++ [0x47]) t₁ t₂).2.1 ⟨unk, .unknown⟩ (by decide)).1
example (t₁ t₂ : B) : V2.parse (loc ++ t₁) = V2.parse (loc ++ t₂) :=
  ((result_is_function_of_header (x := loc ++ [0x47]) t₁ t₂).1 locH (by decide)).1
example (t₁ t₂ : B) : Auto.parse (loc ++ t₁) = Auto.parse (loc ++ t₂) :=
  ((result_is_function_of_header (x := loc ++ [0x47]) t₁ t₂).2.2.1 locH (by decide)).1
example (t₁ t₂ : B) : Auto.parse (unk ++ t₁) = Auto.parse (unk ++ t₂) :=
  ((result_is_function_of_header (x := unk ++ [0x47]) t₁ t₂).2.2.2 ⟨unk, .unknown⟩ (by decide)).1
/-- Text entry point: `PROXY UNKNOWN\r\n` followed by `€` or by `GET`. -/
example : V1.parseStr (unk ++ [0xE2, 0x82, 0xAC]) = V1.parseStr (unk ++ [0x47, 0x45, 0x54]) :=
  (result_is_function_of_header_str (x := unk) (h := ⟨unk, .unknown⟩) (by decide) _ _
    (by decide) (by decide)).1
/-- The boundary hypothesis of `v1_str_header_append` is needed: a continuation byte right after
the header (not a `&str`) is `InvalidSuffix`. -/
example : V1.parseStr (unk ++ [0x82]) = .error .invalidSuffix := by decide
example : ∃ c, V1.firstCR (unk ++ [0x47]) = some c ∧ byteAt (unk ++ [0x47]) (c + 1) = LF :=
  let ⟨c, h1, _, _, h4, _⟩ := (v1_line_through_lf (x := unk ++ [0x47])).1 ⟨unk, .unknown⟩ (by decide)
  ⟨c, h1, h4⟩

end C04
