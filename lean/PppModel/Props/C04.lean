import PppModel.Auto
import PppModel.Lemmas.V1Entry
import PppModel.Lemmas.V2Blame
import PppModel.Props.C01
import PppModel.Props.C06
import PppModel.Props.C18

/-!
# C04 — an accepted header never depends on or consumes the bytes that follow it

For each parser (`v2`, `v1` bytes, `v1` text and both `FromStr`, and the auto-detecting
`HeaderResult::parse`), if an input `x` is accepted with header `h` then

* `x ++ t` is accepted with the very same `h`, whatever `t` is (`*_trailing`, first part);
* `h.header` alone is accepted with the same `h` (second part), and `h.header` is a prefix
  of `x` — so the result is a function of the header bytes only, and the bytes after them
  are left to the caller;
* the number of bytes the caller must remove from its buffer is `h.header.length`, which is
  `16 + declared length` for v2 and `firstCR x + 2` (the line through its LF) for v1
  (`consumed_length`).
-/

namespace C04
open V1

/-! ## v2 -/

/-- **C04 (v2).** -/
theorem v2_trailing {x : B} {h : V2.Header} (hp : V2.parse x = .ok h) (t : B) :
    V2.parse (x ++ t) = .ok h ∧ V2.parse h.header = .ok h ∧ h.header <+: x ∧
      h.header.length = 16 + be16 (byteAt x 14) (byteAt x 15) := by
  obtain ⟨h1, h2, -, h4⟩ := V2.parse_header_self hp
  exact ⟨V2.parse_trailing hp t, h1, h2, h4⟩

/-! ## v1, byte entry point -/

/-- An accepted v1 input is CR-frozen: its first CR is at `h.header.length - 2` and the LF
after it is present; the same holds of the header on its own. -/
theorem v1_accepted_frozen {x : B} {h : V1.Header} (hp : V1.parseBytes x = .ok h) :
    ∃ c rest, x = h.header ++ rest ∧ h.header.length = c + 2 ∧
      V1.firstCR x = some c ∧ c + 1 < x.length ∧
      V1.firstCR h.header = some c ∧ c + 1 < h.header.length := by
  obtain ⟨rest, hx, -, -, hl⟩ := (C01.bytes_accept_iff_partial x h).mp hp
  obtain ⟨-, -, hcr, h15, -⟩ := C01.accepted_header_facts hp
  obtain ⟨-, hcr', -⟩ := line_window hl
  refine ⟨h.header.length - 2, rest, hx, by omega, hcr, ?_, hcr', by omega⟩
  have := congrArg List.length hx
  simp only [List.length_append] at this
  omega

/-- **C04 (v1 bytes).** -/
theorem v1_bytes_trailing {x : B} {h : V1.Header} (hp : V1.parseBytes x = .ok h) (t : B) :
    V1.parseBytes (x ++ t) = .ok h ∧ V1.parseBytes h.header = .ok h ∧ h.header <+: x ∧
      (∃ c, V1.firstCR x = some c ∧ h.header.length = c + 2) := by
  obtain ⟨c, rest, hx, hlen, h1, h2, h3, h4⟩ := v1_accepted_frozen hp
  refine ⟨?_, ?_, ⟨rest, hx.symm⟩, c, h1, hlen⟩
  · rw [C18.frozen_stable_bytes x t c h1 h2]; exact hp
  · rw [← C18.frozen_stable_bytes h.header rest c h3 h4, ← hx]; exact hp

/-! ## v1, text entry point and both `FromStr` -/

/-- The same facts from the text entry point. -/
theorem v1_accepted_frozen_str {x : B} {h : V1.Header} (hp : V1.parseStr x = .ok h) :
    ∃ c rest, x = h.header ++ rest ∧ h.header.length = c + 2 ∧
      V1.firstCR x = some c ∧ c + 1 < x.length ∧
      V1.firstCR h.header = some c ∧ c + 1 < h.header.length ∧
      V1.parseHeader h.header = .ok h := by
  obtain ⟨rest, hx, hlen, hl⟩ := C01.str_accept_line hp
  obtain ⟨-, -, hcr, h15, -⟩ := C01.accepted_header_facts_str hp
  obtain ⟨-, hcr', -⟩ := line_window hl
  refine ⟨h.header.length - 2, rest, hx, by omega, hcr, ?_, hcr', by omega, ?_⟩
  · have := congrArg List.length hx
    simp only [List.length_append] at this
    omega
  · exact parseHeader_ok_of_line hlen hl

/-- **C04 (v1 text).** `x` and `x ++ t` are both `&str`. -/
theorem v1_str_trailing {x : B} {h : V1.Header} (hp : V1.parseStr x = .ok h) (t : B)
    (hx : Utf8.valid x = true) (hxt : Utf8.valid (x ++ t) = true) :
    V1.parseStr (x ++ t) = .ok h ∧ V1.parseStr h.header = .ok h ∧ h.header <+: x := by
  obtain ⟨c, rest, hxe, hlen, h1, h2, h3, h4, hph⟩ := v1_accepted_frozen_str hp
  have htake : x.take (c + 2) = h.header := by
    rw [hxe, ← hlen]; exact List.take_left' rfl
  refine ⟨?_, ?_, ⟨rest, hxe.symm⟩⟩
  · obtain ⟨hw, ht⟩ := window_append_frozen t h1 h2
    rw [parseStr_ok_iff_window]
    refine ⟨c + 2, hw, ?_, by rw [ht, htake]; exact hph⟩
    -- the window is a valid string (it is a well-formed line cut out of `x` at a boundary),
    -- so it ends on a boundary of the valid string `x ++ t` too
    obtain ⟨n, hwx, hb, -⟩ := (parseStr_ok_iff_window x h).mp hp
    rw [windowLength_frozen_cr h1 h2] at hwx
    cases hwx
    have hv : Utf8.valid (x.take (c + 2)) = true := by
      rw [Utf8.valid_take_iff_boundary x hx (c + 2) (by omega)]; exact hb
    rw [← Utf8.valid_take_iff_boundary (x ++ t) hxt (c + 2) (by simp only [List.length_append]; omega),
      ht]
    exact hv
  · rw [parseStr_ok_iff_window]
    refine ⟨h.header.length, ?_, Utf8.isCharBoundary_length _, by rw [List.take_length]; exact hph⟩
    rw [windowLength_frozen_cr h3 h4, hlen]

/-- **C04 (`FromStr for Header`).** -/
theorem fromStrHeader_trailing {x : B} {h : V1.Header} (hp : V1.fromStrHeader x = .ok h) (t : B)
    (hx : Utf8.valid x = true) (hxt : Utf8.valid (x ++ t) = true) :
    V1.fromStrHeader (x ++ t) = .ok h ∧ V1.fromStrHeader h.header = .ok h ∧ h.header <+: x := by
  simp only [C01.fromStrHeader_eq] at hp ⊢
  exact v1_str_trailing hp t hx hxt

/-- **C04 (`FromStr for Addresses`).** -/
theorem fromStrAddresses_trailing {x : B} {a : V1.Addresses} (hp : V1.fromStrAddresses x = .ok a)
    (t : B) (hx : Utf8.valid x = true) (hxt : Utf8.valid (x ++ t) = true) :
    V1.fromStrAddresses (x ++ t) = .ok a := by
  unfold V1.fromStrAddresses at hp
  cases hs : V1.parseStr x with
  | error e => rw [hs] at hp; cases hp
  | ok h =>
    rw [hs] at hp
    simp only [Except.ok.injEq] at hp
    have := (v1_str_trailing hs t hx hxt).1
    simp [V1.fromStrAddresses, this, hp]

/-! ## Version auto-detection -/

/-- The v2 parser rejects terminally anything that starts with `P`. -/
theorem v2_rejects_P (r : B) : V2.parse (0x50 :: r) = .error .badPrefix := by
  by_cases h12 : (0x50 :: r).length < 12
  · apply V2.blame_signature_short _ h12
    intro hpre
    obtain ⟨s, hs⟩ := hpre
    have := congrArg List.head? hs
    simp [V2.sig] at this
  · apply V2.blame_signature _ (by omega)
    intro hs
    have := congrArg List.head? hs
    simp [V2.sig] at this

theorem auto_v2_ok_iff (x : B) (h : V2.Header) : Auto.parse x = .v2 (.ok h) ↔ V2.parse x = .ok h := by
  rw [C06.auto_def]
  cases hv : V2.parse x with
  | ok h' => simp
  | error e => cases he : e.isIncomplete <;> simp [he]

theorem auto_v1_iff (x : B) (r : Except V1.BinaryParseError V1.Header) :
    Auto.parse x = .v1 r ↔
      (∃ e, V2.parse x = .error e ∧ e.isIncomplete = false) ∧ V1.parseBytes x = r := by
  rw [C06.auto_def]
  cases hv : V2.parse x with
  | ok h' => simp
  | error e =>
    cases he : e.isIncomplete
    · simp only [Bool.false_eq_true, if_false, Auto.HeaderResult.v1.injEq, Except.error.injEq,
        exists_eq_left', he, true_and]
    · simp [he]

/-- **C04 (auto-detection).** -/
theorem auto_trailing {x : B} (t : B) :
    (∀ h, Auto.parse x = .v2 (.ok h) → Auto.parse (x ++ t) = .v2 (.ok h) ∧ Auto.parse h.header = .v2 (.ok h)) ∧
    (∀ h, Auto.parse x = .v1 (.ok h) → Auto.parse (x ++ t) = .v1 (.ok h) ∧ Auto.parse h.header = .v1 (.ok h)) := by
  constructor
  · intro h hp
    rw [auto_v2_ok_iff] at hp ⊢
    rw [auto_v2_ok_iff]
    exact ⟨V2.parse_trailing hp t, (V2.parse_header_self hp).1⟩
  · intro h hp
    rw [auto_v1_iff] at hp ⊢
    rw [auto_v1_iff]
    obtain ⟨⟨e, he1, he2⟩, hb⟩ := hp
    obtain ⟨k1, k2, -, -⟩ := v1_bytes_trailing hb t
    refine ⟨⟨⟨e, V2.terminal_stable he1 he2 t, he2⟩, k1⟩, ⟨?_, k2⟩⟩
    -- the header starts with `PROXY `
    obtain ⟨-, -, -, h15, h6⟩ := C01.accepted_header_facts hb
    refine ⟨.badPrefix, ?_, rfl⟩
    cases hh : h.header with
    | nil => rw [hh] at h15; simp at h15
    | cons b r =>
      rw [hh] at h6
      have : b = 0x50 := by
        have := congrArg List.head? h6
        simpa [V1.PROXY] using this
      subst this
      exact v2_rejects_P r

/-! ## How many bytes the caller must remove -/

/-- The accepted header is a prefix of the input and its length — the number of bytes to
remove from the buffer before handing the rest to the application — is `16 + declared
length` for v2 and `first CR + 2` for v1; the auto-detecting parser reports whichever
applies to the parser that accepted. -/
theorem consumed_length {x : B} :
    (∀ h, V2.parse x = .ok h → h.header = x.take h.header.length ∧
        h.header.length = 16 + be16 (byteAt x 14) (byteAt x 15)) ∧
    (∀ h, V1.parseBytes x = .ok h → h.header = x.take h.header.length ∧
        ∃ c, V1.firstCR x = some c ∧ h.header.length = c + 2) ∧
    (∀ h, V1.parseStr x = .ok h → h.header = x.take h.header.length ∧
        ∃ c, V1.firstCR x = some c ∧ h.header.length = c + 2) ∧
    (∀ h, Auto.parse x = .v2 (.ok h) → h.header = x.take h.header.length ∧
        h.header.length = 16 + be16 (byteAt x 14) (byteAt x 15)) ∧
    (∀ h, Auto.parse x = .v1 (.ok h) → h.header = x.take h.header.length ∧
        ∃ c, V1.firstCR x = some c ∧ h.header.length = c + 2) := by
  have v2 : ∀ h, V2.parse x = .ok h → h.header = x.take h.header.length ∧
      h.header.length = 16 + be16 (byteAt x 14) (byteAt x 15) := by
    intro h hp
    obtain ⟨-, -, h3, h4⟩ := V2.parse_header_self hp
    exact ⟨by rw [h4]; exact h3, h4⟩
  have v1 : ∀ h, V1.parseBytes x = .ok h → h.header = x.take h.header.length ∧
      ∃ c, V1.firstCR x = some c ∧ h.header.length = c + 2 := by
    intro h hp
    obtain ⟨c, rest, hx, hlen, h1, -⟩ := v1_accepted_frozen hp
    refine ⟨?_, c, h1, hlen⟩
    conv => rhs; rw [hx]
    exact (List.take_left' rfl).symm
  refine ⟨v2, v1, ?_, ?_, ?_⟩
  · intro h hp
    obtain ⟨c, rest, hx, hlen, h1, -⟩ := v1_accepted_frozen_str hp
    refine ⟨?_, c, h1, hlen⟩
    conv => rhs; rw [hx]
    exact (List.take_left' rfl).symm
  · intro h hp; exact v2 h ((auto_v2_ok_iff x h).mp hp)
  · intro h hp; exact v1 h ((auto_v1_iff x _).mp hp).2

/-! ## Non-vacuity -/

/-- `PROXY UNKNOWN\r\n` -/
private def unk : B := [0x50,0x52,0x4F,0x58,0x59,0x20,0x55,0x4E,0x4B,0x4E,0x4F,0x57,0x4E,0x0D,0x0A]

/-- A v2 LOCAL header without addresses. -/
private def loc : B := [0x0D,0x0A,0x0D,0x0A,0x00,0x0D,0x0A,0x51,0x55,0x49,0x54,0x0A,0x20,0x00,0x00,0x00]

example : V1.parseBytes unk = .ok ⟨unk, .unknown⟩ := by decide
example : V1.parseBytes (unk ++ [0x58]) = .ok ⟨unk, .unknown⟩ := by decide
example : V1.parseBytes (unk ++ [0x0D, 0x0A, 0xFF]) = .ok ⟨unk, .unknown⟩ := by decide
example : V1.parseStr (unk ++ [0xE2, 0x82, 0xAC]) = .ok ⟨unk, .unknown⟩ := by decide
example : Auto.parse (unk ++ [0x58]) = .v1 (.ok ⟨unk, .unknown⟩) := by decide
example : Auto.parse unk = .v1 (.ok ⟨unk, .unknown⟩) := by decide
private def locH : V2.Header :=
  { header := loc, version := .two, command := .loc, protocol := .unspec, addresses := .unspec }
example : V2.parse loc = .ok locH ∧ V2.parse (loc ++ [0x58, 0x59]) = .ok locH ∧
    Auto.parse (loc ++ [0x58, 0x59]) = .v2 (.ok locH) := by decide
example (t : B) : Auto.parse (loc ++ t) = .v2 (.ok locH) :=
  ((auto_trailing (x := loc) t).1 _ (by decide)).1
/-- Through the theorem: whatever follows `PROXY UNKNOWN\r\n`, the result is the same. -/
example (t : B) : V1.parseBytes (unk ++ t) = .ok ⟨unk, .unknown⟩ :=
  (v1_bytes_trailing (x := unk) (by decide) t).1
example (t : B) : Auto.parse (unk ++ t) = .v1 (.ok ⟨unk, .unknown⟩) :=
  ((auto_trailing (x := unk) t).2 _ (by decide)).1

end C04
