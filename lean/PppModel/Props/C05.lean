import PppModel.Auto
import PppModel.Props.C17

/-!
# C05 — streaming: every proper prefix of an accepted header is reported incomplete
-/

namespace C05
open Auto

/-- `is_complete` is always the negation of `is_incomplete`, and a success is
never flagged incomplete — for every result type of the crate. -/
theorem flags :
    (∀ r : Except V1.BinaryParseError V1.Header, isCompleteV1 r = !isIncompleteV1 r) ∧
    (∀ r : Except V2.ParseError V2.Header, isCompleteV2 r = !isIncompleteV2 r) ∧
    (∀ r : HeaderResult, r.isComplete = !r.isIncomplete) ∧
    (∀ h, isIncompleteV1 (.ok h) = false) ∧ (∀ h, isIncompleteV1Str (.ok h) = false) ∧
    (∀ h, isIncompleteV2 (.ok h) = false) ∧
    (∀ h, (HeaderResult.v1 (.ok h)).isIncomplete = false) ∧ (∀ h, (HeaderResult.v2 (.ok h)).isIncomplete = false) :=
  ⟨fun _ => rfl, fun _ => rfl, fun _ => rfl, fun _ => rfl, fun _ => rfl, fun _ => rfl, fun _ => rfl, fun _ => rfl⟩

end C05
