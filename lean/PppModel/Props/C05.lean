import PppModel.Auto
import PppModel.Props.C17
import PppModel.Props.C01
import PppModel.Props.C04
import PppModel.Lemmas.V2Stream
import PppModel.Lemmas.V1Prefix

/-!
# C05 — streaming: every proper prefix of an accepted header is reported incomplete
-/

namespace C05
open Auto

/-- `is_complete` is always the negation of `is_incomplete`, and a success is
never flagged incomplete — for every result type of the crate. -/
theorem flags :
    (∀ r : Except V1.BinaryParseError V1.Header, isCompleteV1 r = !isIncompleteV1 r) ∧
    (∀ r : Except V2.ParseError V2.Header, isCompleteV2 r = !isIncompleteV2 r) ∧
    (∀ r : HeaderResult, r.isComplete = !r.isIncomplete) ∧
    (∀ h, isIncompleteV1 (.ok h) = false) ∧ (∀ h, isIncompleteV1Str (.ok h) = false) ∧
    (∀ h, isIncompleteV2 (.ok h) = false) ∧
    (∀ h, (HeaderResult.v1 (.ok h)).isIncomplete = false) ∧ (∀ h, (HeaderResult.v2 (.ok h)).isIncomplete = false) :=
  ⟨fun _ => rfl, fun _ => rfl, fun _ => rfl, fun _ => rfl, fun _ => rfl, fun _ => rfl, fun _ => rfl, fun _ => rfl⟩

/-- **v2.** Every proper prefix of the header of an accepted input is incomplete. -/
theorem v2_prefix_incomplete {x : B} {h : V2.Header} (hp : V2.parse x = .ok h) (n : Nat)
    (hn : n < h.header.length) : isIncompleteV2 (V2.parse (x.take n)) = true := by
  obtain ⟨e, he, hi⟩ := V2.prefix_incomplete hp n hn
  simp [isIncompleteV2, he, hi]

/-- An accepted v1 input is its header (a well-formed line) followed by the rest. -/
theorem v1_accepted_shape {x : B} {h : V1.Header} (hp : V1.parseBytes x = .ok h) :
    ∃ rest, x = h.header ++ rest ∧ h.header.length ≤ 107 ∧ Spec.V1.Line V1.ip6Model h.header h.addresses := by
  obtain ⟨rest, h1, h2, -, h4⟩ := (C01.bytes_accept_iff_partial x h).mp hp
  exact ⟨rest, h1, h2, h4⟩

/-- **v1, bytes.** Every proper prefix of an accepted US-ASCII line is incomplete. -/
theorem v1_bytes_prefix_incomplete {x : B} {h : V1.Header} (hp : V1.parseBytes x = .ok h)
    (hascii : ∀ c ∈ h.header, c < 0x80) (n : Nat) (hn : n < h.header.length) :
    isIncompleteV1 (V1.parseBytes (x.take n)) = true := by
  obtain ⟨rest, hx, hlen, hl⟩ := v1_accepted_shape hp
  rw [hx]
  exact V1.Prefix.parseBytes_prefix_isIncomplete V1.ip6Model (fun _ _ h => h) hl hlen hascii rest n hn

/-- **v1, text** (and hence both `FromStr` impls). -/
theorem v1_str_prefix_incomplete {x : B} {h : V1.Header} (hp : V1.parseStr x = .ok h)
    (hascii : ∀ c ∈ h.header, c < 0x80) (n : Nat) (hn : n < h.header.length) :
    isIncompleteV1Str (V1.parseStr (x.take n)) = true := by
  obtain ⟨rest, hx, hlen, hl⟩ := C01.str_accept_line hp
  rw [hx]
  exact V1.Prefix.parseStr_prefix_isIncomplete V1.ip6Model (fun _ _ h => h) hl hlen hascii rest n hn

/-- **auto-detect.** Through `HeaderResult::parse` as well, for headers of either version. -/
theorem auto_prefix_incomplete {x : B} (n : Nat) :
    (∀ h, Auto.parse x = .v2 (.ok h) → n < h.header.length → (Auto.parse (x.take n)).isIncomplete = true) ∧
    (∀ h, Auto.parse x = .v1 (.ok h) → (∀ c ∈ h.header, c < 0x80) → n < h.header.length →
      (Auto.parse (x.take n)).isIncomplete = true) := by
  constructor
  · intro h hp hn
    have hp2 : V2.parse x = .ok h := (C04.auto_v2_ok_iff x h).mp hp
    obtain ⟨e, he, hi⟩ := V2.prefix_incomplete hp2 n hn
    rw [C06.auto_def, he]
    simp [hi, HeaderResult.isIncomplete, isIncompleteV2]
  · intro h hp hascii hn
    have hp1 : V1.parseBytes x = .ok h := ((C04.auto_v1_iff x _).mp hp).2
    have hinc := v1_bytes_prefix_incomplete hp1 hascii n hn
    cases n with
    | zero =>
      have : Auto.parse (x.take 0) = .v2 (.error (.incomplete 0)) := by
        rw [List.take_zero]; decide
      rw [this]; rfl
    | succ m =>
      obtain ⟨rest, hx, -, hl⟩ := v1_accepted_shape hp1
      obtain ⟨h15, h6⟩ := V1.line_prefix hl
      -- the prefix starts with 'P', so the v2 parser rejects it terminally
      have hP : ∃ r, x.take (m + 1) = 0x50 :: r := by
        have e6 : h.header = (V1.PROXY ++ [V1.SP]) ++ h.header.drop 6 := by
          rw [← h6]; exact (List.take_append_drop 6 _).symm
        rw [hx, e6]
        refine ⟨((V1.PROXY.drop 1 ++ [V1.SP]) ++ h.header.drop 6 ++ rest).take m, ?_⟩
        simp [V1.PROXY, List.take_succ_cons]
      obtain ⟨r, hr⟩ := hP
      rw [C06.auto_def, hr, C04.v2_rejects_P r, ← hr]
      simpa [HeaderResult.isIncomplete, V2.ParseError.isIncomplete] using hinc

/-! ## Histories: however the stream is split into reads -/

/-- A receiver that appends each read to its buffer, re-parses the whole buffer
and stops at the first result that is not incomplete. `none`: still waiting
after the last read. -/
def receive {R : Type} (parse : B → R) (inc : R → Bool) (buf : B) : List B → Option R
  | [] => none
  | r :: rs =>
    if inc (parse (buf ++ r)) then receive parse inc (buf ++ r) rs else some (parse (buf ++ r))

/-- Generic streaming lemma: if every prefix of the stream shorter than `k` is
incomplete and every prefix of length at least `k` parses to the complete
result `res`, the receiver ends with `res` however the stream is chunked. -/
theorem receive_generic {R : Type} (parse : B → R) (inc : R → Bool) (stream : B) (k : Nat) (res : R)
    (hk : k ≤ stream.length)
    (hpre : ∀ n, n < k → inc (parse (stream.take n)) = true)
    (hok : ∀ m, k ≤ m → parse (stream.take m) = res) (hres : inc res = false) :
    ∀ (reads : List B) (buf : B), buf ++ reads.flatten = stream → buf.length < k →
      receive parse inc buf reads = some res := by
  intro reads
  induction reads with
  | nil =>
    intro buf hb hlt
    simp only [List.flatten_nil, List.append_nil] at hb
    subst hb; omega
  | cons r rs ih =>
    intro buf hb hlt
    have hb' : (buf ++ r) ++ rs.flatten = stream := by simpa using hb
    have htake : stream.take (buf ++ r).length = buf ++ r := by
      rw [← hb']; exact List.take_left' rfl
    simp only [receive]
    by_cases hlen : (buf ++ r).length < k
    · have := hpre _ hlen
      rw [htake] at this
      rw [if_pos this]
      exact ih (buf ++ r) hb' hlen
    · have := hok (buf ++ r).length (by omega)
      rw [htake] at this
      rw [this, hres]
      simp

/-- **v2 history form** (also `V2.streaming` in Lemmas/V2Stream.lean). -/
theorem streaming_v2 {x : B} {h : V2.Header} (hp : V2.parse x = .ok h) (payload : B) (reads : List B)
    (hr : reads.flatten = x ++ payload) :
    receive V2.parse isIncompleteV2 [] reads = some (.ok h) := by
  obtain ⟨hself, hpre, -, hlen⟩ := V2.parse_header_self hp
  obtain ⟨s, hs⟩ := hpre
  apply receive_generic V2.parse isIncompleteV2 (x ++ payload) h.header.length (.ok h)
  · rw [← hs]; simp only [List.length_append]; omega
  · intro n hn
    have : (x ++ payload).take n = x.take n := by
      rw [List.take_append_of_le_length]; rw [← hs]; simp only [List.length_append]; omega
    rw [this]; exact v2_prefix_incomplete hp n hn
  · intro m hm
    have : (x ++ payload).take m = h.header ++ ((s ++ payload).take (m - h.header.length)) := by
      rw [← hs, List.append_assoc, List.take_append]
      rw [List.take_of_length_le hm]
    rw [this]
    exact V2.parse_trailing hself _
  · rfl
  · simpa using hr
  · simp only [List.length_nil]; omega

/-- **v1 history form.** A receiver that re-parses its growing buffer ends with the
same header as a one-shot parse, for every accepted US-ASCII line, every
trailing payload and every split into reads. -/
theorem streaming_v1 {x : B} {h : V1.Header} (hp : V1.parseBytes x = .ok h)
    (hascii : ∀ c ∈ h.header, c < 0x80) (payload : B) (reads : List B)
    (hr : reads.flatten = x ++ payload) :
    receive V1.parseBytes isIncompleteV1 [] reads = some (.ok h) := by
  obtain ⟨hself, hhdr, hpre, -⟩ := C04.v1_bytes_trailing hp payload
  obtain ⟨s, hs⟩ := hpre
  have h15 : 15 ≤ h.header.length := (C01.accepted_header_facts hp).2.2.2.1
  apply receive_generic V1.parseBytes isIncompleteV1 (x ++ payload) h.header.length (.ok h)
  · rw [← hs]; simp only [List.length_append]; omega
  · intro n hn
    have : (x ++ payload).take n = x.take n := by
      rw [List.take_append_of_le_length]; rw [← hs]; simp only [List.length_append]; omega
    rw [this]; exact v1_bytes_prefix_incomplete hp hascii n hn
  · intro m hm
    have : (x ++ payload).take m = h.header ++ ((s ++ payload).take (m - h.header.length)) := by
      rw [← hs, List.append_assoc, List.take_append]
      rw [List.take_of_length_le hm]
    rw [this]
    exact (C04.v1_bytes_trailing hhdr _).1
  · rfl
  · simpa using hr
  · simp only [List.length_nil]; omega

/-- **auto-detect history form.** The same receiver built on `HeaderResult::parse`:
it ends with the same (tagged) header as a one-shot parse, for v2 headers and for
US-ASCII v1 lines, however the stream is split. -/
theorem streaming_auto {x : B} (payload : B) (reads : List B) (hr : reads.flatten = x ++ payload) :
    (∀ h, Auto.parse x = .v2 (.ok h) →
      receive Auto.parse HeaderResult.isIncomplete [] reads = some (.v2 (.ok h))) ∧
    (∀ h, Auto.parse x = .v1 (.ok h) → (∀ c ∈ h.header, c < 0x80) →
      receive Auto.parse HeaderResult.isIncomplete [] reads = some (.v1 (.ok h))) := by
  constructor
  · intro h hp
    have hp2 : V2.parse x = .ok h := (C04.auto_v2_ok_iff x h).mp hp
    obtain ⟨hself, hpre, -, hlen⟩ := V2.parse_header_self hp2
    obtain ⟨s, hs⟩ := hpre
    apply receive_generic Auto.parse HeaderResult.isIncomplete (x ++ payload) h.header.length (.v2 (.ok h))
    · rw [← hs]; simp only [List.length_append]; omega
    · intro n hn
      have : (x ++ payload).take n = x.take n := by
        rw [List.take_append_of_le_length]; rw [← hs]; simp only [List.length_append]; omega
      rw [this]; exact (auto_prefix_incomplete n).1 h hp hn
    · intro m hm
      have : (x ++ payload).take m = h.header ++ ((s ++ payload).take (m - h.header.length)) := by
        rw [← hs, List.append_assoc, List.take_append]
        rw [List.take_of_length_le hm]
      rw [this]
      exact (C04.auto_v2_ok_iff _ h).mpr (V2.parse_trailing hself _)
    · rfl
    · simpa using hr
    · simp only [List.length_nil]; omega
  · intro h hp hascii
    have hp1 : V1.parseBytes x = .ok h := ((C04.auto_v1_iff x _).mp hp).2
    obtain ⟨-, hhdr, hpre, -⟩ := C04.v1_bytes_trailing hp1 payload
    obtain ⟨s, hs⟩ := hpre
    have h15 : 15 ≤ h.header.length := (C01.accepted_header_facts hp1).2.2.2.1
    have hauto_hdr : Auto.parse h.header = .v1 (.ok h) := ((C04.auto_trailing (x := x) payload).2 h hp).2
    apply receive_generic Auto.parse HeaderResult.isIncomplete (x ++ payload) h.header.length (.v1 (.ok h))
    · rw [← hs]; simp only [List.length_append]; omega
    · intro n hn
      have : (x ++ payload).take n = x.take n := by
        rw [List.take_append_of_le_length]; rw [← hs]; simp only [List.length_append]; omega
      rw [this]; exact (auto_prefix_incomplete n).2 h hp hascii hn
    · intro m hm
      have : (x ++ payload).take m = h.header ++ ((s ++ payload).take (m - h.header.length)) := by
        rw [← hs, List.append_assoc, List.take_append]
        rw [List.take_of_length_le hm]
      rw [this]
      exact ((C04.auto_trailing (x := h.header) _).2 h hauto_hdr).1
    · rfl
    · simpa using hr
    · simp only [List.length_nil]; omega

/-- Non-vacuity: `PROXY UNKNOWN\r\n` delivered as "PROXY UNK", "", "NOWN\r", "\nGET". -/
example :
    receive V1.parseBytes isIncompleteV1 []
      [[0x50,0x52,0x4F,0x58,0x59,0x20,0x55,0x4E,0x4B], [], [0x4E,0x4F,0x57,0x4E,0x0D], [0x0A,0x47,0x45,0x54]] =
    some (.ok ⟨[0x50,0x52,0x4F,0x58,0x59,0x20,0x55,0x4E,0x4B,0x4E,0x4F,0x57,0x4E,0x0D,0x0A], .unknown⟩) := by
  decide

/-! ## Audit additions: exact hypotheses, the text entry point, and why US-ASCII is needed -/

/-- **v1, text, no US-ASCII hypothesis.** Every proper prefix of the header of an input accepted
by `TryFrom<&str>` is incomplete: the window of a proper prefix is the whole prefix, and its end
is always a character boundary. -/
theorem v1_str_prefix_incomplete' {x : B} {h : V1.Header} (hp : V1.parseStr x = .ok h) (n : Nat)
    (hn : n < h.header.length) : isIncompleteV1Str (V1.parseStr (x.take n)) = true := by
  obtain ⟨rest, hx, hlen, hl⟩ := C01.str_accept_line hp
  rw [hx]
  obtain ⟨e, he, hinc⟩ :=
    V1.Prefix.parseStr_prefix_incomplete' V1.ip6Model (fun _ _ h => h) hl hlen rest n hn
  rw [he]; exact hinc

/-- **v1, bytes, exact condition.** A proper prefix of an accepted line that is itself valid
UTF-8 (the cut is on a character boundary; automatic for US-ASCII lines) is incomplete. -/
theorem v1_bytes_prefix_incomplete' {x : B} {h : V1.Header} (hp : V1.parseBytes x = .ok h) (n : Nat)
    (hn : n < h.header.length) (hv : Utf8.valid (x.take n) = true) :
    isIncompleteV1 (V1.parseBytes (x.take n)) = true := by
  obtain ⟨rest, hx, hlen, hl⟩ := v1_accepted_shape hp
  rw [hx] at hv ⊢
  obtain ⟨e, he, hinc⟩ :=
    V1.Prefix.parseBytes_prefix_incomplete' V1.ip6Model (fun _ _ h => h) hl hlen rest n hn hv
  rw [he]; exact hinc

/-- **v1, bytes, the complement.** A proper prefix of an accepted line that is *not* valid UTF-8
(a cut inside a multi-byte character) is the terminal error `InvalidUtf8`: the US-ASCII
restriction in the property text is tight. -/
theorem v1_bytes_prefix_invalidUtf8 {x : B} {h : V1.Header} (hp : V1.parseBytes x = .ok h) (n : Nat)
    (hn : n < h.header.length) (hv : Utf8.valid (x.take n) = false) :
    V1.parseBytes (x.take n) = .error .invalidUtf8 ∧
      isIncompleteV1 (V1.parseBytes (x.take n)) = false := by
  obtain ⟨rest, hx, hlen, hl⟩ := v1_accepted_shape hp
  rw [hx] at hv ⊢
  have := V1.Prefix.parseBytes_prefix_invalidUtf8 V1.ip6Model (fun _ _ h => h) hl hlen rest n hn hv
  rw [this]
  exact ⟨rfl, rfl⟩

/-- The two cases together: a proper prefix of an accepted line is incomplete **iff** it is valid
UTF-8. -/
theorem v1_bytes_prefix_incomplete_iff {x : B} {h : V1.Header} (hp : V1.parseBytes x = .ok h)
    (n : Nat) (hn : n < h.header.length) :
    isIncompleteV1 (V1.parseBytes (x.take n)) = Utf8.valid (x.take n) := by
  cases hv : Utf8.valid (x.take n) with
  | true => exact v1_bytes_prefix_incomplete' hp n hn hv
  | false => exact (v1_bytes_prefix_invalidUtf8 hp n hn hv).2

/-- `PROXY UNKNOWN é\r\n` (the `é` is `C3 A9`). -/
def unkE : B :=
  [0x50,0x52,0x4F,0x58,0x59,0x20,0x55,0x4E,0x4B,0x4E,0x4F,0x57,0x4E,0x20,0xC3,0xA9,0x0D,0x0A]

/-- **The US-ASCII / valid-prefix restriction is needed.** The non-ASCII line
`PROXY UNKNOWN é\r\n` is accepted by the byte entry point (and by auto-detection), but its
15-byte prefix, cut inside `é`, is the *terminal* error `InvalidUtf8` — through
`HeaderResult::parse` as well — so a receiver that re-parses its buffer gives up on this
header if a read happens to end there, while the cut after `é` is incomplete as usual. -/
theorem ascii_restriction_needed :
    V1.parseBytes unkE = .ok ⟨unkE, .unknown⟩ ∧ Auto.parse unkE = .v1 (.ok ⟨unkE, .unknown⟩) ∧
    (15 < unkE.length ∧ Utf8.valid (unkE.take 15) = false) ∧
    V1.parseBytes (unkE.take 15) = .error .invalidUtf8 ∧
    isIncompleteV1 (V1.parseBytes (unkE.take 15)) = false ∧
    (Auto.parse (unkE.take 15)).isIncomplete = false ∧
    receive V1.parseBytes isIncompleteV1 [] [unkE.take 15, unkE.drop 15] =
      some (.error .invalidUtf8) ∧
    isIncompleteV1 (V1.parseBytes (unkE.take 16)) = true ∧
    isIncompleteV1Str (V1.parseStr (unkE.take 16)) = true := by
  decide

/-- Non-vacuity of `v1_bytes_prefix_invalidUtf8` / `v1_bytes_prefix_incomplete'` (through the
theorems). -/
example : V1.parseBytes (unkE.take 15) = .error .invalidUtf8 :=
  (v1_bytes_prefix_invalidUtf8 (x := unkE) (h := ⟨unkE, .unknown⟩) (by decide) 15 (by decide)
    (by decide)).1
example : isIncompleteV1 (V1.parseBytes (unkE.take 16)) = true :=
  v1_bytes_prefix_incomplete' (x := unkE) (h := ⟨unkE, .unknown⟩) (by decide) 16 (by decide)
    (by decide)
/-- The text entry point needs no restriction (a `&str` buffer cannot be cut inside `é`, but the
model statement holds for every cut). -/
example (n : Nat) (hn : n < 18) : isIncompleteV1Str (V1.parseStr (unkE.take n)) = true :=
  v1_str_prefix_incomplete' (x := unkE) (h := ⟨unkE, .unknown⟩) (by decide) n hn

/-- **`FromStr for Header`**: every proper prefix of the accepted header is incomplete. -/
theorem fromStrHeader_prefix_incomplete {x : B} {h : V1.Header} (hp : V1.fromStrHeader x = .ok h)
    (n : Nat) (hn : n < h.header.length) :
    isIncompleteV1Str (V1.fromStrHeader (x.take n)) = true := by
  simp only [C01.fromStrHeader_eq] at hp ⊢
  exact v1_str_prefix_incomplete' hp n hn

/-- **`FromStr for Addresses`**: the result carries no header, so the statement is in terms of
the line `x` starts with (through the byte after its first CR): parsing any shorter prefix
fails with an incomplete error. -/
theorem fromStrAddresses_prefix_incomplete {x : B} {a : V1.Addresses}
    (hp : V1.fromStrAddresses x = .ok a) :
    ∃ c, V1.firstCR x = some c ∧ c + 1 < x.length ∧
      ∀ n, n < c + 2 → ∃ e, V1.fromStrAddresses (x.take n) = .error e ∧ e.isIncomplete = true := by
  unfold V1.fromStrAddresses at hp
  cases hs : V1.parseStr x with
  | error e => rw [hs] at hp; cases hp
  | ok h =>
    obtain ⟨c, rest, -, hlen, h1, h2, -⟩ := C04.v1_accepted_frozen_str hs
    refine ⟨c, h1, h2, ?_⟩
    intro n hn
    have hinc := v1_str_prefix_incomplete' hs n (by omega)
    cases hq : V1.parseStr (x.take n) with
    | ok h' => rw [hq] at hinc; cases hinc
    | error e =>
      rw [hq] at hinc
      exact ⟨e, by simp only [V1.fromStrAddresses, hq], hinc⟩

example : ∃ e, V1.fromStrAddresses (unkE.take 15) = .error e ∧ e.isIncomplete = true := by
  obtain ⟨c, h1, -, h3⟩ := fromStrAddresses_prefix_incomplete (x := unkE) (a := .unknown) (by decide)
  have : c = 16 := by
    have : V1.firstCR unkE = some 16 := by decide
    rw [this] at h1; cases h1; rfl
  subst this
  exact h3 15 (by omega)

/-- **v1 text history form.** A receiver built on `TryFrom<&str>` that re-parses its growing
buffer ends with the same header as a one-shot parse, for every accepted line (US-ASCII or not),
every trailing payload such that the whole stream is a `&str`, and every split into reads.
(For the buffers to *be* `&str`s in the crate the reads must be cut on character boundaries; the
statement about the model does not need that hypothesis, only that the header is not followed by
a continuation byte, which `Utf8.valid (x ++ payload)` guarantees.) -/
theorem streaming_v1_str {x : B} {h : V1.Header} (hp : V1.parseStr x = .ok h) (payload : B)
    (reads : List B) (hr : reads.flatten = x ++ payload)
    (hv : Utf8.valid (x ++ payload) = true) :
    receive V1.parseStr isIncompleteV1Str [] reads = some (.ok h) := by
  obtain ⟨s, hs, -, hl⟩ := C01.str_accept_line hp
  have h15 : 15 ≤ h.header.length := (C01.accepted_header_facts_str hp).2.2.2.1
  -- the header ends on a character boundary of the stream
  have hb : Utf8.isCharBoundary (h.header ++ (s ++ payload)) h.header.length = true := by
    apply C01.boundary_after_line hl
    rw [← List.append_assoc, ← hs]; exact hv
  apply receive_generic V1.parseStr isIncompleteV1Str (x ++ payload) h.header.length (.ok h)
  · rw [hs]; simp only [List.length_append]; omega
  · intro n hn
    have : (x ++ payload).take n = x.take n := by
      rw [List.take_append_of_le_length]; rw [hs]; simp only [List.length_append]; omega
    rw [this]; exact v1_str_prefix_incomplete' hp n hn
  · intro m hm
    have : (x ++ payload).take m = h.header ++ ((s ++ payload).take (m - h.header.length)) := by
      rw [hs, List.append_assoc, List.take_append]
      rw [List.take_of_length_le hm]
    rw [this]
    apply C04.v1_str_header_append hp
    -- the boundary test looks at one byte only: the first byte after the header, if any
    generalize hk : m - h.header.length = k
    cases k with
    | zero =>
      rw [List.take_zero, List.append_nil]; exact V1.Prefix.isCharBoundary_length _
    | succ k =>
      cases hsp : s ++ payload with
      | nil => rw [List.take_nil, List.append_nil]; exact V1.Prefix.isCharBoundary_length _
      | cons b r =>
        rw [hsp] at hb
        simp only [Utf8.isCharBoundary, List.take_succ_cons, List.length_append, List.length_cons,
          byteAt_append_right (Nat.le_refl _), Nat.sub_self, byteAt_cons_zero] at hb ⊢
        have e1 : (h.header.length == 0) = false := by rw [beq_eq_false_iff_ne]; omega
        have e2 : ¬ (h.header.length ≥ h.header.length + (r.length + 1)) := by omega
        have e3 : ¬ (h.header.length ≥ h.header.length + ((r.take k).length + 1)) := by omega
        simp only [e1, e2, e3, Bool.false_eq_true, if_false] at hb ⊢
        exact hb
  · rfl
  · simpa using hr
  · simp only [List.length_nil]; omega

/-- Non-vacuity: `PROXY UNKNOWN é\r\n` + `€` delivered as "PROXY UNKNOWN ", "é\r", "\n€". -/
example :
    receive V1.parseStr isIncompleteV1Str []
      [unkE.take 14, [0xC3, 0xA9, 0x0D], [0x0A, 0xE2, 0x82, 0xAC]] = some (.ok ⟨unkE, .unknown⟩) :=
  streaming_v1_str (x := unkE) (by decide) [0xE2, 0x82, 0xAC] _ (by decide) (by decide)
/-- The validity hypothesis is needed: a header followed by a continuation byte. -/
example : receive V1.parseStr isIncompleteV1Str [] [unkE ++ [0x82]] = some (.error .invalidSuffix) := by
  decide

end C05
