import PppModel.Lemmas.V2

/-!
# C02 — the v2 parser accepts exactly the well-formed headers and decodes them faithfully

`Spec.V2.encode` is the wire format of the protocol document. The parser model
`V2.parse` (tied to `src/v2/mod.rs` by the correspondence check) accepts `x` with
result `h` iff `x` is an encoding followed by arbitrary bytes, and then `h` is
exactly what was encoded and `h.header` is exactly the encoding.
-/

namespace C02
open V2 Spec.V2

/-- Table form used in the property text: signature, nibbles, declared length at
least the family size, at least 16 + length bytes present; the result is the
first 16 + length bytes and the big-endian decoding of the address block. -/
theorem accept_iff_table (x : B) (h : Header) :
    V2.parse x = .ok h ↔
      x.take 12 = signature ∧ 16 ≤ x.length ∧
      ∃ c f t, byteAt x 12 = versionCommand c ∧ byteAt x 13 = familyTransport f t ∧
        familySize f ≤ be16 (byteAt x 14) (byteAt x 15) ∧
        16 + be16 (byteAt x 14) (byteAt x 15) ≤ x.length ∧
        h = { header := x.take (16 + be16 (byteAt x 14) (byteAt x 15)),
              version := .two, command := c, protocol := t,
              addresses := parseAddresses f
                (((x.take (16 + be16 (byteAt x 14) (byteAt x 15))).take (16 + familySize f)).drop 16) } := by
  unfold V2.parse
  cases hg : gate x with
  | error e =>
    have := gate_ok_iff x
    simp only [hg] at this
    simp only [false_iff, reduceCtorEq] at this ⊢
    rintro ⟨h1, h2, -⟩
    exact this ⟨h1, h2⟩
  | ok u =>
    cases u
    obtain ⟨g1, g2⟩ := (gate_ok_iff x).mp hg
    simp only [g1, g2, sig_eq_spec.symm, true_and]
    cases hc : control (byteAt x 12) (byteAt x 13) with
    | error e =>
      simp only [false_iff, reduceCtorEq]
      rintro ⟨c, f, t, h1, h2, -⟩
      have := (control_ok_iff _ _ .two c f t).mpr ⟨h1, h2⟩
      rw [hc] at this; cases this
    | ok r =>
      obtain ⟨v, c, f, t⟩ := r
      cases v
      obtain ⟨c1, c2⟩ := (control_ok_iff _ _ _ _ _ _).mp hc
      have inj1 : ∀ c', byteAt x 12 = versionCommand c' → c' = c := by
        intro c' h'
        have := (control_ok_iff _ _ .two c' f t).mpr ⟨h', c2⟩
        rw [hc] at this; cases this; rfl
      have inj2 : ∀ f' t', byteAt x 13 = familyTransport f' t' → f' = f ∧ t' = t := by
        intro f' t' h'
        have := (control_ok_iff _ _ .two c f' t').mpr ⟨c1, h'⟩
        rw [hc] at this; cases this; exact ⟨rfl, rfl⟩
      simp only [body, minLen, size_eq_spec]
      constructor
      · intro hb
        refine ⟨c, f, t, c1, c2, ?_⟩
        split at hb
        · cases hb
        · split at hb
          · cases hb
          · rename_i h1 h2
            cases hb
            exact ⟨by omega, by omega, rfl⟩
      · rintro ⟨c', f', t', h1, h2, h3, h4, rfl⟩
        obtain rfl := inj1 c' h1
        obtain ⟨rfl, rfl⟩ := inj2 f' t' h2
        rw [if_neg (by omega), if_neg (by omega)]

/-- `V2.parse` accepts `x` with result `h` iff `x` starts with the wire encoding
of some command, transport, address value and trailing section, and `h` reports
exactly those and exactly the encoded bytes. -/
theorem accept_iff (x : B) (h : Header) :
    V2.parse x = .ok h ↔
      ∃ cmd tr addr rest trail,
        (addrBytes addr).length + rest.length ≤ 65535 ∧
        x = encode cmd tr addr rest ++ trail ∧
        h = { header := encode cmd tr addr rest, version := .two, command := cmd,
              protocol := tr, addresses := addr } := by
  rw [accept_iff_table]
  constructor
  · rintro ⟨g1, g2, c, f, t, h1, h2, h3, h4, rfl⟩
    generalize hL : be16 (byteAt x 14) (byteAt x 15) = L at *
    have hLlt : L < 65536 := hL ▸ be16_lt _ _
    -- the pieces of x
    have hx : x = x.take 12 ++ [byteAt x 12, byteAt x 13, byteAt x 14, byteAt x 15] ++ x.drop 16 :=
      split4 (by omega)
    let ab := (x.drop 16).take (familySize f)
    let rest := ((x.drop 16).take L).drop (familySize f)
    let trail := x.drop (16 + L)
    have hab : ab.length = familySize f := by simp [ab]; omega
    have hrest : rest.length = L - familySize f := by simp [rest]; omega
    have hpay : (x.drop 16).take L = ab ++ rest := by
      simp only [ab, rest]
      have : (x.drop 16).take (familySize f) = ((x.drop 16).take L).take (familySize f) := by
        rw [List.take_take, Nat.min_eq_left h3]
      rw [this, List.take_append_drop]
    have hdrop : x.drop 16 = ab ++ rest ++ trail := by
      rw [← hpay]
      simp only [trail]
      rw [← List.drop_drop, List.take_append_drop]
    have haddr : ((x.take (16 + L)).take (16 + familySize f)).drop 16 = ab := by
      simp only [ab]
      rw [List.take_take, Nat.min_eq_left (by omega), List.drop_take]
      simp
    have hab2 : addrBytes (parseAddresses f ab) = ab := addrBytes_parseAddresses f ab hab
    have hlen : (addrBytes (parseAddresses f ab)).length + rest.length = L := by
      rw [hab2, hab, hrest]; omega
    have henc : encode c t (parseAddresses f ab) rest = x.take (16 + L) := by
      simp only [encode, hab2, parseAddresses_family, hab, hrest]
      have e1 : familySize f + (L - familySize f) = L := by omega
      rw [e1, ← h1, ← h2, ← g1]
      have e2 : u16be L = [byteAt x 14, byteAt x 15] := by
        rw [← hL]; exact be16Bytes_be16 _ _
      rw [e2]
      have e3 : x.take (16 + L) = x.take 12 ++ [byteAt x 12, byteAt x 13, byteAt x 14, byteAt x 15] ++
          (x.drop 16).take L := by
        rw [List.take_add, take_add4 (i := 12) (by omega)]
      rw [e3, hpay]
      simp
    refine ⟨c, t, parseAddresses f ab, rest, trail, by omega, ?_, ?_⟩
    · rw [henc]
      exact (List.take_append_drop _ _).symm
    · rw [henc, haddr]
  · rintro ⟨cmd, tr, addr, rest, trail, hle, rfl, rfl⟩
    have hal := addrBytes_length addr
    generalize hn : (addrBytes addr).length + rest.length = n at *
    have henc_len : (encode cmd tr addr rest).length = 16 + n := by
      simp [encode, signature, u16be]; omega
    have b12 : byteAt (encode cmd tr addr rest ++ trail) 12 = versionCommand cmd := by
      simp [encode, signature, byteAt]
    have b13 : byteAt (encode cmd tr addr rest ++ trail) 13 = familyTransport addr.family tr := by
      simp [encode, signature, byteAt]
    have b14 : byteAt (encode cmd tr addr rest ++ trail) 14 = UInt8.ofNat (n / 256) := by
      simp [encode, signature, byteAt, u16be, hn]
    have b15 : byteAt (encode cmd tr addr rest ++ trail) 15 = UInt8.ofNat (n % 256) := by
      simp [encode, signature, byteAt, u16be, hn]
    have hL : be16 (byteAt (encode cmd tr addr rest ++ trail) 14)
        (byteAt (encode cmd tr addr rest ++ trail) 15) = n := by
      rw [b14, b15]; exact be16_be16Bytes n (by omega)
    have htake : (encode cmd tr addr rest ++ trail).take (16 + n) = encode cmd tr addr rest := by
      rw [← henc_len]; simp
    refine ⟨?_, ?_, cmd, addr.family, tr, b12, b13, ?_, ?_, ?_⟩
    · simp [encode, signature]
    · simp [henc_len]; omega
    · rw [hL]; omega
    · rw [hL]; simp [henc_len]
    · rw [hL, htake]
      congr 1
      have : ((encode cmd tr addr rest).take (16 + familySize addr.family)).drop 16 = addrBytes addr := by
        have hpre : (signature ++ [versionCommand cmd, familyTransport addr.family tr] ++
            u16be ((addrBytes addr).length + rest.length)).length = 16 := by
          simp [signature, u16be]
        have henc : encode cmd tr addr rest = (signature ++ [versionCommand cmd, familyTransport addr.family tr] ++
            u16be ((addrBytes addr).length + rest.length)) ++ (addrBytes addr ++ rest) := by
          simp [encode]
        rw [henc, take_len_add_append hpre, drop_len_append hpre, ← hal]
        simp
      rw [this, parseAddresses_addrBytes]

/-- Non-vacuity: a concrete IPv4 / PROXY / STREAM header with one TLV and a
trailer is accepted and decoded. -/
example :
    V2.parse ([0x0D, 0x0A, 0x0D, 0x0A, 0x00, 0x0D, 0x0A, 0x51, 0x55, 0x49, 0x54, 0x0A,
               0x21, 0x11, 0x00, 0x10, 127, 0, 0, 1, 192, 168, 1, 1, 0, 80, 1, 187,
               4, 0, 1, 42] ++ [0x50, 0x52]) =
      .ok { header := encode .proxy .stream
              (.ipv4 { srcAddr := ⟨127, 0, 0, 1⟩, srcPort := 80, dstAddr := ⟨192, 168, 1, 1⟩, dstPort := 443 })
              [4, 0, 1, 42],
            version := .two, command := .proxy, protocol := .stream,
            addresses := .ipv4 { srcAddr := ⟨127, 0, 0, 1⟩, srcPort := 80,
                                 dstAddr := ⟨192, 168, 1, 1⟩, dstPort := 443 } } := by
  decide

/-! ## Audit addition: the decomposition in `accept_iff` is unique -/

/-- **Uniqueness of the decomposition.** An input determines the command, transport, address
value, trailing section and trailer of `accept_iff` (family from byte 13, section length from
bytes 14-15): two encodings-with-trailer that are equal as byte strings have equal components. -/
theorem decomposition_unique {c c' : Command} {t t' : Transport} {a a' : Addresses}
    {r r' tr tr' : B}
    (h : encode c t a r ++ tr = encode c' t' a' r' ++ tr')
    (hl : (addrBytes a).length + r.length ≤ 65535)
    (hl' : (addrBytes a').length + r'.length ≤ 65535) :
    c = c' ∧ t = t' ∧ a = a' ∧ r = r' ∧ tr = tr' := by
  have p1 : V2.parse (encode c t a r ++ tr) = .ok (encHeader c t a r) :=
    (accept_iff _ _).mpr ⟨c, t, a, r, tr, hl, rfl, rfl⟩
  have p2 : V2.parse (encode c t a r ++ tr) = .ok (encHeader c' t' a' r') :=
    (accept_iff _ _).mpr ⟨c', t', a', r', tr', hl', h, rfl⟩
  rw [p1] at p2
  have heq : encHeader c t a r = encHeader c' t' a' r' := by
    simpa only [Except.ok.injEq] using p2
  have hc : c = c' := congrArg Header.command heq
  have ht : t = t' := congrArg Header.protocol heq
  have ha : a = a' := congrArg Header.addresses heq
  subst hc ht ha
  have hr : r = r' := by
    have h1 := (views_of_encode c t a r).2.1
    have h2 := (views_of_encode c t a r').2.1
    rw [heq, h2] at h1
    exact (List.append_cancel_left h1).symm
  subst hr
  exact ⟨rfl, rfl, rfl, rfl, List.append_cancel_left h⟩

/-- Non-vacuity / use: the decomposition of a concrete input is the one read off the bytes. -/
example {c : Command} {t : Transport} {a : Addresses} {r tr : B}
    (h : encode c t a r ++ tr = encode .proxy .stream .unspec [4, 0, 1, 42] ++ [0x50])
    (hl : (addrBytes a).length + r.length ≤ 65535) :
    c = .proxy ∧ t = .stream ∧ a = .unspec ∧ r = [4, 0, 1, 42] ∧ tr = [0x50] :=
  decomposition_unique h hl (by decide)

/-- The length bounds are needed: the 16-bit length field wraps. A 65536-byte section encodes
like an empty one followed by a 65536-byte trailer. -/
example (big : B) (hb : big.length = 65536) :
    encode .loc .unspec .unspec big ++ [] = encode .loc .unspec .unspec [] ++ big ∧ big ≠ [] := by
  constructor
  · have e : u16be ((addrBytes .unspec).length + big.length) = u16be ((addrBytes .unspec).length + 0) := by
      rw [hb]; decide
    simp only [encode, e, List.length_nil, List.append_nil]
  · intro h; rw [h] at hb; cases hb

end C02
